//! C03 harness: prediction is a per-sample function, identical through every calling form.
//!
//! Rust side (metamorphic, no Coq needed): for every predictor type of the workspace a fitted model
//! predicts a batch, every row alone, a permutation, a batch with duplicated rows, two halves, the
//! empty batch, non-contiguous / column-major / reversed copies of the batch and goes through every
//! calling form (borrowed / owned records, borrowed / owned dataset, in-place on a pre-filled target).
//! Coq side (C03/Corr.v): the composing wrappers on mock members, platt_predict, and the predictors
//! whose row function is modelled in Gallina (k-means, x.dot(w)+b, tree descent, isotonic
//! interpolation, affine maps recomputed over Q).
use linfa::composing::platt_scaling::{platt_predict, Platt};
use linfa::composing::{MultiClassModel, MultiTargetModel};
use linfa::dataset::Pr;
use linfa::prelude::*;
use linfa::traits::{Fit, FitWith, Predict, PredictInplace};
use ndarray::{s, Array1, Array2, ArrayBase, ArrayView2, Axis, Data, Ix2, ShapeBuilder};
use std::panic::AssertUnwindSafe;
use vh::*;

// ------------------------------------------------------------------------------------------------
// canonical observations
// ------------------------------------------------------------------------------------------------

/// One prediction result: shape and, per input row, the outputs as u64 codes
/// (f64 bit patterns of the exactly widened value for real outputs, label codes otherwise).
#[derive(Clone, Debug, PartialEq)]
struct Obs {
    shape: Vec<usize>,
    rows: Vec<Vec<u64>>,
    real: bool,
    eps: f64,
}

trait Target {
    fn obs(&self) -> Obs;
    fn junk(&mut self);
}
impl Target for Array1<usize> {
    fn obs(&self) -> Obs {
        Obs { shape: self.shape().to_vec(), rows: self.iter().map(|v| vec![*v as u64]).collect(), real: false, eps: 0.0 }
    }
    fn junk(&mut self) {
        self.iter_mut().enumerate().for_each(|(i, v)| *v = 7_000_003 + i);
    }
}
impl Target for Array1<bool> {
    fn obs(&self) -> Obs {
        Obs { shape: self.shape().to_vec(), rows: self.iter().map(|v| vec![*v as u64]).collect(), real: false, eps: 0.0 }
    }
    fn junk(&mut self) {
        self.iter_mut().enumerate().for_each(|(i, v)| *v = i % 3 != 1);
    }
}
impl Target for Array1<f64> {
    fn obs(&self) -> Obs {
        Obs { shape: self.shape().to_vec(), rows: self.iter().map(|v| vec![v.to_bits()]).collect(), real: true, eps: f64::EPSILON }
    }
    fn junk(&mut self) {
        self.iter_mut().enumerate().for_each(|(i, v)| *v = 1.0e30 + i as f64);
    }
}
impl Target for Array1<f32> {
    fn obs(&self) -> Obs {
        Obs { shape: self.shape().to_vec(), rows: self.iter().map(|v| vec![(*v as f64).to_bits()]).collect(), real: true, eps: f32::EPSILON as f64 }
    }
    fn junk(&mut self) {
        self.iter_mut().enumerate().for_each(|(i, v)| *v = 1.0e30 + i as f32);
    }
}
impl Target for Array1<Pr> {
    fn obs(&self) -> Obs {
        Obs { shape: self.shape().to_vec(), rows: self.iter().map(|v| vec![(**v as f64).to_bits()]).collect(), real: true, eps: f32::EPSILON as f64 }
    }
    fn junk(&mut self) {
        self.iter_mut().enumerate().for_each(|(i, v)| *v = Pr::new_unchecked(0.123 + (i % 5) as f32 * 0.01));
    }
}
impl Target for Array2<f64> {
    fn obs(&self) -> Obs {
        Obs { shape: self.shape().to_vec(), rows: self.rows().into_iter().map(|r| r.iter().map(|v| v.to_bits()).collect()).collect(), real: true, eps: f64::EPSILON }
    }
    fn junk(&mut self) {
        self.iter_mut().enumerate().for_each(|(i, v)| *v = -1.0e30 - i as f64);
    }
}
impl Target for Array2<f32> {
    fn obs(&self) -> Obs {
        Obs { shape: self.shape().to_vec(), rows: self.rows().into_iter().map(|r| r.iter().map(|v| (*v as f64).to_bits()).collect()).collect(), real: true, eps: f32::EPSILON as f64 }
    }
    fn junk(&mut self) {
        self.iter_mut().enumerate().for_each(|(i, v)| *v = -1.0e30 - i as f32);
    }
}

/// element types of the record matrices
trait Elem: linfa::Float {
    fn of(v: f64) -> Self;
    fn f(self) -> f64;
}
impl Elem for f64 {
    fn of(v: f64) -> f64 { v }
    fn f(self) -> f64 { self }
}
impl Elem for f32 {
    fn of(v: f64) -> f32 { v as f32 }
    fn f(self) -> f64 { self as f64 }
}

type Ds<E> = DatasetBase<Array2<E>, Array1<usize>>;

/// all calling forms of one fitted model, type-erased
struct Pred<'a, E: Elem> {
    by_ref: Box<dyn Fn(&Array2<E>) -> Obs + 'a>,
    by_view: Option<Box<dyn Fn(&ArrayView2<E>) -> Obs + 'a>>,
    owned: Box<dyn Fn(Array2<E>) -> (Array2<E>, Obs) + 'a>,
    ds_ref: Box<dyn Fn(&Ds<E>) -> Obs + 'a>,
    ds_owned: Box<dyn Fn(Ds<E>) -> (Array2<E>, Obs) + 'a>,
    inplace_junk: Box<dyn Fn(&Array2<E>) -> Obs + 'a>,
}

macro_rules! mk_pred {
    ($m:expr, $t:ty, $e:ty, view) => {{
        let mut p = mk_pred!($m, $t, $e);
        let m = &$m;
        p.by_view = Some(Box::new(move |x: &ArrayView2<$e>| { let y: $t = m.predict(x); y.obs() }));
        p
    }};
    ($m:expr, $t:ty, $e:ty) => {{
        let m = &$m;
        Pred::<$e> {
            by_ref: Box::new(move |x: &Array2<$e>| { let y: $t = m.predict(x); y.obs() }),
            by_view: None,
            owned: Box::new(move |x: Array2<$e>| {
                let d: DatasetBase<Array2<$e>, $t> = m.predict(x);
                let o = d.targets.obs();
                (d.records, o)
            }),
            ds_ref: Box::new(move |d: &Ds<$e>| { let y: $t = m.predict(d); y.obs() }),
            ds_owned: Box::new(move |d: Ds<$e>| {
                let d2: DatasetBase<Array2<$e>, $t> = m.predict(d);
                let o = d2.targets.obs();
                (d2.records, o)
            }),
            inplace_junk: Box::new(move |x: &Array2<$e>| {
                let mut y: $t = PredictInplace::<Array2<$e>, $t>::default_target(m, x);
                y.junk();
                PredictInplace::<Array2<$e>, $t>::predict_inplace(m, x, &mut y);
                y.obs()
            }),
        }
    }};
}

// ------------------------------------------------------------------------------------------------
// the metamorphic driver
// ------------------------------------------------------------------------------------------------

const B_SINGLE: u64 = 1;
const B_BATCH: u64 = 2;
const B_COUNT: u64 = 4;
const B_FORMS: u64 = 8;
const B_RECORDS: u64 = 16;
const B_LAYOUT: u64 = 32;
const B_PANIC: u64 = 64;

/// how two predictions of the same rows in different memory layouts may differ
struct Xl<'a> {
    /// bit-identical results are required (no arithmetic that depends on the layout)
    exact: bool,
    /// magnitude scale of the fitted parameters for the rounding window of real outputs
    scale: f64,
    /// rows whose discrete decision lies within rounding distance of a boundary (skipped, counted)
    near: Option<Box<dyn Fn(&[f64]) -> bool + 'a>>,
    /// the output is the exponential of the linear predictor (relative window instead of absolute)
    expo: bool,
}
impl<'a> Xl<'a> {
    fn exact() -> Xl<'a> { Xl { exact: true, scale: 1.0, near: None, expo: false } }
    fn real(scale: f64) -> Xl<'a> { Xl { exact: false, scale, near: None, expo: false } }
}

struct Ctx {
    out: Out,
    id: u64,
    nbatches: usize,
    max_xl_ulps: f64,
    max_xl_window: f64,
}
impl Ctx {
    fn next_id(&mut self) -> u64 { self.id += 1; self.id }
}

fn rows_f64<E: Elem>(x: &Array2<E>) -> Vec<Vec<f64>> {
    x.rows().into_iter().map(|r| r.iter().map(|v| v.f()).collect()).collect()
}
fn same_bits<E: Elem>(a: &Array2<E>, b: &Array2<E>) -> bool {
    a.shape() == b.shape() && a.strides() == b.strides() && a.iter().zip(b.iter()).all(|(u, v)| u.f().to_bits() == v.f().to_bits())
}
fn jrows(r: &[Vec<f64>]) -> String {
    let mut s = String::from("[");
    for (i, row) in r.iter().enumerate() {
        if i > 0 { s.push_str(", "); }
        s.push('[');
        for (j, v) in row.iter().enumerate() {
            if j > 0 { s.push_str(", "); }
            if v.is_finite() { s.push_str(&format!("{:e}", v)); } else { s.push_str(&jstr(&format!("{}", v))); }
        }
        s.push(']');
    }
    s.push(']');
    s
}
fn show(o: &[u64], real: bool) -> String {
    if real { format!("{:?}", o.iter().map(|b| f64::from_bits(*b)).collect::<Vec<_>>()) } else { format!("{:?}", o) }
}

/// strided owned copy: the values of `x` sit at the even positions of a (2n+1) x (2p+1) buffer
fn strided<E: Elem>(x: &Array2<E>) -> Array2<E> {
    let (n, p) = x.dim();
    let mut big = Array2::<E>::from_elem((2 * n + 1, 2 * p + 1), E::of(-777.25));
    for i in 0..n { for j in 0..p { big[(2 * i, 2 * j)] = x[(i, j)]; } }
    big.slice_move(s![..2 * n;2, ..2 * p;2])
}
fn fortran<E: Elem>(x: &Array2<E>) -> Array2<E> {
    let (n, p) = x.dim();
    let mut f = Array2::<E>::zeros((n, p).f());
    f.assign(x);
    f
}

struct Batch<E: Elem> { x: Array2<E>, kind: &'static str }

fn make_batches<E: Elem>(rng: &mut Sm64, pool: &Array2<E>, nb: usize) -> Vec<Batch<E>> {
    let np = pool.nrows();
    let mut v = Vec::new();
    for b in 0..nb {
        let (idx, kind): (Vec<usize>, &'static str) = match b {
            0 => ((0..np).collect(), "pool"),
            1 => (vec![], "empty"),
            2 => (vec![rng.below(np as u64) as usize], "single"),
            3 => { let i = rng.below(np as u64) as usize; (vec![i; 3], "same_row_thrice") }
            _ => {
                let n = 2 + rng.below(9) as usize;
                ((0..n).map(|_| rng.below(np as u64) as usize).collect(), "random_rows")
            }
        };
        v.push(Batch { x: pool.select(Axis(0), &idx), kind });
    }
    v
}

/// run every metamorphic relation on one batch; returns (failure code, first failure description)
fn check_batch<E: Elem>(ctx: &mut Ctx, rng: &mut Sm64, pred: &Pred<E>, x: &Array2<E>, xl: &Xl) -> (u64, String) {
    let n = x.nrows();
    let p = x.ncols();
    let mut code = 0u64;
    let mut what = String::new();
    let mut fail = |c: u64, w: String, code: &mut u64, what: &mut String| {
        if *code & c == 0 && what.len() < 1500 { what.push_str(&w); what.push_str("; "); }
        *code |= c;
    };
    macro_rules! call { ($e:expr) => { guarded(AssertUnwindSafe(|| $e)) }; }

    let base = match call!((pred.by_ref)(x)) {
        Ok(o) => o,
        Err(e) => { return (B_PANIC, format!("predict(&batch) panicked on a batch of {} finite rows: {}", n, e)); }
    };
    if base.rows.len() != n || base.shape.first().copied() != Some(n) {
        fail(B_COUNT, format!("{} input rows but output shape {:?}", n, base.shape), &mut code, &mut what);
        return (code, what);
    }
    let cmp_exact = |o: &Result<Obs, String>, expect: &[Vec<u64>], form: &str, bit: u64, code: &mut u64, what: &mut String, fail: &mut dyn FnMut(u64, String, &mut u64, &mut String)| {
        match o {
            Err(e) => fail(B_PANIC, format!("{} panicked: {}", form, e), code, what),
            Ok(o) => {
                if o.rows.len() != expect.len() {
                    fail(B_COUNT, format!("{}: {} outputs for {} rows", form, o.rows.len(), expect.len()), code, what);
                } else if let Some(i) = (0..expect.len()).find(|&i| o.rows[i] != expect[i]) {
                    fail(bit, format!("{}: row {} gives {} but {} in the reference batch", form, i, show(&o.rows[i], o.real), show(&expect[i], o.real)), code, what);
                }
            }
        }
    };
    // every row alone (owned single-row array and single-row view)
    let cap = 14.min(n);
    for i in 0..cap {
        let xi = x.slice(s![i..i + 1, ..]).to_owned();
        let o = call!((pred.by_ref)(&xi));
        cmp_exact(&o, &base.rows[i..i + 1], &format!("row {} alone {:?}", i, rows_f64(&xi)[0]), B_SINGLE, &mut code, &mut what, &mut fail);
        if let Some(bv) = &pred.by_view {
            let v = x.slice(s![i..i + 1, ..]);
            let o = call!(bv(&v));
            cmp_exact(&o, &base.rows[i..i + 1], &format!("row {} alone (view)", i), B_SINGLE, &mut code, &mut what, &mut fail);
        }
    }
    if n >= 2 {
        // permutation
        let mut idx: Vec<usize> = (0..n).collect();
        rng.shuffle(&mut idx);
        let xp = x.select(Axis(0), &idx);
        let expect: Vec<Vec<u64>> = idx.iter().map(|&i| base.rows[i].clone()).collect();
        cmp_exact(&call!((pred.by_ref)(&xp)), &expect, &format!("permuted batch {:?}", idx), B_BATCH, &mut code, &mut what, &mut fail);
        // duplication / sub-batch
        let idx: Vec<usize> = (0..n + 2).map(|_| rng.below(n as u64) as usize).collect();
        let xd = x.select(Axis(0), &idx);
        let expect: Vec<Vec<u64>> = idx.iter().map(|&i| base.rows[i].clone()).collect();
        cmp_exact(&call!((pred.by_ref)(&xd)), &expect, &format!("batch with duplicated rows {:?}", idx), B_BATCH, &mut code, &mut what, &mut fail);
        // two halves
        let h = 1 + rng.below(n as u64 - 1) as usize;
        let a = x.slice(s![..h, ..]).to_owned();
        let b = x.slice(s![h.., ..]).to_owned();
        cmp_exact(&call!((pred.by_ref)(&a)), &base.rows[..h], &format!("first {} rows", h), B_BATCH, &mut code, &mut what, &mut fail);
        cmp_exact(&call!((pred.by_ref)(&b)), &base.rows[h..], &format!("last {} rows", n - h), B_BATCH, &mut code, &mut what, &mut fail);
    }
    // calling forms
    if let Some(bv) = &pred.by_view {
        let v = x.view();
        cmp_exact(&call!(bv(&v)), &base.rows, "predict(&view)", B_FORMS, &mut code, &mut what, &mut fail);
    }
    cmp_exact(&call!((pred.inplace_junk)(x)), &base.rows, "predict_inplace on a pre-filled target", B_FORMS, &mut code, &mut what, &mut fail);
    match call!((pred.owned)(x.clone())) {
        Err(e) => fail(B_PANIC, format!("predict(records) panicked: {}", e), &mut code, &mut what),
        Ok((rec, o)) => {
            if !same_bits(&rec, x) { fail(B_RECORDS, "predict(records): the returned dataset does not hold the input records".into(), &mut code, &mut what); }
            if o.shape != base.shape { fail(B_FORMS, format!("predict(records): shape {:?} vs {:?}", o.shape, base.shape), &mut code, &mut what); }
            cmp_exact(&Ok(o), &base.rows, "predict(records)", B_FORMS, &mut code, &mut what, &mut fail);
        }
    }
    let old_targets: Array1<usize> = (0..n).map(|i| 900 + i).collect();
    let ds = DatasetBase::new(x.clone(), old_targets);
    match call!((pred.ds_ref)(&ds)) {
        Err(e) => fail(B_PANIC, format!("predict(&dataset) panicked: {}", e), &mut code, &mut what),
        Ok(o) => {
            if o.shape != base.shape { fail(B_FORMS, format!("predict(&dataset): shape {:?} vs {:?}", o.shape, base.shape), &mut code, &mut what); }
            cmp_exact(&Ok(o), &base.rows, "predict(&dataset)", B_FORMS, &mut code, &mut what, &mut fail);
        }
    }
    match call!((pred.ds_owned)(ds.clone())) {
        Err(e) => fail(B_PANIC, format!("predict(dataset) panicked: {}", e), &mut code, &mut what),
        Ok((rec, o)) => {
            if !same_bits(&rec, x) { fail(B_RECORDS, "predict(dataset): the returned dataset does not hold the input records".into(), &mut code, &mut what); }
            if o.shape != base.shape { fail(B_FORMS, format!("predict(dataset): shape {:?} vs {:?}", o.shape, base.shape), &mut code, &mut what); }
            cmp_exact(&Ok(o), &base.rows, "predict(dataset)", B_FORMS, &mut code, &mut what, &mut fail);
        }
    }
    // memory layouts
    let xrows = rows_f64(x);
    let mut layouts: Vec<(&str, Result<Obs, String>, bool)> = Vec::new(); // (name, result, reversed)
    let xf = fortran(x);
    layouts.push(("column-major copy", call!((pred.by_ref)(&xf)), false));
    let xs = strided(x);
    layouts.push(("strided owned copy", call!((pred.by_ref)(&xs)), false));
    match call!((pred.owned)(xs.clone())) {
        Err(e) => fail(B_PANIC, format!("predict(strided records) panicked: {}", e), &mut code, &mut what),
        Ok((rec, o)) => {
            if !same_bits(&rec, &xs) { fail(B_RECORDS, "predict(strided records): the returned dataset does not hold the input records".into(), &mut code, &mut what); }
            layouts.push(("strided owned records form", Ok(o), false));
        }
    }
    if let Some(bv) = &pred.by_view {
        let rv = x.slice(s![..;-1, ..]);
        layouts.push(("row-reversed view", call!(bv(&rv)), true));
        let t = x.t().to_owned();
        let tv = t.t();
        layouts.push(("transposed view of the transposed copy", call!(bv(&tv)), false));
    }
    for (name, res, reversed) in layouts {
        match res {
            Err(e) => fail(B_PANIC, format!("{} panicked: {}", name, e), &mut code, &mut what),
            Ok(o) => {
                if o.rows.len() != n { fail(B_COUNT, format!("{}: {} outputs for {} rows", name, o.rows.len(), n), &mut code, &mut what); continue; }
                for i in 0..n {
                    let k = if reversed { n - 1 - i } else { i };
                    let (a, b) = (&o.rows[k], &base.rows[i]);
                    if a == b { continue; }
                    ctx.out.bump("xl_rows_not_bit_identical");
                    if xl.exact {
                        fail(B_LAYOUT, format!("{}: row {} {:?} gives {} but {} in row-major layout", name, i, xrows[i], show(a, o.real), show(b, o.real)), &mut code, &mut what);
                    } else if !o.real {
                        if xl.near.as_ref().map_or(false, |f| f(&xrows[i])) { ctx.out.bump("xl_rows_within_margin"); continue; }
                        fail(B_LAYOUT, format!("{}: row {} {:?} gives label {:?} but {:?} in row-major layout", name, i, xrows[i], a, b), &mut code, &mut what);
                    } else {
                        let l1: f64 = xrows[i].iter().map(|v| v.abs()).sum();
                        for (ua, ub) in a.iter().zip(b.iter()) {
                            let (va, vb) = (f64::from_bits(*ua), f64::from_bits(*ub));
                            let mag = if xl.expo { (va.abs() + vb.abs()) * (1.0 + xl.scale * (1.0 + l1)) } else { va.abs() + vb.abs() + xl.scale * (1.0 + l1) };
                            let tol = 4.0 * (p as f64 + 1.0) * o.eps * mag;
                            let d = (va - vb).abs();
                            let ulps = d / (o.eps * (va.abs().max(vb.abs()).max(f64::MIN_POSITIVE)));
                            if ulps > ctx.max_xl_ulps { ctx.max_xl_ulps = ulps; }
                            if tol > 0.0 && d / tol > ctx.max_xl_window { ctx.max_xl_window = d / tol; }
                            if !(d <= tol) {
                                fail(B_LAYOUT, format!("{}: row {} {:?} gives {:e} but {:e} in row-major layout (window {:e})", name, i, xrows[i], va, vb, tol), &mut code, &mut what);
                            }
                        }
                    }
                }
            }
        }
    }
    (code, what)
}

/// the whole metamorphic programme for one fitted model
fn metamorph<E: Elem>(ctx: &mut Ctx, rng: &mut Sm64, model: &str, inst: &str, pred: &Pred<E>, pool: &Array2<E>, xl: &Xl) {
    let batches = make_batches(rng, pool, ctx.nbatches);
    for b in batches {
        let id = ctx.next_id();
        // own child generator per batch: a replay of one id sees the same random choices as the full run
        let mut br = rng.fork();
        if !ctx.out.wanted(id) { continue; }
        let (code, what) = check_batch(ctx, &mut br, pred, &b.x, xl);
        let desc = format!(
            "{{\"predictor\": {}, \"instance\": {}, \"batch_kind\": {}, \"rows\": {}, \"cols\": {}, \"batch\": {}}}",
            jstr(model), jstr(inst), jstr(b.kind), b.x.nrows(), b.x.ncols(), jrows(&rows_f64(&b.x))
        );
        ctx.out.bump(&format!("meta_{}", model));
        ctx.out.bump(&format!("batch_{}", b.kind));
        let key = if b.x.nrows() >= 2 { Some(fnv(desc.as_bytes())) } else { None };
        ctx.out.rust_eval(&desc, key);
        if code != 0 {
            let tag_model = format!("predictor_{}", model);
            let tag_kind = format!("batch_{}", b.kind);
            ctx.out.rust_fail(id, code, &[&tag_model, &tag_kind], &what, &desc);
        }
    }
}

/// a model could not be fitted on valid data: recorded (not a C03 matter), the instance is skipped
fn no_model(ctx: &mut Ctx, model: &str, why: &str) {
    ctx.out.bump(&format!("nomodel_{}", model));
    let _ = why;
}

// ------------------------------------------------------------------------------------------------
// data
// ------------------------------------------------------------------------------------------------

fn arr<E: Elem>(rows: &[Vec<f64>]) -> Array2<E> {
    let d = if rows.is_empty() { 0 } else { rows[0].len() };
    Array2::from_shape_vec((rows.len(), d), rows.iter().flatten().map(|v| E::of(*v)).collect()).unwrap()
}

/// k blobs in p dimensions; kind 0 = gaussian clouds, 1 = integer lattice with duplicates
fn blobs(rng: &mut Sm64, n: usize, p: usize, k: usize, kind: u64) -> (Vec<Vec<f64>>, Vec<usize>) {
    let centers: Vec<Vec<f64>> = (0..k).map(|c| (0..p).map(|j| if kind == 1 { ((c as i64 * 4 + j as i64) % 7 - 3) as f64 * 2.0 } else { rng.range(-6, 6) as f64 + c as f64 }).collect()).collect();
    let mut x = Vec::new();
    let mut y = Vec::new();
    for i in 0..n {
        let c = i % k;
        let row: Vec<f64> = match kind {
            1 => centers[c].iter().map(|v| v + rng.range(-1, 1) as f64).collect(),
            _ => centers[c].iter().map(|v| v + 0.8 * rng.gauss()).collect(),
        };
        x.push(row);
        y.push(c);
    }
    (x, y)
}

/// regression data y = X w + b + noise
fn regdata(rng: &mut Sm64, n: usize, p: usize, noise: f64) -> (Vec<Vec<f64>>, Vec<f64>) {
    let w: Vec<f64> = (0..p).map(|_| rng.range(-4, 4) as f64 * 0.5).collect();
    let b = rng.range(-3, 3) as f64;
    let mut x = Vec::new();
    let mut y = Vec::new();
    for _ in 0..n {
        let row: Vec<f64> = (0..p).map(|_| 2.0 * rng.gauss() + 0.5).collect();
        y.push(row.iter().zip(&w).map(|(a, c)| a * c).sum::<f64>() + b + noise * rng.gauss());
        x.push(row);
    }
    (x, y)
}

/// query pool: training rows, fresh rows, lattice rows, the origin, a large row, repeated rows, extras
fn pool_rows(rng: &mut Sm64, train: &[Vec<f64>], extra: &[Vec<f64>]) -> Vec<Vec<f64>> {
    let p = train[0].len();
    let mut q: Vec<Vec<f64>> = Vec::new();
    for _ in 0..6 { q.push(train[rng.below(train.len() as u64) as usize].clone()); }
    for _ in 0..6 { q.push((0..p).map(|_| 3.0 * rng.gauss()).collect()); }
    for _ in 0..3 { q.push((0..p).map(|_| rng.range(-3, 3) as f64).collect()); }
    q.push(vec![0.0; p]);
    q.push((0..p).map(|j| if j % 2 == 0 { 1.0e3 } else { -2.5e2 }).collect());
    let d = q[1].clone();
    q.push(d);
    for e in extra { q.push(e.clone()); }
    q
}

/// neighbouring doubles (finite inputs)
fn next_up(v: f64) -> f64 {
    if v == 0.0 { return f64::from_bits(1); }
    if v > 0.0 { f64::from_bits(v.to_bits() + 1) } else { f64::from_bits(v.to_bits() - 1) }
}
fn next_down(v: f64) -> f64 { -next_up(-v) }

const DIMS: [usize; 7] = [1, 2, 3, 5, 8, 9, 17];

include!("../c03_wrappers.rs");
include!("../c03_models.rs");
include!("../c03_models2.rs");
include!("../c03_main.rs");
