//! C12 harness: binary / multinomial logistic regression and Tweedie GLM fits on generated data;
//! emits Coq cases for C12/Corr.v (bit-exact glue correspondence + verified stationarity checkers).
use linfa::prelude::*;
use linfa_linear::{Link, TweedieRegressor};
use linfa_logistic::error::Error as LogErr;
use linfa_logistic::{LogisticRegression, MultiLogisticRegression};
use ndarray::{s, Array1, Array2, CowArray, Ix1, Ix2, ShapeBuilder};
use std::sync::mpsc;
use std::time::Duration;
use vh::*;

// ---------------------------------------------------------------------------------------------
// plumbing
// ---------------------------------------------------------------------------------------------

#[derive(Debug, Clone)]
enum FitErr {
    Lib(u64, String), // (error kind code, Display)
    Panic(String),
    Hang,
}

/// run a closure on a helper thread; None if it does not finish in time (the thread is leaked and
/// the process exits through std::process::exit at the end of main)
fn with_timeout<T: Send + 'static, G: FnOnce() -> T + Send + 'static>(secs: u64, f: G) -> Option<T> {
    let (tx, rx) = mpsc::channel();
    std::thread::spawn(move || {
        let r = f();
        let _ = tx.send(r);
    });
    rx.recv_timeout(Duration::from_secs(secs)).ok()
}

/// watchdog for one fit, in seconds (probes of feature scales outside the solver's range get a short one)
static WATCHDOG_SECS: std::sync::atomic::AtomicU64 = std::sync::atomic::AtomicU64::new(20);

fn run_guarded<T: Send + 'static, G: FnOnce() -> Result<T, FitErr> + Send + 'static>(f: G) -> Result<T, FitErr> {
    let secs = WATCHDOG_SECS.load(std::sync::atomic::Ordering::Relaxed);
    match with_timeout(secs, move || guarded(std::panic::AssertUnwindSafe(f))) {
        None => Err(FitErr::Hang),
        Some(Err(p)) => Err(FitErr::Panic(p)),
        Some(Ok(r)) => r,
    }
}

fn arr(rows: &[Vec<f64>], d: usize) -> Array2<f64> {
    Array2::from_shape_vec((rows.len(), d), rows.iter().flatten().cloned().collect()).unwrap()
}

// ---------------------------------------------------------------------------------------------
// memory layouts: the same logical records / targets / query batches presented with different strides
// ---------------------------------------------------------------------------------------------

#[derive(Clone, Copy, Debug, PartialEq)]
enum Lay {
    Std,      // row-major, owned
    Fort,     // column-major (Fortran order), owned
    RevRowsV, // view with a negative row stride
    RevRowsO, // .to_owned() of that view (ndarray keeps the negative stride)
    RevColsV, // view with a negative column stride
    RevColsO, // .to_owned() of that view
    Stride2V, // every second row and column of a (2n, 2d) array (junk in between)
}
const LAYS: [Lay; 7] = [Lay::Std, Lay::Fort, Lay::RevRowsV, Lay::RevRowsO, Lay::RevColsV, Lay::RevColsO, Lay::Stride2V];
impl Lay {
    fn name(self) -> &'static str {
        match self {
            Lay::Std => "std", Lay::Fort => "fortran", Lay::RevRowsV => "revrows_view", Lay::RevRowsO => "revrows_owned",
            Lay::RevColsV => "revcols_view", Lay::RevColsO => "revcols_owned", Lay::Stride2V => "stride2_view",
        }
    }
    fn coq(self) -> &'static str {
        match self {
            Lay::Std => "LStd", Lay::Fort => "LFort", Lay::RevRowsV => "LRevRowsV", Lay::RevRowsO => "LRevRowsO",
            Lay::RevColsV => "LRevColsV", Lay::RevColsO => "LRevColsO", Lay::Stride2V => "LStride2V",
        }
    }
    /// does ndarray's `row.dot(&w)` see a contiguous row (-> unrolled_dot) for an (n, d) array of this layout?
    /// (the model's prediction; checked against the real array in Laid2::cow)
    fn rows_contig(self, n: usize, d: usize) -> bool {
        d <= 1 || match self { Lay::Std | Lay::RevRowsV | Lay::RevRowsO => true, Lay::Fort => n <= 1, _ => false }
    }
}
/// layouts of 1-dimensional targets
#[derive(Clone, Copy, Debug, PartialEq)]
enum Lay1 { Std, RevV, RevO, Stride2V }
const LAYS1: [Lay1; 4] = [Lay1::Std, Lay1::RevV, Lay1::RevO, Lay1::Stride2V];
impl Lay1 {
    fn name(self) -> &'static str {
        match self { Lay1::Std => "std", Lay1::RevV => "rev_view", Lay1::RevO => "rev_owned", Lay1::Stride2V => "stride2_view" }
    }
}
/// rotation over m alternatives that does not lock in with any other period of the case index
fn rot(it: usize, salt: usize, m: usize) -> usize { (it + it / m + salt) % m }

/// power-of-two feature scales: exponent k of s = 2^k, rotated over the cases of a stream.  The lists hold the
/// scales at which the solver terminates with a result (see props/C12.json, assumptions); the larger scales of the
/// sweep (2^40; for the GLM also 2^20), where argmin's line search fails or does not terminate, are visited by a
/// few probe cases per run with a short watchdog.  C12_SCALES=<k,k,..> overrides the lists (experiments).
fn scale_for(model: &str, it: usize) -> i32 {
    if let Ok(v) = std::env::var("C12_SCALES") {
        let v: Vec<i32> = v.split(',').map(|t| t.trim().parse().unwrap()).collect();
        return v[rot(it, 2, v.len())];
    }
    // the GLM (first step overflows exp) and the f32 model (range of the type) have a narrower range
    let narrow = model == "glm" || model == "binary_f32";
    // probes outside the solver's range
    if it == 5 { return if narrow { 20 } else { 40 }; }
    if narrow && it == 11 { return 40; }
    let list: &[i32] = if narrow { &[0, -40, 0, -20, 0, -20, 0, -40] } else { &[0, -40, 20, 0, -20, 0, 20, -20] };
    list[rot(it, 2, list.len())]
}
/// feature scales at which fits are expected to fail or hang (known finding F-C12-1): short watchdog
fn scale_out_of_range(model: &str, k: i32) -> bool { k >= 40 || ((model == "glm" || model == "binary_f32") && k >= 20) }
fn set_watchdog(model: &str, k: i32) {
    if std::env::var("C12_WATCHDOG").is_ok() { return; }
    WATCHDOG_SECS.store(if scale_out_of_range(model, k) { 3 } else { 20 }, std::sync::atomic::Ordering::Relaxed);
}
/// is the stationarity claim made for this case?  (the range where the solver honours its gradient tolerance;
/// outside it the fit is still run and everything else is still checked)
///   - not at the feature scales where fits fail or hang (scale_out_of_range);
///   - with a fitted intercept: at every other scale (the tolerance is then in the unit of the larger gradient
///     component, see tol_unit);
///   - without one: only while the features are not tiny, |X|_F >= 2^-20.  Below that the whole gradient is tiny,
///     a step changes the cost by less than argmin's absolute |delta cost| < EPSILON rule and the solver returns
///     the start point or stops a few steps after it (at 2^-40 always; at 2^-20 for features of base scale 0.01).
fn stat_claimed(model: &str, k: i32, icpt: bool, xfro: f64) -> bool {
    if std::env::var("C12_STAT_ALL").is_ok() { return true; }
    !scale_out_of_range(model, k) && (icpt || xfro >= 2f64.powi(-20))
}
fn frob<T: Copy + Into<f64>>(x: &[Vec<T>]) -> f64 {
    x.iter().flatten().map(|v| { let f: f64 = (*v).into(); f * f }).sum::<f64>().sqrt()
}
fn tol_unit(s: f64, icpt: bool) -> f64 { if icpt { s.max(1.0) } else { s } }
fn scale_tag(k: i32) -> String { format!("scale_2^{}", k) }

#[derive(Clone, Copy, Debug)]
struct Lays { x: Lay, y: Lay1, q: Lay }
impl Lays {
    fn of(it: usize) -> Lays { Lays { x: LAYS[rot(it, 0, 7)], y: LAYS1[rot(it, 1, 4)], q: LAYS[rot(it, 3, 7)] } }
    fn std() -> Lays { Lays { x: Lay::Std, y: Lay1::Std, q: Lay::Std } }
    fn json(&self) -> String { format!("\"layout_x\": {}, \"layout_y\": {}, \"layout_q\": {},", jstr(self.x.name()), jstr(self.y.name()), jstr(self.q.name())) }
    fn tags(&self, tags: &mut Vec<String>) {
        tags.push(format!("layx_{}", self.x.name()));
        tags.push(format!("layy_{}", self.y.name()));
        tags.push(format!("layq_{}", self.q.name()));
    }
    fn bump(&self, out: &mut Out, stream: &str) {
        out.bump(&format!("{}_layout_x_{}", stream, self.x.name()));
        out.bump(&format!("{}_layout_y_{}", stream, self.y.name()));
        out.bump(&format!("{}_layout_q_{}", stream, self.q.name()));
    }
}

/// a 2-dimensional array holding `rows` logically, stored in the requested layout
struct Laid2<T> { backing: Array2<T>, lay: Lay }
impl<T: Clone> Laid2<T> {
    fn new(rows: &[Vec<T>], d: usize, lay: Lay, junk: T) -> Laid2<T> {
        let n = rows.len();
        let at = |i: usize, j: usize| rows[i][j].clone();
        let backing = match lay {
            Lay::Std => Array2::from_shape_fn((n, d), |(i, j)| at(i, j)),
            Lay::Fort => {
                let mut v: Vec<T> = Vec::with_capacity(n * d);
                for j in 0..d { for i in 0..n { v.push(at(i, j)); } }
                Array2::from_shape_vec((n, d).f(), v).unwrap()
            }
            Lay::RevRowsV => Array2::from_shape_fn((n, d), |(i, j)| at(n - 1 - i, j)),
            Lay::RevRowsO => Array2::from_shape_fn((n, d), |(i, j)| at(n - 1 - i, j)).slice(s![..;-1, ..]).to_owned(),
            Lay::RevColsV => Array2::from_shape_fn((n, d), |(i, j)| at(i, d - 1 - j)),
            Lay::RevColsO => Array2::from_shape_fn((n, d), |(i, j)| at(i, d - 1 - j)).slice(s![.., ..;-1]).to_owned(),
            Lay::Stride2V => Array2::from_shape_fn((2 * n, 2 * d), |(i, j)| if i % 2 == 0 && j % 2 == 0 { at(i / 2, j / 2) } else { junk.clone() }),
        };
        Laid2 { backing, lay }
    }
    /// the array as handed to the library: owned data for the owned layouts, a view otherwise
    fn cow(&self) -> CowArray<'_, T, Ix2> {
        let a: CowArray<'_, T, Ix2> = match self.lay {
            Lay::Std | Lay::Fort | Lay::RevRowsO | Lay::RevColsO => CowArray::from(self.backing.clone()),
            Lay::RevRowsV => CowArray::from(self.backing.slice(s![..;-1, ..])),
            Lay::RevColsV => CowArray::from(self.backing.slice(s![.., ..;-1])),
            Lay::Stride2V => CowArray::from(self.backing.slice(s![..;2, ..;2])),
        };
        // the stride model of Lay::rows_contig must describe the real array
        let (n, d) = a.dim();
        if n > 0 {
            assert_eq!(a.row(0).as_slice().is_some(), self.lay.rows_contig(n, d), "layout model: rows_contig of {:?} ({}, {})", self.lay, n, d);
        }
        a
    }
}
struct Laid1<T> { backing: Array1<T>, lay: Lay1 }
impl<T: Clone> Laid1<T> {
    /// junk for the strided layout: the logical sequence reversed (valid values in the wrong places)
    fn new(v: &[T], lay: Lay1) -> Laid1<T> {
        let n = v.len();
        let backing = match lay {
            Lay1::Std => Array1::from(v.to_vec()),
            Lay1::RevV => Array1::from_shape_fn(n, |i| v[n - 1 - i].clone()),
            Lay1::RevO => Array1::from_shape_fn(n, |i| v[n - 1 - i].clone()).slice(s![..;-1]).to_owned(),
            Lay1::Stride2V => Array1::from_shape_fn(2 * n, |i| if i % 2 == 0 { v[i / 2].clone() } else { v[n - 1 - i / 2].clone() }),
        };
        Laid1 { backing, lay }
    }
    fn cow(&self) -> CowArray<'_, T, Ix1> {
        match self.lay {
            Lay1::Std | Lay1::RevO => CowArray::from(self.backing.clone()),
            Lay1::RevV => CowArray::from(self.backing.slice(s![..;-1])),
            Lay1::Stride2V => CowArray::from(self.backing.slice(s![..;2])),
        }
    }
}

trait LabT: Ord + Clone + Default + std::fmt::Debug + Send + Sync + 'static {
    fn coq(&self) -> String;
}
impl LabT for bool {
    fn coq(&self) -> String { format!("LB {}", cbool(*self)) }
}
impl LabT for usize {
    fn coq(&self) -> String { format!("LN {}", cn(*self as u64)) }
}
impl LabT for String {
    fn coq(&self) -> String { format!("LS {}", cstr(self)) }
}
fn clabs(xs: &[String]) -> String {
    clist(xs, |s| s.clone())
}

fn log_err_code(e: &LogErr) -> u64 {
    match e {
        LogErr::TooFewClasses => 1,
        LogErr::TooManyClasses => 2,
        LogErr::MismatchedShapes(_, _) => 3,
        LogErr::InvalidValues => 4,
        LogErr::InitialParameterFeaturesMismatch { .. } => 5,
        LogErr::InitialParameterClassesMismatch { .. } => 6,
        LogErr::InvalidGradientTolerance => 7,
        LogErr::InvalidAlpha => 8,
        LogErr::InvalidInitialParameters => 9,
        LogErr::ArgMinError(_) => 20,
        LogErr::LinfaError(_) => 21,
    }
}

// ---------------------------------------------------------------------------------------------
// binary logistic regression
// ---------------------------------------------------------------------------------------------

#[derive(Clone)]
struct BinCfg {
    alpha: f64,
    icpt: bool,
    tol: f64,
    maxit: u64,
    init: Option<Vec<f64>>,
    thr_mode: u64, // 0: 0.5, 1: 0.0, 2: 1.0, 3: 0.3, 4: probability of query 0, 5 / 6: the float just above / below it, 7: thr_val
    thr_val: f64,
}

struct BinOut {
    w: Vec<f64>,
    b: f64,
    pos: String,
    neg: String,
    thr: f64,
    exps: Vec<f64>,
    probs: Vec<f64>,
    preds: Vec<String>,
}

fn fit_bin<C: LabT>(x: Vec<Vec<f64>>, d: usize, labels: Vec<C>, cfg: BinCfg, q: Vec<Vec<f64>>, lays: Lays) -> Result<BinOut, FitErr> {
    run_guarded(move || {
        let (xl, yl, ql) = (Laid2::new(&x, d, lays.x, f64::NAN), Laid1::new(&labels, lays.y), Laid2::new(&q, d, lays.q, -3.25e5));
        let q = ql.cow();
        let ds = DatasetBase::new(xl.cow(), yl.cow());
        let mut p = LogisticRegression::default()
            .alpha(cfg.alpha)
            .with_intercept(cfg.icpt)
            .gradient_tolerance(cfg.tol)
            .max_iterations(cfg.maxit);
        if let Some(i) = cfg.init.as_ref() {
            p = p.initial_params(Array1::from(i.clone()));
        }
        let m = p.fit(&ds).map_err(|e| FitErr::Lib(log_err_code(&e), format!("{}", e)))?;
        let probs0 = m.predict_probabilities(&q);
        let thr = match cfg.thr_mode {
            0 => 0.5,
            1 => 0.0,
            2 => 1.0,
            3 => 0.3,
            7 => cfg.thr_val,
            md => {
                let p0 = if probs0.len() > 0 && probs0[0].is_finite() { probs0[0] } else { 0.5 };
                match md {
                    5 => if p0 < 1.0 { p0.next_up() } else { 1.0 },
                    6 => if p0 > 0.0 { p0.next_down() } else { 0.0 },
                    _ => p0,
                }
            }
        };
        let m = m.set_threshold(thr);
        let probs = m.predict_probabilities(&q);
        let preds: Array1<C> = m.predict(&q);
        // the exp oracle: the same linear predictor expression as predict_probabilities
        let z = q.dot(m.params()) + m.intercept();
        let exps: Vec<f64> = z.iter().map(|v| (-*v).exp()).collect();
        Ok(BinOut {
            w: m.params().to_vec(),
            b: m.intercept(),
            pos: m.labels().pos.class.coq(),
            neg: m.labels().neg.class.coq(),
            thr,
            exps,
            probs: probs.to_vec(),
            preds: preds.iter().map(|c| c.coq()).collect(),
        })
    })
}

/// label naming: class id (0 / 1 / ...) -> concrete label of one of the three supported kinds
#[derive(Clone, Debug)]
enum Naming {
    Bools(Vec<bool>),
    Nums(Vec<usize>),
    Strs(Vec<String>),
}
impl Naming {
    fn kind(&self) -> &'static str {
        match self { Naming::Bools(_) => "bool", Naming::Nums(_) => "usize", Naming::Strs(_) => "string" }
    }
    fn coq_labels(&self, ids: &[usize]) -> Vec<String> {
        match self {
            Naming::Bools(m) => ids.iter().map(|&i| m[i].coq()).collect(),
            Naming::Nums(m) => ids.iter().map(|&i| m[i].coq()).collect(),
            Naming::Strs(m) => ids.iter().map(|&i| m[i].coq()).collect(),
        }
    }
}

const STR_POOL: &[&str] = &["cat", "dog", "Cat", "ape", "rocket", "a", "ab", "b", "B", "10", "9", "zebra", "Zebra", "", "x y", "caT"];

fn gen_naming(rng: &mut Sm64, k: usize, allow_bool: bool) -> Naming {
    let kind = if k == 2 && allow_bool { rng.below(3) } else { 1 + rng.below(2) };
    match kind {
        0 => Naming::Bools(if rng.chance(0.5) { vec![false, true] } else { vec![true, false] }),
        1 => {
            let mut pool: Vec<usize> = (0..(k + 8)).map(|i| if i % 3 == 0 { i * 7 } else { i }).collect();
            pool.sort();
            pool.dedup();
            rng.shuffle(&mut pool);
            Naming::Nums(pool[..k].to_vec())
        }
        _ => {
            let mut pool: Vec<String> = STR_POOL.iter().map(|s| s.to_string()).collect();
            rng.shuffle(&mut pool);
            Naming::Strs(pool[..k].to_vec())
        }
    }
}

struct ClassData {
    x: Vec<Vec<f64>>,
    ids: Vec<usize>,
    d: usize,
    scales: Vec<f64>,
}

/// k-class data with a "core" of d+1 affinely independent points carrying every class (so that no
/// class is separable from another and the unpenalised likelihood has a finite minimiser), plus
/// points labelled by a noisy linear rule.  `scales` multiplies the features.
fn gen_class_data(rng: &mut Sm64, k: usize, d: usize, scales: &[f64], n_extra: usize, core: bool, balance: f64) -> ClassData {
    let offs: Vec<f64> = (0..d).map(|_| if rng.below(3) == 0 { 2.0 * rng.gauss() } else { 0.0 }).collect();
    let mut x: Vec<Vec<f64>> = Vec::new();
    let mut ids: Vec<usize> = Vec::new();
    if core {
        for c in 0..(d + 1) {
            let p: Vec<f64> = (0..d)
                .map(|j| scales[j] * (offs[j] + if j + 1 == c { 1.0 } else { 0.0 } + 0.3 * rng.gauss()))
                .collect();
            for cl in 0..k {
                x.push(p.clone());
                ids.push(cl);
            }
        }
    }
    let wt: Vec<Vec<f64>> = (0..k).map(|_| (0..d).map(|_| 1.5 * rng.gauss()).collect()).collect();
    let bias: Vec<f64> = (0..k).map(|c| if c == 0 { balance } else { 0.0 }).collect();
    for _ in 0..n_extra {
        let u: Vec<f64> = (0..d).map(|_| rng.gauss()).collect();
        let sc: Vec<f64> = (0..k)
            .map(|c| u.iter().zip(&wt[c]).map(|(a, b)| a * b).sum::<f64>() + bias[c] + 1.2 * rng.gauss())
            .collect();
        let mut best = 0;
        for c in 1..k {
            if sc[c] > sc[best] { best = c; }
        }
        ids.push(best);
        x.push((0..d).map(|j| scales[j] * (offs[j] + u[j])).collect());
    }
    // every class must occur
    for c in 0..k {
        if !ids.contains(&c) {
            let u: Vec<f64> = (0..d).map(|j| scales[j] * (offs[j] + rng.gauss())).collect();
            x.push(u);
            ids.push(c);
        }
    }
    ClassData { x, ids, d, scales: scales.to_vec() }
}

fn permute<T: Clone>(v: &[T], perm: &[usize]) -> Vec<T> {
    perm.iter().map(|&i| v[i].clone()).collect()
}

/// query rows: stored rows, fresh rows, the origin, and rows with a huge linear predictor along `dir`
fn gen_queries(rng: &mut Sm64, x: &[Vec<f64>], d: usize, scales: &[f64], dir: &[f64], big: &[f64]) -> Vec<Vec<f64>> {
    let mut q: Vec<Vec<f64>> = Vec::new();
    for _ in 0..2 {
        q.push(x[rng.below(x.len() as u64) as usize].clone());
    }
    for _ in 0..2 {
        q.push((0..d).map(|j| scales[j] * 2.0 * rng.gauss()).collect());
    }
    q.push(vec![0.0; d]);
    let n2: f64 = dir.iter().map(|v| v * v).sum();
    if n2 > 0.0 && n2.is_finite() {
        for &t in big {
            // row with x . dir = t
            q.push(dir.iter().map(|v| v * t / n2).collect());
        }
    }
    q
}

fn bin_case_term(id: u64, labels: &[String], x: &[Vec<f64>], cfg: &BinCfg, err: u64, stat: bool, fit: Option<(&BinOut, &[Vec<f64>], Lay)>) -> String {
    let fit_s = match fit {
        None => "None".to_string(),
        Some((f, q, ql)) => format!(
            "(Some {{| bf_w := {}; bf_b := {}; bf_pos := {}; bf_neg := {}; bf_thr := {}; bf_qlay := {}; bf_Q := {}; bf_exp := {}; bf_prob := {}; bf_pred := {} |}})",
            cvec64(&f.w), sf64(f.b), f.pos, f.neg, sf64(f.thr), ql.coq(), cmat64(q), cvec64(&f.exps), cvec64(&f.probs), clabs(&f.preds)
        ),
    };
    format!(
        "CBin {} {{| bc_labels := {}; bc_X := {}; bc_alpha := {}; bc_icpt := {}; bc_tol := {}; bc_err := {}; bc_stat := {}; bc_fit := {} |}}",
        cn(id), clabs(labels), cmat64(x), sf64(cfg.alpha), cbool(cfg.icpt), sf64(cfg.tol), cn(err), cbool(stat), fit_s
    )
}

fn call_bin(naming: &Naming, ids: &[usize], x: &[Vec<f64>], d: usize, cfg: &BinCfg, q: &[Vec<f64>], lays: Lays) -> Result<BinOut, FitErr> {
    let (xa, qa) = (x.to_vec(), q.to_vec());
    match naming {
        Naming::Bools(m) => fit_bin::<bool>(xa, d, ids.iter().map(|&i| m[i]).collect(), cfg.clone(), qa, lays),
        Naming::Nums(m) => fit_bin::<usize>(xa, d, ids.iter().map(|&i| m[i]).collect(), cfg.clone(), qa, lays),
        Naming::Strs(m) => fit_bin::<String>(xa, d, ids.iter().map(|&i| m[i].clone()).collect(), cfg.clone(), qa, lays),
    }
}

const ALPHAS: [f64; 4] = [0.0, 1e-3, 1.0, 100.0];
const SCALES: [f64; 6] = [0.01, 0.1, 1.0, 1.0, 10.0, 100.0];

fn desc_common(kind: &str, stream: &str, n: usize, d: usize, k: usize, alpha: f64, icpt: bool, tol: f64, extra: &str, x0: &[f64]) -> String {
    format!(
        "{{\"model\": {}, \"stream\": {}, \"n\": {}, \"d\": {}, \"k\": {}, \"alpha\": {:e}, \"fit_intercept\": {}, \"tol\": {:e}, {} \"X_first_row\": {:?}}}",
        jstr(kind), jstr(stream), n, d, k, alpha, icpt, tol, extra, x0
    )
}

fn err_what(e: &FitErr) -> String {
    match e {
        FitErr::Lib(c, s) => format!("fit returned an error on valid input (kind {}): {}", c, s),
        FitErr::Panic(s) => format!("fit panicked on valid input: {}", s),
        FitErr::Hang => format!("fit did not terminate within {} s on valid input", WATCHDOG_SECS.load(std::sync::atomic::Ordering::Relaxed)),
    }
}

fn binary_stream(rng: &mut Sm64, out: &mut Out, id: &mut u64, count: usize, thorough: bool) {
    for it in 0..count {
        let mut r = rng.fork();
        let wide = it % 9 == 8; // d >= 8: the eight-lane part of ndarray's unrolled_dot takes part in x.w
        let d = if wide { *r.pick(&[8usize, 9, 11, 17]) } else { 1 + r.below(if thorough { 5 } else { 4 }) as usize };
        let scales: Vec<f64> = (0..d).map(|_| if wide { *r.pick(&[0.5, 1.0, 2.0]) } else { *r.pick(&SCALES) }).collect();
        let alpha = *r.pick(&ALPHAS);
        let icpt = if scale_for("binary", it) == -20 { r.below(2) != 0 } else { r.below(4) != 0 };
        let tol = *r.pick(&[1e-2, 1e-3, 1e-4, 1e-4]);
        let core = alpha == 0.0 || r.chance(0.6);
        let n_extra = if core { r.below(28) as usize } else { 6 + r.below(28) as usize };
        let balance = *r.pick(&[0.0, 0.0, 1.5, -1.5, 3.0]);
        let data = gen_class_data(&mut r, 2, d, &scales, n_extra, core, balance);
        let n = data.x.len();
        // sample order: random, then adversarial placements of the first sample / exact count ties
        let mut perm: Vec<usize> = (0..n).collect();
        r.shuffle(&mut perm);
        let mut x = permute(&data.x, &perm);
        let mut ids = permute(&data.ids, &perm);
        let order_mode = r.below(4);
        let c0 = ids.iter().filter(|&&c| c == 0).count();
        let minority = if c0 * 2 < n { 0 } else { 1 };
        match order_mode {
            0 => {}
            1 | 2 => {
                // put a sample of the minority (1) / majority (2) class first
                let want = if order_mode == 1 { minority } else { 1 - minority };
                if let Some(p) = ids.iter().position(|&c| c == want) {
                    x.swap(0, p);
                    ids.swap(0, p);
                }
            }
            _ => {
                // equal counts: drop surplus samples of the larger class from the end (never the core-only case n small)
                let mut c = [ids.iter().filter(|&&c| c == 0).count(), ids.iter().filter(|&&c| c == 1).count()];
                let mut i = ids.len();
                while c[0] != c[1] && i > 0 {
                    i -= 1;
                    let big = if c[0] > c[1] { 0 } else { 1 };
                    if ids[i] == big && c[big] > 1 {
                        ids.remove(i);
                        x.remove(i);
                        c[big] -= 1;
                    }
                }
            }
        }
        let n = x.len();
        // layout and scale of this case: the same logical problem in other units (x s, alpha s^2, tol s) / other strides
        let lays = Lays::of(it);
        let k2 = scale_for("binary", it);
        set_watchdog("binary", k2);
        let s2 = 2f64.powi(k2);
        let x: Vec<Vec<f64>> = x.iter().map(|row| row.iter().map(|v| v * s2).collect()).collect();
        let scales: Vec<f64> = scales.iter().map(|v| v * s2).collect();
        let (alpha0, alpha, tol) = (alpha, alpha * s2 * s2, tol * tol_unit(s2, icpt));
        let naming = gen_naming(&mut r, 2, true);
        let init = if r.chance(0.25) { Some((0..(d + icpt as usize)).map(|j| 0.3 * r.gauss() / if j < d { scales[j] } else { 1.0 }).collect()) } else { None };
        let thr_mode = r.below(8);
        let cfg = BinCfg { alpha, icpt, tol, maxit: 2000, init, thr_mode, thr_val: *r.pick(&[0.05, 0.25, 0.5f64.next_up(), 0.5f64.next_down(), 0.75, 0.999, 1e-300, 5e-324]) };
        let labels = naming.coq_labels(&ids);
        // first fit to learn the direction of w for the extreme queries
        let q0 = vec![x[0].clone()];
        let first = call_bin(&naming, &ids, &x, d, &cfg, &q0, Lays { q: Lay::Std, ..lays });
        let stream = "binary";
        let stat = stat_claimed("binary", k2, icpt, frob(&x));
        let extra = format!(
            "\"labels\": {}, \"order_mode\": {}, \"core\": {}, \"init\": {}, \"thr_mode\": {}, \"scales\": {:?}, \"scale_log2\": {}, \"stationarity_claimed\": {}, {}",
            jstr(naming.kind()), order_mode, core, cfg.init.is_some(), cfg.thr_mode, scales, k2, stat, lays.json()
        );
        let desc = desc_common("LogisticRegression", stream, n, d, 2, alpha, icpt, tol, &extra, &x[0]);
        let mut tags: Vec<String> = vec!["binary".into(), format!("labels_{}", naming.kind())];
        if alpha0 == 0.0 { tags.push("alpha0".into()); }
        if icpt { tags.push("icpt".into()); }
        tags.push(scale_tag(k2));
        if scale_out_of_range("binary", k2) { tags.push("scale_out_of_solver_range".into()); }
        lays.tags(&mut tags);
        if !stat { tags.push("stationarity_not_claimed".into()); out.bump("stationarity_not_claimed"); }
        let tagrefs: Vec<&str> = tags.iter().map(|s| s.as_str()).collect();
        lays.bump(out, stream);
        out.bump(&format!("{}_{}", stream, scale_tag(k2)));
        out.bump("binary_fits");
        out.bump(&format!("binary_labels_{}", naming.kind()));
        out.bump(&format!("binary_order_mode_{}", order_mode));
        out.bump(&format!("alpha_{:e}", alpha0));
        out.bump(&format!("binary_thr_mode_{}", cfg.thr_mode));
        let key = fnv_f64s(&x.concat(), fnv(format!("{:?}{:?}{}{}{}", ids, naming, alpha, icpt, tol).as_bytes()));
        match first {
            Err(e) => {
                out.rust_fail(*id, 1024, &tagrefs, &err_what(&e), &desc);
                out.rust_eval(&desc, None);
            }
            Ok(f0) => {
                let q = gen_queries(&mut r, &x, d, &scales, &f0.w, &[1.0e3, -1.0e3, 7.3e3, -1.0e4, 40.0, -36.5]);
                match call_bin(&naming, &ids, &x, d, &cfg, &q, lays) {
                    Err(e) => {
                        out.rust_fail(*id, 1024, &tagrefs, &err_what(&e), &desc);
                        out.rust_eval(&desc, None);
                    }
                    Ok(f) => {
                        if std::env::var("C12_DEBUG").is_ok() {
                            let pos_id = match &naming { Naming::Bools(m) => m.iter().position(|v| v.coq() == f.pos), Naming::Nums(m) => m.iter().position(|v| v.coq() == f.pos), Naming::Strs(m) => m.iter().position(|v| v.coq() == f.pos) }.unwrap();
                            let mut g = vec![0.0f64; d + 1];
                            for (row, &c) in x.iter().zip(&ids) {
                                let y = if c == pos_id { 1.0 } else { -1.0 };
                                let z: f64 = row.iter().zip(&f.w).map(|(a, b)| a * b).sum::<f64>() + f.b;
                                let phi = -y / (1.0 + (y * z).exp());
                                for j in 0..d { g[j] += phi * row[j]; }
                                g[d] += phi;
                            }
                            for j in 0..d { g[j] += alpha * f.w[j]; }
                            if !icpt { g[d] = 0.0; }
                            let gn = g.iter().map(|v| v * v).sum::<f64>().sqrt();
                            eprintln!("f64 fit id={} n={} d={} scale=2^{} alpha0={} icpt={} stat={} tol={:e} |g|={:e} ratio={:.3}", *id, n, d, k2, alpha0, icpt, stat, tol, gn, gn / tol);
                        }
                        let term = bin_case_term(*id, &labels, &x, &cfg, 0, stat, Some((&f, &q, lays.q)));
                        out.case(*id, &term, &tagrefs, &desc, Some(key));
                    }
                }
            }
        }
        *id += 1;
        let _ = it;
    }
}


// ---------------------------------------------------------------------------------------------
// binary logistic regression at f32
// ---------------------------------------------------------------------------------------------

struct Bin32Out {
    w: Vec<f32>,
    b: f32,
    pos: String,
    neg: String,
    thr: f32,
    exps: Vec<f32>,
    probs: Vec<f32>,
    preds: Vec<String>,
}

fn cvec32(xs: &[f32]) -> String {
    clist(xs, |x| format!("b32 {}", cbits32(*x)))
}
fn cmat32(rows: &[Vec<f32>]) -> String {
    clist(rows, |r| cvec32(r))
}
fn widen(rows: &[Vec<f32>]) -> Vec<Vec<f64>> {
    rows.iter().map(|r| r.iter().map(|v| *v as f64).collect()).collect()
}

fn fit_bin32<C: LabT>(x: Vec<Vec<f32>>, d: usize, labels: Vec<C>, cfg: BinCfg, q: Vec<Vec<f32>>, lays: Lays) -> Result<Bin32Out, FitErr> {
    run_guarded(move || {
        let (xl, yl, ql) = (Laid2::new(&x, d, lays.x, f32::NAN), Laid1::new(&labels, lays.y), Laid2::new(&q, d, lays.q, -3.25e5f32));
        let q = ql.cow();
        let ds = DatasetBase::new(xl.cow(), yl.cow());
        let mut p = LogisticRegression::<f32>::default()
            .alpha(cfg.alpha as f32)
            .with_intercept(cfg.icpt)
            .gradient_tolerance(cfg.tol as f32)
            .max_iterations(cfg.maxit);
        if let Some(i) = cfg.init.as_ref() {
            p = p.initial_params(Array1::from(i.iter().map(|v| *v as f32).collect::<Vec<f32>>()));
        }
        let m = p.fit(&ds).map_err(|e| FitErr::Lib(log_err_code(&e), format!("{}", e)))?;
        let probs0 = m.predict_probabilities(&q);
        let thr: f32 = match cfg.thr_mode {
            0 => 0.5,
            1 => 0.0,
            2 => 1.0,
            3 => 0.3,
            7 => cfg.thr_val as f32,
            md => {
                let p0 = if probs0.len() > 0 && probs0[0].is_finite() { probs0[0] } else { 0.5 };
                match md {
                    5 => if p0 < 1.0 { p0.next_up() } else { 1.0 },
                    6 => if p0 > 0.0 { p0.next_down() } else { 0.0 },
                    _ => p0,
                }
            }
        };
        let m = m.set_threshold(thr);
        let probs = m.predict_probabilities(&q);
        let preds: Array1<C> = m.predict(&q);
        let z = q.dot(m.params()) + m.intercept();
        let exps: Vec<f32> = z.iter().map(|v| (-*v).exp()).collect();
        Ok(Bin32Out {
            w: m.params().to_vec(),
            b: m.intercept(),
            pos: m.labels().pos.class.coq(),
            neg: m.labels().neg.class.coq(),
            thr,
            exps,
            probs: probs.to_vec(),
            preds: preds.iter().map(|c| c.coq()).collect(),
        })
    })
}

fn call_bin32(naming: &Naming, ids: &[usize], x: &[Vec<f32>], d: usize, cfg: &BinCfg, q: &[Vec<f32>], lays: Lays) -> Result<Bin32Out, FitErr> {
    let (xa, qa) = (x.to_vec(), q.to_vec());
    match naming {
        Naming::Bools(m) => fit_bin32::<bool>(xa, d, ids.iter().map(|&i| m[i]).collect(), cfg.clone(), qa, lays),
        Naming::Nums(m) => fit_bin32::<usize>(xa, d, ids.iter().map(|&i| m[i]).collect(), cfg.clone(), qa, lays),
        Naming::Strs(m) => fit_bin32::<String>(xa, d, ids.iter().map(|&i| m[i].clone()).collect(), cfg.clone(), qa, lays),
    }
}

/// norm of the gradient of the documented objective at the returned f32 parameters, in f64 arithmetic
fn bin_grad_norm64(x: &[Vec<f32>], ids: &[usize], pos_id: usize, alpha: f64, icpt: bool, w: &[f32], b: f32) -> f64 {
    let d = w.len();
    let mut g = vec![0.0f64; d + 1];
    for (row, &c) in x.iter().zip(ids) {
        let y = if c == pos_id { 1.0 } else { -1.0 };
        let z: f64 = row.iter().zip(w).map(|(a, b)| *a as f64 * *b as f64).sum::<f64>() + b as f64;
        let phi = -y / (1.0 + (y * z).exp());
        for j in 0..d { g[j] += phi * row[j] as f64; }
        g[d] += phi;
    }
    for j in 0..d { g[j] += alpha * w[j] as f64; }
    if !icpt { g[d] = 0.0; }
    g.iter().map(|v| v * v).sum::<f64>().sqrt()
}

fn binary32_stream(rng: &mut Sm64, out: &mut Out, id: &mut u64, count: usize) {
    for it in 0..count {
        let mut r = rng.fork();
        let wide = it % 7 == 6;
        let d = if wide { *r.pick(&[8usize, 9, 12]) } else { 1 + r.below(3) as usize };
        let scales: Vec<f64> = (0..d).map(|_| if wide { *r.pick(&[0.5, 1.0, 2.0]) } else { *r.pick(&[0.1, 1.0, 1.0, 10.0]) }).collect();
        let alpha = *r.pick(&ALPHAS);
        let icpt = if scale_for("binary_f32", it) == -20 { r.below(2) != 0 } else { r.below(4) != 0 };
        let tol = *r.pick(&[1e-2, 1e-3]);
        let core = alpha == 0.0 || r.chance(0.6);
        let n_extra = if core { r.below(24) as usize } else { 6 + r.below(24) as usize };
        let balance = *r.pick(&[0.0, 0.0, 1.5, -1.5]);
        let data = gen_class_data(&mut r, 2, d, &scales, n_extra, core, balance);
        let n = data.x.len();
        let mut perm: Vec<usize> = (0..n).collect();
        r.shuffle(&mut perm);
        let x64 = permute(&data.x, &perm);
        let mut ids = permute(&data.ids, &perm);
        let mut x: Vec<Vec<f32>> = x64.iter().map(|row| row.iter().map(|v| *v as f32).collect()).collect();
        // label-coding corner: sometimes make the first sample one of the minority class / force an exact count tie
        let c0 = ids.iter().filter(|&&c| c == 0).count();
        let minority = if c0 * 2 < n { 0 } else { 1 };
        let order_mode = r.below(3);
        if order_mode == 1 {
            if let Some(p) = ids.iter().position(|&c| c == minority) { x.swap(0, p); ids.swap(0, p); }
        } else if order_mode == 2 {
            let mut c = [ids.iter().filter(|&&c| c == 0).count(), ids.iter().filter(|&&c| c == 1).count()];
            let mut i = ids.len();
            while c[0] != c[1] && i > 0 {
                i -= 1;
                let big = if c[0] > c[1] { 0 } else { 1 };
                if ids[i] == big && c[big] > 1 { ids.remove(i); x.remove(i); c[big] -= 1; }
            }
        }
        let n = x.len();
        let lays = Lays::of(it);
        let k2 = scale_for("binary_f32", it);
        set_watchdog("binary_f32", k2);
        let s2 = 2f64.powi(k2);
        let x: Vec<Vec<f32>> = x.iter().map(|row| row.iter().map(|v| v * s2 as f32).collect()).collect();
        let scales: Vec<f64> = scales.iter().map(|v| v * s2).collect();
        let alpha0 = alpha;
        // the f32 hyper-parameters first, then their exact power-of-two rescaling
        let (alpha, tol) = (((alpha as f32) as f64) * s2 * s2, ((tol as f32) as f64) * tol_unit(s2, icpt));
        let naming = gen_naming(&mut r, 2, true);
        let thr_mode = r.below(8);
        let cfg = BinCfg { alpha: (alpha as f32) as f64, icpt, tol: (tol as f32) as f64, maxit: 2000, init: None, thr_mode,
                           thr_val: *r.pick(&[0.05, 0.25, 0.75, 0.999, 1e-30, 1e-45]) };
        let labels = naming.coq_labels(&ids);
        let stat = stat_claimed("binary_f32", k2, icpt, frob(&x));
        let extra = format!("\"float\": \"f32\", \"labels\": {}, \"order_mode\": {}, \"core\": {}, \"thr_mode\": {}, \"scales\": {:?}, \"scale_log2\": {}, \"stationarity_claimed\": {}, {}", jstr(naming.kind()), order_mode, core, thr_mode, scales, k2, stat, lays.json());
        let x0: Vec<f64> = x[0].iter().map(|v| *v as f64).collect();
        let desc = desc_common("LogisticRegression<f32>", "binary_f32", n, d, 2, cfg.alpha, icpt, cfg.tol, &extra, &x0);
        let mut tags: Vec<String> = vec!["binary".into(), "f32".into(), format!("labels_{}", naming.kind())];
        if alpha0 == 0.0 { tags.push("alpha0".into()); }
        if icpt { tags.push("icpt".into()); }
        tags.push(scale_tag(k2));
        if scale_out_of_range("binary_f32", k2) { tags.push("scale_out_of_solver_range".into()); }
        lays.tags(&mut tags);
        if !stat { tags.push("stationarity_not_claimed".into()); out.bump("stationarity_not_claimed"); }
        let tagrefs: Vec<&str> = tags.iter().map(|s| s.as_str()).collect();
        lays.bump(out, "binary_f32");
        out.bump(&format!("binary_f32_{}", scale_tag(k2)));
        out.bump("binary_f32_fits");
        out.bump(&format!("binary_f32_thr_mode_{}", thr_mode));
        out.bump(&format!("binary_f32_order_mode_{}", order_mode));
        let key = fnv_f64s(&widen(&x).concat(), fnv(format!("f32{:?}{:?}{}{}{}", ids, naming, alpha, icpt, tol).as_bytes()));
        let q0 = vec![x[0].clone()];
        match call_bin32(&naming, &ids, &x, d, &cfg, &q0, Lays { q: Lay::Std, ..lays }) {
            Err(e) => {
                out.rust_fail(*id, 1024, &tagrefs, &err_what(&e), &desc);
                out.rust_eval(&desc, None);
            }
            Ok(f0) => {
                let w64: Vec<f64> = f0.w.iter().map(|v| *v as f64).collect();
                let q64 = gen_queries(&mut r, &widen(&x), d, &scales, &w64, &[1.0e3, -1.0e3, 20.0, -17.5, 90.0, -104.0]);
                let q: Vec<Vec<f32>> = q64.iter().map(|row| row.iter().map(|v| *v as f32).collect()).collect();
                match call_bin32(&naming, &ids, &x, d, &cfg, &q, lays) {
                    Err(e) => {
                        out.rust_fail(*id, 1024, &tagrefs, &err_what(&e), &desc);
                        out.rust_eval(&desc, None);
                    }
                    Ok(f) => {
                        // what an f32 fit is held to (see C12/Corr.v tol32_ok): the user's tolerance, or 8 times the
                        // resolution floor sqrt(2 lam eps32 0.7 n) of the f32 cost, whichever is larger
                        let ss: f64 = x.iter().flatten().map(|v| (*v as f64) * (*v as f64)).sum();
                        let lam = cfg.alpha + 0.25 * (ss + if icpt { n as f64 } else { 0.0 });
                        let floor = 8.0 * (2.0 * lam * (f32::EPSILON as f64) * 0.7 * n as f64).sqrt() * (1.0 - 1e-9);
                        let tol_eff = if floor > cfg.tol { floor } else { cfg.tol };
                        if std::env::var("C12_DEBUG").is_ok() {
                            let pos_id = match &naming { Naming::Bools(m) => m.iter().position(|v| v.coq() == f.pos), Naming::Nums(m) => m.iter().position(|v| v.coq() == f.pos), Naming::Strs(m) => m.iter().position(|v| v.coq() == f.pos) }.unwrap();
                            let g = bin_grad_norm64(&x, &ids, pos_id, cfg.alpha, icpt, &f.w, f.b);
                            eprintln!("f32 fit id={} n={} d={} alpha={} icpt={} tol={} |g|={:e} ratio={:.3} tol_eff={:e} r2={:.3}", *id, n, d, cfg.alpha, icpt, cfg.tol, g, g / cfg.tol, tol_eff, g / tol_eff);
                        }
                        let w64: Vec<f64> = f.w.iter().map(|v| *v as f64).collect();
                        let term = format!(
                            "CBin32 {} {{| b3c_labels := {}; b3c_X := {}; b3c_alpha := {}; b3c_icpt := {}; b3c_tol := {}; b3c_tol_eff := {}; b3c_stat := {}; b3c_fit := {{| b3_w := {}; b3_b := b32 {}; b3_pos := {}; b3_neg := {}; b3_thr := b32 {}; b3_qlay := {}; b3_Q := {}; b3_exp := {}; b3_prob := {}; b3_pred := {}; b3_w64 := {}; b3_b64 := {} |}} |}}",
                            cn(*id), clabs(&labels), cmat64(&widen(&x)), sf64(cfg.alpha), cbool(icpt), sf64(cfg.tol), sf64(tol_eff), cbool(stat),
                            cvec32(&f.w), cbits32(f.b), f.pos, f.neg, cbits32(f.thr), lays.q.coq(), cmat32(&q), cvec32(&f.exps), cvec32(&f.probs), clabs(&f.preds),
                            cvec64(&w64), sf64(f.b as f64)
                        );
                        out.case(*id, &term, &tagrefs, &desc, Some(key));
                    }
                }
            }
        }
        *id += 1;
    }
}

// ---------------------------------------------------------------------------------------------
// multinomial logistic regression
// ---------------------------------------------------------------------------------------------

struct MultiOut {
    w: Vec<Vec<f64>>,
    b: Vec<f64>,
    classes: Vec<String>,
    scores: Vec<Vec<f64>>,
    exps: Vec<Vec<f64>>,
    probs: Vec<Vec<f64>>,
    preds: Vec<String>,
}

#[derive(Clone)]
struct MultiCfg {
    alpha: f64,
    icpt: bool,
    tol: f64,
    maxit: u64,
    init: Option<Vec<Vec<f64>>>,
}

fn fit_multi<C: LabT>(x: Vec<Vec<f64>>, d: usize, labels: Vec<C>, cfg: MultiCfg, q: Vec<Vec<f64>>, lays: Lays) -> Result<MultiOut, FitErr> {
    run_guarded(move || {
        let (xl, yl, ql) = (Laid2::new(&x, d, lays.x, f64::NAN), Laid1::new(&labels, lays.y), Laid2::new(&q, d, lays.q, -3.25e5));
        let q = ql.cow();
        let ds = DatasetBase::new(xl.cow(), yl.cow());
        let mut p = MultiLogisticRegression::default()
            .alpha(cfg.alpha)
            .with_intercept(cfg.icpt)
            .gradient_tolerance(cfg.tol)
            .max_iterations(cfg.maxit);
        if let Some(i) = cfg.init.as_ref() {
            let cols = i[0].len();
            p = p.initial_params(arr(i, cols));
        }
        let m = p.fit(&ds).map_err(|e| FitErr::Lib(log_err_code(&e), format!("{}", e)))?;
        let probs = m.predict_probabilities(&q);
        let preds: Array1<C> = m.predict(&q);
        // the oracle inputs: same expression as predict_nonorm_probabilities, then the exp arguments of softmax_inplace
        let scores = q.dot(m.params()) + m.intercept();
        let mut exps: Vec<Vec<f64>> = Vec::new();
        for row in scores.rows() {
            let mx = row.iter().copied().reduce(f64::max).unwrap();
            exps.push(row.iter().map(|n| (n - mx).exp()).collect());
        }
        Ok(MultiOut {
            w: rows_of(&m.params().view()),
            b: m.intercept().to_vec(),
            classes: m.classes().iter().map(|c| c.coq()).collect(),
            scores: rows_of(&scores.view()),
            exps,
            probs: rows_of(&probs.view()),
            preds: preds.iter().map(|c| c.coq()).collect(),
        })
    })
}

fn call_multi(naming: &Naming, ids: &[usize], x: &[Vec<f64>], d: usize, cfg: &MultiCfg, q: &[Vec<f64>], lays: Lays) -> Result<MultiOut, FitErr> {
    let (xa, qa) = (x.to_vec(), q.to_vec());
    match naming {
        Naming::Bools(m) => fit_multi::<bool>(xa, d, ids.iter().map(|&i| m[i]).collect(), cfg.clone(), qa, lays),
        Naming::Nums(m) => fit_multi::<usize>(xa, d, ids.iter().map(|&i| m[i]).collect(), cfg.clone(), qa, lays),
        Naming::Strs(m) => fit_multi::<String>(xa, d, ids.iter().map(|&i| m[i].clone()).collect(), cfg.clone(), qa, lays),
    }
}

fn multi_case_term(id: u64, labels: &[String], x: &[Vec<f64>], cfg: &MultiCfg, stat: bool, f: &MultiOut, q: &[Vec<f64>]) -> String {
    format!(
        "CMulti {} {{| mc_labels := {}; mc_X := {}; mc_alpha := {}; mc_icpt := {}; mc_tol := {}; mc_stat := {}; mc_fit := {{| mf_W := {}; mf_b := {}; mf_classes := {}; mf_Q := {}; mf_scores := {}; mf_exps := {}; mf_prob := {}; mf_pred := {} |}} |}}",
        cn(id), clabs(labels), cmat64(x), sf64(cfg.alpha), cbool(cfg.icpt), sf64(cfg.tol), cbool(stat),
        cmat64(&f.w), cvec64(&f.b), clabs(&f.classes), cmat64(q), cmat64(&f.scores), cmat64(&f.exps), cmat64(&f.probs), clabs(&f.preds)
    )
}

fn multi_stream(rng: &mut Sm64, out: &mut Out, id: &mut u64, count: usize, thorough: bool) {
    for it in 0..count {
        let mut r = rng.fork();
        let rowspread = it % 3 == 2; // the class that exposed finding F37 (global max in log_sum_exp)
        let k = if rowspread { 2 + r.below(2) as usize } else { 2 + r.below(5) as usize };
        let d = if rowspread { 1 + r.below(2) as usize } else { 1 + r.below(3) as usize };
        let alpha = if rowspread { *r.pick(&[0.0, 1e-3, 1e-3, 1.0]) } else { *r.pick(&ALPHAS) };
        let icpt = if rowspread { r.chance(0.3) } else { if scale_for("multi", it) == -20 { r.below(2) != 0 } else { r.below(4) != 0 } };
        let tol = *r.pick(&[1e-2, 1e-3, 1e-4, 1e-4]);
        // conditioning: with an intercept column the features stay within a factor ~10 of 1; without one a common
        // scale 1e-2..1e1 is harmless (L-BFGS on (d+1)*k > 10 unknowns converges too slowly otherwise: the gradient
        // tolerance is absolute, so features of size 100 ask for a relative accuracy the cost-stagnation rule of the solver pre-empts)
        let scales: Vec<f64> = if rowspread {
            vec![1.0; d]
        } else if icpt {
            (0..d).map(|_| *r.pick(&[0.3, 1.0, 1.0, 3.0])).collect()
        } else {
            let common = *r.pick(&[0.01, 0.1, 1.0, 3.0, 10.0]);
            (0..d).map(|_| common * if common < 10.0 { *r.pick(&[1.0, 1.0, 3.0]) } else { 1.0 }).collect()
        };
        let core = alpha == 0.0 || r.chance(0.6);
        let n_extra = if rowspread { 0 } else if core { r.below(22) as usize } else { 3 * k + r.below(22) as usize };
        let balance = *r.pick(&[0.0, 0.0, 1.5, -1.5]);
        let mut data = gen_class_data(&mut r, k, d, &scales, n_extra, core || rowspread, balance);
        if rowspread {
            // rows of unit scale whose label follows the sign of the first feature (noisily), so that the fitted
            // weight of that feature is of order one ...
            for _ in 0..(10 + r.below(12)) {
                let row: Vec<f64> = (0..d).map(|_| r.gauss()).collect();
                let cl = if k > 2 && r.chance(0.2) { 2 } else if row[0] + 0.8 * r.gauss() > 0.0 { 1 } else { 0 };
                data.x.push(row);
                data.ids.push(cl);
            }
            // ... and
            // a few rows far out along the first feature, labelled consistently with its sign
            for s in [-1.0f64, 1.0] {
                for _ in 0..2 {
                    let mut row: Vec<f64> = (0..d).map(|_| r.gauss()).collect();
                    row[0] = s * (90.0 + 20.0 * r.unit());
                    data.x.push(row);
                    data.ids.push(if s > 0.0 { 1 } else { 0 });
                }
            }
        }
        let n = data.x.len();
        let mut perm: Vec<usize> = (0..n).collect();
        r.shuffle(&mut perm);
        let x = permute(&data.x, &perm);
        let ids = permute(&data.ids, &perm);
        let lays = Lays::of(it);
        let k2 = scale_for("multi", it);
        set_watchdog("multi", k2);
        let s2 = 2f64.powi(k2);
        let x: Vec<Vec<f64>> = x.iter().map(|row| row.iter().map(|v| v * s2).collect()).collect();
        let scales: Vec<f64> = scales.iter().map(|v| v * s2).collect();
        let (alpha0, alpha, tol) = (alpha, alpha * s2 * s2, tol * tol_unit(s2, icpt));
        let naming = gen_naming(&mut r, k, true);
        let init = if r.chance(0.2) {
            Some((0..(d + icpt as usize)).map(|j| (0..k).map(|_| 0.2 * r.gauss() / if j < d { scales[j] } else { 1.0 }).collect()).collect())
        } else {
            None
        };
        let cfg = MultiCfg { alpha, icpt, tol, maxit: 5000, init };
        let labels = naming.coq_labels(&ids);
        let stream = if rowspread { "multi_rowspread" } else { "multi" };
        let stat = stat_claimed("multi", k2, icpt, frob(&x));
        let extra = format!("\"labels\": {}, \"core\": {}, \"init\": {}, \"scales\": {:?}, \"scale_log2\": {}, \"stationarity_claimed\": {}, {}", jstr(naming.kind()), core, cfg.init.is_some(), scales, k2, stat, lays.json());
        let desc = desc_common("MultiLogisticRegression", stream, n, d, k, alpha, icpt, tol, &extra, &x[0]);
        let mut tags: Vec<String> = vec!["multi".into(), format!("labels_{}", naming.kind())];
        if rowspread { tags.push("multi_row_spread_gt34".into()); }
        if alpha0 == 0.0 { tags.push("alpha0".into()); }
        tags.push(scale_tag(k2));
        if scale_out_of_range("multi", k2) { tags.push("scale_out_of_solver_range".into()); }
        lays.tags(&mut tags);
        if !stat { tags.push("stationarity_not_claimed".into()); out.bump("stationarity_not_claimed"); }
        let tagrefs: Vec<&str> = tags.iter().map(|s| s.as_str()).collect();
        lays.bump(out, "multi");
        out.bump(&format!("multi_{}", scale_tag(k2)));
        out.bump(&format!("{}_fits", stream));
        out.bump(&format!("multi_k_{}", k));
        out.bump(&format!("multi_labels_{}", naming.kind()));
        let key = fnv_f64s(&x.concat(), fnv(format!("m{:?}{:?}{}{}{}", ids, naming, alpha, icpt, tol).as_bytes()));
        let q0 = vec![x[0].clone()];
        match call_multi(&naming, &ids, &x, d, &cfg, &q0, Lays { q: Lay::Std, ..lays }) {
            Err(e) => {
                out.rust_fail(*id, 1024, &tagrefs, &err_what(&e), &desc);
                out.rust_eval(&desc, None);
            }
            Ok(f0) => {
                // direction: difference of the first two weight columns (moves the scores of two classes apart)
                // rescaled so that the largest |x . W_c| over the classes equals the requested magnitude
                let dir0: Vec<f64> = f0.w.iter().map(|row| row[0] - row[1]).collect();
                let n2: f64 = dir0.iter().map(|v| v * v).sum();
                let maxs = (0..k).map(|c| (0..d).map(|j| dir0[j] * f0.w[j][c]).sum::<f64>().abs()).fold(0.0f64, f64::max);
                let dir: Vec<f64> = if maxs > 0.0 { dir0.iter().map(|v| v * maxs / n2).collect() } else { vec![0.0; d] };
                let q = gen_queries(&mut r, &x, d, &scales, &dir, &[1.0e3, -2.5e3, 1.0e4, 37.0]);
                match call_multi(&naming, &ids, &x, d, &cfg, &q, lays) {
                    Err(e) => {
                        out.rust_fail(*id, 1024, &tagrefs, &err_what(&e), &desc);
                        out.rust_eval(&desc, None);
                    }
                    Ok(f) => {
                        let rowmax: Vec<f64> = x.iter().map(|row| (0..k).map(|c| (0..d).map(|j| row[j] * f.w[j][c]).sum::<f64>() + f.b[c]).fold(f64::MIN, f64::max)).collect();
                        let spread = rowmax.iter().cloned().fold(f64::MIN, f64::max) - rowmax.iter().cloned().fold(f64::MAX, f64::min);
                        if spread > 34.5 { out.bump("multi_fitted_row_spread_gt_34.5"); }
                        let term = multi_case_term(*id, &labels, &x, &cfg, stat, &f, &q);
                        out.case(*id, &term, &tagrefs, &desc, Some(key));
                    }
                }
            }
        }
        *id += 1;
        let _ = thorough;
    }
}

// ---------------------------------------------------------------------------------------------
// Tweedie GLM
// ---------------------------------------------------------------------------------------------

#[derive(Clone)]
struct GlmCfg {
    power: f64,
    link: Option<Link>,
    alpha: f64,
    icpt: bool,
    tol: f64,
    maxit: usize,
}
struct GlmOut {
    w: Vec<f64>,
    b: f64,
    exps: Vec<f64>,
    preds: Vec<f64>,
}

fn eff_link(cfg: &GlmCfg) -> Link {
    match cfg.link {
        Some(l) => l,
        None => if cfg.power <= 0.0 { Link::Identity } else { Link::Log },
    }
}
fn link_name(l: Link) -> &'static str {
    match l { Link::Identity => "Identity", Link::Log => "Log", Link::Logit => "Logit" }
}

fn glm_err_code(e: &linfa_linear::LinearError<f64>) -> u64 {
    use linfa_linear::LinearError as E;
    match e {
        E::InvalidTargetRange(_) => 1,
        E::InvalidTweediePower(_) => 2,
        E::InvalidPenalty(_) => 3,
        E::Argmin(_) => 20,
        _ => 21,
    }
}

fn fit_glm(x: Vec<Vec<f64>>, d: usize, y: Vec<f64>, cfg: GlmCfg, q: Vec<Vec<f64>>, lays: Lays) -> Result<GlmOut, FitErr> {
    run_guarded(move || {
        let (xl, yl, ql) = (Laid2::new(&x, d, lays.x, f64::NAN), Laid1::new(&y, lays.y), Laid2::new(&q, d, lays.q, -3.25e5));
        let q = ql.cow();
        let ds = DatasetBase::new(xl.cow(), yl.cow());
        // builder history: every second case sets another power first (on the other side of the Normal / non-Normal
        // boundary, where the default link differs), then the case's power: the last setter must win, also for what the
        // parameter object derives from the power (the default link)
        static GLM_CHAIN: std::sync::atomic::AtomicUsize = std::sync::atomic::AtomicUsize::new(0);
        let chained = GLM_CHAIN.fetch_add(1, std::sync::atomic::Ordering::Relaxed) % 2 == 1;
        let p0 = if chained { TweedieRegressor::params().power(if cfg.power <= 0.0 { 1.0 } else { 0.0 }) } else { TweedieRegressor::params() };
        let mut p = p0
            .power(cfg.power)
            .alpha(cfg.alpha)
            .fit_intercept(cfg.icpt)
            .tol(cfg.tol)
            .max_iter(cfg.maxit);
        if let Some(l) = cfg.link {
            p = p.link(l);
        }
        let m = p.fit(&ds).map_err(|e| FitErr::Lib(glm_err_code(&e), format!("{}", e)))?;
        let preds = m.predict(&q);
        let z = q.dot(&m.coef) + m.intercept;
        let exps: Vec<f64> = match eff_link(&cfg) {
            Link::Identity => z.iter().map(|_| 0.0).collect(),
            Link::Log => z.iter().map(|v| v.exp()).collect(),
            Link::Logit => z.iter().map(|v| (-*v).exp()).collect(),
        };
        Ok(GlmOut { w: m.coef.to_vec(), b: m.intercept, exps, preds: preds.to_vec() })
    })
}

fn glm_case_term(id: u64, cfg: &GlmCfg, x: &[Vec<f64>], y: &[f64], err: u64, stat: bool, fit: Option<(&GlmOut, &[Vec<f64>], Lay)>) -> String {
    let fit_s = match fit {
        None => "None".to_string(),
        Some((f, q, ql)) => format!(
            "(Some {{| gf_w := {}; gf_b := {}; gf_qlay := {}; gf_Q := {}; gf_exp := {}; gf_pred := {} |}})",
            cvec64(&f.w), sf64(f.b), ql.coq(), cmat64(q), cvec64(&f.exps), cvec64(&f.preds)
        ),
    };
    let link_s = match cfg.link { None => "None".to_string(), Some(l) => format!("(Some {})", link_name(l)) };
    format!(
        "CGlm {} {{| gc_power := {}; gc_link := {}; gc_alpha := {}; gc_icpt := {}; gc_tol := {}; gc_X := {}; gc_y := {}; gc_err := {}; gc_stat := {}; gc_fit := {} |}}",
        cn(id), sf64(cfg.power), link_s, sf64(cfg.alpha), cbool(cfg.icpt), sf64(cfg.tol), cmat64(x), cvec64(y), cn(err), cbool(stat), fit_s
    )
}

fn gen_glm_data(r: &mut Sm64, p: f64, link: Link, d: usize, n: usize) -> (Vec<Vec<f64>>, Vec<f64>) {
    let sc = *r.pick(&[0.25, 0.5, 1.0]);
    let wt: Vec<f64> = (0..d).map(|_| 0.8 * r.gauss()).collect();
    let bt = 0.5 * r.gauss();
    let mut x: Vec<Vec<f64>> = Vec::new();
    let mut y: Vec<f64> = Vec::new();
    for _ in 0..n {
        let u: Vec<f64> = (0..d).map(|_| sc * (2.0 * r.unit() - 1.0)).collect();
        let eta: f64 = u.iter().zip(&wt).map(|(a, b)| a * b).sum::<f64>() + bt;
        let mu = match link {
            Link::Identity => eta,
            Link::Log => eta.exp(),
            Link::Logit => 1.0 / (1.0 + (-eta).exp()),
        };
        let yi = if link == Link::Logit {
            (mu + 0.2 * r.gauss()).max(0.02).min(0.98)
        } else if p == 0.0 {
            if link == Link::Log { (mu * (0.3 * r.gauss()).exp()).max(1e-2) } else { mu + 0.5 * r.gauss() }
        } else if p < 2.0 {
            if r.below(5) == 0 { 0.0 } else if p == 1.0 { (mu * (1.0 + 0.5 * r.gauss()).abs()).round() } else { mu * (1.0 + 0.5 * r.gauss()).abs() }
        } else {
            (mu * (0.3 * r.gauss()).exp()).max(1e-2)
        };
        x.push(u);
        y.push(yi);
    }
    // Poisson-type data must not be all zero (the optimum would be at mu = 0)
    if p >= 1.0 && p < 2.0 && y.iter().all(|v| *v == 0.0) {
        y[0] = 1.0;
    }
    (x, y)
}

/// is the stationarity claim made at target scale 2^m?  (filled in from the measured range, see props/C12.json)
///   log link, 1 <= p <= 2 (gradient unit c^(2-p) between c and 1): yes at every target scale of the sweep.
///   p = 0 (identity or log link: gradient unit c or c^2) and p = 3 at 2^20 (unit 1/c): not claimed - a step changes
///   the cost by less than argmin's absolute |delta cost| < EPSILON rule.  Gradient unit >= 2^10: tscale_out_of_range
///   (known finding F-C12-1), visited by a few probe cases only.
fn tstat_claimed(p: f64, link: Link, m: i32) -> bool {
    if std::env::var("C12_STAT_ALL").is_ok() { return true; }
    m == 0 || (link == Link::Log && p >= 1.0 && p <= 2.0)
}
/// log link: the gradient carries the unit c^(2-p) = 2^(m (2 - p)); from about 2^10 on (p < 2 at targets 2^20, p = 3 at
/// targets 2^-27 / 2^-30) the unit first step of L-BFGS overflows exp and the fit fails or hangs, like at large feature scales
fn tscale_out_of_range(p: f64, link: Link, m: i32) -> bool { link == Link::Log && (m as f64) * (2.0 - p) >= 10.0 }

/// smallest eigenvalue of the Hessian of 1/2 (deviance_p + alpha |w|^2) in (w, b) for the log link:
/// sum_i h_i (x_i, 1)(x_i, 1)^T + alpha diag(1.., 0),  h_i = mu_i^(1-p) ((2 - p) mu_i + (p - 1) y_i)  (>= 0 for 1 <= p <= 2)
fn glm_log_hess_min_eig(x: &[Vec<f64>], y: &[f64], p: f64, alpha: f64, w: &[f64], b: f64) -> f64 {
    let d = w.len();
    let m = d + 1;
    let mut h = vec![vec![0.0f64; m]; m];
    for (row, yi) in x.iter().zip(y) {
        let eta: f64 = row.iter().zip(w).map(|(a, c)| a * c).sum::<f64>() + b;
        let mu = eta.exp();
        let hi = mu.powf(1.0 - p) * ((2.0 - p) * mu + (p - 1.0) * yi);
        let mut v: Vec<f64> = row.clone();
        v.push(1.0);
        for a in 0..m { for c in 0..m { h[a][c] += hi * v[a] * v[c]; } }
    }
    for j in 0..d { h[j][j] += alpha; }
    // Jacobi eigenvalue iteration (symmetric, m <= 4)
    for _ in 0..60 {
        for a in 0..m { for c in (a + 1)..m {
            if h[a][c].abs() < 1e-300 { continue; }
            let th = 0.5 * (2.0 * h[a][c]).atan2(h[c][c] - h[a][a]);
            let (cs, sn) = (th.cos(), th.sin());
            for k in 0..m { let (u, v) = (h[k][a], h[k][c]); h[k][a] = cs * u - sn * v; h[k][c] = sn * u + cs * v; }
            for k in 0..m { let (u, v) = (h[a][k], h[c][k]); h[a][k] = cs * u - sn * v; h[c][k] = sn * u + cs * v; }
        } }
    }
    (0..m).map(|a| h[a][a]).fold(f64::INFINITY, f64::min)
}

fn glm_stream(rng: &mut Sm64, out: &mut Out, id: &mut u64, count: usize, thorough: bool) {
    let powers = [0.0, 1.0, 1.5, 1.2, 2.0, 3.0];
    for it in 0..count {
        let mut r = rng.fork();
        let p = powers[it % powers.len()];
        let link_opt: Option<Link> = match r.below(4) {
            0 => None,
            1 => Some(Link::Log),
            2 => Some(Link::Logit),
            _ => if p == 0.0 { Some(Link::Identity) } else { Some(Link::Log) },
        };
        let alpha = *r.pick(&ALPHAS);
        let icpt = if scale_for("glm", it) == -20 { r.below(2) != 0 } else { r.below(4) != 0 };
        let tol = *r.pick(&[1e-3, 1e-4, 1e-5]);
        let lays = Lays::of(it);
        let k2 = scale_for("glm", it);
        set_watchdog("glm", k2);
        let s2 = 2f64.powi(k2);
        let (alpha0, alpha, tol) = (alpha, alpha * s2 * s2, tol * tol_unit(s2, icpt));
        let _ = alpha0;
        let link = eff_link(&GlmCfg { power: p, link: link_opt, alpha, icpt, tol, maxit: 1000 });
        // target scale 2^m (only at feature scale 1; the logit link has no target unit).  d_p(c y, c mu) = c^(2-p) d_p(y, mu):
        //   log link: mu -> c mu is the intercept shift b + m ln 2, weights unchanged; deviance, hence alpha and the gradient
        //             (tolerance) carry the unit c^(2-p) (exponent rounded to an integer when m (2 - p) is not one);
        //             an intercept is fitted so that the shift is representable
        //   identity link: w, b -> c w, c b; deviance c^2 (p = 0), alpha unchanged, gradient and tolerance c
        let m2: i32 = if k2 != 0 || link == Link::Logit { 0 } else if let Ok(v) = std::env::var("C12_TSCALES") {
            let v: Vec<i32> = v.split(',').map(|t| t.trim().parse().unwrap()).collect();
            v[it % v.len()]
        } else {
            [-27, -20, 0, -30, 20][(it / 6 + it / 48) % 5] // it / 6: every power (it % 6) meets every target scale
        };
        // target scales at which the fit breaks down are kept for one case in four (probes with a short watchdog)
        let m2 = if tscale_out_of_range(p, link, m2) && it % 4 != 1 { 0 } else { m2 };
        let c2 = 2f64.powi(m2);
        let icpt = if m2 != 0 && link == Link::Log { true } else { icpt };
        let e_unit = m2 as f64 * (2.0 - p);
        let (alpha_base, tol_base) = (alpha, tol);
        let (alpha, tol, exact_cov) = if m2 == 0 { (alpha, tol, true) } else if link == Link::Log {
            let e = e_unit.round() as i32;
            (alpha * 2f64.powi(e), tol * 2f64.powi(e), e as f64 == e_unit || alpha == 0.0)
        } else {
            (alpha, tol * c2, p == 0.0)
        };
        let cfg = GlmCfg { power: p, link: link_opt, alpha, icpt, tol, maxit: 1000 };
        let d = 1 + r.below(3) as usize;
        // without a penalty the optimum must exist and be well determined: keep n comfortably above the number of unknowns
        let n = (if alpha == 0.0 { 5 * (d + 1) } else { d + 3 }) + r.below(if thorough { 40 } else { 28 }) as usize;
        let (x, y) = gen_glm_data(&mut r, p, link, d, n);
        let x: Vec<Vec<f64>> = x.iter().map(|row| row.iter().map(|v| v * s2).collect()).collect();
        let y_base = y.clone();
        let y: Vec<f64> = y.iter().map(|v| v * c2).collect();
        let stream = "glm";
        let stat = stat_claimed("glm", k2, icpt, frob(&x)) && tstat_claimed(p, link, m2) && !tscale_out_of_range(p, link, m2);
        let extra = format!("\"power\": {}, \"link\": {}, \"link_explicit\": {}, \"y_first\": {:?}, \"scale_log2\": {}, \"target_scale_log2\": {}, \"stationarity_claimed\": {}, {}", p, jstr(link_name(link)), link_opt.is_some(), &y[..2.min(y.len())], k2, m2, stat, lays.json());
        let desc = desc_common("TweedieRegressor", stream, n, d, 0, alpha, icpt, tol, &extra, &x[0]);
        let mut tags: Vec<String> = vec!["glm".into(), format!("power_{}", p), format!("link_{}", link_name(link))];
        tags.push(scale_tag(k2));
        if scale_out_of_range("glm", k2) { tags.push("scale_out_of_solver_range".into()); }
        tags.push(format!("tscale_2^{}", m2));
        // log link at small targets: the deviance, the cost and the gradient carry the unit u = c^(2-p) < 1; argmin stops when a
        // step changes the cost by less than EPSILON (absolute), i.e. at gradients of about sqrt(EPSILON u), so a tolerance
        // tol u below a few times that is not honoured (known finding F-C12-2; decidable from the hyper-parameters)
        let u_unit = if link == Link::Log && m2 != 0 { 2f64.powf(e_unit) } else { 1.0 };
        if u_unit < 1.0 && tol_base < 4.0 * (f64::EPSILON / u_unit).sqrt() {
            tags.push("tol_below_cost_resolution".into());
            out.bump("glm_tol_below_cost_resolution");
        }
        if tscale_out_of_range(p, link, m2) {
            tags.push("scale_out_of_solver_range".into());
            if std::env::var("C12_WATCHDOG").is_err() { WATCHDOG_SECS.store(3, std::sync::atomic::Ordering::Relaxed); }
        }
        out.bump(&format!("glm_target_scale_2^{}", m2));
        if m2 != 0 { out.bump(&format!("glm_target_scale_2^{}_link_{}_power_{}", m2, link_name(link), p)); }
        lays.tags(&mut tags);
        if !stat { tags.push("stationarity_not_claimed".into()); out.bump("stationarity_not_claimed"); }
        let tagrefs: Vec<&str> = tags.iter().map(|s| s.as_str()).collect();
        lays.bump(out, "glm");
        out.bump(&format!("glm_{}", scale_tag(k2)));
        out.bump("glm_fits");
        out.bump(&format!("glm_power_{}", p));
        out.bump(&format!("glm_link_{}", link_name(link)));
        let key = fnv_f64s(&[x.concat(), y.clone()].concat(), fnv(format!("g{}{:?}{}{}{}", p, link_opt, alpha, icpt, tol).as_bytes()));
        let q0 = vec![x[0].clone()];
        match fit_glm(x.clone(), d, y.clone(), cfg.clone(), q0.clone(), Lays { q: Lay::Std, ..lays }) {
            Err(e) => {
                out.rust_fail(*id, 1024, &tagrefs, &err_what(&e), &desc);
                out.rust_eval(&desc, None);
            }
            Ok(f0) => {
                let big: &[f64] = match link { Link::Log => &[300.0, -300.0, 650.0, -700.0], _ => &[1.0e3, -1.0e3, 7.0e3, -36.8] };
                // move the intercept out of the way: x . w = t - b
                let bigs: Vec<f64> = big.iter().map(|t| t - f0.b).collect();
                let q = gen_queries(&mut r, &x, d, &vec![s2; d], &f0.w, &bigs);
                match fit_glm(x.clone(), d, y.clone(), cfg.clone(), q.clone(), lays) {
                    Err(e) => {
                        out.rust_fail(*id, 1024, &tagrefs, &err_what(&e), &desc);
                        out.rust_eval(&desc, None);
                    }
                    Ok(f) => {
                        let term = glm_case_term(*id, &cfg, &x, &y, 0, stat, Some((&f, &q, lays.q)));
                        out.case(*id, &term, &tagrefs, &desc, Some(key));
                        // metamorphic oracle (Rust side): log link + intercept, convex family 1 <= p <= 2, exact covariance:
                        // the fit of the targets scaled by 2^m has the weights of the fit of the unscaled targets and the
                        // intercept shifted by m ln 2, up to what two tol-stationary points of a strongly convex objective
                        // can differ: |theta - theta'|_2 <= 2 * (2 tol) / lambda_min(Hessian at the reference fit)
                        if m2 != 0 && stat && link == Link::Log && exact_cov && p >= 1.0 && p <= 2.0 {
                            let base_cfg = GlmCfg { alpha: alpha_base, tol: tol_base, ..cfg.clone() };
                            match fit_glm(x.clone(), d, y_base.clone(), base_cfg, q0.clone(), Lays::std()) {
                                Err(_) => { out.bump("glm_metamorphic_reference_fit_failed"); }
                                Ok(fb) => {
                                    let lam = glm_log_hess_min_eig(&x, &y_base, p, alpha_base, &fb.w, fb.b);
                                    let bound = 4.0 * tol_base / lam + 1e-9;
                                    let mut dist2 = (f.b - (m2 as f64) * std::f64::consts::LN_2 - fb.b).powi(2);
                                    for j in 0..d { dist2 += (f.w[j] - fb.w[j]).powi(2); }
                                    let dist = dist2.sqrt();
                                    if lam > 0.0 && bound < 0.05 {
                                        out.bump("glm_metamorphic_target_scale_checked");
                                        if !(dist <= bound) {
                                            out.rust_fail(*id, 128, &tagrefs, &format!("target scale 2^{}: (weights, intercept - m ln 2) differ from the fit of the unscaled targets by {:e} > {:e} (tol {:e}, smallest Hessian eigenvalue {:e}); scaled fit w = {:?}, b = {}; reference w = {:?}, b = {}", m2, dist, bound, tol_base, lam, f.w, f.b, fb.w, fb.b), &desc);
                                        }
                                        out.rust_eval(&desc, None);
                                    } else {
                                        out.bump("glm_metamorphic_skipped_flat_objective");
                                    }
                                }
                            }
                        }
                    }
                }
            }
        }
        *id += 1;
    }
}

// ---------------------------------------------------------------------------------------------
// malformed inputs: the documented errors
// ---------------------------------------------------------------------------------------------

fn malformed_stream(rng: &mut Sm64, out: &mut Out, id: &mut u64, count: usize) {
    for it in 0..count {
        let mut r = rng.fork();
        let d = 1 + r.below(3) as usize;
        let n = 3 + r.below(8) as usize;
        let x: Vec<Vec<f64>> = (0..n).map(|_| (0..d).map(|_| r.gauss()).collect()).collect();
        let cfgb = BinCfg { alpha: 1.0, icpt: true, tol: 1e-4, maxit: 100, init: None, thr_mode: 0, thr_val: 0.5 };
        let q = vec![x[0].clone()];
        let lays = Lays { q: Lay::Std, ..Lays::of(it / 8 + it) };
        lays.bump(out, "malformed");
        set_watchdog("malformed", 0);
        match it % 8 {
            0 | 1 | 2 => {
                // binary model: one class / three or more classes (interleaved so that the third class appears late or early)
                let kcls = if it % 8 == 0 { 1 } else { 3 + r.below(2) as usize };
                let naming = if r.chance(0.5) {
                    Naming::Nums(vec![4, 1, 9, 0, 7])
                } else {
                    let mut pool: Vec<String> = STR_POOL.iter().map(|s| s.to_string()).collect();
                    r.shuffle(&mut pool);
                    Naming::Strs(pool[..5].to_vec())
                };
                let mut ids: Vec<usize> = (0..n).map(|i| if kcls == 1 { 0 } else { i % 2 }).collect();
                if kcls > 1 {
                    let pos = if it % 8 == 1 { n - 1 } else { r.below(n as u64) as usize };
                    ids[pos] = 2;
                    if kcls > 3 { ids[r.below(n as u64) as usize] = 3; }
                }
                let distinct = { let mut v = ids.clone(); v.sort(); v.dedup(); v.len() };
                let labels = naming.coq_labels(&ids);
                let res = call_bin(&naming, &ids, &x, d, &cfgb, &q, lays);
                let desc = format!("{{\"model\": \"LogisticRegression\", \"stream\": \"malformed_classes\", \"distinct_classes\": {}, \"n\": {}, \"class_ids\": {:?}}}", distinct, n, ids);
                out.bump("malformed_binary_class_count");
                let code = match &res { Err(FitErr::Lib(c, _)) => *c, Ok(_) => 0, _ => 99 };
                if distinct == 2 {
                    // happened to be a valid two-class problem: nothing to assert here
                    out.rust_eval(&desc, None);
                } else if code == 1 || code == 2 {
                    let term = bin_case_term(*id, &labels, &x, &cfgb, code, false, None);
                    out.case(*id, &term, &["malformed", "class_count"], &desc, Some(fnv(format!("{:?}", ids).as_bytes())));
                } else {
                    out.rust_fail(*id, 2048, &["malformed", "class_count"], &format!("binary fit on {} distinct classes did not return TooFewClasses/TooManyClasses: {:?}", distinct, res.as_ref().err()), &desc);
                    out.rust_eval(&desc, None);
                }
            }
            3 => {
                // mismatching shapes / non-finite values / wrong initial parameter shape
                let sub = r.below(4);
                let ids: Vec<usize> = (0..n).map(|i| i % 2).collect();
                let mut xx = x.clone();
                let mut idv = ids.clone();
                let mut cfg = cfgb.clone();
                let want = match sub {
                    0 => { idv.push(0); idv.push(1); 3 }
                    1 => { xx[r.below(n as u64) as usize][0] = f64::NAN; 4 }
                    2 => { xx[r.below(n as u64) as usize][d - 1] = f64::NEG_INFINITY; 4 }
                    _ => { cfg.init = Some(vec![0.0; d + 3]); 5 }
                };
                let desc = format!("{{\"model\": \"LogisticRegression\", \"stream\": \"malformed_data\", \"kind\": {}, \"n\": {}, \"d\": {}}}", sub, n, d);
                out.bump("malformed_binary_data");
                let lab: Vec<usize> = idv.clone();
                let res = fit_bin::<usize>(xx.clone(), d, lab, cfg, q.clone(), lays);
                let code = match &res { Err(FitErr::Lib(c, _)) => *c, Ok(_) => 0, _ => 99 };
                if code != want {
                    out.rust_fail(*id, 2048, &["malformed", "data"], &format!("expected error kind {} got {} ({:?})", want, code, res.as_ref().err()), &desc);
                }
                out.rust_eval(&desc, Some(fnv(desc.as_bytes())));
            }
            _ => {
                // GLM: targets outside / on the border of the support, invalid power
                let sub = it % 8;
                let (p, ybad, want): (f64, f64, u64) = match sub {
                    4 => (*r.pick(&[1.0, 1.5, 1.2, 1.999]), -(0.1 + r.unit()), 1),
                    5 => (*r.pick(&[2.0, 3.0, 2.5]), if r.chance(0.5) { 0.0 } else { -r.unit() }, 1),
                    6 => (*r.pick(&[0.5, 0.01, 0.999]), 1.0, 2),
                    _ => (*r.pick(&[1.0, 1.5, 1.2, 0.0]), if r.chance(0.5) { 0.0 } else { 0.5 }, 0), // border values that must be accepted
                };
                let mut y: Vec<f64> = (0..n).map(|_| 0.5 + r.unit()).collect();
                let pos = if r.chance(0.3) { n - 1 } else { r.below(n as u64) as usize };
                y[pos] = ybad;
                if p <= 0.0 { y[0] = -1.0 - r.unit(); }
                let xs: Vec<Vec<f64>> = x.iter().map(|row| row.iter().map(|v| 0.3 * v.max(-2.0).min(2.0)).collect()).collect();
                let cfg = GlmCfg { power: p, link: None, alpha: 1.0, icpt: true, tol: 1e-4, maxit: 200 };
                let res = fit_glm(xs.clone(), d, y.clone(), cfg.clone(), q.clone(), lays);
                let desc = format!("{{\"model\": \"TweedieRegressor\", \"stream\": \"malformed_glm\", \"power\": {}, \"bad_target\": {}, \"at\": {}, \"n\": {}, \"expect_error_kind\": {}}}", p, ybad, pos, n, want);
                out.bump(&format!("malformed_glm_expect_{}", want));
                let tags = ["malformed", "glm_support"];
                match res {
                    Ok(f) => {
                        let qq: Vec<Vec<f64>> = vec![q[0].clone()];
                        let term = glm_case_term(*id, &cfg, &xs, &y, 0, false, Some((&f, &qq, Lay::Std)));
                        out.case(*id, &term, &tags, &desc, Some(fnv(desc.as_bytes())));
                    }
                    Err(FitErr::Lib(c, _)) if c == 1 || c == 2 => {
                        let term = glm_case_term(*id, &cfg, &xs, &y, c, false, None);
                        out.case(*id, &term, &tags, &desc, Some(fnv(desc.as_bytes())));
                    }
                    Err(e) => {
                        if want != 0 {
                            out.rust_fail(*id, 2048, &tags, &format!("expected error kind {} got {:?}", want, e), &desc);
                        } else {
                            out.rust_fail(*id, 1024, &tags, &err_what(&e), &desc);
                        }
                        out.rust_eval(&desc, None);
                    }
                }
            }
        }
        *id += 1;
    }
}

fn main() {
    let args = parse_args();
    let mut rng = Sm64::new(args.seed);
    let thorough = args.tier == "thorough";
    let mut out = Out::new(&args.out, args.shards, "C12.Corr", "case", args.only);
    let mut id: u64 = 0;
    let (nb, nm, ng, nx) = if thorough { (700, 450, 600, 240) } else { (110, 70, 96, 48) };
    // experiments only: C12_STREAMS=binary,multi,... restricts the streams, C12_WATCHDOG=<s> shortens the watchdog
    let streams = std::env::var("C12_STREAMS").unwrap_or_else(|_| "binary,multi,glm,malformed,binary_f32".to_string());
    let on = |name: &str| streams.split(',').any(|t| t == name);
    if let Ok(v) = std::env::var("C12_WATCHDOG") { WATCHDOG_SECS.store(v.parse().unwrap(), std::sync::atomic::Ordering::Relaxed); }
    let (nb, nm, ng, nx) = (if on("binary") { nb } else { 0 }, if on("multi") { nm } else { 0 }, if on("glm") { ng } else { 0 }, if on("malformed") { nx } else { 0 });
    let mut r1 = rng.fork();
    binary_stream(&mut r1, &mut out, &mut id, nb, thorough);
    let mut r2 = rng.fork();
    id = 100_000;
    multi_stream(&mut r2, &mut out, &mut id, nm, thorough);
    let mut r3 = rng.fork();
    id = 200_000;
    glm_stream(&mut r3, &mut out, &mut id, ng, thorough);
    let mut r4 = rng.fork();
    id = 300_000;
    malformed_stream(&mut r4, &mut out, &mut id, nx);
    let mut r5 = rng.fork();
    id = 400_000;
    binary32_stream(&mut r5, &mut out, &mut id, if !on("binary_f32") { 0 } else if thorough { 300 } else { 48 });
    out.finish("binary: 2-class data (core of d+1 points carrying both classes when alpha = 0, noisy linear labels, per-feature scales 1e-2..1e2, class balance, sample order incl. minority/majority first and exact count ties, bool/usize/String labels with adversarial naming, optional initial parameters) x alpha {0,1e-3,1,100} x intercept x tolerance; binary_f32: LogisticRegression<f32> on the same families (scales 0.1..10, tolerance 1e-2 / 1e-3, start at zero), held to max(tolerance, 8 x the f32 cost resolution floor); decision thresholds 0.5, 0, 1, 0.3, the probability of the first query and its neighbouring floats, tiny / subnormal values; multinomial: 2..6 classes likewise (well-conditioned feature scales) plus the row-spread family of finding F37; GLM: powers {0,1,1.2,1.5,2,3} x links x alpha x intercept with targets in range and |x| <= 1; malformed: class-count errors, shape / non-finite / initial-parameter errors, GLM support violations and border values; every fitted case presents the same logical records / targets / query batch in a rotating memory layout (records and queries: row-major, column-major, reversed rows / reversed columns as view and as owned copy, step-2 slice of a (2n, 2d) array; targets: standard, reversed view / owned, step-2 slice) and in a rotating power-of-two feature unit (x 2^k, alpha 2^2k, tolerance in gradient units; k in {0, -20, 20, -40} for f64 logistic fits, {0, -20, -40} for GLM and f32, probes at 2^40 / 2^20 where argmin breaks down: known finding F-C12-1); GLM cases at feature scale 1 with the log or identity link additionally multiply the targets by 2^m, m in {-30, -27, -20, 20} (alpha and tolerance in the unit c^(2-p) of the deviance; metamorphic comparison with the unscaled fit for the log link); stationarity is claimed where the solver honours its tolerance (with intercept: all scales up to 2^20; without: |X|_F >= 2^-20), counted as stationarity_not_claimed otherwise; queries include stored rows, fresh rows, the origin and rows with |x.w| up to 1e4; non-trivial = every successfully fitted case; distinct = hashes of (data, labels, configuration)");
    std::process::exit(0);
}
