//! C10 harness: Gaussian-mixture fits on generated data; emits Coq cases for C10/Corr.v.
//!
//! Streams
//!   exact   : dyadic, widely separated blobs whose blob means are short dyadics. EM then runs with
//!             responsibilities that are exactly 0/1 and every sum/product of
//!             estimate_gaussian_parameters is exact, so weights/means/covariances are compared
//!             bit for bit with the Gallina model (C10/Model.v at B64_ops).
//!   general : separated / overlapping / anisotropic / degenerate / offset (1e3 and 1e5..2e9) / tiny blobs, 1..6 features,
//!             1..4 components, both initialisers, reg_covar in {0,1e-6,1e-2,..}; judged by the
//!             Coq checker gmm_ok (exact rational arithmetic) and by the posterior enclosure.
//!   layouts / scales: every case presents its records and batches in one of 7 memory layouts and at one of 5
//!             power-of-two scales (rotating with the case id); non-standard layouts must reproduce the standard
//!             outcome bit for bit (oracle bit 2048).
//!   error   : inputs on which fitting cannot succeed (max_n_iterations = 1, more components than
//!             distinct points, singular covariance without regularisation, overflowing data):
//!             the result must be Err - or a model that passes gmm_ok - never a panic or a model
//!             with non-finite parameters.
use linfa::prelude::*;
use linfa_clustering::{GaussianMixtureModel, GmmError, GmmInitMethod, KMeans};
use ndarray::{s, Array2, ArrayBase, Data, Ix2, ShapeBuilder};
use std::cell::{Cell, RefCell};
use rand::SeedableRng;
use rand_xoshiro::Xoshiro256Plus;
use vh::*;

type Mat = Vec<Vec<f64>>;

#[derive(Clone, Debug)]
struct Cfg {
    k: usize,
    reg: f64,
    tol: f64,
    max_iter: u64,
    n_runs: u64,
    random_init: bool,
    seed: u64,
}

struct FitOut {
    model: GaussianMixtureModel<f64>,
    w: Vec<f64>,
    mu: Mat,
    cov: Vec<Mat>,
    prec: Vec<Mat>,
    /// precisions_chol (a private field; read through the serde data model), empty when unavailable
    pchol: Vec<Mat>,
}

/// the variant of GmmError, numbered in the order of errors.rs (1 = InvalidValue)
fn err_kind(e: &GmmError) -> u64 {
    match e {
        GmmError::InvalidValue(_) => 1,
        GmmError::LinalgError(_) => 2,
        GmmError::EmptyCluster(_) => 3,
        GmmError::LowerBoundError(_) => 4,
        GmmError::NotConverged(_) => 5,
        GmmError::KMeansError(_) => 6,
        GmmError::LinfaError(_) => 7,
        GmmError::MinMaxError(_) => 8,
    }
}

/// precisions_chol of a fitted model: `serde_json::to_value` walks the serde data model without any text
/// round trip, so the f64 values arrive exactly (non-finite ones arrive as null -> NaN)
fn pchol_of(m: &GaussianMixtureModel<f64>) -> Vec<Mat> {
    let v = match serde_json::to_value(m) {
        Ok(v) => v,
        Err(_) => return vec![],
    };
    let a = &v["precisions_chol"];
    let dim: Vec<usize> = match a["dim"].as_array() {
        Some(d) => d.iter().map(|x| x.as_u64().unwrap_or(0) as usize).collect(),
        None => return vec![],
    };
    let data: Vec<f64> = match a["data"].as_array() {
        Some(d) => d.iter().map(|x| x.as_f64().unwrap_or(f64::NAN)).collect(),
        None => return vec![],
    };
    if dim.len() != 3 || data.len() != dim[0] * dim[1] * dim[2] {
        return vec![];
    }
    (0..dim[0])
        .map(|k| (0..dim[1]).map(|i| (0..dim[2]).map(|j| data[(k * dim[1] + i) * dim[2] + j]).collect()).collect())
        .collect()
}

fn arr(rows: &[Vec<f64>]) -> Array2<f64> {
    let d = if rows.is_empty() { 0 } else { rows[0].len() };
    Array2::from_shape_vec((rows.len(), d), rows.iter().flatten().cloned().collect()).unwrap()
}

fn mats(a: &ndarray::Array3<f64>) -> Vec<Mat> {
    a.outer_iter().map(|m| rows_of(&m)).collect()
}

/// Ok(Ok(fit)) | Ok(Err(error message)) | Err(panic message)
fn do_fit(x: &Array2<f64>, c: &Cfg) -> Result<Result<FitOut, String>, String> {
    do_fit_k(x, c).map(|r| r.map_err(|e| e.1))
}

// ------------------------------------------------------------------------------------------------
// memory layouts and scales: every case presents its records / query batches in one of seven layouts of the
// SAME logical matrix and at one of five power-of-two scales (rotating with the case id)

#[derive(Clone, Copy, PartialEq, Debug)]
enum Layout {
    Std,      // row-major, owned
    F,        // column-major (Fortran order), owned
    RevRowsV, // rows stored in reverse order, read through a view with a negative row stride
    RevRowsO, // `.to_owned()` of that view (keeps the negative stride)
    RevColsV, // columns stored in reverse order, negative column stride, view
    RevColsO, // `.to_owned()` of that view
    Strided,  // every second row and column of a (2n x 2p) array whose other entries are junk
}
const LAYOUTS: [Layout; 7] = [Layout::Std, Layout::F, Layout::RevRowsV, Layout::RevRowsO, Layout::RevColsV, Layout::RevColsO, Layout::Strided];
const SCALES: [i32; 5] = [0, -40, -20, 20, 40];
fn lname(l: Layout) -> &'static str {
    match l {
        Layout::Std => "std",
        Layout::F => "colmajor",
        Layout::RevRowsV => "revrows_view",
        Layout::RevRowsO => "revrows_owned",
        Layout::RevColsV => "revcols_view",
        Layout::RevColsO => "revcols_owned",
        Layout::Strided => "strided2",
    }
}
fn layout_x_of(id: u64) -> Layout { LAYOUTS[(id % 7) as usize] }
fn layout_q_of(id: u64) -> Layout { LAYOUTS[((id / 5) % 7) as usize] }
fn scale_of(id: u64) -> i32 { SCALES[(id % 5) as usize] }
fn pow2(e: i32) -> f64 { 2f64.powi(e) }

thread_local! {
    /// (layout of the records given to fit, layout of the batches given to predict / predict_proba)
    static CUR_LAYOUT: Cell<(Layout, Layout)> = Cell::new((Layout::Std, Layout::Std));
    /// context of the running case and the layout differences found in it
    static CUR_CTX: RefCell<(u64, Vec<String>, String)> = RefCell::new((0, vec![], String::new()));
    static LAYOUT_DIFFS: RefCell<Vec<(u64, Vec<String>, String, String)>> = RefCell::new(vec![]);
}
fn set_ctx(id: u64, tags: &[String], desc: &str) {
    CUR_LAYOUT.with(|c| c.set((layout_x_of(id), layout_q_of(id))));
    CUR_CTX.with(|c| *c.borrow_mut() = (id, tags.to_vec(), desc.to_string()));
}
fn note_diff(what: String) {
    let (id, tags, desc) = CUR_CTX.with(|c| c.borrow().clone());
    LAYOUT_DIFFS.with(|d| d.borrow_mut().push((id, tags, desc, what)));
}
/// report the layout differences collected so far (oracle bit 2048)
fn flush_diffs(out: &mut Out) {
    let ds: Vec<(u64, Vec<String>, String, String)> = LAYOUT_DIFFS.with(|d| d.borrow_mut().drain(..).collect());
    for (id, tags, desc, what) in ds {
        let t: Vec<&str> = tags.iter().map(|s| s.as_str()).collect();
        out.rust_fail(id, 2048, &t, &what, &desc);
    }
}

/// the store behind a layout: a standard-layout (or column-major) array that the views below read
fn backing(x: &Array2<f64>, l: Layout) -> Array2<f64> {
    let (n, p) = x.dim();
    match l {
        Layout::Std => x.clone(),
        Layout::F => {
            let mut a = Array2::zeros((n, p).f());
            a.assign(x);
            a
        }
        Layout::RevRowsV | Layout::RevRowsO => Array2::from_shape_fn((n, p), |(i, j)| x[[n - 1 - i, j]]),
        Layout::RevColsV | Layout::RevColsO => Array2::from_shape_fn((n, p), |(i, j)| x[[i, p - 1 - j]]),
        Layout::Strided => Array2::from_shape_fn((2 * n, 2 * p), |(i, j)| if i % 2 == 0 && j % 2 == 0 { x[[i / 2, j / 2]] } else { 7.0e7 + (31 * i + 17 * j) as f64 }),
    }
}
/// run `$f` (a generic function of one `ArrayBase<D, Ix2>` argument plus extra arguments) on the logical
/// matrix `$x` presented in layout `$l`
macro_rules! in_layout {
    ($x:expr, $l:expr, $f:ident $(, $arg:expr)*) => {{
        let b = backing($x, $l);
        match $l {
            Layout::Std | Layout::F => $f(b $(, $arg)*),
            Layout::RevRowsV => $f(b.slice(s![..;-1, ..]) $(, $arg)*),
            Layout::RevRowsO => $f(b.slice(s![..;-1, ..]).to_owned() $(, $arg)*),
            Layout::RevColsV => $f(b.slice(s![.., ..;-1]) $(, $arg)*),
            Layout::RevColsO => $f(b.slice(s![.., ..;-1]).to_owned() $(, $arg)*),
            Layout::Strided => $f(b.slice(s![..;2, ..;2]) $(, $arg)*),
        }
    }};
}

fn fit_any<D: Data<Elem = f64>>(recs: ArrayBase<D, Ix2>, c2: &Cfg) -> Result<FitOut, (u64, String)> {
    let rng = Xoshiro256Plus::seed_from_u64(c2.seed);
    let ds = DatasetBase::from(recs);
    let init = if c2.random_init { GmmInitMethod::Random } else { GmmInitMethod::KMeans };
    // both ways of building the parameter set: rng first, or every setter first and `with_rng` last
    // (which copies the fields one by one)
    let r = if c2.seed % 2 == 0 {
        GaussianMixtureModel::params_with_rng(c2.k, rng)
            .tolerance(c2.tol)
            .reg_covariance(c2.reg)
            .n_runs(c2.n_runs)
            .max_n_iterations(c2.max_iter)
            .init_method(init)
            .fit(&ds)
    } else {
        GaussianMixtureModel::params(c2.k)
            .tolerance(c2.tol)
            .reg_covariance(c2.reg)
            .n_runs(c2.n_runs)
            .max_n_iterations(c2.max_iter)
            .init_method(init)
            .with_rng(rng)
            .fit(&ds)
    };
    match r {
        Ok(m) => Ok(FitOut {
            w: m.weights().to_vec(),
            mu: rows_of(&m.means().view()),
            cov: mats(m.covariances()),
            prec: mats(m.precisions()),
            pchol: pchol_of(&m),
            model: m,
        }),
        Err(e) => Err((err_kind(&e), format!("{}", e).chars().take(160).collect())),
    }
}

type FitRes = Result<Result<FitOut, (u64, String)>, String>;
fn fit_in(x: &Array2<f64>, c: &Cfg, l: Layout) -> FitRes {
    let (x2, c2) = (x.clone(), c.clone());
    guarded(move || in_layout!(&x2, l, fit_any, &c2))
}

fn bits_eq(a: &[f64], b: &[f64]) -> bool {
    a.len() == b.len() && a.iter().zip(b).all(|(u, v)| u.to_bits() == v.to_bits() || (u.is_nan() && v.is_nan()))
}
fn flat(ms: &[Mat]) -> Vec<f64> {
    ms.iter().flatten().flatten().cloned().collect()
}
fn same_fit(a: &FitRes, b: &FitRes) -> Result<(), String> {
    match (a, b) {
        (Err(_), Err(_)) => Ok(()),
        (Ok(Err(e)), Ok(Err(f))) => if e.0 == f.0 { Ok(()) } else { Err(format!("error variant {} instead of {}", e.0, f.0)) },
        (Ok(Ok(f)), Ok(Ok(g))) => {
            if !bits_eq(&f.w, &g.w) { return Err("weights differ".into()); }
            if !bits_eq(&f.mu.concat(), &g.mu.concat()) { return Err("means differ".into()); }
            if !bits_eq(&flat(&f.cov), &flat(&g.cov)) { return Err("covariances differ".into()); }
            if !bits_eq(&flat(&f.prec), &flat(&g.prec)) { return Err("precisions differ".into()); }
            if !bits_eq(&flat(&f.pchol), &flat(&g.pchol)) { return Err("precisions_chol differ".into()); }
            Ok(())
        }
        (u, v) => {
            let n = |r: &FitRes| match r { Err(_) => "a panic".to_string(), Ok(Err(e)) => format!("Err(variant {})", e.0), Ok(Ok(_)) => "a model".to_string() };
            Err(format!("{} instead of {}", n(u), n(v)))
        }
    }
}

/// Ok(Ok(fit)) | Ok(Err((GmmError variant, error message))) | Err(panic message).  The records are presented in
/// the layout of the running case; when that is not the standard one the fit is repeated on the standard
/// layout and must give the same outcome bit for bit (the arithmetic of fit does not depend on the strides)
fn do_fit_k(x: &Array2<f64>, c: &Cfg) -> FitRes {
    let l = CUR_LAYOUT.with(|c| c.get()).0;
    let r = fit_in(x, c, l);
    if l != Layout::Std {
        let r0 = fit_in(x, c, Layout::Std);
        if let Err(what) = same_fit(&r, &r0) {
            note_diff(format!("fit on records in layout {} differs from the fit on the same records in standard layout: {}", lname(l), what));
        }
    }
    r
}

fn proba_any<D: Data<Elem = f64>>(q: ArrayBase<D, Ix2>, m: &GaussianMixtureModel<f64>) -> Mat {
    rows_of(&m.predict_proba(&q).view())
}
fn pred_any<D: Data<Elem = f64>>(q: ArrayBase<D, Ix2>, m: &GaussianMixtureModel<f64>) -> Vec<usize> {
    m.predict(&q).to_vec()
}
fn predict_in(m: &GaussianMixtureModel<f64>, q: &Array2<f64>, l: Layout) -> Result<(Mat, Vec<usize>), String> {
    let (m2, q2) = (m.clone(), q.clone());
    let proba = guarded(move || in_layout!(&q2, l, proba_any, &m2)).map_err(|e| format!("predict_proba panicked: {}", e))?;
    let (m3, q3) = (m.clone(), q.clone());
    let pred = guarded(move || in_layout!(&q3, l, pred_any, &m3)).map_err(|e| format!("predict panicked: {}", e))?;
    Ok((proba, pred))
}
fn do_predict(m: &GaussianMixtureModel<f64>, q: &Array2<f64>) -> Result<(Mat, Vec<usize>), String> {
    let l = CUR_LAYOUT.with(|c| c.get()).1;
    let r = predict_in(m, q, l);
    if l != Layout::Std {
        let r0 = predict_in(m, q, Layout::Std);
        match (&r, &r0) {
            (Ok((p, y)), Ok((p0, y0))) => {
                if !bits_eq(&p.concat(), &p0.concat()) {
                    note_diff(format!("predict_proba on a batch in layout {} differs from the same batch in standard layout", lname(l)));
                }
                if y != y0 {
                    note_diff(format!("predict on a batch in layout {} differs from the same batch in standard layout", lname(l)));
                }
            }
            (Err(_), Err(_)) => {}
            _ => note_diff(format!("predict / predict_proba panics on a batch in layout {} or in standard layout only", lname(l))),
        }
    }
    r
}

/// EM self-consistency (Rust side, independent M-step): with r = predict_proba(X) of the fitted model,
/// the published weights / means / covariances must be close to mean(r), the r-weighted means and the
/// r-weighted covariances (+ reg_covar): a fitted model is an (approximate) fixed point of EM.
/// Returns the largest deviations (weights abs., means in units of the component's largest standard
/// deviation, covariances relative to the component's largest variance).
fn em_residual(x: &Mat, r: &Mat, f: &FitOut, reg: f64) -> (f64, f64, f64) {
    let n = x.len();
    let d = x[0].len();
    let k = f.w.len();
    let (mut dw, mut dm, mut dc) = (0.0_f64, 0.0_f64, 0.0_f64);
    for c in 0..k {
        let nk: f64 = (0..n).map(|i| r[i][c]).sum();
        dw = dw.max((f.w[c] - nk / n as f64).abs());
        if nk < 1e-6 {
            continue;
        }
        let mu: Vec<f64> = (0..d).map(|a| (0..n).map(|i| r[i][c] * x[i][a]).sum::<f64>() / nk).collect();
        let vmax = (0..d).map(|a| f.cov[c][a][a].abs()).fold(0.0_f64, f64::max);
        for a in 0..d {
            dm = dm.max((mu[a] - f.mu[c][a]).abs() / vmax.sqrt().max(1e-300));
            for b in 0..d {
                let s: f64 = (0..n).map(|i| r[i][c] * (x[i][a] - mu[a]) * (x[i][b] - mu[b])).sum::<f64>() / nk + if a == b { reg } else { 0.0 };
                dc = dc.max((s - f.cov[c][a][b]).abs() / vmax.max(1e-300));
            }
        }
    }
    (dw, dm, dc)
}
// calibrated on ~13 000 k-means-initialised fits of the unchanged tree (8 seeds, thorough tier): the largest
// residuals seen were 0.012 (weights), 0.18 sd (means), 0.08 var (covariances)
const EM_TOL_W: f64 = 0.06;
const EM_TOL_M: f64 = 1.0;
const EM_TOL_C: f64 = 0.5;

fn em_check(out: &mut Out, id: u64, tags: &[&str], desc: &str, x: &Mat, xp: &Mat, f: &FitOut, reg: f64) {
    if !xp.iter().flatten().all(|v| v.is_finite()) {
        return; // judged by the probability oracle
    }
    if tags.contains(&"init_random") {
        // the random initialiser starts from nearly identical components: the lower bound barely moves and
        // EM may stop on that plateau, far from a fixed point (observed: residuals up to 100% of the variance)
        return;
    }
    let (dw, dm, dc) = em_residual(x, xp, f, reg);
    let worst = (dw / EM_TOL_W).max(dm / EM_TOL_M).max(dc / EM_TOL_C);
    if worst > 0.2 && std::env::var("VERIF_C10_DEBUG").is_ok() {
        eprintln!("em_residual id={} dw={:.3e} dm={:.3e} dc={:.3e} {}", id, dw, dm, dc, desc);
    }
    out.bump(if worst < 0.01 { "em_residual_below_1pct_of_tol" } else if worst < 0.2 { "em_residual_below_20pct_of_tol" } else if worst <= 1.0 { "em_residual_20_to_100pct_of_tol" } else { "em_residual_above_tol" });
    if !(worst <= 1.0) {
        out.rust_fail(
            id,
            1024,
            tags,
            &format!("published parameters are not the M-step of the model's own responsibilities: |dw| = {:.3e}, |dmean|/sd = {:.3e}, |dcov|/var = {:.3e}", dw, dm, dc),
            desc,
        );
    }
}

fn all_finite(f: &FitOut) -> bool {
    f.w.iter().all(|v| v.is_finite())
        && f.mu.iter().flatten().all(|v| v.is_finite())
        && f.cov.iter().flatten().flatten().all(|v| v.is_finite())
        && f.prec.iter().flatten().flatten().all(|v| v.is_finite())
}

// ------------------------------------------------------------------------------------------------
// data generators

/// exact stream: returns (rows, blob label of each row)
fn gen_exact(r: &mut Sm64, k: usize, d: usize) -> (Mat, Vec<usize>) {
    // distinct blob centres on a coarse lattice (spacing 1024), offsets are multiples of 1/8 in [-2, 2]
    let mut centres: Vec<Vec<i64>> = Vec::new();
    while centres.len() < k {
        let c: Vec<i64> = (0..d).map(|_| r.range(-2, 2)).collect();
        if !centres.contains(&c) {
            centres.push(c);
        }
        if d == 1 && centres.len() == 5 {
            break;
        }
    }
    let mut rows: Mat = Vec::new();
    let mut lab: Vec<usize> = Vec::new();
    let mut sizes: Vec<i64> = Vec::new();
    for b in 0..k {
        // unequal blob sizes so that a wrong nk index is visible
        let mut nb = r.range(2, 9);
        while sizes.contains(&nb) && r.chance(0.8) {
            nb = r.range(2, 9);
        }
        sizes.push(nb);
        let mut offs: Vec<Vec<i64>> = (0..nb - 1).map(|_| (0..d).map(|_| r.range(-16, 16)).collect()).collect();
        let last: Vec<i64> = (0..d)
            .map(|j| {
                let s: i64 = offs.iter().map(|o| o[j]).sum();
                (-s).rem_euclid(nb)
            })
            .collect();
        offs.push(last);
        for o in offs {
            rows.push((0..d).map(|j| centres[b][j] as f64 * 1024.0 + o[j] as f64 / 8.0).collect());
            lab.push(b);
        }
    }
    // interleave the blobs
    let mut idx: Vec<usize> = (0..rows.len()).collect();
    r.shuffle(&mut idx);
    (idx.iter().map(|&i| rows[i].clone()).collect(), idx.iter().map(|&i| lab[i]).collect())
}

fn rand_unit(r: &mut Sm64, d: usize) -> Vec<f64> {
    loop {
        let v: Vec<f64> = (0..d).map(|_| r.gauss()).collect();
        let n = v.iter().map(|x| x * x).sum::<f64>().sqrt();
        if n > 1e-6 {
            return v.iter().map(|x| x / n).collect();
        }
    }
}

/// general stream; kind: 0 separated, 1 overlapping, 2 anisotropic, 3 degenerate (duplicated / constant
/// feature), 4 large offset, 5 tiny scale, 6 tight blobs (spread below sqrt(reg_covar)), 7 blobs of unit spread
/// at an offset of 1e5..2e9 from the origin (cancellation in any uncentred second-moment formula)
fn gen_general(r: &mut Sm64, nblobs: usize, per: usize, d: usize, kind: u64) -> Mat {
    let far_offset = if kind == 7 { 10f64.powf(5.0 + 4.3 * r.unit()) * if r.chance(0.5) { -1.0 } else { 1.0 } } else { 0.0 };
    let sep = match kind { 1 => 1.5, 6 => 3.0, _ => 12.0 };
    let centres: Mat = (0..nblobs).map(|_| (0..d).map(|_| sep * r.gauss()).collect()).collect();
    // per-blob linear map
    let maps: Vec<Mat> = (0..nblobs)
        .map(|_| {
            (0..d)
                .map(|i| {
                    (0..d)
                        .map(|j| match kind {
                            2 => (if i == j { 1.0 } else { 0.0 }) * (if i == 0 { 3.0 } else { 0.3 }) + 0.6 * r.gauss(),
                            6 => if i == j { 0.02 } else { 0.0 },
                            _ => if i == j { 0.5 + r.unit() } else { 0.0 },
                        })
                        .collect()
                })
                .collect()
        })
        .collect();
    let mut rows: Mat = Vec::new();
    for b in 0..nblobs {
        let nb = per + r.below(per as u64 / 2 + 1) as usize;
        for _ in 0..nb {
            let z: Vec<f64> = (0..d).map(|_| r.gauss()).collect();
            let mut x: Vec<f64> = (0..d).map(|i| centres[b][i] + (0..d).map(|j| maps[b][i][j] * z[j]).sum::<f64>()).collect();
            match kind {
                3 => {
                    // last feature is a copy of the first (d >= 2) or constant (d = 1)
                    if d >= 2 { x[d - 1] = x[0]; } else { x[0] = 1.25; }
                }
                4 => { for v in x.iter_mut() { *v += 1000.0; } }
                7 => { for v in x.iter_mut() { *v += far_offset; } }
                5 => { for v in x.iter_mut() { *v *= 1e-3; } }
                _ => {}
            }
            rows.push(x);
        }
    }
    let mut idx: Vec<usize> = (0..rows.len()).collect();
    r.shuffle(&mut idx);
    idx.iter().map(|&i| rows[i].clone()).collect()
}

/// query batch: training points, component means, midpoints between means, and points 10..1e6 standard
/// deviations away from a component (random and axis directions) or from all of them
fn gen_queries(r: &mut Sm64, x: &Mat, f: &FitOut, nq_far: usize) -> (Mat, Vec<&'static str>) {
    gen_queries_mc(r, x, &f.mu, &f.cov, nq_far)
}

struct MuCov<'a> {
    mu: &'a Mat,
    cov: &'a [Mat],
}

fn gen_queries_mc(r: &mut Sm64, x: &Mat, mu: &Mat, cov: &[Mat], nq_far: usize) -> (Mat, Vec<&'static str>) {
    let f = MuCov { mu, cov };
    let d = x[0].len();
    let k = f.mu.len();
    let mut q: Mat = Vec::new();
    let mut kinds: Vec<&'static str> = Vec::new();
    for _ in 0..3 {
        q.push(x[r.below(x.len() as u64) as usize].clone());
        kinds.push("train");
    }
    q.push(f.mu[r.below(k as u64) as usize].clone());
    kinds.push("mean");
    if k >= 2 {
        let a = r.below(k as u64) as usize;
        let b = (a + 1 + r.below(k as u64 - 1) as usize) % k;
        q.push((0..d).map(|j| 0.5 * (f.mu[a][j] + f.mu[b][j])).collect());
        kinds.push("mid");
    }
    let scales = [10.0, 1e2, 1e3, 1e4, 1e5, 1e6];
    for i in 0..nq_far {
        let j = r.below(k as u64) as usize;
        let sd = (0..d).map(|a| f.cov[j][a][a].abs()).fold(0.0_f64, f64::max).sqrt();
        let t = scales[(i + r.below(2) as usize) % scales.len()];
        let u = if r.chance(0.3) {
            let mut e = vec![0.0; d];
            e[r.below(d as u64) as usize] = if r.chance(0.5) { 1.0 } else { -1.0 };
            e
        } else {
            rand_unit(r, d)
        };
        if r.chance(0.5) {
            q.push((0..d).map(|a| f.mu[j][a] + t * sd * u[a]).collect());
        } else {
            // far from every component: start from the centre of the means, step by the largest spread
            let c: Vec<f64> = (0..d).map(|a| f.mu.iter().map(|m| m[a]).sum::<f64>() / k as f64).collect();
            let spread = f.mu.iter().map(|m| (0..d).map(|a| (m[a] - c[a]).abs()).fold(0.0_f64, f64::max)).fold(0.0_f64, f64::max);
            let sdmax = f.cov.iter().map(|cv| (0..d).map(|a| cv[a][a].abs()).fold(0.0_f64, f64::max)).fold(0.0_f64, f64::max).sqrt();
            q.push((0..d).map(|a| c[a] + (spread + t * sdmax) * u[a]).collect());
        }
        kinds.push("far");
    }
    (q, kinds)
}

fn cmats(ms: &[Mat]) -> String {
    clist(ms, |m| cmat64(m))
}

#[allow(clippy::too_many_arguments)]
fn case_term(id: u64, k: usize, d: usize, reg: f64, x: &Mat, exact: bool, f: &FitOut, xproba: &Mat, q: &Mat, proba: &Mat, pred: &[usize]) -> String {
    format!(
        "Std {{| c_id := {}; c_k := {}; c_d := {}; c_reg := {}; c_X := {}; c_exact := {}; c_weights := {}; c_means := {}; c_covs := {}; c_precs := {}; c_pchol := {}; c_xproba := {}; c_query := {}; c_proba := {}; c_pred := {} |}}",
        cn(id), cn(k as u64), cn(d as u64), sf64(reg), cmat64(x), cbool(exact), cvec64(&f.w), cmat64(&f.mu), cmats(&f.cov), cmats(&f.prec), cmats(&f.pchol),
        cmat64(xproba), cmat64(q), cmat64(proba), cvecn(pred)
    )
}

fn one_hot_partition(p: &Mat) -> Option<Vec<usize>> {
    let mut lab = Vec::new();
    for row in p {
        if !row.iter().all(|&v| v == 0.0 || v == 1.0) || row.iter().filter(|&&v| v == 1.0).count() != 1 {
            return None;
        }
        lab.push(row.iter().position(|&v| v == 1.0).unwrap());
    }
    Some(lab)
}

fn same_partition(a: &[usize], b: &[usize]) -> bool {
    a.len() == b.len() && (0..a.len()).all(|i| (0..a.len()).all(|j| (a[i] == a[j]) == (b[i] == b[j])))
}

fn desc_json(stream: &str, kind: u64, n: usize, d: usize, c: &Cfg, extra: &str, x0: &[f64]) -> String {
    format!(
        "{{\"stream\": {}, \"kind\": {}, \"n\": {}, \"d\": {}, \"k\": {}, \"reg_covar\": {:e}, \"tolerance\": {:e}, \"max_n_iterations\": {}, \"n_runs\": {}, \"init\": {}, \"rng_seed\": {}, {}\"X_first_row\": {:?}}}",
        jstr(stream), kind, n, d, c.k, c.reg, c.tol, c.max_iter, c.n_runs, jstr(if c.random_init { "Random" } else { "KMeans" }), c.seed, extra, x0
    )
}


// ------------------------------------------------------------------------------------------------
// fit stream: whole-fit model (C10/FitModel.v) against the implementation on degenerate exact inputs

/// distinct lattice centres (coordinates in -2..2, scaled by 1024 by the callers)
fn lattice_centres(r: &mut Sm64, k: usize, d: usize) -> Vec<Vec<i64>> {
    let mut centres: Vec<Vec<i64>> = Vec::new();
    let mut guard = 0;
    while centres.len() < k && guard < 1000 {
        guard += 1;
        let c: Vec<i64> = (0..d).map(|_| r.range(-2, 2)).collect();
        if !centres.contains(&c) {
            centres.push(c);
        }
    }
    centres
}

/// data families of the fit stream; returns (rows, intended component of every row)
///   0 separated dyadic blobs (as the exact stream)      1 collapsed: every blob is one point repeated
///   2 axis crosses (diagonal sample covariances)        3 fewer distinct points than components
///   4 one blob with a constant feature                  5 one blob (one component, Random initialiser)
fn gen_fit_data(r: &mut Sm64, fk: u64, k: usize, d: usize) -> (Mat, Vec<usize>) {
    let mut rows: Mat = Vec::new();
    let mut lab: Vec<usize> = Vec::new();
    match fk {
        1 | 3 => {
            let cs = lattice_centres(r, k, d);
            let single = r.chance(0.3);
            for (b, c) in cs.iter().enumerate() {
                let p: Vec<f64> = (0..d).map(|j| c[j] as f64 * 1024.0 + r.range(-16, 16) as f64 / 8.0).collect();
                // family 3 also produces fewer observations than components (every location once)
                let reps = if fk == 3 && single { 1 } else { r.range(2, 6) };
                for _ in 0..reps {
                    rows.push(p.clone());
                    lab.push(b);
                }
            }
        }
        2 => {
            let cs = lattice_centres(r, k, d);
            for (b, c) in cs.iter().enumerate() {
                let ctr: Vec<f64> = (0..d).map(|j| c[j] as f64 * 1024.0 + r.range(-16, 16) as f64 / 8.0).collect();
                for j in 0..d {
                    let a = *r.pick(&[0.125, 0.25, 0.5, 1.0]);
                    for sgn in [-1.0, 1.0] {
                        let mut p = ctr.clone();
                        p[j] += sgn * a;
                        rows.push(p);
                        lab.push(b);
                    }
                }
                for _ in 0..r.below(3) {
                    rows.push(ctr.clone());
                    lab.push(b);
                }
            }
        }
        4 => {
            let (mut x, l) = gen_exact(r, 1, d);
            let j = r.below(d as u64) as usize;
            for row in x.iter_mut() {
                row[j] = 1.25;
            }
            return (x, l);
        }
        _ => return gen_exact(r, k, d),
    }
    let mut idx: Vec<usize> = (0..rows.len()).collect();
    r.shuffle(&mut idx);
    (idx.iter().map(|&i| rows[i].clone()).collect(), idx.iter().map(|&i| lab[i]).collect())
}

/// the initial responsibilities of GaussianMixtureModel::new with the KMeans initialiser, obtained the way
/// `new` obtains them (same public calls, same generator state): Ok(Ok(resp)) | Ok(Err(message)) | Err(panic)
fn kmeans_init_resp(x: &Array2<f64>, k: usize, seed: u64) -> Result<Result<Mat, String>, String> {
    let x2 = x.clone();
    guarded(move || {
        let rng = Xoshiro256Plus::seed_from_u64(seed);
        let ds = DatasetBase::from(x2);
        match KMeans::params_with_rng(k, rng).check().unwrap().fit(&ds) {
            Ok(model) => {
                let mut resp = vec![vec![0.0; k]; ds.records().nrows()];
                for (i, idx) in model.predict(ds.records()).iter().enumerate() {
                    resp[i][*idx] = 1.0;
                }
                Ok(resp)
            }
            Err(e) => Err(format!("{}", e)),
        }
    })
}

struct Probe {
    max_iter: u64,
    n_runs: u64,
    /// 0 = Ok, 1..8 = GmmError variant, 100 = panic
    kind: u64,
    fit: Option<FitOut>,
    xproba: Mat,
    pred: Vec<usize>,
}

fn cpairs(t: &[(f64, f64)]) -> String {
    format!("({})%float", clist(t, |p| format!("({}, {})", cf64(p.0), cf64(p.1))))
}

fn probe_term(p: &Probe) -> String {
    let e: Mat = vec![];
    let em: Vec<Mat> = vec![];
    let (w, mu, cov, prec, pchol) = match &p.fit {
        Some(f) => (cvec64(&f.w), cmat64(&f.mu), cmats(&f.cov), cmats(&f.prec), cmats(&f.pchol)),
        None => (cvec64(&[]), cmat64(&e), cmats(&em), cmats(&em), cmats(&em)),
    };
    format!(
        "{{| p_max_iter := {}; p_n_runs := {}; p_kind := {}; p_w := {}; p_mu := {}; p_cov := {}; p_prec := {}; p_pchol := {}; p_xproba := {}; p_pred := {} |}}",
        cn(p.max_iter), cn(p.n_runs), cn(p.kind), w, mu, cov, prec, pchol, cmat64(&p.xproba), cvecn(&p.pred)
    )
}

// ------------------------------------------------------------------------------------------------
// binary32 stream: GaussianMixtureModel::<f32>

struct Fit32 {
    model: GaussianMixtureModel<f32>,
    w: Vec<f64>,
    mu: Mat,
    cov: Vec<Mat>,
    prec: Vec<Mat>,
}
fn rows32(a: &ndarray::ArrayView2<f32>) -> Mat {
    a.rows().into_iter().map(|r| r.iter().map(|&v| v as f64).collect()).collect()
}
fn arr32(rows: &[Vec<f64>]) -> ndarray::Array2<f32> {
    let d = if rows.is_empty() { 0 } else { rows[0].len() };
    ndarray::Array2::from_shape_vec((rows.len(), d), rows.iter().flatten().map(|&v| v as f32).collect()).unwrap()
}
/// every value rounded to binary32 (and widened again: each f32 is an f64)
fn round32(x: &Mat) -> Mat {
    x.iter().map(|r| r.iter().map(|&v| v as f32 as f64).collect()).collect()
}
/// Ok(Ok(fit)) | Ok(Err((GmmError variant, message))) | Err(panic message)
fn do_fit32(x: &Mat, c: &Cfg) -> Result<Result<Fit32, (u64, String)>, String> {
    let (x2, c2) = (arr32(x), c.clone());
    guarded(move || {
        let rng = Xoshiro256Plus::seed_from_u64(c2.seed);
        let ds = DatasetBase::from(x2);
        let init = if c2.random_init { GmmInitMethod::Random } else { GmmInitMethod::KMeans };
        let r = GaussianMixtureModel::<f32>::params_with_rng(c2.k, rng)
            .tolerance(c2.tol as f32)
            .reg_covariance(c2.reg as f32)
            .n_runs(c2.n_runs)
            .max_n_iterations(c2.max_iter)
            .init_method(init)
            .fit(&ds);
        match r {
            Ok(m) => Ok(Fit32 {
                w: m.weights().iter().map(|&v| v as f64).collect(),
                mu: rows32(&m.means().view()),
                cov: m.covariances().outer_iter().map(|a| rows32(&a)).collect(),
                prec: m.precisions().outer_iter().map(|a| rows32(&a)).collect(),
                model: m,
            }),
            Err(e) => Err((err_kind(&e), format!("{}", e).chars().take(160).collect())),
        }
    })
}
fn do_predict32(m: &GaussianMixtureModel<f32>, q: &Mat) -> Result<(Mat, Vec<usize>), String> {
    let (m2, q2) = (m.clone(), arr32(q));
    let proba = guarded(move || rows32(&m2.predict_proba(&q2).view())).map_err(|e| format!("predict_proba panicked: {}", e))?;
    let (m3, q3) = (m.clone(), arr32(q));
    let pred = guarded(move || m3.predict(&q3).to_vec()).map_err(|e| format!("predict panicked: {}", e))?;
    Ok((proba, pred))
}
/// rank-deficient families (binary32 values): 0 third feature = sum of the two others (fl32), 1 duplicated
/// feature, 2 all points on a line through a lattice point, 3 few distinct points (at most d) repeated
fn gen_singular32(r: &mut Sm64, fam: u64, n: usize, d: usize) -> Mat {
    let mut rows: Mat = Vec::new();
    match fam {
        0 => {
            for _ in 0..n {
                let a = (2.0 * r.unit() - 1.0) as f32;
                let b = (2.0 * r.unit() - 1.0) as f32;
                let mut row = vec![a as f64, b as f64, (a + b) as f64];
                for _ in 3..d { row.push(r.gauss() as f32 as f64); }
                rows.push(row);
            }
        }
        1 => {
            for _ in 0..n {
                let mut row: Vec<f64> = (0..d).map(|_| (3.0 * r.gauss()) as f32 as f64).collect();
                if d >= 2 { row[d - 1] = row[0]; } else { row[0] = 1.25; }
                rows.push(row);
            }
        }
        2 => {
            let v: Vec<f64> = (0..d).map(|_| r.range(-4, 4) as f64).collect();
            let c: Vec<f64> = (0..d).map(|_| r.range(-8, 8) as f64).collect();
            for _ in 0..n {
                let t = (r.gauss() as f32) as f64;
                rows.push((0..d).map(|j| (c[j] + t * v[j]) as f32 as f64).collect());
            }
        }
        _ => {
            let m = 1 + r.below(d as u64) as usize;
            let pts: Mat = (0..m).map(|_| (0..d).map(|_| (r.range(-64, 64) as f64) / 8.0).collect()).collect();
            for i in 0..n { rows.push(pts[i % m].clone()); }
        }
    }
    rows
}

fn scaled(x: &Mat, e: i32) -> Mat {
    let f = pow2(e);
    x.iter().map(|r| r.iter().map(|v| v * f).collect()).collect()
}
/// tags, description fields and input-distribution counters of the layout / scale variant of case `id`
fn variant(out: &mut Out, id: u64, sc: i32, tags: &mut Vec<String>) -> String {
    let (lx, lq) = (layout_x_of(id), layout_q_of(id));
    tags.push(format!("layout_{}", lname(lx)));
    tags.push(format!("qlayout_{}", lname(lq)));
    tags.push(format!("scale_{}", sc));
    out.bump(&format!("layout_records_{}", lname(lx)));
    out.bump(&format!("layout_batches_{}", lname(lq)));
    out.bump(&format!("scale_2^{}", sc));
    format!("\"layout_records\": {}, \"layout_batches\": {}, \"scale_log2\": {}, ", jstr(lname(lx)), jstr(lname(lq)), sc)
}

/// the layouts are what they claim to be (a failure here is a defect of the harness, not of the repository)
fn layout_self_check() {
    let x = Array2::from_shape_fn((3, 2), |(i, j)| (10 * i + j) as f64);
    fn probe<D: Data<Elem = f64>>(a: ArrayBase<D, Ix2>, want: &Array2<f64>) -> (Vec<isize>, bool, bool) {
        (a.strides().to_vec(), a == *want, a.as_slice_memory_order().is_some())
    }
    for &l in LAYOUTS.iter() {
        let (st, same, contiguous) = in_layout!(&x, l, probe, &x);
        assert!(same, "layout {} does not present the logical matrix", lname(l));
        let ok = match l {
            Layout::Std => st == vec![2, 1],
            Layout::F => st == vec![1, 3] && contiguous,
            Layout::RevRowsV | Layout::RevRowsO => st == vec![-2, 1] && contiguous,
            Layout::RevColsV | Layout::RevColsO => st == vec![2, -1] && contiguous,
            Layout::Strided => st == vec![8, 2] && !contiguous,
        };
        assert!(ok, "layout {} has strides {:?}", lname(l), st);
    }
}

fn main() {
    layout_self_check();
    let args = parse_args();
    let mut rng = Sm64::new(args.seed);
    let thorough = args.tier == "thorough";
    let (n_exact, n_general, n_error) = if thorough { (900, 1500, 400) } else { (80, 100, 40) };
    let mut out = Out::new(&args.out, args.shards, "C10.Corr", "case", args.only);
    let mut id: u64 = 0;

    // ---------------------------------------------------------------- exact stream
    for _ in 0..n_exact {
        let mut r = rng.fork();
        let d = 1 + r.below(4) as usize;
        let k = 1 + r.below(if d == 1 { 3 } else { 4 }) as usize;
        flush_diffs(&mut out);
        let (x, lab) = gen_exact(&mut r, k, d);
        // power-of-two scale of the case: the data by 2^sc, reg_covar (a variance) by 2^(2 sc); the tolerance
        // bounds a change of the mean log-likelihood, which a rescaling only shifts: it is not scaled
        let sc = scale_of(id);
        let x = scaled(&x, sc);
        let k = 1 + *lab.iter().max().unwrap();
        let regs = [0.0009765625, 1e-6, 1e-2, 1e-6, 0.25, 0.0];
        let cfg = Cfg {
            k,
            reg: *r.pick(&regs) * pow2(2 * sc),
            tol: *r.pick(&[1e-3, 1e-5, 1e-8]),
            max_iter: *r.pick(&[2, 3, 100, 200]),
            n_runs: *r.pick(&[1, 1, 2, 3]),
            random_init: r.chance(0.2),
            seed: r.below(1 << 20),
        };
        let xa = arr(&x);
        let mut tags: Vec<String> = vec!["stream_exact".into(), format!("k_{}", k), format!("d_{}", d), format!("init_{}", if cfg.random_init { "random" } else { "kmeans" })];
        let vdesc = variant(&mut out, id, sc, &mut tags);
        let desc = desc_json("exact", 0, x.len(), d, &cfg, &vdesc, &x[0]);
        if cfg.reg == 0.0 { tags.push("reg_zero".into()); }
        // a blob with at most d points has an exactly singular covariance (rank <= points - 1 < d)
        if (0..k).any(|b| lab.iter().filter(|&&l| l == b).count() <= d) { tags.push("tiny_blob".into()); }
        out.bump("stream_exact");
        out.bump(&format!("exact_k_{}", k));
        set_ctx(id, &tags, &desc);
        let res = do_fit(&xa, &cfg);
        let this = id;
        id += 1;
        match res {
            Err(p) => {
                let t: Vec<&str> = tags.iter().map(|s| s.as_str()).collect();
                out.rust_fail(this, 256, &t, &format!("fit panicked: {}", p), &desc);
                out.rust_eval(&desc, None);
            }
            Ok(Err(e)) => {
                out.bump("exact_fit_err");
                // one component and positive regularisation: EM is at its fixed point after one step,
                // so with >= 2 iterations the fit must succeed
                if k == 1 && cfg.reg > 0.0 {
                    let t: Vec<&str> = tags.iter().map(|s| s.as_str()).collect();
                    out.rust_fail(this, 256, &t, &format!("fit failed on one-component data with reg_covar > 0: {}", e), &desc);
                }
                out.rust_eval(&desc, None);
            }
            Ok(Ok(f)) => {
                let xp = match do_predict(&f.model, &xa) {
                    Ok((p, _)) => p,
                    Err(e) => {
                        let t: Vec<&str> = tags.iter().map(|s| s.as_str()).collect();
                        out.rust_fail(this, 64, &t, &e, &desc);
                        out.rust_eval(&desc, None);
                        continue;
                    }
                };
                {
                    let t: Vec<&str> = tags.iter().map(|s| s.as_str()).collect();
                    em_check(&mut out, this, &t, &desc, &x, &xp, &f, cfg.reg);
                }
                let exact = match one_hot_partition(&xp) {
                    Some(p) => same_partition(&p, &lab),
                    None => false,
                };
                out.bump(if exact { "exact_compared_bit_for_bit" } else { "exact_not_hard_assigned" });
                let (q, _) = gen_queries(&mut r, &x, &f, if thorough { 4 } else { 2 });
                let qa = arr(&q);
                match do_predict(&f.model, &qa) {
                    Ok((proba, pred)) => {
                        let t: Vec<&str> = tags.iter().map(|s| s.as_str()).collect();
                        let key = if exact && (k > 1 || d > 1) { Some(fnv_f64s(&x.concat(), (k as u64) << 8 | 1)) } else { None };
                        // the training-set probabilities are shipped only when they are needed (exact comparison)
                        let xps: Mat = if exact { xp } else { vec![] };
                        out.case(this, &case_term(this, k, d, cfg.reg, &x, exact, &f, &xps, &q, &proba, &pred), &t, &desc, key);
                    }
                    Err(e) => {
                        let t: Vec<&str> = tags.iter().map(|s| s.as_str()).collect();
                        out.rust_fail(this, 64, &t, &e, &desc);
                        out.rust_eval(&desc, None);
                    }
                }
            }
        }
    }

    // ---------------------------------------------------------------- general stream
    for _ in 0..n_general {
        let mut r = rng.fork();
        let d = 1 + r.below(6) as usize;
        let kind = r.below(8);
        let nblobs = 1 + r.below(4) as usize;
        let k = if r.chance(0.75) { nblobs } else { 1 + r.below(4) as usize };
        // far from the origin half of the fits use one component: with reg_covar > 0 such a fit must succeed
        let k = if kind == 7 && r.chance(0.5) { 1 } else { k };
        let per = if thorough { 12 + r.below(30) as usize } else { 10 + r.below(14) as usize };
        flush_diffs(&mut out);
        let sc = scale_of(id);
        let x = scaled(&gen_general(&mut r, nblobs, per.max(d + 4), d, kind), sc);
        let reg = pow2(2 * sc) * match kind {
            3 => *r.pick(&[1e-6, 1e-2, 1e-4]),
            6 => *r.pick(&[1e-2, 0.25]),
            5 => *r.pick(&[0.0, 1e-6, 1e-9]),
            7 => *r.pick(&[1e-6, 1e-2]),
            _ => *r.pick(&[0.0, 1e-6, 1e-2, 1e-6]),
        };
        let cfg = Cfg {
            k,
            reg,
            tol: *r.pick(&[1e-3, 1e-4, 1e-6]),
            max_iter: *r.pick(&[100, 200, 500]),
            n_runs: *r.pick(&[1, 1, 2, 3]),
            random_init: r.chance(0.35),
            seed: r.below(1 << 20),
        };
        let xa = arr(&x);
        let mut tags: Vec<String> = vec!["stream_general".into(), format!("kind_{}", kind), format!("k_{}", k), format!("d_{}", d), format!("init_{}", if cfg.random_init { "random" } else { "kmeans" })];
        let vdesc = variant(&mut out, id, sc, &mut tags);
        let desc = desc_json("general", kind, x.len(), d, &cfg, &format!("{}\"blobs\": {}, ", vdesc, nblobs), &x[0]);
        if cfg.reg == 0.0 { tags.push("reg_zero".into()); }
        out.bump("stream_general");
        out.bump(&format!("general_kind_{}", kind));
        out.bump(&format!("general_k_{}", k));
        out.bump(&format!("general_d_{}", d));
        out.bump(&format!("general_reg_{:e}", cfg.reg / pow2(2 * sc)));
        let this = id;
        id += 1;
        set_ctx(this, &tags, &desc);
        let t: Vec<&str> = tags.iter().map(|s| s.as_str()).collect();
        match do_fit(&xa, &cfg) {
            Err(p) => {
                out.rust_fail(this, 256, &t, &format!("fit panicked: {}", p), &desc);
                out.rust_eval(&desc, None);
            }
            Ok(Err(e)) => {
                out.bump("general_fit_err");
                if k == 1 && cfg.reg > 0.0 {
                    out.rust_fail(this, 256, &t, &format!("fit failed on a one-component problem with reg_covar > 0: {}", e), &desc);
                }
                out.rust_eval(&desc, None);
            }
            Ok(Ok(f)) => {
                if let Ok((xp, _)) = do_predict(&f.model, &xa) {
                    em_check(&mut out, this, &t, &desc, &x, &xp, &f, cfg.reg);
                }
                let (q, _) = gen_queries(&mut r, &x, &f, if thorough { 8 } else { 5 });
                let qa = arr(&q);
                match do_predict(&f.model, &qa) {
                    Ok((proba, pred)) => {
                        let key = if k > 1 { Some(fnv_f64s(&x.concat(), (k as u64) << 8 | 2)) } else { None };
                        out.case(this, &case_term(this, k, d, cfg.reg, &x, false, &f, &vec![], &q, &proba, &pred), &t, &desc, key);
                    }
                    Err(e) => {
                        out.rust_fail(this, 64, &t, &e, &desc);
                        out.rust_eval(&desc, None);
                    }
                }
            }
        }
    }

    // ---------------------------------------------------------------- error stream
    for _ in 0..n_error {
        flush_diffs(&mut out);
        let mut r = rng.fork();
        let d = 1 + r.below(4) as usize;
        let ek = r.below(5);
        let mut cfg = Cfg { k: 1 + r.below(3) as usize, reg: 1e-6, tol: 1e-3, max_iter: 100, n_runs: 1 + r.below(2), random_init: r.chance(0.4), seed: r.below(1 << 20) };
        let (x, must_err): (Mat, bool) = match ek {
            0 => {
                // a single EM iteration can never satisfy |change| < tolerance (the previous bound is -inf)
                cfg.max_iter = 1;
                cfg.n_runs = 1 + r.below(3);
                (gen_general(&mut r, cfg.k, 12, d, 0), true)
            }
            1 => {
                // more components than distinct points
                let distinct = 1 + r.below(2) as usize;
                cfg.k = distinct + 1 + r.below(2) as usize;
                cfg.reg = *r.pick(&[1e-6, 0.0]);
                let pts: Mat = (0..distinct).map(|_| (0..d).map(|_| r.range(-8, 8) as f64).collect()).collect();
                ((0..(6 + r.below(6) as usize)).map(|i| pts[i % distinct].clone()).collect(), false)
            }
            2 => {
                // singular empirical covariance and no regularisation
                cfg.reg = 0.0;
                cfg.k = 1;
                if r.chance(0.5) {
                    // a constant dyadic feature: its mean is exact, its covariance row is exactly zero, and the
                    // Cholesky factorisation must fail
                    let mut x = gen_general(&mut r, 1, 12, d, 0);
                    let j = r.below(d as u64) as usize;
                    for row in x.iter_mut() { row[j] = 1.25; }
                    (x, true)
                } else {
                    // a duplicated feature: singular in exact arithmetic; rounding may let the factorisation
                    // through, in which case the returned model is judged like any other
                    (gen_general(&mut r, 1, 12, d, 3), d == 1)
                }
            }
            3 => {
                // magnitudes at which squares overflow
                let s = *r.pick(&[1e155, 1e160, 1e200, 1e300]);
                let mut x = gen_general(&mut r, cfg.k, 10, d, 0);
                for v in x.iter_mut().flatten() { *v *= s; }
                (x, false)
            }
            _ => {
                // fewer observations than components
                let n = 1 + r.below(2) as usize;
                cfg.k = n + 1 + r.below(2) as usize;
                ((0..n).map(|_| (0..d).map(|_| r.range(-8, 8) as f64).collect()).collect(), false)
            }
        };
        // data whose squares overflow (kind 3) stay as they are; the other kinds rotate through the scales
        let sc = if ek == 3 { 0 } else { scale_of(id) };
        let x = scaled(&x, sc);
        cfg.reg *= pow2(2 * sc);
        let xa = arr(&x);
        let mut tags: Vec<String> = vec!["stream_error".into(), format!("errkind_{}", ek)];
        let vdesc = variant(&mut out, id, sc, &mut tags);
        let desc = desc_json("error", ek, x.len(), d, &cfg, &vdesc, &x[0]);
        if cfg.reg == 0.0 { tags.push("reg_zero".into()); }
        if ek == 2 && !must_err { tags.push("duplicated_feature".into()); }
        let t: Vec<&str> = tags.iter().map(|s| s.as_str()).collect();
        out.bump("stream_error");
        out.bump(&format!("error_kind_{}", ek));
        let this = id;
        id += 1;
        set_ctx(this, &tags, &desc);
        match do_fit(&xa, &cfg) {
            Err(p) => {
                if ek == 3 {
                    // squares of the data overflow: the k-means initialiser (k_means/init.rs, outside the
                    // anchored files, and outside the property's quantifier) panics in its weighted
                    // sampling; recorded as an observation, not judged
                    out.bump("overflow_data_panic_observed");
                } else {
                    out.rust_fail(this, 512, &t, &format!("fit panicked instead of returning an error: {}", p), &desc);
                }
                out.rust_eval(&desc, None);
            }
            Ok(Err(_)) => {
                out.bump("error_reported_as_err");
                out.rust_eval(&desc, Some(fnv_f64s(&x.concat(), ek << 8 | 3)));
            }
            Ok(Ok(f)) => {
                out.bump("error_stream_returned_model");
                if !all_finite(&f) {
                    out.rust_fail(this, 512, &t, "fit returned a model with non-finite parameters", &desc);
                    out.rust_eval(&desc, None);
                } else if must_err {
                    out.rust_fail(this, 512, &t, "fit returned a model although it cannot have converged / the covariance is singular", &desc);
                    out.rust_eval(&desc, None);
                } else {
                    // a model was returned: it has to be a valid mixture like any other
                    let (q, _) = gen_queries(&mut r, &x, &f, 2);
                    let qa = arr(&q);
                    match do_predict(&f.model, &qa) {
                        Ok((proba, pred)) => out.case(this, &case_term(this, cfg.k, d, cfg.reg, &x, false, &f, &vec![], &q, &proba, &pred), &t, &desc, None),
                        Err(e) => {
                            out.rust_fail(this, 64, &t, &e, &desc);
                            out.rust_eval(&desc, None);
                        }
                    }
                }
            }
        }
    }

    // ---------------------------------------------------------------- fit stream
    let n_fit = if thorough { 400 } else { 64 };
    for _ in 0..n_fit {
        let mut r = rng.fork();
        let fk = r.below(6);
        let d = 1 + r.below(3) as usize;
        let mut k = match fk {
            4 | 5 => 1,
            _ => 1 + r.below(if d == 1 { 2 } else { 3 }) as usize,
        };
        flush_diffs(&mut out);
        let sc = scale_of(id);
        let (x, lab) = gen_fit_data(&mut r, fk, k, d);
        let x = scaled(&x, sc);
        let blobs = 1 + *lab.iter().max().unwrap();
        if fk == 3 {
            k = blobs + 1 + r.below(2) as usize;
        } else {
            k = blobs;
        }
        let reg = pow2(2 * sc) * match fk {
            0 => *r.pick(&[0.0009765625, 1e-6, 1e-2, 0.25, 0.0]),
            1 => *r.pick(&[0.0009765625, 0.25, 1e-6, 1e-2, 4.0, 0.0]),
            2 => *r.pick(&[4.0, 25.0, 1.0, 0.25, 0.0]),
            3 => *r.pick(&[1e-6, 0.0009765625, 0.0]),
            4 => *r.pick(&[0.0, 0.0, 0.0009765625]),
            _ => *r.pick(&[0.0009765625, 0.25, 1e-6]),
        };
        let random_init = fk == 5;
        let seed = r.below(1 << 20);
        let tol = *r.pick(&[1e-3, 1e-5, 1e-8]);
        let xa = arr(&x);
        let n = x.len();
        // initial responsibilities as `new` draws them
        let (init_kind, resp0): (u64, Mat) = if random_init {
            // one component: u / u = 1 for every draw u > 0
            (0, vec![vec![1.0]; n])
        } else {
            match kmeans_init_resp(&xa, k, seed) {
                Ok(Ok(rp)) => (0, rp),
                Ok(Err(_)) => (6, vec![]),
                Err(_) => (100, vec![]),
            }
        };
        // the model run is decidable (needs no exp / ln value besides the exact and the tabulated ones) when the
        // initial partition is the intended one (well separated components reproduce hard responsibilities),
        // when there is one component, or when the initialisation already fails
        let decidable = match init_kind {
            0 => {
                let starved = (0..k).any(|c| resp0.iter().all(|row| row[c] == 0.0));
                starved || k == 1 || one_hot_partition(&resp0).map_or(false, |p| same_partition(&p, &lab))
            }
            6 => true,
            _ => false,
        };
        let mut plan: Vec<(u64, u64)> = vec![(100, 1)];
        let pool = [(1, 1), (1, 3), (2, 1), (2, 2), (3, 2), (5, 3), (2, 3)];
        let mut idx: Vec<usize> = (0..pool.len()).collect();
        r.shuffle(&mut idx);
        for &i in idx.iter().take(3) {
            plan.push(pool[i]);
        }
        let mut tags: Vec<String> = vec!["stream_fit".into(), format!("fitkind_{}", fk), format!("k_{}", k), format!("d_{}", d), format!("init_{}", if random_init { "random" } else { "kmeans" })];
        if reg == 0.0 { tags.push("reg_zero".into()); }
        if decidable { tags.push("decidable".into()); }
        // an intended component with at most d points has a rank-deficient covariance (finding F40 when reg_covar = 0)
        if (0..blobs).any(|b| lab.iter().filter(|&&l| l == b).count() <= d) { tags.push("tiny_blob".into()); }
        let vdesc = variant(&mut out, id, sc, &mut tags);
        let t: Vec<&str> = tags.iter().map(|s| s.as_str()).collect();
        let cfg0 = Cfg { k, reg, tol, max_iter: 100, n_runs: 1, random_init, seed };
        let desc = desc_json("fit", fk, n, d, &cfg0, &format!("{}\"probes (max_n_iterations, n_runs)\": [{}], ", vdesc, plan.iter().map(|p| format!("[{}, {}]", p.0, p.1)).collect::<Vec<_>>().join(", ")), &x[0]);
        out.bump("stream_fit");
        out.bump(&format!("fit_kind_{}", fk));
        out.bump(&format!("fit_init_{}", match init_kind { 0 => "responsibilities", 6 => "kmeans_error", _ => "panic" }));
        out.bump(if decidable { "fit_decidable" } else { "fit_not_decidable" });
        let this = id;
        id += 1;
        set_ctx(this, &tags, &desc);
        let mut probes: Vec<Probe> = Vec::new();
        for &(mi, nr) in plan.iter() {
            let cfg = Cfg { max_iter: mi, n_runs: nr, ..cfg0.clone() };
            let p = match do_fit_k(&xa, &cfg) {
                Err(_) => Probe { max_iter: mi, n_runs: nr, kind: 100, fit: None, xproba: vec![], pred: vec![] },
                Ok(Err((kd, _))) => Probe { max_iter: mi, n_runs: nr, kind: kd, fit: None, xproba: vec![], pred: vec![] },
                Ok(Ok(f)) => {
                    let (xp, pr) = match do_predict(&f.model, &xa) {
                        Ok(v) => v,
                        Err(e) => {
                            out.rust_fail(this, 64, &t, &e, &desc);
                            (vec![], vec![])
                        }
                    };
                    Probe { max_iter: mi, n_runs: nr, kind: 0, fit: Some(f), xproba: xp, pred: pr }
                }
            };
            out.bump(&format!("fit_probe_outcome_{}", match p.kind { 0 => "ok".to_string(), 100 => "panic".to_string(), e => format!("err_{}", e) }));
            if p.kind == 100 {
                out.rust_fail(this, 512, &t, &format!("fit panicked instead of returning an error (max_n_iterations {}, n_runs {})", mi, nr), &desc);
            }
            if p.kind == 0 && mi == 1 {
                // a single EM iteration can never satisfy |change| < tolerance: the previous bound is -inf
                out.rust_fail(this, 512, &t, "fit returned a model after a single EM iteration (it cannot have converged)", &desc);
            }
            if let Some(f) = &p.fit {
                if !all_finite(f) {
                    out.rust_fail(this, 512, &t, "fit returned a model with non-finite parameters", &desc);
                }
            }
            probes.push(p);
        }
        // ln table: the implementation's own libm on the weights and the diagonal of precisions_chol of every
        // returned model (C10/Corr.v checks every entry against an enclosure of the logarithm)
        let mut lntab: Vec<(f64, f64)> = Vec::new();
        for p in probes.iter() {
            if let Some(f) = &p.fit {
                let mut args: Vec<f64> = f.w.clone();
                for m in f.pchol.iter() {
                    for j in 0..m.len() {
                        args.push(m[j][j]);
                    }
                }
                for a in args {
                    if a.is_finite() && a > 0.0 && !lntab.iter().any(|e| e.0 == a) {
                        lntab.push((a, a.ln()));
                    }
                }
            }
        }
        let dln2pi = d as f64 * f64::ln(2. * std::f64::consts::PI);
        let term = format!(
            "Fit {{| f_id := {}; f_k := {}; f_d := {}; f_reg := {}; f_tol := {}; f_X := {}; f_init := {}; f_resp0 := {}; f_dln2pi := {}; f_lntab := {}; f_decidable := {}; f_probes := [{}] |}}",
            cn(this), cn(k as u64), cn(d as u64), sf64(reg), sf64(tol), cmat64(&x), cn(init_kind), cmat64(&resp0), sf64(dln2pi), cpairs(&lntab), cbool(decidable),
            probes.iter().map(probe_term).collect::<Vec<_>>().join("; ")
        );
        let key = if decidable { Some(fnv_f64s(&x.concat(), (k as u64) << 8 | 4 | fk << 16)) } else { None };
        out.case(this, &term, &t, &desc, key);
    }

    // ---------------------------------------------------------------- binary32 stream
    // GaussianMixtureModel::<f32> on the general families (not the far-offset one: binary32 cannot resolve unit
    // spread at 1e5..2e9), the exact degenerate families of the fit stream and four rank-deficient families with
    // reg_covar 0; scales 2^0, 2^-20, 2^20; standard layout.  The outputs, widened exactly to binary64, are judged
    // by the validity oracle with binary32 tolerances (C10/Corr.v gmm_bits32); Err on the singular inputs is the
    // expected outcome, a returned model has to pass the oracle
    let n_f32 = if thorough { 600 } else { 72 };
    for _ in 0..n_f32 {
        let mut r = rng.fork();
        let this = id;
        id += 1;
        let src = r.below(3); // 0 general, 1 exact degenerate (fit-stream families), 2 rank-deficient with reg 0
        let sc = [0, -20, 20][(this % 3) as usize];
        let (x0, k, d, kind, reg0, singular): (Mat, usize, usize, u64, f64, bool) = match src {
            0 => {
                let d = 1 + r.below(4) as usize;
                let kind = *r.pick(&[0u64, 1, 2, 3, 4, 5, 6]);
                let nblobs = 1 + r.below(3) as usize;
                let k = if r.chance(0.75) { nblobs } else { 1 + r.below(3) as usize };
                let per = (10 + r.below(10) as usize).max(d + 4);
                let x = gen_general(&mut r, nblobs, per, d, kind);
                let reg = match kind {
                    3 => *r.pick(&[1e-2, 1e-3, 0.0]),
                    6 => *r.pick(&[1e-2, 0.25]),
                    5 => *r.pick(&[1e-6, 1e-8]),
                    _ => *r.pick(&[0.0, 1e-6, 1e-2, 1e-4]),
                };
                (x, k, d, kind, reg, kind == 3)
            }
            1 => {
                let fk = r.below(6);
                let d = 1 + r.below(3) as usize;
                let k0 = match fk { 4 | 5 => 1, _ => 1 + r.below(if d == 1 { 2 } else { 3 }) as usize };
                let (x, lab) = gen_fit_data(&mut r, fk, k0, d);
                let blobs = 1 + *lab.iter().max().unwrap();
                let k = if fk == 3 { blobs + 1 } else { blobs };
                let reg = *r.pick(&[0.0009765625, 0.25, 1e-4, 4.0, 0.0]);
                (x, k, d, 10 + fk, reg, fk == 1 || fk == 3 || fk == 4)
            }
            _ => {
                let fam = r.below(4);
                let d = if fam == 0 { 3 + r.below(2) as usize } else { 2 + r.below(3) as usize };
                let n = 20 + r.below(45) as usize;
                let k = if r.chance(0.7) { 1 } else { 2 };
                (gen_singular32(&mut r, fam, n, d), k, d, 20 + fam, 0.0, true)
            }
        };
        let x = round32(&scaled(&round32(&x0), sc));
        let reg = (reg0 as f32 as f64 * pow2(2 * sc)) as f32 as f64;
        let cfg = Cfg { k, reg, tol: *r.pick(&[1e-3, 1e-4]), max_iter: *r.pick(&[100, 200]), n_runs: *r.pick(&[1, 1, 2]), random_init: r.chance(0.25), seed: r.below(1 << 20) };
        let mut tags: Vec<String> = vec!["stream_f32".into(), "f32".into(), format!("kind32_{}", kind), format!("k_{}", k), format!("d_{}", d), format!("scale_{}", sc), format!("init_{}", if cfg.random_init { "random" } else { "kmeans" })];
        if reg == 0.0 { tags.push("reg_zero".into()); }
        if singular { tags.push("rank_deficient".into()); }
        let t: Vec<&str> = tags.iter().map(|s| s.as_str()).collect();
        let desc = desc_json("f32", kind, x.len(), d, &cfg, &format!("\"float\": \"f32\", \"scale_log2\": {}, ", sc), &x[0]);
        out.bump("stream_f32");
        out.bump(&format!("f32_source_{}", ["general", "exact_degenerate", "rank_deficient_reg0"][src as usize]));
        out.bump(&format!("f32_kind_{}", kind));
        out.bump(&format!("f32_scale_2^{}", sc));
        match do_fit32(&x, &cfg) {
            Err(p) => {
                out.bump("f32_fit_panic");
                out.rust_fail(this, 512, &t, &format!("f32 fit panicked instead of returning an error: {}", p), &desc);
                out.rust_eval(&desc, None);
            }
            Ok(Err((kd, e))) => {
                out.bump(&format!("f32_fit_err_{}", kd));
                if singular && reg == 0.0 { out.bump("f32_singular_reg0_err"); }
                if k == 1 && reg0 >= 1e-4 {
                    out.rust_fail(this, 256, &t, &format!("f32 fit failed on a one-component problem with reg_covar >= 1e-4: {}", e), &desc);
                }
                out.rust_eval(&desc, Some(fnv_f64s(&x.concat(), (k as u64) << 8 | 5)));
            }
            Ok(Ok(f)) => {
                out.bump("f32_fit_ok");
                if singular && reg == 0.0 { out.bump("f32_singular_reg0_returned_model"); }
                let (q, _) = gen_queries_mc(&mut r, &x, &f.mu, &f.cov, if thorough { 6 } else { 4 });
                let q = round32(&q);
                match do_predict32(&f.model, &q) {
                    Ok((proba, pred)) => {
                        let term = format!(
                            "F32 {{| c_id := {}; c_k := {}; c_d := {}; c_reg := {}; c_X := {}; c_exact := false; c_weights := {}; c_means := {}; c_covs := {}; c_precs := {}; c_pchol := {}; c_xproba := {}; c_query := {}; c_proba := {}; c_pred := {} |}}",
                            cn(this), cn(k as u64), cn(d as u64), sf64(reg), cmat64(&x), cvec64(&f.w), cmat64(&f.mu), cmats(&f.cov), cmats(&f.prec), cmats(&[]),
                            cmat64(&vec![]), cmat64(&q), cmat64(&proba), cvecn(&pred)
                        );
                        out.case(this, &term, &t, &desc, Some(fnv_f64s(&x.concat(), (k as u64) << 8 | 6)));
                    }
                    Err(e) => {
                        out.rust_fail(this, 64, &t, &e, &desc);
                        out.rust_eval(&desc, None);
                    }
                }
            }
        }
    }
    flush_diffs(&mut out);
    out.finish("five streams (the fifth: GaussianMixtureModel::<f32> fits judged by the binary32 validity oracle): exact (dyadic separated blobs, hard responsibilities, bit-for-bit), general (8 data families x d 1..6 x k 1..4 x both initialisers x reg_covar), error (non-convergence, too many components, singular covariance, overflow, n < k), fit (whole-fit model vs implementation on 6 degenerate exact families x 4 (max_n_iterations, n_runs) probes each: Ok / Err kind, parameters, precisions_chol, responsibilities); a case is non-trivial when k > 1 (exact stream: k > 1 or d > 1 and compared bit for bit; error stream: an Err was returned; fit stream: the model run is decidable); distinct = distinct (data, k, stream) hashes");
}
