//! C01 harness: k-fold splitting (fold, iter_fold, sample_chunks, cross_validate) on identity-tagged
//! datasets in several storage layouts; emits Coq cases for C01/Corr.v and evaluates a Rust-side
//! reference oracle on larger inputs.
use linfa::dataset::{DatasetBase, TargetDim};
use linfa::traits::{Fit, PredictInplace};
use linfa::Error;
use ndarray::{
    arr0, Array, Array1, Array2, ArrayBase, ArrayView, ArrayView1, ArrayView2, Axis, Data, Dimension, Ix1, Ix2,
    ShapeBuilder, Slice,
};
use std::panic::AssertUnwindSafe;
use vh::*;

const JUNK: f64 = 7_777_777.0;

#[derive(Clone, Debug, PartialEq)]
struct Arr {
    rows: usize,
    cols: usize,
    data: Vec<f64>,
}
fn arr_of<S: Data<Elem = f64>, D: Dimension>(a: &ArrayBase<S, D>) -> Arr {
    let sh = a.shape();
    Arr { rows: sh[0], cols: if sh.len() > 1 { sh[1] } else { 1 }, data: a.iter().cloned().collect() }
}
fn tagv(x: f64) -> u64 {
    if x.is_finite() && x >= 0.0 && x.fract() == 0.0 && x < 1e15 { x as u64 } else { 999_999_999_999 }
}
/// lossless run-length form of a tag sequence: maximal runs of consecutive integers (start, length);
/// `runs` in C01/Corr.v expands it again
fn cruns(xs: &[f64]) -> String {
    let mut runs: Vec<(u64, u64)> = vec![];
    for x in xs {
        let t = tagv(*x);
        match runs.last_mut() {
            Some((s, l)) if *s + *l == t => *l += 1,
            _ => runs.push((t, 1)),
        }
    }
    clist(&runs, |(s, l)| format!("({},{})", s, l))
}
fn ctags(xs: &[f64]) -> String {
    format!("(runs {})%N", cruns(xs))
}
fn arr_term(a: &Arr) -> String {
    format!("(A {} {} {})%N", a.rows, a.cols, cruns(&a.data))
}
fn copt(x: Option<String>) -> String {
    match x {
        Some(s) => format!("(Some {})", s),
        None => "None".to_string(),
    }
}

trait TD: TargetDim {
    fn shape(rows: usize, tw: usize) -> Self;
    const IS1: bool;
}
impl TD for Ix1 {
    fn shape(rows: usize, _tw: usize) -> Ix1 {
        ndarray::Ix1(rows)
    }
    const IS1: bool = true;
}
impl TD for Ix2 {
    fn shape(rows: usize, tw: usize) -> Ix2 {
        ndarray::Ix2(rows, tw)
    }
    const IS1: bool = false;
}

#[derive(Clone, Debug)]
struct DataSet {
    n: usize,
    w: usize,
    tdim: usize, // 0 = one-dimensional targets, t > 0 = (n, t) targets
    tw: usize,
    recs: Vec<f64>,
    tgts: Vec<f64>,
}
impl DataSet {
    fn new(n: usize, w: usize, tdim: usize, rng: &mut Sm64) -> DataSet {
        let tw = if tdim == 0 { 1 } else { tdim };
        // identity tags: every cell is unique, records and targets live in disjoint ranges
        let rb = 1 + rng.below(20);
        let tb = 500 + rng.below(20);
        let recs = (0..n * w).map(|i| (rb + i as u64) as f64).collect();
        let tgts = (0..n * tw).map(|i| (tb + i as u64) as f64).collect();
        DataSet { n, w, tdim, tw, recs, tgts }
    }
    fn rec_owned(&self) -> Array2<f64> {
        Array2::from_shape_vec((self.n, self.w), self.recs.clone()).unwrap()
    }
    fn tgt_owned<I: TD>(&self) -> Array<f64, I> {
        Array::from_shape_vec(I::shape(self.n, self.tw), self.tgts.clone()).unwrap()
    }
    fn rec_fortran(&self) -> Array2<f64> {
        let mut v = Vec::with_capacity(self.n * self.w);
        for c in 0..self.w {
            for r in 0..self.n {
                v.push(self.recs[r * self.w + c]);
            }
        }
        Array2::from_shape_vec((self.n, self.w).f(), v).unwrap()
    }
    /// parent with junk rows in between (data on the odd rows) and junk columns around the records
    fn rec_strided_parent(&self) -> Array2<f64> {
        let mut p = Array2::from_elem((2 * self.n + 1, self.w + 2), JUNK);
        for r in 0..self.n {
            for c in 0..self.w {
                p[[2 * r + 1, c + 1]] = self.recs[r * self.w + c];
            }
        }
        p
    }
    fn tgt_strided_parent<I: TD>(&self) -> Array<f64, I> {
        let mut v = vec![JUNK; (2 * self.n + 1) * self.tw];
        for r in 0..self.n {
            for c in 0..self.tw {
                v[(2 * r + 1) * self.tw + c] = self.tgts[r * self.tw + c];
            }
        }
        Array::from_shape_vec(I::shape(2 * self.n + 1, self.tw), v).unwrap()
    }
    /// contiguous parent: 2 junk rows, the data, 1 junk row
    fn rec_range_parent(&self) -> Array2<f64> {
        let mut v = vec![JUNK; 2 * self.w];
        v.extend_from_slice(&self.recs);
        v.extend(vec![JUNK; self.w]);
        Array2::from_shape_vec((self.n + 3, self.w), v).unwrap()
    }
    fn tgt_range_parent<I: TD>(&self) -> Array<f64, I> {
        let mut v = vec![JUNK; 2 * self.tw];
        v.extend_from_slice(&self.tgts);
        v.extend(vec![JUNK; self.tw]);
        Array::from_shape_vec(I::shape(self.n + 3, self.tw), v).unwrap()
    }
    fn range_outside_ok<I: TD>(&self, pr: &Array2<f64>, pt: &Array<f64, I>) -> bool {
        let a: Vec<f64> = pr.iter().cloned().collect();
        let b: Vec<f64> = pt.iter().cloned().collect();
        let (w, tw, n) = (self.w, self.tw, self.n);
        a[..2 * w].iter().all(|x| *x == JUNK)
            && a[(2 + n) * w..].iter().all(|x| *x == JUNK)
            && b[..2 * tw].iter().all(|x| *x == JUNK)
            && b[(2 + n) * tw..].iter().all(|x| *x == JUNK)
    }
}

// ---------------------------------------------------------------------------------------------
// fold
type FoldOut = Option<Vec<[Arr; 4]>>;

fn conv_fold<I: TD>(v: Vec<(DatasetBase<Array2<f64>, Array<f64, I>>, DatasetBase<Array2<f64>, Array<f64, I>>)>) -> Vec<[Arr; 4]> {
    v.iter().map(|(tr, va)| [arr_of(tr.records()), arr_of(tr.targets()), arr_of(va.records()), arr_of(va.targets())]).collect()
}

const FOLD_LAYOUTS: [&str; 4] = ["owned", "view", "strided_view", "fortran"];
fn run_fold<I: TD>(d: &DataSet, k: usize, layout: usize) -> FoldOut {
    let r = guarded(AssertUnwindSafe(|| match layout {
        0 => conv_fold(DatasetBase::new(d.rec_owned(), d.tgt_owned::<I>()).fold(k)),
        1 => {
            let (r, t) = (d.rec_owned(), d.tgt_owned::<I>());
            let ds = DatasetBase::new(r.view(), t.view());
            conv_fold(ds.fold(k))
        }
        2 => {
            let (pr, pt) = (d.rec_strided_parent(), d.tgt_strided_parent::<I>());
            let rv = pr.slice(ndarray::s![1..;2, 1..1 + d.w]);
            let tv = pt.slice_axis(Axis(0), Slice::new(1, None, 2));
            let ds = DatasetBase::new(rv, tv);
            conv_fold(ds.fold(k))
        }
        _ => {
            let t = d.tgt_owned::<I>();
            conv_fold(DatasetBase::new(d.rec_fortran(), t).fold(k))
        }
    }));
    r.ok()
}

// ---------------------------------------------------------------------------------------------
// iter_fold
struct IfOut {
    items: Vec<[Arr; 4]>, // closure argument (records, targets), validation view (records, targets)
    rec: Vec<f64>,
    tgt: Vec<f64>,
    outside_ok: bool,
}
const MUT_LAYOUTS: [&str; 3] = ["owned", "view_mut", "row_range_view_mut"];

fn iter_fold_on<'a, D, S, I: TD>(ds: &'a mut DatasetBase<ArrayBase<D, Ix2>, ArrayBase<S, I>>, k: usize) -> Vec<[Arr; 4]>
where
    D: ndarray::DataMut<Elem = f64>,
    S: ndarray::DataMut<Elem = f64>,
{
    ds.iter_fold(k, |train| (arr_of(train.records()), arr_of(train.targets())))
        .map(|((ar, at), valid)| [ar, at, arr_of(valid.records()), arr_of(valid.targets())])
        .collect()
}

fn run_iter_fold<I: TD>(d: &DataSet, k: usize, layout: usize) -> Option<IfOut> {
    let r = guarded(AssertUnwindSafe(|| match layout {
        0 => {
            let mut ds = DatasetBase::new(d.rec_owned(), d.tgt_owned::<I>());
            let items = iter_fold_on(&mut ds, k);
            IfOut { items, rec: ds.records().iter().cloned().collect(), tgt: ds.targets().iter().cloned().collect(), outside_ok: true }
        }
        1 => {
            let (mut r, mut t) = (d.rec_owned(), d.tgt_owned::<I>());
            let items = {
                let mut ds = DatasetBase::new(r.view_mut(), t.view_mut());
                iter_fold_on(&mut ds, k)
            };
            IfOut { items, rec: r.iter().cloned().collect(), tgt: t.iter().cloned().collect(), outside_ok: true }
        }
        _ => {
            let (mut pr, mut pt) = (d.rec_range_parent(), d.tgt_range_parent::<I>());
            let items = {
                let rv = pr.slice_axis_mut(Axis(0), Slice::from(2..2 + d.n));
                let tv = pt.slice_axis_mut(Axis(0), Slice::from(2..2 + d.n));
                let mut ds = DatasetBase::new(rv, tv);
                iter_fold_on(&mut ds, k)
            };
            let ok = d.range_outside_ok(&pr, &pt);
            IfOut {
                items,
                rec: pr.slice_axis(Axis(0), Slice::from(2..2 + d.n)).iter().cloned().collect(),
                tgt: pt.slice_axis(Axis(0), Slice::from(2..2 + d.n)).iter().cloned().collect(),
                outside_ok: ok,
            }
        }
    }));
    r.ok()
}

// ---------------------------------------------------------------------------------------------
// sample_chunks
fn run_chunks<I: TD>(d: &DataSet, size: usize, view: bool) -> Option<Vec<[Arr; 2]>> {
    guarded(AssertUnwindSafe(|| {
        if view {
            let (r, t) = (d.rec_owned(), d.tgt_owned::<I>());
            let ds = DatasetBase::new(r.view(), t.view());
            let v: Vec<[Arr; 2]> = ds.sample_chunks(size).map(|c| [arr_of(c.records()), arr_of(c.targets())]).collect();
            v
        } else {
            let ds = DatasetBase::new(d.rec_owned(), d.tgt_owned::<I>());
            let v: Vec<[Arr; 2]> = ds.sample_chunks(size).map(|c| [arr_of(c.records()), arr_of(c.targets())]).collect();
            v
        }
    }))
    .ok()
}

// ---------------------------------------------------------------------------------------------
// cross_validate with mock models (the same functions as C01/Corr.v mock_fit / mock_predict / mock_eval)
#[derive(Clone, Debug)]
struct CvSpec {
    cms: Vec<f64>,
    q: f64,
    fail_fit: Vec<(usize, u64, u64)>, // (model, state, error id)
    fail_eval: Vec<(f64, u64)>,       // (first predicted value, error id)
}
struct MockP {
    idx: usize,
    cm: f64,
    tw: usize,
    fail: Vec<(usize, u64, u64)>,
}
struct MockM {
    cm: f64,
    s: u64,
    tw: usize,
}
fn mock_state(rec_sum: f64, tgt_sum: f64) -> u64 {
    (rec_sum + 3.0 * tgt_sum) as u64
}
impl MockP {
    fn fit_on(&self, rec_sum: f64, tgt_sum: f64) -> Result<MockM, Error> {
        let s = mock_state(rec_sum, tgt_sum);
        for (m, st, id) in &self.fail {
            if *m == self.idx && *st == s {
                return Err(Error::Parameters(format!("E{}", id)));
            }
        }
        Ok(MockM { cm: self.cm, s, tw: self.tw })
    }
}
impl<'a> Fit<ArrayView2<'a, f64>, ArrayView1<'a, f64>, Error> for MockP {
    type Object = MockM;
    fn fit(&self, d: &DatasetBase<ArrayView2<'a, f64>, ArrayView1<'a, f64>>) -> Result<MockM, Error> {
        self.fit_on(d.records().iter().sum::<f64>(), d.targets().iter().sum::<f64>())
    }
}
impl<'a> Fit<ArrayView2<'a, f64>, ArrayView2<'a, f64>, Error> for MockP {
    type Object = MockM;
    fn fit(&self, d: &DatasetBase<ArrayView2<'a, f64>, ArrayView2<'a, f64>>) -> Result<MockM, Error> {
        self.fit_on(d.records().iter().sum::<f64>(), d.targets().iter().sum::<f64>())
    }
}
fn mock_base(s: u64, cm: f64, r0: f64) -> f64 {
    (s as f64) * cm + r0
}
impl<'b> PredictInplace<ArrayView2<'b, f64>, Array1<f64>> for MockM {
    fn predict_inplace<'a>(&'a self, x: &'a ArrayView2<'b, f64>, y: &mut Array1<f64>) {
        for j in 0..x.nrows() {
            y[j] = mock_base(self.s, self.cm, x[[j, 0]]) + 0.0;
        }
    }
    fn default_target(&self, x: &ArrayView2<'b, f64>) -> Array1<f64> {
        Array1::zeros(x.nrows())
    }
}
impl<'b> PredictInplace<ArrayView2<'b, f64>, Array2<f64>> for MockM {
    fn predict_inplace<'a>(&'a self, x: &'a ArrayView2<'b, f64>, y: &mut Array2<f64>) {
        for j in 0..x.nrows() {
            let base = mock_base(self.s, self.cm, x[[j, 0]]);
            for c in 0..self.tw {
                y[[j, c]] = base + c as f64;
            }
        }
    }
    fn default_target(&self, x: &ArrayView2<'b, f64>) -> Array2<f64> {
        Array2::zeros((x.nrows(), self.tw))
    }
}
fn eval_fail(spec: &CvSpec, p00: f64) -> Option<Error> {
    for (v, id) in &spec.fail_eval {
        if v.to_bits() == p00.to_bits() {
            return Some(Error::Parameters(format!("E{}", id)));
        }
    }
    None
}
fn eval1(spec: &CvSpec, pred: &Array1<f64>, truth: &ArrayView1<f64>) -> Result<f64, Error> {
    if let Some(e) = eval_fail(spec, pred[0]) {
        return Err(e);
    }
    let mut acc = 0.0f64;
    for j in 0..pred.len() {
        acc = acc + (pred[j] - truth[j]) * spec.q;
    }
    Ok(acc)
}
fn eval2(spec: &CvSpec, pred: &Array2<f64>, truth: &ArrayView2<f64>) -> Result<Array1<f64>, Error> {
    if let Some(e) = eval_fail(spec, pred[[0, 0]]) {
        return Err(e);
    }
    let mut out = Array1::zeros(pred.ncols());
    for c in 0..pred.ncols() {
        let mut acc = 0.0f64;
        for j in 0..pred.nrows() {
            acc = acc + (pred[[j, c]] - truth[[j, c]]) * spec.q;
        }
        out[c] = acc;
    }
    Ok(out)
}

#[derive(Clone, Debug)]
enum CvRes {
    Ok(Arr),
    Err(u64),
    Panic,
}
struct CvOut {
    res: CvRes,
    rec: Vec<f64>,
    tgt: Vec<f64>,
    outside_ok: bool,
}
fn err_id(e: &Error) -> u64 {
    match e {
        Error::Parameters(s) if s.starts_with('E') => s[1..].parse().unwrap_or(999_999),
        _ => 999_999,
    }
}
fn params_of(d: &DataSet, spec: &CvSpec) -> Vec<MockP> {
    spec.cms.iter().enumerate().map(|(i, c)| MockP { idx: i, cm: *c, tw: d.tw, fail: spec.fail_fit.clone() }).collect()
}
fn conv_cv<Dm: Dimension>(r: Result<Array<f64, Dm>, Error>) -> CvRes {
    match r {
        Ok(a) => CvRes::Ok(arr_of(&a)),
        Err(e) => CvRes::Err(err_id(&e)),
    }
}

fn cv_call1<D, S>(ds: &mut DatasetBase<ArrayBase<D, Ix2>, ArrayBase<S, Ix1>>, k: usize, params: &[MockP], spec: &CvSpec, single: bool) -> CvRes
where
    D: ndarray::DataMut<Elem = f64>,
    S: ndarray::DataMut<Elem = f64>,
{
    if single {
        conv_cv(ds.cross_validate_single(k, params, |p, t| eval1(spec, p, t)))
    } else {
        conv_cv(ds.cross_validate(k, params, |p, t| eval1(spec, p, t).map(arr0)))
    }
}
fn cv_call2<D, S>(ds: &mut DatasetBase<ArrayBase<D, Ix2>, ArrayBase<S, Ix2>>, k: usize, params: &[MockP], spec: &CvSpec, _single: bool) -> CvRes
where
    D: ndarray::DataMut<Elem = f64>,
    S: ndarray::DataMut<Elem = f64>,
{
    conv_cv(ds.cross_validate(k, params, |p, t| eval2(spec, p, t)))
}

macro_rules! cv_runner {
    ($name:ident, $I:ty, $call:ident) => {
        fn $name(d: &DataSet, k: usize, spec: &CvSpec, layout: usize, single: bool) -> CvOut {
            let params = params_of(d, spec);
            let r = guarded(AssertUnwindSafe(|| match layout {
                0 => {
                    let mut ds = DatasetBase::new(d.rec_owned(), d.tgt_owned::<$I>());
                    let res = $call(&mut ds, k, &params, spec, single);
                    (res, ds.records().iter().cloned().collect::<Vec<f64>>(), ds.targets().iter().cloned().collect::<Vec<f64>>(), true)
                }
                _ => {
                    let (mut pr, mut pt) = (d.rec_range_parent(), d.tgt_range_parent::<$I>());
                    let res = {
                        let rv = pr.slice_axis_mut(Axis(0), Slice::from(2..2 + d.n));
                        let tv = pt.slice_axis_mut(Axis(0), Slice::from(2..2 + d.n));
                        let mut ds = DatasetBase::new(rv, tv);
                        $call(&mut ds, k, &params, spec, single)
                    };
                    let ok = d.range_outside_ok(&pr, &pt);
                    (
                        res,
                        pr.slice_axis(Axis(0), Slice::from(2..2 + d.n)).iter().cloned().collect(),
                        pt.slice_axis(Axis(0), Slice::from(2..2 + d.n)).iter().cloned().collect(),
                        ok,
                    )
                }
            }));
            match r {
                Ok((res, rec, tgt, ok)) => CvOut { res, rec, tgt, outside_ok: ok },
                Err(_) => CvOut { res: CvRes::Panic, rec: vec![], tgt: vec![], outside_ok: true },
            }
        }
    };
}
cv_runner!(run_cv1, Ix1, cv_call1);
cv_runner!(run_cv2, Ix2, cv_call2);

// ---------------------------------------------------------------------------------------------
// reference (Rust side): consecutive blocks and complements on row indices
fn block_rows(n: usize, fs: usize, i: usize) -> std::ops::Range<usize> {
    let _ = n;
    i * fs..(i + 1) * fs
}
fn rows_flat(buf: &[f64], w: usize, rows: impl Iterator<Item = usize>) -> Vec<f64> {
    let mut v = Vec::new();
    for r in rows {
        v.extend_from_slice(&buf[r * w..(r + 1) * w]);
    }
    v
}
/// training state of fold i as the mock fit computes it (sum over the complement of block i)
fn ref_state(d: &DataSet, fs: usize, i: usize) -> u64 {
    let rs: f64 = rows_flat(&d.recs, d.w, (0..d.n).filter(|r| !block_rows(d.n, fs, i).contains(r))).iter().sum();
    let ts: f64 = rows_flat(&d.tgts, d.tw, (0..d.n).filter(|r| !block_rows(d.n, fs, i).contains(r))).iter().sum();
    mock_state(rs, ts)
}
fn ref_p00(d: &DataSet, fs: usize, i: usize, cm: f64) -> f64 {
    mock_base(ref_state(d, fs, i), cm, d.recs[i * fs * d.w]) + 0.0
}
/// reference scores (fold-major mean in the implementation's accumulation order)
fn ref_cv(d: &DataSet, k: usize, spec: &CvSpec) -> Vec<f64> {
    let fs = d.n / k;
    let mut out = vec![];
    for cm in &spec.cms {
        for c in 0..d.tw {
            let mut total = 0.0f64;
            for i in 0..k {
                let s = ref_state(d, fs, i);
                let mut acc = 0.0f64;
                for r in block_rows(d.n, fs, i) {
                    let p = mock_base(s, *cm, d.recs[r * d.w]) + c as f64;
                    acc = acc + (p - d.tgts[r * d.tw + c]) * spec.q;
                }
                total = total + (0.0 + acc);
            }
            out.push(total / k as f64);
        }
    }
    out
}

/// Rust-side oracle on one dataset (used for sizes that are too large to ship to Coq): returns the
/// oracle code (same bits as the Coq oracle) of fold / iter_fold / cross_validate
fn rust_oracle<I: TD>(d: &DataSet, k: usize, rng: &mut Sm64) -> (u64, String) {
    let fs = d.n / k;
    let mut code = 0u64;
    let mut what = String::new();
    let expect_valid = |i: usize| (rows_flat(&d.recs, d.w, block_rows(d.n, fs, i)), rows_flat(&d.tgts, d.tw, block_rows(d.n, fs, i)));
    let sorted_pairs = |r: &Arr, t: &Arr, r2: &Arr, t2: &Arr| {
        let mut v: Vec<(Vec<u64>, Vec<u64>)> = vec![];
        for (a, b) in [(r, t), (r2, t2)] {
            if a.rows != b.rows || a.cols != d.w || b.cols != d.tw || a.data.len() != a.rows * a.cols || b.data.len() != b.rows * b.cols {
                return None;
            }
            for j in 0..a.rows {
                v.push((a.data[j * d.w..(j + 1) * d.w].iter().map(|x| x.to_bits()).collect(), b.data[j * d.tw..(j + 1) * d.tw].iter().map(|x| x.to_bits()).collect()));
            }
        }
        v.sort();
        Some(v)
    };
    let orig = {
        let e = Arr { rows: 0, cols: d.w, data: vec![] };
        let et = Arr { rows: 0, cols: d.tw, data: vec![] };
        sorted_pairs(&Arr { rows: d.n, cols: d.w, data: d.recs.clone() }, &Arr { rows: d.n, cols: d.tw, data: d.tgts.clone() }, &e, &et).unwrap()
    };
    // fold
    match run_fold::<I>(d, k, rng.below(4) as usize) {
        None => { code |= 1; what.push_str("fold panicked; "); }
        Some(v) => {
            if v.len() != k { code |= 2; what.push_str("fold count; "); }
            for (i, p) in v.iter().enumerate() {
                let (er, et) = expect_valid(i);
                if p[2].data != er || p[3].data != et || p[2].rows != fs || p[3].rows != fs { code |= 4; what.push_str(&format!("fold {} validation is not block; ", i)); }
                if sorted_pairs(&p[0], &p[1], &p[2], &p[3]).as_ref() != Some(&orig) { code |= 8; what.push_str(&format!("fold {} is not a partition; ", i)); }
            }
        }
    }
    // iter_fold
    match run_iter_fold::<I>(d, k, rng.below(3) as usize) {
        None => { code |= 16; what.push_str("iter_fold panicked; "); }
        Some(o) => {
            if o.items.len() != k { code |= 32; what.push_str("iter_fold count; "); }
            for (i, p) in o.items.iter().enumerate() {
                let (er, et) = expect_valid(i);
                if p[2].data != er || p[3].data != et || p[2].rows != fs || p[3].rows != fs { code |= 64; what.push_str(&format!("iter_fold {} validation is not block; ", i)); }
                if sorted_pairs(&p[0], &p[1], &p[2], &p[3]).as_ref() != Some(&orig) { code |= 128; what.push_str(&format!("iter_fold {} is not a partition; ", i)); }
            }
            if o.rec != d.recs || o.tgt != d.tgts || !o.outside_ok { code |= 256; what.push_str("dataset not restored after iter_fold; "); }
        }
    }
    // cross_validate without failures: mean of the per-fold scores
    let spec = CvSpec { cms: (0..1 + rng.below(3)).map(|_| 0.1 + rng.unit()).collect(), q: 0.1 + rng.unit(), fail_fit: vec![], fail_eval: vec![] };
    let layout = rng.below(2) as usize;
    let single = rng.chance(0.5);
    let o = if I::IS1 { run_cv1(d, k, &spec, layout, single) } else { run_cv2(d, k, &spec, layout, single) };
    match o.res {
        CvRes::Panic => { code |= 16384; what.push_str("cross_validate panicked; "); }
        CvRes::Err(_) => { code |= 4096; what.push_str("cross_validate returned an error although nothing fails; "); }
        CvRes::Ok(a) => {
            let e = ref_cv(d, k, &spec);
            let close = a.data.len() == e.len() && a.rows == spec.cms.len() && a.data.iter().zip(&e).all(|(x, y)| (x - y).abs() <= 1e-9 * y.abs().max(1.0));
            if !close { code |= 2048; what.push_str("score is not the mean over the folds; "); }
            if o.rec != d.recs || o.tgt != d.tgts || !o.outside_ok { code |= 8192; what.push_str("dataset not restored after cross_validate; "); }
        }
    }
    (code, what)
}

// ---------------------------------------------------------------------------------------------
// Coq terms
fn foldpair_term(p: &[Arr; 4]) -> String {
    format!("FP {} {} {} {}", arr_term(&p[0]), arr_term(&p[1]), arr_term(&p[2]), arr_term(&p[3]))
}
fn fold_term(o: &FoldOut) -> String {
    copt(o.as_ref().map(|v| clist(v, foldpair_term)))
}
fn ifold_term(o: &Option<IfOut>) -> String {
    copt(o.as_ref().map(|r| {
        format!(
            "{{| ir_items := {}; ir_rec := {}; ir_tgt := {}; ir_outside_ok := {} |}}",
            clist(&r.items, |p| format!("II {} {} {} {}", arr_term(&p[0]), arr_term(&p[1]), arr_term(&p[2]), arr_term(&p[3]))),
            ctags(&r.rec),
            ctags(&r.tgt),
            cbool(r.outside_ok)
        )
    }))
}
fn chunks_term(size: usize, o: &Option<Vec<[Arr; 2]>>) -> String {
    format!("({}, {})", cn(size as u64), copt(o.as_ref().map(|v| clist(v, |p| format!("({}, {})", arr_term(&p[0]), arr_term(&p[1]))))))
}
fn cv_term(spec: &CvSpec, o: &CvOut) -> String {
    let res = match &o.res {
        CvRes::Ok(a) => format!("(CvOk {} {} {})", cn(a.rows as u64), cn(a.cols as u64), cvec64(&a.data)),
        CvRes::Err(id) => format!("(CvErr {})", cn(*id)),
        CvRes::Panic => "CvPanic".to_string(),
    };
    format!(
        "{{| cv_cm := {}; cv_q := {}; cv_fail_fit := {}; cv_fail_eval := {}; cv_out := {}; cv_rec := {}; cv_tgt := {}; cv_outside_ok := {} |}}",
        cvec64(&spec.cms),
        sf64(spec.q),
        clist(&spec.fail_fit, |(m, s, id)| format!("({}, {}, {})", cn(*m as u64), cn(*s), cn(*id))),
        clist(&spec.fail_eval, |(v, id)| format!("({}, {})", sf64(*v), cn(*id))),
        res,
        ctags(&o.rec),
        ctags(&o.tgt),
        cbool(o.outside_ok)
    )
}

struct Plan {
    fold_layouts: Vec<usize>,
    ifold_layouts: Vec<usize>,
    chunk_sizes: Vec<usize>,
    cvs: Vec<(CvSpec, usize, bool)>,
}

fn gen_cv_spec(d: &DataSet, k: usize, rng: &mut Sm64, failing: bool) -> CvSpec {
    let nm = 1 + rng.below(3) as usize;
    let cms: Vec<f64> = (0..nm).map(|_| 0.1 + rng.unit()).collect();
    let q = 0.1 + rng.unit();
    let mut spec = CvSpec { cms, q, fail_fit: vec![], fail_eval: vec![] };
    if failing && k >= 1 && k <= d.n {
        let fs = d.n / k;
        let nf = rng.below(3) as usize;
        let ne = if nf == 0 { 1 + rng.below(2) as usize } else { rng.below(3) as usize };
        let mut id = 1u64;
        // positions are biased to share a fold or a model so that the order of surfacing matters
        let anchor_fold = rng.below(k as u64) as usize;
        for _ in 0..nf {
            let i = if rng.chance(0.5) { anchor_fold } else { rng.below(k as u64) as usize };
            let m = rng.below(nm as u64) as usize;
            spec.fail_fit.push((m, ref_state(d, fs, i), id));
            id += 1;
        }
        for _ in 0..ne {
            let i = if rng.chance(0.5) { anchor_fold } else { rng.below(k as u64) as usize };
            let m = rng.below(nm as u64) as usize;
            spec.fail_eval.push((ref_p00(d, fs, i, spec.cms[m]), id));
            id += 1;
        }
    }
    spec
}

fn special_ks(n: usize, rng: &mut Sm64) -> Vec<usize> {
    let mut v = vec![2, 3, n, n - 1, n / 2, n / 2 + 1, n / 3, n / 3 + 1];
    for dv in 2..=n {
        if n % dv == 0 {
            v.push(dv);
            v.push(dv + 1);
            if dv > 2 {
                v.push(dv - 1);
            }
        }
    }
    v.push(2 + rng.below(n as u64 - 1) as usize);
    v.retain(|k| *k >= 2 && *k <= n);
    v.sort();
    v.dedup();
    v
}

fn emit(out: &mut Out, id: u64, d: &DataSet, k: usize, plan: &Plan, stream: &str) {
    if !out.wanted(id) {
        return;
    }
    let is1 = d.tdim == 0;
    let folds: Vec<String> = plan.fold_layouts.iter().map(|l| fold_term(&if is1 { run_fold::<Ix1>(d, k, *l) } else { run_fold::<Ix2>(d, k, *l) })).collect();
    let ifolds: Vec<String> =
        plan.ifold_layouts.iter().map(|l| ifold_term(&if is1 { run_iter_fold::<Ix1>(d, k, *l) } else { run_iter_fold::<Ix2>(d, k, *l) })).collect();
    let chunks: Vec<String> = plan
        .chunk_sizes
        .iter()
        .enumerate()
        .map(|(j, s)| chunks_term(*s, &if is1 { run_chunks::<Ix1>(d, *s, j % 2 == 1) } else { run_chunks::<Ix2>(d, *s, j % 2 == 1) }))
        .collect();
    let cvs: Vec<String> =
        plan.cvs.iter().map(|(spec, l, single)| cv_term(spec, &if is1 { run_cv1(d, k, spec, *l, *single) } else { run_cv2(d, k, spec, *l, *single) })).collect();
    let coq = format!(
        "{{| c_id := {}; c_n := {}; c_w := {}; c_tdim := {}; c_k := {}; c_recs := {}; c_tgts := {}; c_fold := [{}]; c_ifold := [{}]; c_chunks := [{}]; c_cv := [{}] |}}",
        cn(id), cn(d.n as u64), cn(d.w as u64), cn(d.tdim as u64), cn(k as u64), ctags(&d.recs), ctags(&d.tgts),
        folds.join("; "), ifolds.join("; "), chunks.join("; "), cvs.join("; ")
    );
    let in_domain = k >= 2 && k <= d.n;
    let mut tags: Vec<String> = vec![format!("stream_{}", stream)];
    tags.push(match d.tdim { 0 => "targets_ix1".into(), 1 => "targets_2d_single_column".into(), _ => "targets_multi_column".into() });
    tags.push(if !in_domain { "k_out_of_domain".into() } else if d.n % k == 0 { "k_divides_n".into() } else { "k_does_not_divide_n".into() });
    for l in &plan.fold_layouts { tags.push(format!("fold_layout_{}", FOLD_LAYOUTS[*l])); }
    for l in &plan.ifold_layouts { tags.push(format!("iter_fold_layout_{}", MUT_LAYOUTS[*l])); }
    if plan.cvs.iter().any(|(s, _, _)| !s.fail_fit.is_empty() || !s.fail_eval.is_empty()) { tags.push("cv_injected_failures".into()); }
    let desc = format!(
        "{{\"n\": {}, \"k\": {}, \"features\": {}, \"target_dim\": {}, \"target_columns\": {}, \"records\": \"row-major tags {}..\", \"targets\": \"row-major tags {}..\", \"fold_layouts\": {:?}, \"iter_fold_layouts\": {:?}, \"chunk_sizes\": {:?}, \"cv\": {}}}",
        d.n, k, d.w, if is1 { 1 } else { 2 }, d.tw, d.recs[0], d.tgts[0],
        plan.fold_layouts.iter().map(|l| FOLD_LAYOUTS[*l]).collect::<Vec<_>>(),
        plan.ifold_layouts.iter().map(|l| MUT_LAYOUTS[*l]).collect::<Vec<_>>(),
        plan.chunk_sizes,
        jstr(&format!("{:?}", plan.cvs.iter().map(|(s, l, sg)| (s.cms.len(), &s.fail_fit, &s.fail_eval, *l, *sg)).collect::<Vec<_>>()))
    );
    out.bump(&format!("stream_{}", stream));
    out.bump(&format!("targets_{}", match d.tdim { 0 => "ix1".to_string(), t => format!("2d_{}col", t) }));
    out.bump(&format!("features_{}", d.w));
    out.bump(if !in_domain { "k_out_of_domain" } else if d.n % k == 0 { "k_divides_n" } else { "k_does_not_divide_n" });
    out.bump(&format!("n_{}", if d.n <= 8 { "le8" } else if d.n <= 24 { "9to24" } else if d.n <= 64 { "25to64" } else { "gt64" }));
    out.bump_by("cv_runs", plan.cvs.len() as u64);
    out.bump_by("cv_runs_with_injected_failures", plan.cvs.iter().filter(|(s, _, _)| !s.fail_fit.is_empty() || !s.fail_eval.is_empty()).count() as u64);
    let key = if in_domain && d.n >= 3 {
        Some(fnv(format!("{}/{}/{}/{}/{:?}/{:?}", d.n, k, d.w, d.tdim, plan.fold_layouts, plan.ifold_layouts).as_bytes()))
    } else {
        None
    };
    let tagrefs: Vec<&str> = tags.iter().map(|s| s.as_str()).collect();
    out.case(id, &coq, &tagrefs, &desc, key);
}

fn main() {
    let args = parse_args();
    let mut rng = Sm64::new(args.seed);
    let thorough = args.tier == "thorough";
    let mut out = Out::new(&args.out, args.shards, "C01.Corr", "case", args.only);
    let mut id: u64 = 0;
    let combos: Vec<(usize, usize)> = (1..=3).flat_map(|w| (0..=3).map(move |t| (w, t))).collect();

    // (a) exhaustive small: every (n, k) with 2 <= k <= n <= nmax
    let nmax = if thorough { 32 } else { 24 };
    let all_combos_upto = if thorough { 12 } else { 8 };
    for n in 2..=nmax {
        for k in 2..=n {
            let sel: Vec<(usize, usize)> = if n <= all_combos_upto {
                combos.clone()
            } else {
                let per = if thorough { 3 } else { 2 };
                (0..per).map(|j| combos[(n * 7 + k * 5 + j * 5) % combos.len()]).collect()
            };
            for (w, tdim) in sel {
                let mut r = rng.fork();
                let d = DataSet::new(n, w, tdim, &mut r);
                let fs = n / k;
                let plan = Plan {
                    fold_layouts: if n <= 6 { vec![0, 1, 2, 3] } else if n <= 12 || thorough { vec![(id % 4) as usize, ((id + 1 + id / 4) % 4) as usize] } else { vec![((id + id / 4) % 4) as usize] },
                    ifold_layouts: if n <= 6 { vec![0, 1, 2] } else { vec![(id % 3) as usize] },
                    chunk_sizes: {
                        let mut v = vec![fs, [1, fs + 1, n, n + 1, 2][(id % 5) as usize]];
                        v.dedup();
                        v
                    },
                    cvs: vec![
                        (gen_cv_spec(&d, k, &mut r, false), (id % 2) as usize, id % 3 == 0),
                        (gen_cv_spec(&d, k, &mut r, true), ((id + 1) % 2) as usize, id % 3 == 1),
                    ],
                };
                emit(&mut out, id, &d, k, &plan, "exhaustive_small");
                id += 1;
            }
        }
    }

    // (b) structured random: larger n, fold counts around divisors / borders
    let nrandom = if thorough { 300 } else { 80 };
    let (lo, hi) = if thorough { (33, 160) } else { (25, 80) };
    for _ in 0..nrandom {
        let mut r = rng.fork();
        let n = r.range(lo, hi) as usize;
        let ks = special_ks(n, &mut r);
        let mut k = *r.pick(&ks);
        let cap = 4000;
        if k * n > cap {
            k = *ks.iter().filter(|k| **k * n <= cap).last().unwrap_or(&2);
        }
        let (w, tdim) = *r.pick(&combos);
        let d = DataSet::new(n, w, tdim, &mut r);
        let fs = n / k;
        let plan = Plan {
            fold_layouts: vec![r.below(4) as usize],
            ifold_layouts: vec![r.below(3) as usize],
            chunk_sizes: vec![fs, 1 + r.below(n as u64 + 1) as usize],
            cvs: vec![(gen_cv_spec(&d, k, &mut r, false), r.below(2) as usize, r.chance(0.5)), (gen_cv_spec(&d, k, &mut r, true), r.below(2) as usize, r.chance(0.5))],
        };
        emit(&mut out, id, &d, k, &plan, "structured_random");
        id += 1;
    }

    // (c) malformed fold counts: k = 0, 1, n + 1, n + 5 (documented panics; fold(1) has nothing to concatenate)
    for n in 1..=(if thorough { 8 } else { 5 }) {
        for k in [0usize, 1, n + 1, n + 5] {
            let mut r = rng.fork();
            let (w, tdim) = combos[(n * 5 + k) % combos.len()];
            let d = DataSet::new(n, w, tdim, &mut r);
            let plan = Plan {
                fold_layouts: vec![(id % 4) as usize],
                ifold_layouts: vec![(id % 3) as usize],
                chunk_sizes: vec![0, n + 1],
                cvs: vec![(gen_cv_spec(&d, k, &mut r, false), 0, false)],
            };
            emit(&mut out, id, &d, k, &plan, "malformed_k");
            id += 1;
        }
    }

    // (d) large datasets, judged by the Rust-side reference oracle only
    let nbig = if thorough { 500 } else { 60 };
    for _ in 0..nbig {
        let mut r = rng.fork();
        let n = r.range(81, if thorough { 600 } else { 400 }) as usize;
        let ks = special_ks(n, &mut r);
        let k = *r.pick(&ks);
        let (w, tdim) = *r.pick(&combos);
        let d = DataSet::new(n, w, tdim, &mut r);
        if out.wanted(id) {
            let (code, what) = if tdim == 0 { rust_oracle::<Ix1>(&d, k, &mut r) } else { rust_oracle::<Ix2>(&d, k, &mut r) };
            let desc = format!("{{\"n\": {}, \"k\": {}, \"features\": {}, \"target_dim\": {}, \"target_columns\": {}, \"stream\": \"large_rust_oracle\"}}", n, k, w, if tdim == 0 { 1 } else { 2 }, d.tw);
            let tags = [
                "stream_large_rust_oracle",
                match tdim { 0 => "targets_ix1", 1 => "targets_2d_single_column", _ => "targets_multi_column" },
                if n % k == 0 { "k_divides_n" } else { "k_does_not_divide_n" },
            ];
            out.bump("stream_large_rust_oracle");
            out.bump(if n % k == 0 { "k_divides_n" } else { "k_does_not_divide_n" });
            out.bump("n_gt64");
            if code != 0 {
                out.rust_fail(id, code, &tags, &what, &desc);
            }
            out.rust_eval(&desc, Some(fnv(format!("big/{}/{}/{}/{}", n, k, w, tdim).as_bytes())));
        }
        id += 1;
    }

    out.finish("identity-tagged datasets (every cell unique); stream (a): every (n, k) with 2 <= k <= n <= nmax for feature counts 1..3 and targets {1-D, 2-D with 1..3 columns} (all 12 combinations for small n, a rotating subset above), each through fold (owned / view / strided view / column-major), iter_fold (owned / mutable view / mutable row-range view of a larger array), sample_chunks and cross_validate(_single) with 1..3 mock models, with and without injected fit / evaluation failures; (b) larger n with fold counts at and next to divisors; (c) k = 0, 1, n+1, n+5; (d) n up to 400 (600) judged by a Rust-side reference. A case is non-trivial when 2 <= k <= n and n >= 3; distinct = distinct (n, k, features, target shape, layouts)");
}
