//! C01 harness: k-fold splitting (fold, iter_fold, sample_chunks, cross_validate) on identity-tagged
//! datasets in many storage layouts, with f64 and f32 elements; emits Coq cases for C01/Corr.v and
//! evaluates a Rust-side reference oracle on larger inputs.
use linfa::dataset::{DatasetBase, TargetDim};
use linfa::traits::{Fit, PredictInplace};
use linfa::Error;
use ndarray::{
    arr0, s, Array, Array1, Array2, ArrayBase, ArrayView1, ArrayView2, ArrayViewMut, ArrayViewMut1, ArrayViewMut2,
    Axis, Data, Dimension, Ix1, Ix2, ShapeBuilder, Slice,
};
use std::panic::AssertUnwindSafe;
use vh::*;

const JUNK: f64 = 7_777_777.0;
const JUNK_BASE: f64 = 7_000_000.0;

/// the two element / score types: every conversion used is exact on the values that occur, except
/// `of_u64` (Rust's `as` cast: round to nearest even, like of_N of the Coq instance)
trait Fl: linfa::Float + std::fmt::Debug {
    const IS32: bool;
    fn of64(x: f64) -> Self;
    fn to64(self) -> f64;
    fn of_u64(x: u64) -> Self;
    /// x rounded to this type, as f64
    fn round64(x: f64) -> f64 {
        Self::of64(x).to64()
    }
}
impl Fl for f64 {
    const IS32: bool = false;
    fn of64(x: f64) -> f64 { x }
    fn to64(self) -> f64 { self }
    fn of_u64(x: u64) -> f64 { x as f64 }
}
impl Fl for f32 {
    const IS32: bool = true;
    fn of64(x: f64) -> f32 { x as f32 }
    fn to64(self) -> f64 { self as f64 }
    fn of_u64(x: u64) -> f32 { x as f32 }
}

#[derive(Clone, Debug, PartialEq)]
struct Arr {
    rows: usize,
    cols: usize,
    data: Vec<f64>,
}
fn arr_of<F: Fl, S: Data<Elem = F>, D: Dimension>(a: &ArrayBase<S, D>) -> Arr {
    let sh = a.shape();
    Arr { rows: sh[0], cols: if sh.len() > 1 { sh[1] } else { 1 }, data: a.iter().map(|x| x.to64()).collect() }
}
fn flat64<F: Fl, S: Data<Elem = F>, D: Dimension>(a: &ArrayBase<S, D>) -> Vec<f64> {
    a.iter().map(|x| x.to64()).collect()
}
fn tagv(x: f64) -> u64 {
    if x.is_finite() && x >= 0.0 && x.fract() == 0.0 && x < 1e15 { x as u64 } else { 999_999_999_999 }
}
/// lossless run-length form of a tag sequence: maximal runs of consecutive integers (start, length);
/// `runs` in C01/Corr.v expands it again
fn cruns(xs: &[f64]) -> String {
    let mut runs: Vec<(u64, u64)> = vec![];
    for x in xs {
        let t = tagv(*x);
        match runs.last_mut() {
            Some((s, l)) if *s + *l == t => *l += 1,
            _ => runs.push((t, 1)),
        }
    }
    clist(&runs, |(s, l)| format!("({},{})", s, l))
}
fn ctags(xs: &[f64]) -> String {
    format!("(runs {})%N", cruns(xs))
}
fn arr_term(a: &Arr) -> String {
    format!("(A {} {} {})%N", a.rows, a.cols, cruns(&a.data))
}
fn copt(x: Option<String>) -> String {
    match x {
        Some(s) => format!("(Some {})", s),
        None => "None".to_string(),
    }
}

// ---------------------------------------------------------------------------------------------
// storage layouts of an array of logical shape (n, w): the owned parent allocation and the view into it
const KINDS: [&str; 8] = ["c_order", "fortran", "transposed", "row_step2", "col_range", "row_range", "rows_reversed", "cols_reversed"];

fn fill_junk(buf: &mut [f64]) {
    for (i, x) in buf.iter_mut().enumerate() {
        if x.is_nan() {
            *x = JUNK_BASE + i as f64;
        }
    }
}
/// parent allocation for the logical row-major `data` of shape (n, w); every cell that does not belong
/// to the view carries the unique junk tag JUNK_BASE + (its position in memory)
fn parent2(data: &[f64], n: usize, w: usize, kind: usize) -> Array2<f64> {
    let at = |r: usize, c: usize| data[r * w + c];
    let mut p = match kind {
        0 => Array2::from_shape_fn((n, w), |(r, c)| at(r, c)),
        1 => Array2::from_shape_fn((n, w).f(), |(r, c)| at(r, c)),
        2 => Array2::from_shape_fn((w, n), |(c, r)| at(r, c)),
        3 => Array2::from_shape_fn((2 * n + 1, w), |(r, c)| if r % 2 == 1 { at(r / 2, c) } else { f64::NAN }),
        4 => Array2::from_shape_fn((n, w + 2), |(r, c)| if c >= 1 && c <= w { at(r, c - 1) } else { f64::NAN }),
        5 => Array2::from_shape_fn((n + 3, w), |(r, c)| if r >= 2 && r < 2 + n { at(r - 2, c) } else { f64::NAN }),
        6 => Array2::from_shape_fn((n, w), |(r, c)| at(n - 1 - r, c)),
        _ => Array2::from_shape_fn((n, w), |(r, c)| at(r, w - 1 - c)),
    };
    fill_junk(p.as_slice_memory_order_mut().unwrap());
    p
}
fn view2<'a>(p: &'a mut Array2<f64>, n: usize, w: usize, kind: usize) -> ArrayViewMut2<'a, f64> {
    match kind {
        0 | 1 => p.view_mut(),
        2 => p.view_mut().reversed_axes(),
        3 => p.slice_mut(s![1..;2, ..]),
        4 => p.slice_mut(s![.., 1..1 + w]),
        5 => p.slice_mut(s![2..2 + n, ..]),
        6 => p.slice_mut(s![..;-1, ..]),
        _ => p.slice_mut(s![.., ..;-1]),
    }
}
/// one-dimensional arrays know four of the kinds: 0 contiguous, 3 every second cell, 5 a range, 6 reversed
fn parent1(data: &[f64], n: usize, kind: usize) -> Array1<f64> {
    let mut p = match kind {
        3 => Array1::from_shape_fn(2 * n + 1, |r| if r % 2 == 1 { data[r / 2] } else { f64::NAN }),
        5 => Array1::from_shape_fn(n + 3, |r| if r >= 2 && r < 2 + n { data[r - 2] } else { f64::NAN }),
        6 => Array1::from_shape_fn(n, |r| data[n - 1 - r]),
        _ => Array1::from_shape_fn(n, |r| data[r]),
    };
    fill_junk(p.as_slice_memory_order_mut().unwrap());
    p
}
fn view1<'a>(p: &'a mut Array1<f64>, n: usize, kind: usize) -> ArrayViewMut1<'a, f64> {
    match kind {
        3 => p.slice_mut(s![1..;2]),
        5 => p.slice_mut(s![2..2 + n]),
        6 => p.slice_mut(s![..;-1]),
        _ => p.view_mut(),
    }
}
/// where ndarray put the view: offset of element (0, ..) from the start of the parent's memory and the
/// strides, in elements (second stride 0 for one axis)
#[derive(Clone, Debug)]
struct Desc {
    off: usize,
    s0: isize,
    s1: isize,
}
fn describe<D: Dimension>(base: *const f64, v: &ArrayViewMut<f64, D>) -> Desc {
    let st = v.strides();
    Desc { off: (v.as_ptr() as usize - base as usize) / std::mem::size_of::<f64>(), s0: st[0], s1: if st.len() > 1 { st[1] } else { 0 } }
}
fn mem<D: Dimension>(p: &Array<f64, D>) -> Vec<f64> {
    p.as_slice_memory_order().unwrap().to_vec()
}

trait TD: TargetDim {
    const IS1: bool;
    fn shape(rows: usize, tw: usize) -> Self;
    /// the layout kind a target array of this dimension uses when `kind` is asked for
    fn tkind(kind: usize) -> usize;
    fn tparent(data: &[f64], n: usize, tw: usize, kind: usize) -> Array<f64, Self>;
    fn tview<'a>(p: &'a mut Array<f64, Self>, n: usize, tw: usize, kind: usize) -> ArrayViewMut<'a, f64, Self>;
    fn cv_call<F: Fl, D, S>(ds: &mut DatasetBase<ArrayBase<D, Ix2>, ArrayBase<S, Self>>, k: usize, params: &[MockP<F>], spec: &CvSpec, single: bool) -> CvRes
    where
        D: ndarray::DataMut<Elem = F>,
        S: ndarray::DataMut<Elem = F>;
}
impl TD for Ix1 {
    const IS1: bool = true;
    fn shape(rows: usize, _tw: usize) -> Ix1 {
        ndarray::Ix1(rows)
    }
    fn tkind(kind: usize) -> usize {
        [0, 0, 6, 3, 5, 5, 6, 3][kind]
    }
    fn tparent(data: &[f64], n: usize, _tw: usize, kind: usize) -> Array1<f64> {
        parent1(data, n, kind)
    }
    fn tview<'a>(p: &'a mut Array1<f64>, n: usize, _tw: usize, kind: usize) -> ArrayViewMut1<'a, f64> {
        view1(p, n, kind)
    }
    fn cv_call<F: Fl, D, S>(ds: &mut DatasetBase<ArrayBase<D, Ix2>, ArrayBase<S, Ix1>>, k: usize, params: &[MockP<F>], spec: &CvSpec, single: bool) -> CvRes
    where
        D: ndarray::DataMut<Elem = F>,
        S: ndarray::DataMut<Elem = F>,
    {
        if single {
            conv_cv(ds.cross_validate_single(k, params, |p, t| eval1(spec, p, t)))
        } else {
            conv_cv(ds.cross_validate(k, params, |p, t| eval1(spec, p, t).map(arr0)))
        }
    }
}
impl TD for Ix2 {
    const IS1: bool = false;
    fn shape(rows: usize, tw: usize) -> Ix2 {
        ndarray::Ix2(rows, tw)
    }
    fn tkind(kind: usize) -> usize {
        kind
    }
    fn tparent(data: &[f64], n: usize, tw: usize, kind: usize) -> Array2<f64> {
        parent2(data, n, tw, kind)
    }
    fn tview<'a>(p: &'a mut Array2<f64>, n: usize, tw: usize, kind: usize) -> ArrayViewMut2<'a, f64> {
        view2(p, n, tw, kind)
    }
    fn cv_call<F: Fl, D, S>(ds: &mut DatasetBase<ArrayBase<D, Ix2>, ArrayBase<S, Ix2>>, k: usize, params: &[MockP<F>], spec: &CvSpec, _single: bool) -> CvRes
    where
        D: ndarray::DataMut<Elem = F>,
        S: ndarray::DataMut<Elem = F>,
    {
        conv_cv(ds.cross_validate(k, params, |p, t| eval2(spec, p, t)))
    }
}

#[derive(Clone, Debug)]
struct DataSet {
    n: usize,
    w: usize,
    tdim: usize, // 0 = one-dimensional targets, t > 0 = (n, t) targets
    tw: usize,
    recs: Vec<f64>,
    tgts: Vec<f64>,
}
impl DataSet {
    fn new(n: usize, w: usize, tdim: usize, rng: &mut Sm64) -> DataSet {
        let tw = if tdim == 0 { 1 } else { tdim };
        // identity tags: every cell is unique, records and targets live in disjoint ranges
        let rb = 1 + rng.below(20);
        let tb = 500 + rng.below(20);
        let recs = (0..n * w).map(|i| (rb + i as u64) as f64).collect();
        let tgts = (0..n * tw).map(|i| (tb + i as u64) as f64).collect();
        DataSet { n, w, tdim, tw, recs, tgts }
    }
    fn rec_owned<F: Fl>(&self) -> Array2<F> {
        Array2::from_shape_vec((self.n, self.w), self.recs.iter().map(|x| F::of64(*x)).collect()).unwrap()
    }
    fn tgt_owned<F: Fl, I: TD>(&self) -> Array<F, I> {
        Array::from_shape_vec(I::shape(self.n, self.tw), self.tgts.iter().map(|x| F::of64(*x)).collect()).unwrap()
    }
    fn rec_fortran(&self) -> Array2<f64> {
        let mut v = Vec::with_capacity(self.n * self.w);
        for c in 0..self.w {
            for r in 0..self.n {
                v.push(self.recs[r * self.w + c]);
            }
        }
        Array2::from_shape_vec((self.n, self.w).f(), v).unwrap()
    }
    /// parent with junk rows in between (data on the odd rows) and junk columns around the records
    fn rec_strided_parent(&self) -> Array2<f64> {
        let mut p = Array2::from_elem((2 * self.n + 1, self.w + 2), JUNK);
        for r in 0..self.n {
            for c in 0..self.w {
                p[[2 * r + 1, c + 1]] = self.recs[r * self.w + c];
            }
        }
        p
    }
    fn tgt_strided_parent<I: TD>(&self) -> Array<f64, I> {
        let mut v = vec![JUNK; (2 * self.n + 1) * self.tw];
        for r in 0..self.n {
            for c in 0..self.tw {
                v[(2 * r + 1) * self.tw + c] = self.tgts[r * self.tw + c];
            }
        }
        Array::from_shape_vec(I::shape(2 * self.n + 1, self.tw), v).unwrap()
    }
    /// contiguous parent: 2 junk rows, the data, 1 junk row
    fn rec_range_parent<F: Fl>(&self) -> Array2<F> {
        let mut v = vec![F::of64(JUNK); 2 * self.w];
        v.extend(self.recs.iter().map(|x| F::of64(*x)));
        v.extend(vec![F::of64(JUNK); self.w]);
        Array2::from_shape_vec((self.n + 3, self.w), v).unwrap()
    }
    fn tgt_range_parent<F: Fl, I: TD>(&self) -> Array<F, I> {
        let mut v = vec![F::of64(JUNK); 2 * self.tw];
        v.extend(self.tgts.iter().map(|x| F::of64(*x)));
        v.extend(vec![F::of64(JUNK); self.tw]);
        Array::from_shape_vec(I::shape(self.n + 3, self.tw), v).unwrap()
    }
    fn range_outside_ok<F: Fl, I: TD>(&self, pr: &Array2<F>, pt: &Array<F, I>) -> bool {
        let a = flat64(pr);
        let b = flat64(pt);
        let (w, tw, n) = (self.w, self.tw, self.n);
        a[..2 * w].iter().all(|x| *x == JUNK)
            && a[(2 + n) * w..].iter().all(|x| *x == JUNK)
            && b[..2 * tw].iter().all(|x| *x == JUNK)
            && b[(2 + n) * tw..].iter().all(|x| *x == JUNK)
    }
}

// ---------------------------------------------------------------------------------------------
// fold
type FoldOut = Option<Vec<[Arr; 4]>>;

fn conv_fold<I: TD>(v: Vec<(DatasetBase<Array2<f64>, Array<f64, I>>, DatasetBase<Array2<f64>, Array<f64, I>>)>) -> Vec<[Arr; 4]> {
    v.iter().map(|(tr, va)| [arr_of(tr.records()), arr_of(tr.targets()), arr_of(va.records()), arr_of(va.targets())]).collect()
}

const FOLD_LAYOUTS: [&str; 8] =
    ["owned", "view", "strided_view", "fortran", "transposed_view", "col_range_view", "rows_reversed_view", "cols_reversed_records_stepped_targets"];
fn run_fold<I: TD>(d: &DataSet, k: usize, layout: usize) -> FoldOut {
    let r = guarded(AssertUnwindSafe(|| match layout {
        0 => conv_fold(DatasetBase::new(d.rec_owned::<f64>(), d.tgt_owned::<f64, I>()).fold(k)),
        1 => {
            let (r, t) = (d.rec_owned::<f64>(), d.tgt_owned::<f64, I>());
            let ds = DatasetBase::new(r.view(), t.view());
            conv_fold(ds.fold(k))
        }
        2 => {
            let (pr, pt) = (d.rec_strided_parent(), d.tgt_strided_parent::<I>());
            let rv = pr.slice(ndarray::s![1..;2, 1..1 + d.w]);
            let tv = pt.slice_axis(Axis(0), Slice::new(1, None, 2));
            let ds = DatasetBase::new(rv, tv);
            conv_fold(ds.fold(k))
        }
        3 => {
            let t = d.tgt_owned::<f64, I>();
            conv_fold(DatasetBase::new(d.rec_fortran(), t).fold(k))
        }
        l => {
            let (rk, tk) = match l {
                4 => (2, 2),
                5 => (4, 4),
                6 => (6, 6),
                _ => (7, 3),
            };
            let tk = I::tkind(tk);
            let mut pr = parent2(&d.recs, d.n, d.w, rk);
            let mut pt = I::tparent(&d.tgts, d.n, d.tw, tk);
            let rv = view2(&mut pr, d.n, d.w, rk);
            let tv = I::tview(&mut pt, d.n, d.tw, tk);
            let ds = DatasetBase::new(rv.view(), tv.view());
            conv_fold(ds.fold(k))
        }
    }));
    r.ok()
}

// ---------------------------------------------------------------------------------------------
// iter_fold
struct IfOut {
    items: Vec<[Arr; 4]>, // closure argument (records, targets), validation view (records, targets)
    rec: Vec<f64>,
    tgt: Vec<f64>,
    outside_ok: bool,
}
const MUT_LAYOUTS: [&str; 3] = ["owned", "view_mut", "row_range_view_mut"];

fn iter_fold_on<'a, D, S, I: TD>(ds: &'a mut DatasetBase<ArrayBase<D, Ix2>, ArrayBase<S, I>>, k: usize) -> Vec<[Arr; 4]>
where
    D: ndarray::DataMut<Elem = f64>,
    S: ndarray::DataMut<Elem = f64>,
{
    ds.iter_fold(k, |train| (arr_of(train.records()), arr_of(train.targets())))
        .map(|((ar, at), valid)| [ar, at, arr_of(valid.records()), arr_of(valid.targets())])
        .collect()
}

fn run_iter_fold<I: TD>(d: &DataSet, k: usize, layout: usize) -> Option<IfOut> {
    let r = guarded(AssertUnwindSafe(|| match layout {
        0 => {
            let mut ds = DatasetBase::new(d.rec_owned::<f64>(), d.tgt_owned::<f64, I>());
            let items = iter_fold_on(&mut ds, k);
            IfOut { items, rec: ds.records().iter().cloned().collect(), tgt: ds.targets().iter().cloned().collect(), outside_ok: true }
        }
        1 => {
            let (mut r, mut t) = (d.rec_owned::<f64>(), d.tgt_owned::<f64, I>());
            let items = {
                let mut ds = DatasetBase::new(r.view_mut(), t.view_mut());
                iter_fold_on(&mut ds, k)
            };
            IfOut { items, rec: r.iter().cloned().collect(), tgt: t.iter().cloned().collect(), outside_ok: true }
        }
        _ => {
            let (mut pr, mut pt) = (d.rec_range_parent::<f64>(), d.tgt_range_parent::<f64, I>());
            let items = {
                let rv = pr.slice_axis_mut(Axis(0), Slice::from(2..2 + d.n));
                let tv = pt.slice_axis_mut(Axis(0), Slice::from(2..2 + d.n));
                let mut ds = DatasetBase::new(rv, tv);
                iter_fold_on(&mut ds, k)
            };
            let ok = d.range_outside_ok(&pr, &pt);
            IfOut {
                items,
                rec: pr.slice_axis(Axis(0), Slice::from(2..2 + d.n)).iter().cloned().collect(),
                tgt: pt.slice_axis(Axis(0), Slice::from(2..2 + d.n)).iter().cloned().collect(),
                outside_ok: ok,
            }
        }
    }));
    r.ok()
}

// ---------------------------------------------------------------------------------------------
// sample_chunks
fn run_chunks<I: TD>(d: &DataSet, size: usize, view: bool) -> Option<Vec<[Arr; 2]>> {
    guarded(AssertUnwindSafe(|| {
        if view {
            let (r, t) = (d.rec_owned::<f64>(), d.tgt_owned::<f64, I>());
            let ds = DatasetBase::new(r.view(), t.view());
            let v: Vec<[Arr; 2]> = ds.sample_chunks(size).map(|c| [arr_of(c.records()), arr_of(c.targets())]).collect();
            v
        } else {
            let ds = DatasetBase::new(d.rec_owned::<f64>(), d.tgt_owned::<f64, I>());
            let v: Vec<[Arr; 2]> = ds.sample_chunks(size).map(|c| [arr_of(c.records()), arr_of(c.targets())]).collect();
            v
        }
    }))
    .ok()
}

// ---------------------------------------------------------------------------------------------
// cross_validate with mock models (the same functions as C01/Corr.v mock_fit / mock_predict / mock_eval),
// generic in the element / score type.  All numbers of a CvSpec are stored as f64 and are exactly
// representable in the type they are used with.
#[derive(Clone, Debug)]
struct CvSpec {
    cms: Vec<f64>,
    q: f64,
    fail_fit: Vec<(usize, u64, u64)>, // (model, state, error id)
    fail_eval: Vec<(f64, u64)>,       // (first predicted value, error id)
}
struct MockP<F> {
    idx: usize,
    cm: F,
    tw: usize,
    fail: Vec<(usize, u64, u64)>,
}
struct MockM<F> {
    cm: F,
    s: u64,
    tw: usize,
}
fn mock_state(rec_sum: f64, tgt_sum: f64) -> u64 {
    (rec_sum + 3.0 * tgt_sum) as u64
}
/// sum of integer tags, exact in f64
fn sum64<F: Fl, S: Data<Elem = F>, D: Dimension>(a: &ArrayBase<S, D>) -> f64 {
    a.iter().map(|x| x.to64()).sum::<f64>()
}
impl<F: Fl> MockP<F> {
    fn fit_on(&self, rec_sum: f64, tgt_sum: f64) -> Result<MockM<F>, Error> {
        let s = mock_state(rec_sum, tgt_sum);
        for (m, st, id) in &self.fail {
            if *m == self.idx && *st == s {
                return Err(Error::Parameters(format!("E{}", id)));
            }
        }
        Ok(MockM { cm: self.cm, s, tw: self.tw })
    }
}
impl<'a, F: Fl> Fit<ArrayView2<'a, F>, ArrayView1<'a, F>, Error> for MockP<F> {
    type Object = MockM<F>;
    fn fit(&self, d: &DatasetBase<ArrayView2<'a, F>, ArrayView1<'a, F>>) -> Result<MockM<F>, Error> {
        self.fit_on(sum64(d.records()), sum64(d.targets()))
    }
}
impl<'a, F: Fl> Fit<ArrayView2<'a, F>, ArrayView2<'a, F>, Error> for MockP<F> {
    type Object = MockM<F>;
    fn fit(&self, d: &DatasetBase<ArrayView2<'a, F>, ArrayView2<'a, F>>) -> Result<MockM<F>, Error> {
        self.fit_on(sum64(d.records()), sum64(d.targets()))
    }
}
fn mock_base<F: Fl>(s: u64, cm: F, r0: F) -> F {
    F::of_u64(s) * cm + r0
}
impl<'b, F: Fl> PredictInplace<ArrayView2<'b, F>, Array1<F>> for MockM<F> {
    fn predict_inplace<'a>(&'a self, x: &'a ArrayView2<'b, F>, y: &mut Array1<F>) {
        for j in 0..x.nrows() {
            y[j] = mock_base(self.s, self.cm, x[[j, 0]]) + F::of64(0.0);
        }
    }
    fn default_target(&self, x: &ArrayView2<'b, F>) -> Array1<F> {
        Array1::zeros(x.nrows())
    }
}
impl<'b, F: Fl> PredictInplace<ArrayView2<'b, F>, Array2<F>> for MockM<F> {
    fn predict_inplace<'a>(&'a self, x: &'a ArrayView2<'b, F>, y: &mut Array2<F>) {
        for j in 0..x.nrows() {
            let base = mock_base(self.s, self.cm, x[[j, 0]]);
            for c in 0..self.tw {
                y[[j, c]] = base + F::of_u64(2 * c as u64); // columns get different scores
            }
        }
    }
    fn default_target(&self, x: &ArrayView2<'b, F>) -> Array2<F> {
        Array2::zeros((x.nrows(), self.tw))
    }
}
fn eval_fail<F: Fl>(spec: &CvSpec, p00: F) -> Option<Error> {
    for (v, id) in &spec.fail_eval {
        if v.to_bits() == p00.to64().to_bits() {
            return Some(Error::Parameters(format!("E{}", id)));
        }
    }
    None
}
fn eval1<F: Fl>(spec: &CvSpec, pred: &Array1<F>, truth: &ArrayView1<F>) -> Result<F, Error> {
    if let Some(e) = eval_fail(spec, pred[0]) {
        return Err(e);
    }
    let q = F::of64(spec.q);
    let mut acc = F::of64(0.0);
    for j in 0..pred.len() {
        acc = acc + (pred[j] - truth[j]) * q;
    }
    Ok(acc)
}
fn eval2<F: Fl>(spec: &CvSpec, pred: &Array2<F>, truth: &ArrayView2<F>) -> Result<Array1<F>, Error> {
    if let Some(e) = eval_fail(spec, pred[[0, 0]]) {
        return Err(e);
    }
    let q = F::of64(spec.q);
    let mut out = Array1::zeros(pred.ncols());
    for c in 0..pred.ncols() {
        let mut acc = F::of64(0.0);
        for j in 0..pred.nrows() {
            acc = acc + (pred[[j, c]] - truth[[j, c]]) * q;
        }
        out[c] = acc;
    }
    Ok(out)
}

#[derive(Clone, Debug)]
enum CvRes {
    Ok(Arr),
    Err(u64),
    Panic,
}
struct CvOut {
    res: CvRes,
    rec: Vec<f64>,
    tgt: Vec<f64>,
    outside_ok: bool,
}
fn err_id(e: &Error) -> u64 {
    match e {
        Error::Parameters(s) if s.starts_with('E') => s[1..].parse().unwrap_or(999_999),
        _ => 999_999,
    }
}
fn params_of<F: Fl>(d: &DataSet, spec: &CvSpec) -> Vec<MockP<F>> {
    spec.cms.iter().enumerate().map(|(i, c)| MockP { idx: i, cm: F::of64(*c), tw: d.tw, fail: spec.fail_fit.clone() }).collect()
}
fn conv_cv<F: Fl, Dm: Dimension>(r: Result<Array<F, Dm>, Error>) -> CvRes {
    match r {
        Ok(a) => CvRes::Ok(arr_of(&a)),
        Err(e) => CvRes::Err(err_id(&e)),
    }
}

/// layout 0: owned arrays; otherwise a mutable row-range view of a larger array
fn run_cv<F: Fl, I: TD>(d: &DataSet, k: usize, spec: &CvSpec, layout: usize, single: bool) -> CvOut {
    let params = params_of::<F>(d, spec);
    let r = guarded(AssertUnwindSafe(|| match layout {
        0 => {
            let mut ds = DatasetBase::new(d.rec_owned::<F>(), d.tgt_owned::<F, I>());
            let res = I::cv_call(&mut ds, k, &params, spec, single);
            (res, flat64(ds.records()), flat64(ds.targets()), true)
        }
        _ => {
            let (mut pr, mut pt) = (d.rec_range_parent::<F>(), d.tgt_range_parent::<F, I>());
            let res = {
                let rv = pr.slice_axis_mut(Axis(0), Slice::from(2..2 + d.n));
                let tv = pt.slice_axis_mut(Axis(0), Slice::from(2..2 + d.n));
                let mut ds = DatasetBase::new(rv, tv);
                I::cv_call(&mut ds, k, &params, spec, single)
            };
            let ok = d.range_outside_ok(&pr, &pt);
            (res, flat64(&pr.slice_axis(Axis(0), Slice::from(2..2 + d.n))), flat64(&pt.slice_axis(Axis(0), Slice::from(2..2 + d.n))), ok)
        }
    }));
    match r {
        Ok((res, rec, tgt, ok)) => CvOut { res, rec, tgt, outside_ok: ok },
        Err(_) => CvOut { res: CvRes::Panic, rec: vec![], tgt: vec![], outside_ok: true },
    }
}

// ---------------------------------------------------------------------------------------------
// iter_fold / cross_validate on a dataset in a given pair of storage layouts
struct LayRun {
    rkind: usize,
    tkind: usize,
    std: bool, // ndarray's own is_standard_layout() of both views (statistics only; Coq decides from the strides)
    rdesc: Desc,
    rpar: Vec<f64>,
    tdesc: Desc,
    tpar: Vec<f64>,
    ifold: Option<(IfOut, Vec<f64>, Vec<f64>)>, // None = panic; else result and both parent buffers afterwards
    cv: Option<(CvSpec, bool, CvOut, Option<(Vec<f64>, Vec<f64>)>)>,
    panic_dirty: bool, // a panicking call left a parent buffer modified
}
fn run_lay<I: TD>(d: &DataSet, k: usize, rkind: usize, tkind: usize, cv: Option<(CvSpec, bool)>) -> LayRun {
    let tkind = I::tkind(tkind);
    let mut pr = parent2(&d.recs, d.n, d.w, rkind);
    let mut pt = I::tparent(&d.tgts, d.n, d.tw, tkind);
    let (rpar, tpar) = (mem(&pr), mem(&pt));
    let (rbase, tbase) = (pr.as_slice_memory_order().unwrap().as_ptr(), pt.as_slice_memory_order().unwrap().as_ptr());
    let (rdesc, tdesc, std) = {
        let rv = view2(&mut pr, d.n, d.w, rkind);
        let tv = I::tview(&mut pt, d.n, d.tw, tkind);
        (describe(rbase, &rv), describe(tbase, &tv), rv.is_standard_layout() && tv.is_standard_layout())
    };
    let r = guarded(AssertUnwindSafe(|| {
        let rv = view2(&mut pr, d.n, d.w, rkind);
        let tv = I::tview(&mut pt, d.n, d.tw, tkind);
        let mut ds = DatasetBase::new(rv, tv);
        let items = iter_fold_on(&mut ds, k);
        (items, flat64(ds.records()), flat64(ds.targets()))
    }));
    let mut panic_dirty = r.is_err() && (mem(&pr) != rpar || mem(&pt) != tpar);
    let ifold = r.ok().map(|(items, rec, tgt)| (IfOut { items, rec, tgt, outside_ok: true }, mem(&pr), mem(&pt)));
    let cv = cv.map(|(spec, single)| {
        let mut pr = parent2(&d.recs, d.n, d.w, rkind);
        let mut pt = I::tparent(&d.tgts, d.n, d.tw, tkind);
        let params = params_of::<f64>(d, &spec);
        let r = guarded(AssertUnwindSafe(|| {
            let rv = view2(&mut pr, d.n, d.w, rkind);
            let tv = I::tview(&mut pt, d.n, d.tw, tkind);
            let mut ds = DatasetBase::new(rv, tv);
            let res = I::cv_call(&mut ds, k, &params, &spec, single);
            (res, flat64(ds.records()), flat64(ds.targets()))
        }));
        match r {
            Ok((res, rec, tgt)) => (spec, single, CvOut { res, rec, tgt, outside_ok: true }, Some((mem(&pr), mem(&pt)))),
            Err(_) => {
                panic_dirty |= mem(&pr) != rpar || mem(&pt) != tpar;
                (spec, single, CvOut { res: CvRes::Panic, rec: vec![], tgt: vec![], outside_ok: true }, None)
            }
        }
    });
    LayRun { rkind, tkind, std, rdesc, rpar, tdesc, tpar, ifold, cv, panic_dirty }
}

// ---------------------------------------------------------------------------------------------
// reference (Rust side): consecutive blocks and complements on row indices
fn block_rows(n: usize, fs: usize, i: usize) -> std::ops::Range<usize> {
    let _ = n;
    i * fs..(i + 1) * fs
}
fn rows_flat(buf: &[f64], w: usize, rows: impl Iterator<Item = usize>) -> Vec<f64> {
    let mut v = Vec::new();
    for r in rows {
        v.extend_from_slice(&buf[r * w..(r + 1) * w]);
    }
    v
}
/// training state of fold i as the mock fit computes it (sum over the complement of block i)
fn ref_state(d: &DataSet, fs: usize, i: usize) -> u64 {
    let rs: f64 = rows_flat(&d.recs, d.w, (0..d.n).filter(|r| !block_rows(d.n, fs, i).contains(r))).iter().sum();
    let ts: f64 = rows_flat(&d.tgts, d.tw, (0..d.n).filter(|r| !block_rows(d.n, fs, i).contains(r))).iter().sum();
    mock_state(rs, ts)
}
fn ref_p00<F: Fl>(d: &DataSet, fs: usize, i: usize, cm: f64) -> f64 {
    (mock_base::<F>(ref_state(d, fs, i), F::of64(cm), F::of64(d.recs[i * fs * d.w])) + F::of64(0.0)).to64()
}
/// reference scores (fold-major mean in the implementation's accumulation order)
fn ref_cv(d: &DataSet, k: usize, spec: &CvSpec) -> Vec<f64> {
    let fs = d.n / k;
    let mut out = vec![];
    for cm in &spec.cms {
        for c in 0..d.tw {
            let mut total = 0.0f64;
            for i in 0..k {
                let s = ref_state(d, fs, i);
                let mut acc = 0.0f64;
                for r in block_rows(d.n, fs, i) {
                    let p = mock_base(s, *cm, d.recs[r * d.w]) + (2 * c) as f64;
                    acc = acc + (p - d.tgts[r * d.tw + c]) * spec.q;
                }
                total = total + (0.0 + acc);
            }
            out.push(total / k as f64);
        }
    }
    out
}

/// Rust-side oracle on one dataset (used for sizes that are too large to ship to Coq): returns the
/// oracle code (same bits as the Coq oracle) of fold / iter_fold / cross_validate
fn rust_oracle<I: TD>(d: &DataSet, k: usize, rng: &mut Sm64) -> (u64, String) {
    let fs = d.n / k;
    let mut code = 0u64;
    let mut what = String::new();
    let expect_valid = |i: usize| (rows_flat(&d.recs, d.w, block_rows(d.n, fs, i)), rows_flat(&d.tgts, d.tw, block_rows(d.n, fs, i)));
    let sorted_pairs = |r: &Arr, t: &Arr, r2: &Arr, t2: &Arr| {
        let mut v: Vec<(Vec<u64>, Vec<u64>)> = vec![];
        for (a, b) in [(r, t), (r2, t2)] {
            if a.rows != b.rows || a.cols != d.w || b.cols != d.tw || a.data.len() != a.rows * a.cols || b.data.len() != b.rows * b.cols {
                return None;
            }
            for j in 0..a.rows {
                v.push((a.data[j * d.w..(j + 1) * d.w].iter().map(|x| x.to_bits()).collect(), b.data[j * d.tw..(j + 1) * d.tw].iter().map(|x| x.to_bits()).collect()));
            }
        }
        v.sort();
        Some(v)
    };
    let orig = {
        let e = Arr { rows: 0, cols: d.w, data: vec![] };
        let et = Arr { rows: 0, cols: d.tw, data: vec![] };
        sorted_pairs(&Arr { rows: d.n, cols: d.w, data: d.recs.clone() }, &Arr { rows: d.n, cols: d.tw, data: d.tgts.clone() }, &e, &et).unwrap()
    };
    // fold
    match run_fold::<I>(d, k, rng.below(FOLD_LAYOUTS.len() as u64) as usize) {
        None => { code |= 1; what.push_str("fold panicked; "); }
        Some(v) => {
            if v.len() != k { code |= 2; what.push_str("fold count; "); }
            for (i, p) in v.iter().enumerate() {
                let (er, et) = expect_valid(i);
                if p[2].data != er || p[3].data != et || p[2].rows != fs || p[3].rows != fs { code |= 4; what.push_str(&format!("fold {} validation is not block; ", i)); }
                if sorted_pairs(&p[0], &p[1], &p[2], &p[3]).as_ref() != Some(&orig) { code |= 8; what.push_str(&format!("fold {} is not a partition; ", i)); }
            }
        }
    }
    // iter_fold
    match run_iter_fold::<I>(d, k, rng.below(3) as usize) {
        None => { code |= 16; what.push_str("iter_fold panicked; "); }
        Some(o) => {
            if o.items.len() != k { code |= 32; what.push_str("iter_fold count; "); }
            for (i, p) in o.items.iter().enumerate() {
                let (er, et) = expect_valid(i);
                if p[2].data != er || p[3].data != et || p[2].rows != fs || p[3].rows != fs { code |= 64; what.push_str(&format!("iter_fold {} validation is not block; ", i)); }
                if sorted_pairs(&p[0], &p[1], &p[2], &p[3]).as_ref() != Some(&orig) { code |= 128; what.push_str(&format!("iter_fold {} is not a partition; ", i)); }
            }
            if o.rec != d.recs || o.tgt != d.tgts || !o.outside_ok { code |= 256; what.push_str("dataset not restored after iter_fold; "); }
        }
    }
    // cross_validate without failures: mean of the per-fold scores
    let spec = CvSpec { cms: (0..1 + rng.below(3)).map(|_| 0.1 + rng.unit()).collect(), q: 0.1 + rng.unit(), fail_fit: vec![], fail_eval: vec![] };
    let layout = rng.below(2) as usize;
    let single = rng.chance(0.5);
    let o = run_cv::<f64, I>(d, k, &spec, layout, single);
    match o.res {
        CvRes::Panic => { code |= 16384; what.push_str("cross_validate panicked; "); }
        CvRes::Err(_) => { code |= 4096; what.push_str("cross_validate returned an error although nothing fails; "); }
        CvRes::Ok(a) => {
            let e = ref_cv(d, k, &spec);
            let close = a.data.len() == e.len() && a.rows == spec.cms.len() && a.data.iter().zip(&e).all(|(x, y)| (x - y).abs() <= 1e-9 * y.abs().max(1.0));
            if !close { code |= 2048; what.push_str("score is not the mean over the folds; "); }
            if o.rec != d.recs || o.tgt != d.tgts || !o.outside_ok { code |= 8192; what.push_str("dataset not restored after cross_validate; "); }
        }
    }
    (code, what)
}

// ---------------------------------------------------------------------------------------------
// Coq terms
fn foldpair_term(p: &[Arr; 4]) -> String {
    format!("FP {} {} {} {}", arr_term(&p[0]), arr_term(&p[1]), arr_term(&p[2]), arr_term(&p[3]))
}
fn fold_term(o: &FoldOut) -> String {
    copt(o.as_ref().map(|v| clist(v, foldpair_term)))
}
fn ifold_term(o: &Option<IfOut>) -> String {
    copt(o.as_ref().map(|r| {
        format!(
            "{{| ir_items := {}; ir_rec := {}; ir_tgt := {}; ir_outside_ok := {} |}}",
            clist(&r.items, |p| format!("II {} {} {} {}", arr_term(&p[0]), arr_term(&p[1]), arr_term(&p[2]), arr_term(&p[3]))),
            ctags(&r.rec),
            ctags(&r.tgt),
            cbool(r.outside_ok)
        )
    }))
}
fn chunks_term(size: usize, o: &Option<Vec<[Arr; 2]>>) -> String {
    format!("({}, {})", cn(size as u64), copt(o.as_ref().map(|v| clist(v, |p| format!("({}, {})", arr_term(&p[0]), arr_term(&p[1]))))))
}
fn lit<F: Fl>(x: f64) -> String {
    if F::IS32 { format!("(b32_of_bits {})", cz((x as f32).to_bits() as i64)) } else { sf64(x) }
}
fn litvec<F: Fl>(xs: &[f64]) -> String {
    if F::IS32 { format!("(B32L {})", clist(xs, |x| cz((*x as f32).to_bits() as i64))) } else { cvec64(xs) }
}
fn cv_term<F: Fl>(spec: &CvSpec, o: &CvOut) -> String {
    let res = match &o.res {
        CvRes::Ok(a) => format!("(CvOk {} {} {})", cn(a.rows as u64), cn(a.cols as u64), litvec::<F>(&a.data)),
        CvRes::Err(id) => format!("(CvErr {})", cn(*id)),
        CvRes::Panic => "CvPanic".to_string(),
    };
    format!(
        "{{| cv_cm := {}; cv_q := {}; cv_fail_fit := {}; cv_fail_eval := {}; cv_out := {}; cv_rec := {}; cv_tgt := {}; cv_outside_ok := {} |}}",
        litvec::<F>(&spec.cms),
        lit::<F>(spec.q),
        clist(&spec.fail_fit, |(m, s, id)| format!("({}, {}, {})", cn(*m as u64), cn(*s), cn(*id))),
        clist(&spec.fail_eval, |(v, id)| format!("({}, {})", lit::<F>(*v), cn(*id))),
        res,
        ctags(&o.rec),
        ctags(&o.tgt),
        cbool(o.outside_ok)
    )
}
fn desc_term(x: &Desc) -> String {
    format!("{{| lv_off := {}; lv_s0 := {}; lv_s1 := {} |}}", cn(x.off as u64), cz(x.s0 as i64), cz(x.s1 as i64))
}
fn lay_term(l: &LayRun) -> String {
    let ifold = match &l.ifold {
        None => "None".to_string(),
        Some((o, pr, pt)) => format!(
            "(Some ({{| ir_items := {}; ir_rec := {}; ir_tgt := {}; ir_outside_ok := true |}}, ({}, {})))",
            clist(&o.items, |p| format!("II {} {} {} {}", arr_term(&p[0]), arr_term(&p[1]), arr_term(&p[2]), arr_term(&p[3]))),
            ctags(&o.rec),
            ctags(&o.tgt),
            ctags(pr),
            ctags(pt)
        ),
    };
    let cv = match &l.cv {
        None => "[]".to_string(),
        Some((spec, _, o, after)) => format!(
            "[({}, {})]",
            cv_term::<f64>(spec, o),
            match after {
                None => "None".to_string(),
                Some((pr, pt)) => format!("(Some ({}, {}))", ctags(pr), ctags(pt)),
            }
        ),
    };
    format!(
        "{{| lc_rv := {}; lc_rpar := {}; lc_tv := {}; lc_tpar := {}; lc_ifold := [{}]; lc_cv := {} |}}",
        desc_term(&l.rdesc),
        ctags(&l.rpar),
        desc_term(&l.tdesc),
        ctags(&l.tpar),
        ifold,
        cv
    )
}

struct Plan {
    fold_layouts: Vec<usize>,
    ifold_layouts: Vec<usize>,
    chunk_sizes: Vec<usize>,
    cvs: Vec<(CvSpec, usize, bool)>,
    cvs32: Vec<(CvSpec, usize, bool)>,
    /// (records layout kind, targets layout kind, cross-validation to run there)
    lays: Vec<(usize, usize, Option<(CvSpec, bool)>)>,
}

fn gen_cv_spec<F: Fl>(d: &DataSet, k: usize, rng: &mut Sm64, failing: bool) -> CvSpec {
    let nm = 1 + rng.below(3) as usize;
    let cms: Vec<f64> = (0..nm).map(|_| F::round64(0.1 + rng.unit())).collect();
    let q = F::round64(0.1 + rng.unit());
    let mut spec = CvSpec { cms, q, fail_fit: vec![], fail_eval: vec![] };
    if failing && k >= 1 && k <= d.n {
        let fs = d.n / k;
        let nf = rng.below(3) as usize;
        let ne = if nf == 0 { 1 + rng.below(2) as usize } else { rng.below(3) as usize };
        let mut id = 1u64;
        // positions are biased to share a fold or a model so that the order of surfacing matters
        let anchor_fold = rng.below(k as u64) as usize;
        for _ in 0..nf {
            let i = if rng.chance(0.5) { anchor_fold } else { rng.below(k as u64) as usize };
            let m = rng.below(nm as u64) as usize;
            spec.fail_fit.push((m, ref_state(d, fs, i), id));
            id += 1;
        }
        for _ in 0..ne {
            let i = if rng.chance(0.5) { anchor_fold } else { rng.below(k as u64) as usize };
            let m = rng.below(nm as u64) as usize;
            spec.fail_eval.push((ref_p00::<F>(d, fs, i, spec.cms[m]), id));
            id += 1;
        }
    }
    spec
}

fn special_ks(n: usize, rng: &mut Sm64) -> Vec<usize> {
    let mut v = vec![2, 3, n, n - 1, n / 2, n / 2 + 1, n / 3, n / 3 + 1];
    for dv in 2..=n {
        if n % dv == 0 {
            v.push(dv);
            v.push(dv + 1);
            if dv > 2 {
                v.push(dv - 1);
            }
        }
    }
    v.push(2 + rng.below(n as u64 - 1) as usize);
    v.retain(|k| *k >= 2 && *k <= n);
    v.sort();
    v.dedup();
    v
}

fn has_failures(s: &CvSpec) -> bool {
    !s.fail_fit.is_empty() || !s.fail_eval.is_empty()
}

fn emit(out: &mut Out, id: u64, d: &DataSet, k: usize, plan: &Plan, stream: &str) {
    if !out.wanted(id) {
        return;
    }
    let is1 = d.tdim == 0;
    let folds: Vec<String> = plan.fold_layouts.iter().map(|l| fold_term(&if is1 { run_fold::<Ix1>(d, k, *l) } else { run_fold::<Ix2>(d, k, *l) })).collect();
    let ifolds: Vec<String> =
        plan.ifold_layouts.iter().map(|l| ifold_term(&if is1 { run_iter_fold::<Ix1>(d, k, *l) } else { run_iter_fold::<Ix2>(d, k, *l) })).collect();
    let chunks: Vec<String> = plan
        .chunk_sizes
        .iter()
        .enumerate()
        .map(|(j, s)| chunks_term(*s, &if is1 { run_chunks::<Ix1>(d, *s, j % 2 == 1) } else { run_chunks::<Ix2>(d, *s, j % 2 == 1) }))
        .collect();
    let cvs: Vec<String> = plan
        .cvs
        .iter()
        .map(|(spec, l, single)| cv_term::<f64>(spec, &if is1 { run_cv::<f64, Ix1>(d, k, spec, *l, *single) } else { run_cv::<f64, Ix2>(d, k, spec, *l, *single) }))
        .collect();
    let cvs32: Vec<String> = plan
        .cvs32
        .iter()
        .map(|(spec, l, single)| cv_term::<f32>(spec, &if is1 { run_cv::<f32, Ix1>(d, k, spec, *l, *single) } else { run_cv::<f32, Ix2>(d, k, spec, *l, *single) }))
        .collect();
    let layruns: Vec<LayRun> =
        plan.lays.iter().map(|(rk, tk, cv)| if is1 { run_lay::<Ix1>(d, k, *rk, *tk, cv.clone()) } else { run_lay::<Ix2>(d, k, *rk, *tk, cv.clone()) }).collect();
    let lays: Vec<String> = layruns.iter().map(lay_term).collect();
    let coq = format!(
        "{{| c_id := {}; c_n := {}; c_w := {}; c_tdim := {}; c_k := {}; c_recs := {}; c_tgts := {}; c_fold := [{}]; c_ifold := [{}]; c_chunks := [{}]; c_cv := [{}]; c_cv32 := [{}]; c_lay := [{}] |}}",
        cn(id), cn(d.n as u64), cn(d.w as u64), cn(d.tdim as u64), cn(k as u64), ctags(&d.recs), ctags(&d.tgts),
        folds.join("; "), ifolds.join("; "), chunks.join("; "), cvs.join("; "), cvs32.join("; "), lays.join("; ")
    );
    let in_domain = k >= 2 && k <= d.n;
    let mut tags: Vec<String> = vec![format!("stream_{}", stream)];
    tags.push(match d.tdim { 0 => "targets_ix1".into(), 1 => "targets_2d_single_column".into(), _ => "targets_multi_column".into() });
    tags.push(if !in_domain { "k_out_of_domain".into() } else if d.n % k == 0 { "k_divides_n".into() } else { "k_does_not_divide_n".into() });
    for l in &plan.fold_layouts { tags.push(format!("fold_layout_{}", FOLD_LAYOUTS[*l])); }
    for l in &plan.ifold_layouts { tags.push(format!("iter_fold_layout_{}", MUT_LAYOUTS[*l])); }
    for l in &layruns {
        tags.push(format!("layout_records_{}", KINDS[l.rkind]));
        tags.push(format!("layout_targets_{}", KINDS[l.tkind]));
    }
    if !plan.cvs32.is_empty() { tags.push("cv_f32".into()); }
    if plan.cvs.iter().chain(plan.cvs32.iter()).any(|(s, _, _)| has_failures(s)) { tags.push("cv_injected_failures".into()); }
    tags.sort();
    tags.dedup();
    let desc = format!(
        "{{\"n\": {}, \"k\": {}, \"features\": {}, \"target_dim\": {}, \"target_columns\": {}, \"records\": \"row-major tags {}..\", \"targets\": \"row-major tags {}..\", \"fold_layouts\": {:?}, \"iter_fold_layouts\": {:?}, \"chunk_sizes\": {:?}, \"cv\": {}, \"cv_f32\": {}, \"storage_layouts\": {}}}",
        d.n, k, d.w, if is1 { 1 } else { 2 }, d.tw, d.recs[0], d.tgts[0],
        plan.fold_layouts.iter().map(|l| FOLD_LAYOUTS[*l]).collect::<Vec<_>>(),
        plan.ifold_layouts.iter().map(|l| MUT_LAYOUTS[*l]).collect::<Vec<_>>(),
        plan.chunk_sizes,
        jstr(&format!("{:?}", plan.cvs.iter().map(|(s, l, sg)| (s.cms.len(), &s.fail_fit, &s.fail_eval, *l, *sg)).collect::<Vec<_>>())),
        jstr(&format!("{:?}", plan.cvs32.iter().map(|(s, l, sg)| (s.cms.len(), &s.fail_fit, &s.fail_eval, *l, *sg)).collect::<Vec<_>>())),
        jstr(&format!(
            "{:?}",
            layruns
                .iter()
                .map(|l| (KINDS[l.rkind], (l.rdesc.off, l.rdesc.s0, l.rdesc.s1), KINDS[l.tkind], (l.tdesc.off, l.tdesc.s0, l.tdesc.s1), if l.ifold.is_some() { "returned" } else { "panicked" }))
                .collect::<Vec<_>>()
        ))
    );
    out.bump(&format!("stream_{}", stream));
    out.bump(&format!("targets_{}", match d.tdim { 0 => "ix1".to_string(), t => format!("2d_{}col", t) }));
    out.bump(&format!("features_{}", d.w));
    out.bump(if !in_domain { "k_out_of_domain" } else if d.n % k == 0 { "k_divides_n" } else { "k_does_not_divide_n" });
    out.bump(&format!("n_{}", if d.n <= 8 { "le8" } else if d.n <= 24 { "9to24" } else if d.n <= 64 { "25to64" } else { "gt64" }));
    out.bump_by("cv_runs", plan.cvs.len() as u64);
    out.bump_by("cv_runs_f32", plan.cvs32.len() as u64);
    out.bump_by("cv_runs_with_injected_failures", plan.cvs.iter().chain(plan.cvs32.iter()).filter(|(s, _, _)| has_failures(s)).count() as u64);
    for l in &plan.fold_layouts { out.bump(&format!("fold_on_{}", FOLD_LAYOUTS[*l])); }
    for l in &layruns {
        out.bump("layout_runs");
        out.bump(&format!("layout_records_{}", KINDS[l.rkind]));
        out.bump(&format!("layout_targets_{}{}", KINDS[l.tkind], if is1 { "_1d" } else { "" }));
        if k >= 1 && k <= d.n {
            let special = |kind: usize| kind != 0 && kind != 5;
            out.bump(if !l.std {
                "layout_runs_not_standard"
            } else if special(l.rkind) || special(l.tkind) {
                "layout_runs_standard_only_because_an_axis_has_length_1"
            } else {
                "layout_runs_standard"
            });
            if l.ifold.is_none() { out.bump("layout_runs_iter_fold_panicked"); }
        }
        if l.panic_dirty {
            out.rust_fail(id, 256, &tags.iter().map(|s| s.as_str()).collect::<Vec<_>>(), "a panicking iter_fold / cross_validate left a parent buffer modified", &desc);
        }
    }
    let key = if in_domain && d.n >= 3 {
        Some(fnv(
            format!(
                "{}/{}/{}/{}/{:?}/{:?}/{:?}/{}",
                d.n, k, d.w, d.tdim, plan.fold_layouts, plan.ifold_layouts,
                layruns.iter().map(|l| (l.rkind, l.tkind)).collect::<Vec<_>>(),
                plan.cvs32.len()
            )
            .as_bytes(),
        ))
    } else {
        None
    };
    let tagrefs: Vec<&str> = tags.iter().map(|s| s.as_str()).collect();
    out.case(id, &coq, &tagrefs, &desc, key);
}

fn main() {
    let args = parse_args();
    let mut rng = Sm64::new(args.seed);
    let thorough = args.tier == "thorough";
    let mut out = Out::new(&args.out, args.shards, "C01.Corr", "case", args.only);
    let mut id: u64 = 0;
    let combos: Vec<(usize, usize)> = (1..=3).flat_map(|w| (0..=3).map(move |t| (w, t))).collect();
    let nfl = FOLD_LAYOUTS.len() as u64;

    // (a) exhaustive small: every (n, k) with 2 <= k <= n <= nmax
    let nmax = if thorough { 32 } else { 24 };
    let all_combos_upto = if thorough { 12 } else { 8 };
    for n in 2..=nmax {
        for k in 2..=n {
            let sel: Vec<(usize, usize)> = if n <= all_combos_upto {
                combos.clone()
            } else {
                let per = if thorough { 3 } else { 2 };
                (0..per).map(|j| combos[(n * 7 + k * 5 + j * 5) % combos.len()]).collect()
            };
            for (w, tdim) in sel {
                let mut r = rng.fork();
                let d = DataSet::new(n, w, tdim, &mut r);
                let fs = n / k;
                let cvs = vec![
                    (gen_cv_spec::<f64>(&d, k, &mut r, false), (id % 2) as usize, id % 3 == 0),
                    (gen_cv_spec::<f64>(&d, k, &mut r, true), ((id + 1) % 2) as usize, id % 3 == 1),
                ];
                // f32 datasets with f32 scores: every third case (two thirds of them in the thorough tier)
                let cvs32 = if (thorough && id % 2 == 0) || id % 3 == 2 || n <= 4 {
                    vec![(gen_cv_spec::<f32>(&d, k, &mut r, (id / 3) % 2 == 1), ((id / 3 + id / 6) % 2) as usize, (id / 3) % 3 != 0)]
                } else {
                    vec![]
                };
                let plan = Plan {
                    fold_layouts: if n <= (if thorough { 4 } else { 6 }) {
                        (0..FOLD_LAYOUTS.len()).collect()
                    } else if n <= 12 || thorough {
                        vec![(id % nfl) as usize, ((id + 1 + id / nfl) % nfl) as usize]
                    } else {
                        vec![((id + id / nfl) % nfl) as usize]
                    },
                    ifold_layouts: if n <= 6 { vec![0, 1, 2] } else { vec![(id % 3) as usize] },
                    chunk_sizes: {
                        let mut v = vec![fs, [1, fs + 1, n, n + 1, 2][(id % 5) as usize]];
                        v.dedup();
                        v
                    },
                    cvs,
                    cvs32,
                    lays: vec![],
                };
                emit(&mut out, id, &d, k, &plan, "exhaustive_small");
                id += 1;
            }
        }
    }

    // (b) structured random: larger n, fold counts around divisors / borders
    let nrandom = if thorough { 300 } else { 80 };
    let (lo, hi) = if thorough { (33, 160) } else { (25, 80) };
    for j in 0..nrandom {
        let mut r = rng.fork();
        let n = r.range(lo, hi) as usize;
        let ks = special_ks(n, &mut r);
        let mut k = *r.pick(&ks);
        let cap = 4000;
        if k * n > cap {
            k = *ks.iter().filter(|k| **k * n <= cap).last().unwrap_or(&2);
        }
        let (w, tdim) = *r.pick(&combos);
        let d = DataSet::new(n, w, tdim, &mut r);
        let fs = n / k;
        let cvs = vec![(gen_cv_spec::<f64>(&d, k, &mut r, false), r.below(2) as usize, r.chance(0.5)), (gen_cv_spec::<f64>(&d, k, &mut r, true), r.below(2) as usize, r.chance(0.5))];
        let cvs32 = if j % 4 == 0 {
            let failing = r.chance(0.3);
            vec![(gen_cv_spec::<f32>(&d, k, &mut r, failing), r.below(2) as usize, r.chance(0.5))]
        } else {
            vec![]
        };
        let plan = Plan {
            fold_layouts: vec![r.below(nfl) as usize],
            ifold_layouts: vec![r.below(3) as usize],
            chunk_sizes: vec![fs, 1 + r.below(n as u64 + 1) as usize],
            cvs,
            cvs32,
            lays: vec![],
        };
        emit(&mut out, id, &d, k, &plan, "structured_random");
        id += 1;
    }

    // (c) malformed fold counts: k = 0, 1, n + 1, n + 5 (documented panics; fold(1) has nothing to concatenate)
    for n in 1..=(if thorough { 8 } else { 5 }) {
        for k in [0usize, 1, n + 1, n + 5] {
            let mut r = rng.fork();
            let (w, tdim) = combos[(n * 5 + k) % combos.len()];
            let d = DataSet::new(n, w, tdim, &mut r);
            let plan = Plan {
                fold_layouts: vec![(id % nfl) as usize],
                ifold_layouts: vec![(id % 3) as usize],
                chunk_sizes: vec![0, n + 1],
                cvs: vec![(gen_cv_spec::<f64>(&d, k, &mut r, false), 0, false)],
                cvs32: if k == 1 { vec![(gen_cv_spec::<f32>(&d, k, &mut r, false), 0, true)] } else { vec![] },
                lays: vec![((id % 8) as usize, ((id / 8) % 8) as usize, None)],
            };
            emit(&mut out, id, &d, k, &plan, "malformed_k");
            id += 1;
        }
    }

    // (e) storage layouts: iter_fold and cross_validate on every pair (records layout, targets layout) of
    // c_order / fortran / transposed / row_step2 / col_range / row_range / rows_reversed / cols_reversed
    // (one-dimensional targets: contiguous / every second cell / range / reversed), described to Coq by the
    // offset and strides ndarray reports; fold on the same datasets in all its layouts
    let lay_nmax = if thorough { 12 } else { 8 };
    let per_case = if thorough { 6 } else { 4 };
    let mut pair_ctr: usize = 0;
    for n in 1..=lay_nmax {
        let mut ks: Vec<usize> = vec![1, 2, 3, n / 2, n - 1, n];
        ks.retain(|k| *k >= 1 && *k <= n);
        ks.sort();
        ks.dedup();
        for k in ks {
            for j in 0..3usize {
                let mut r = rng.fork();
                let (w, tdim) = combos[(n * 7 + k * 5 + j * 4 + (pair_ctr / 64)) % combos.len()];
                let d = DataSet::new(n, w, tdim, &mut r);
                let mut lays = vec![];
                for _ in 0..per_case {
                    // every pair in turn; pairs with a standard side come round more often through kinds 0 / 5
                    let (rk, tk) = (pair_ctr % 8, (pair_ctr / 8) % 8);
                    pair_ctr += 1;
                    let failing = pair_ctr % 3 == 0;
                    let spec = gen_cv_spec::<f64>(&d, k, &mut r, failing);
                    lays.push((rk, tk, Some((spec, pair_ctr % 2 == 0))));
                }
                // two more where the call has to WORK: layouts that are standard outright (contiguous, row
                // range) and, for single-column shapes, layouts that are standard only because the stride of
                // a length-1 axis does not count (column-major / transposed / reversed columns)
                for e in 0..2usize {
                    let x = pair_ctr + e;
                    let rk = if d.w == 1 { [1, 2, 7, 5][x % 4] } else { [0, 5][x % 2] };
                    let tk = if d.tdim == 1 { [2, 7, 1, 0][(x / 2) % 4] } else { [5, 0][(x / 2) % 2] };
                    let spec = gen_cv_spec::<f64>(&d, k, &mut r, e == 1);
                    lays.push((rk, tk, Some((spec, e == 0))));
                }
                let plan = Plan {
                    fold_layouts: if k >= 2 { (0..FOLD_LAYOUTS.len()).collect() } else { vec![] },
                    ifold_layouts: vec![],
                    chunk_sizes: vec![],
                    cvs: vec![],
                    cvs32: vec![],
                    lays,
                };
                emit(&mut out, id, &d, k, &plan, "storage_layouts");
                id += 1;
            }
        }
    }

    // (d) large datasets, judged by the Rust-side reference oracle only
    let nbig = if thorough { 500 } else { 60 };
    for _ in 0..nbig {
        let mut r = rng.fork();
        let n = r.range(81, if thorough { 600 } else { 400 }) as usize;
        let ks = special_ks(n, &mut r);
        let k = *r.pick(&ks);
        let (w, tdim) = *r.pick(&combos);
        let d = DataSet::new(n, w, tdim, &mut r);
        if out.wanted(id) {
            let (code, what) = if tdim == 0 { rust_oracle::<Ix1>(&d, k, &mut r) } else { rust_oracle::<Ix2>(&d, k, &mut r) };
            let desc = format!("{{\"n\": {}, \"k\": {}, \"features\": {}, \"target_dim\": {}, \"target_columns\": {}, \"stream\": \"large_rust_oracle\"}}", n, k, w, if tdim == 0 { 1 } else { 2 }, d.tw);
            let tags = [
                "stream_large_rust_oracle",
                match tdim { 0 => "targets_ix1", 1 => "targets_2d_single_column", _ => "targets_multi_column" },
                if n % k == 0 { "k_divides_n" } else { "k_does_not_divide_n" },
            ];
            out.bump("stream_large_rust_oracle");
            out.bump(if n % k == 0 { "k_divides_n" } else { "k_does_not_divide_n" });
            out.bump("n_gt64");
            if code != 0 {
                out.rust_fail(id, code, &tags, &what, &desc);
            }
            out.rust_eval(&desc, Some(fnv(format!("big/{}/{}/{}/{}", n, k, w, tdim).as_bytes())));
        }
        id += 1;
    }

    out.finish("identity-tagged datasets (every cell unique); stream (a): every (n, k) with 2 <= k <= n <= nmax for feature counts 1..3 and targets {1-D, 2-D with 1..3 columns} (all 12 combinations for small n, a rotating subset above), each through fold (owned / view / strided view / column-major / transposed / column range / reversed rows / reversed columns), iter_fold (owned / mutable view / mutable row-range view of a larger array), sample_chunks and cross_validate(_single) with 1..3 mock models, with and without injected fit / evaluation failures, on f64 data and (every third case) on f32 data with f32 scores; (b) larger n with fold counts at and next to divisors; (c) k = 0, 1, n+1, n+5; (e) storage layouts: n <= 8 (12), k in {1, 2, 3, n/2, n-1, n}, iter_fold and cross_validate on every pair of records layout x targets layout, described by the offset / strides ndarray reports; (d) n up to 400 (600) judged by a Rust-side reference. A case is non-trivial when 2 <= k <= n and n >= 3; distinct = distinct (n, k, features, target shape, layouts)");
}
