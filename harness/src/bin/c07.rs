//! C07 harness: nearest-neighbour indices of linfa-nn (linear scan, k-d tree, ball tree) on generated
//! point sets / queries; emits Coq cases for C07/Corr.v.
//!
//! The process is a supervisor: the generation itself runs in a child process (`work`), because a
//! defect in the tree construction can end in unbounded recursion (stack overflow = abort, which
//! `catch_unwind` cannot turn into an observation).  When the child dies, the case it was working on
//! is recorded as a failing observation and the child is restarted without that case.
use linfa_nn::{distance::*, *};
use ndarray::{Array1, Array2};
use std::fmt::Debug;
use std::panic::AssertUnwindSafe;
use vh::*;

// ---------------------------------------------------------------------------------------------
// float abstraction (f64 / f32)
trait Fl: linfa::Float + Debug {
    const F32: bool;
    fn of(x: f64) -> Self;
    fn f64(self) -> f64;
    fn parse(s: &str) -> Option<Self>;
    fn bits(self) -> u64;
}
impl Fl for f64 {
    const F32: bool = false;
    fn of(x: f64) -> f64 { x }
    fn f64(self) -> f64 { self }
    fn parse(s: &str) -> Option<f64> { s.parse().ok() }
    fn bits(self) -> u64 { self.to_bits() }
}
impl Fl for f32 {
    const F32: bool = true;
    fn of(x: f64) -> f32 { x as f32 }
    fn f64(self) -> f64 { self as f64 }
    fn parse(s: &str) -> Option<f32> { s.parse().ok() }
    fn bits(self) -> u64 { self.to_bits() as u64 }
}

#[derive(Clone, Copy, Debug, PartialEq)]
enum Met { L1, L2, Linf, Lp(f64) }
impl Met {
    fn code(&self) -> u64 { match self { Met::L1 => 0, Met::L2 => 1, Met::Linf => 2, Met::Lp(_) => 3 } }
    fn int_p(&self) -> u64 { match self { Met::Lp(p) if p.fract() == 0.0 && *p >= 1.0 && *p <= 8.0 => *p as u64, _ => 0 } }
    fn name(&self) -> String { match self { Met::L1 => "L1".into(), Met::L2 => "L2".into(), Met::Linf => "Linf".into(), Met::Lp(p) => format!("Lp{}", p) } }
}

// ---------------------------------------------------------------------------------------------
// memory layouts: the same logical batch / query presented with different strides
#[derive(Clone, Copy, Debug, PartialEq)]
enum Lay { Std, RevCols, RevColsOwned, RevRows, Fortran, StrideRows, StrideCols, StrideBoth }
impl Lay {
    fn name(&self) -> &'static str {
        match self { Lay::Std => "std", Lay::RevCols => "revcols_view", Lay::RevColsOwned => "revcols_owned", Lay::RevRows => "revrows_view",
                     Lay::Fortran => "fortran", Lay::StrideRows => "stride_rows", Lay::StrideCols => "stride_cols", Lay::StrideBoth => "stride_both" }
    }
}
const LAYS: [Lay; 8] = [Lay::RevCols, Lay::Std, Lay::RevColsOwned, Lay::RevRows, Lay::Fortran, Lay::StrideRows, Lay::StrideCols, Lay::StrideBoth];
#[derive(Clone, Copy, Debug, PartialEq)]
enum QLay { Fwd, Rev, Strided }
impl QLay { fn name(&self) -> &'static str { match self { QLay::Fwd => "fwd", QLay::Rev => "rev", QLay::Strided => "strided" } } }

/// storage whose view with layout `lay` has the logical content of `logical` (junk fills the gaps of strided layouts)
fn lay_store<F: Fl>(logical: &Array2<F>, lay: Lay) -> Array2<F> {
    use ndarray::{s, ShapeBuilder};
    let (n, d) = logical.dim();
    let junk = F::of(-777.25);
    match lay {
        Lay::Std => logical.clone(),
        Lay::RevCols => logical.slice(s![.., ..;-1]).as_standard_layout().to_owned(),
        Lay::RevColsOwned => { let base = logical.slice(s![.., ..;-1]).as_standard_layout().to_owned(); base.slice(s![.., ..;-1]).to_owned() }
        Lay::RevRows => logical.slice(s![..;-1, ..]).as_standard_layout().to_owned(),
        Lay::Fortran => { let mut a = Array2::from_elem((n, d).f(), junk); a.assign(logical); a }
        Lay::StrideRows => { let mut a = Array2::from_elem((2 * n, d), junk); a.slice_mut(s![..;2, ..]).assign(logical); a }
        Lay::StrideCols => { let mut a = Array2::from_elem((n, 2 * d), junk); a.slice_mut(s![.., ..;2]).assign(logical); a }
        Lay::StrideBoth => { let mut a = Array2::from_elem((2 * n, 2 * d), junk); a.slice_mut(s![..;2, ..;2]).assign(logical); a }
    }
}
fn lay_view<'a, F: Fl>(store: &'a Array2<F>, lay: Lay) -> ndarray::ArrayView2<'a, F> {
    use ndarray::s;
    match lay {
        Lay::Std | Lay::Fortran | Lay::RevColsOwned => store.view(),
        Lay::RevCols => store.slice(s![.., ..;-1]),
        Lay::RevRows => store.slice(s![..;-1, ..]),
        Lay::StrideRows => store.slice(s![..;2, ..]),
        Lay::StrideCols => store.slice(s![.., ..;2]),
        Lay::StrideBoth => store.slice(s![..;2, ..;2]),
    }
}
fn qlay_store<F: Fl>(logical: &Array1<F>, ql: QLay) -> Array1<F> {
    use ndarray::s;
    match ql {
        QLay::Fwd => logical.clone(),
        QLay::Rev => logical.slice(s![..;-1]).to_vec().into(),
        QLay::Strided => { let mut a = Array1::from_elem(2 * logical.len(), F::of(-777.25)); a.slice_mut(s![..;2]).assign(logical); a }
    }
}
fn qlay_view<'a, F: Fl>(store: &'a Array1<F>, ql: QLay) -> ndarray::ArrayView1<'a, F> {
    use ndarray::s;
    match ql { QLay::Fwd => store.view(), QLay::Rev => store.slice(s![..;-1]), QLay::Strided => store.slice(s![..;2]) }
}

// ---------------------------------------------------------------------------------------------
// observations
#[derive(Clone, Debug)]
enum Outc { Ok(Vec<(usize, Option<Vec<f64>>)>), Err, Panic(String), Skip }

fn outc_coq(o: &Outc) -> String {
    match o {
        Outc::Ok(v) => {
            let rows: Vec<usize> = v.iter().map(|x| x.0).collect();
            if v.iter().all(|x| x.1.is_none()) { format!("(ROk {} [])", cvecn(&rows)) }
            else { format!("(ROk {} {})", cvecn(&rows), cmat64(&v.iter().map(|x| x.1.clone().unwrap()).collect::<Vec<_>>())) }
        }
        Outc::Err => "RErr".into(),
        Outc::Panic(_) => "RPanic".into(),
        Outc::Skip => "RSkip".into(),
    }
}

#[derive(Clone, Copy, Debug, PartialEq)]
enum BStat { Ok, ZeroDim, EmptyLeaf, Panic, Skip }
fn bstat_coq(b: BStat) -> &'static str {
    match b { BStat::Ok => "BOk", BStat::ZeroDim => "BZeroDim", BStat::EmptyLeaf => "BEmptyLeaf", BStat::Panic => "BPanic", BStat::Skip => "BSkip" }
}

enum DT {
    Leaf { c: Vec<f64>, r: f64, rows: Vec<usize> },
    Branch { c: Vec<f64>, r: f64, l: Box<DT>, rt: Box<DT> },
}
fn dt_coq(t: &DT) -> String {
    match t {
        DT::Leaf { c, r, rows } => format!("(DLeaf {} {} {})", cvec64(c), sf64(*r), cvecn(rows)),
        DT::Branch { c, r, l, rt } => format!("(DBranch {} {} {} {})", cvec64(c), sf64(*r), dt_coq(l), dt_coq(rt)),
    }
}

// parser of the Debug rendering of BallTreeIndex (the only public view of the tree)
struct Cur<'a> { s: &'a [u8], i: usize, rows_ok: bool }
impl<'a> Cur<'a> {
    fn ws(&mut self) { while self.i < self.s.len() && (self.s[self.i] as char).is_whitespace() { self.i += 1; } }
    fn eat(&mut self, t: &str) -> Result<(), String> {
        self.ws();
        if self.s[self.i..].starts_with(t.as_bytes()) { self.i += t.len(); Ok(()) }
        else { Err(format!("expected `{}` at byte {}: `{}`", t, self.i, String::from_utf8_lossy(&self.s[self.i..(self.i + 40).min(self.s.len())]))) }
    }
    fn peek(&mut self, t: &str) -> bool { self.ws(); self.s[self.i..].starts_with(t.as_bytes()) }
    fn token(&mut self) -> String {
        self.ws();
        let st = self.i;
        while self.i < self.s.len() {
            let c = self.s[self.i] as char;
            if c.is_alphanumeric() || c == '.' || c == '-' || c == '+' || c == '_' { self.i += 1; } else { break; }
        }
        String::from_utf8_lossy(&self.s[st..self.i]).to_string()
    }
    fn num<F: Fl>(&mut self) -> Result<F, String> {
        let t = self.token();
        F::parse(&t).ok_or_else(|| format!("bad number `{}`", t))
    }
    fn arr<F: Fl>(&mut self) -> Result<Vec<F>, String> {
        self.eat("[")?;
        let mut v = vec![];
        if !self.peek("]") {
            loop {
                v.push(self.num::<F>()?);
                if self.peek(",") { self.eat(",")?; } else { break; }
            }
        }
        self.eat("]")?;
        // ", shape=[..], strides=[..], layout=.. (0x..), const ndim=1"
        let tail = b"const ndim=1";
        while self.i < self.s.len() && !self.s[self.i..].starts_with(tail) { self.i += 1; }
        self.eat("const ndim=1")?;
        Ok(v)
    }
    fn node<F: Fl>(&mut self, batch: &Array2<F>) -> Result<DT, String> {
        if self.peek("Leaf") {
            self.eat("Leaf")?; self.eat("{")?; self.eat("center:")?;
            let c = self.arr::<F>()?;
            self.eat(",")?; self.eat("radius:")?;
            let r = self.num::<F>()?;
            self.eat(",")?; self.eat("points:")?; self.eat("[")?;
            let mut rows = vec![];
            while self.peek("(") {
                self.eat("(")?;
                let p = self.arr::<F>()?;
                self.eat(",")?;
                let t = self.token();
                let i: usize = t.parse().map_err(|_| format!("bad index `{}`", t))?;
                self.eat(")")?;
                if self.peek(",") { self.eat(",")?; }
                if !(i < batch.nrows() && p.len() == batch.ncols() && p.iter().zip(batch.row(i).iter()).all(|(a, b)| a.bits() == b.bits())) {
                    self.rows_ok = false;
                }
                rows.push(i);
            }
            self.eat("]")?; self.eat("}")?;
            Ok(DT::Leaf { c: c.iter().map(|x| x.f64()).collect(), r: r.f64(), rows })
        } else {
            self.eat("Branch")?; self.eat("{")?; self.eat("center:")?;
            let c = self.arr::<F>()?;
            self.eat(",")?; self.eat("radius:")?;
            let r = self.num::<F>()?;
            self.eat(",")?; self.eat("left:")?;
            let l = self.node(batch)?;
            self.eat(",")?; self.eat("right:")?;
            let rt = self.node(batch)?;
            self.eat("}")?;
            Ok(DT::Branch { c: c.iter().map(|x| x.f64()).collect(), r: r.f64(), l: Box::new(l), rt: Box::new(rt) })
        }
    }
}
fn parse_dump<F: Fl>(s: &str, batch: &Array2<F>) -> Result<(DT, bool), String> {
    let mut c = Cur { s: s.as_bytes(), i: 0, rows_ok: true };
    c.eat("BallTreeIndex")?; c.eat("{")?; c.eat("tree:")?;
    let t = c.node(batch)?;
    c.eat(",")?; c.eat("dist_fn:")?;
    Ok((t, c.rows_ok))
}

// ---------------------------------------------------------------------------------------------
// one dataset against the three index kinds
#[derive(Clone)]
struct QuerySpec { q: Vec<f64>, ks: Vec<usize>, radii: Vec<RadSpec> }
#[derive(Clone, Copy, Debug)]
enum RadSpec { Abs(f64), DistTo(usize, i32 /* ulps */, f64 /* factor */), Beyond }

struct Spec {
    id: u64,
    stream: &'static str,
    family: String,
    met: Met,
    f32_: bool,
    x: Vec<Vec<f64>>,
    dim: usize,
    leaf: usize,
    queries: Vec<QuerySpec>,
    ship_coords: bool,
    /// Some((count, seed)): further queries are aimed at the spheres of the nodes of the ball tree that the
    /// implementation builds for this batch (read from its Debug dump), see `aim_queries`
    aim: Option<(usize, u64)>,
    /// memory layout of the batch handed to the index kinds, and of the odd-numbered queries
    lay: Lay,
    qlay: QLay,
}

fn next_ulps<F: Fl>(x: F, k: i32) -> F {
    if k == 0 || !(x.f64() > 0.0) { return x; }
    if F::F32 { F::of(f32::from_bits(((x.f64() as f32).to_bits() as i64 + k as i64) as u32) as f64) }
    else { F::of(f64::from_bits((x.f64().to_bits() as i64 + k as i64) as u64)) }
}

fn observe<F: Fl>(r: Result<Result<Vec<(ndarray::ArrayView1<F>, usize)>, NnError>, String>, batch: &Array2<F>, ship: bool) -> Outc {
    match r {
        Err(p) => Outc::Panic(p),
        Ok(Err(_)) => Outc::Err,
        Ok(Ok(v)) => {
            let all_same = v.iter().all(|(p, i)| *i < batch.nrows() && p.len() == batch.ncols() && p.iter().zip(batch.row(*i).iter()).all(|(a, b)| a.bits() == b.bits()));
            Outc::Ok(v.into_iter().map(|(p, i)| if all_same && !ship { (i, None) } else { (i, Some(p.iter().map(|x| x.f64()).collect())) }).collect())
        }
    }
}

struct CaseOut { coq: String, tags: Vec<String>, desc: String, suspects: usize, hash: u64, nqueries: usize, nknn: usize, nrange: usize, aimed: usize, raw_answers: usize, qlay_used: usize, kd_build_skip: bool, kd_query_skips: usize }

fn run_spec<F: Fl, D: Distance<F> + Debug + 'static>(sp: &Spec, dist: D) -> CaseOut {
    let n = sp.x.len();
    let d = sp.dim;
    let batch: Array2<F> = Array2::from_shape_vec((n, d), sp.x.iter().flatten().map(|v| F::of(*v)).collect()).unwrap();
    let kinds = [CommonNearestNeighbour::LinearSearch, CommonNearestNeighbour::KdTree, CommonNearestNeighbour::BallTree];
    let mut bstats = vec![];
    // `batch` holds the logical points in standard layout (tables, comparison of returned coordinates); the
    // index kinds get `bview`: the same logical array with the memory layout of the case
    let store = lay_store(&batch, sp.lay);
    let bview = lay_view(&store, sp.lay);
    assert!(bview == batch, "layout construction broke the logical content");
    if n >= 2 && d >= 2 {
        let st = bview.strides();
        let ok = match sp.lay { Lay::Std => st[1] == 1 && st[0] == d as isize, Lay::RevCols | Lay::RevColsOwned => st[1] == -1, Lay::RevRows => st[0] == -(d as isize) && st[1] == 1,
                                Lay::Fortran => st[0] == 1, Lay::StrideRows => st[0] == 2 * d as isize && st[1] == 1, Lay::StrideCols => st[1] == 2, Lay::StrideBoth => st[1] == 2 && st[0] == 4 * d as isize };
        assert!(ok, "layout {} has strides {:?}", sp.lay.name(), st);
    }
    let rows_contiguous = d <= 1 || matches!(sp.lay, Lay::Std | Lay::RevRows | Lay::StrideRows);
    let mut kd_build_skip = false;
    let mut idxs: Vec<Option<Box<dyn NearestNeighbourIndex<F> + Send + Sync + '_>>> = vec![];
    for (ki, k) in kinds.iter().enumerate() {
        let dd = dist.clone();
        let b = &bview;
        match guarded(AssertUnwindSafe(move || k.from_batch_with_leaf_size(b, sp.leaf, dd))) {
            // documented: "KdTree requires that points be laid out contiguously in memory and will panic otherwise"
            Err(msg) if ki == 1 && !rows_contiguous && msg.contains("contiguous") => { bstats.push(BStat::Skip); idxs.push(None); kd_build_skip = true; }
            Err(_) => { bstats.push(BStat::Panic); idxs.push(None); }
            Ok(Err(BuildError::ZeroDimension)) => { bstats.push(BStat::ZeroDim); idxs.push(None); }
            Ok(Err(BuildError::EmptyLeaf)) => { bstats.push(BStat::EmptyLeaf); idxs.push(None); }
            Ok(Ok(ix)) => { bstats.push(BStat::Ok); idxs.push(Some(ix)); }
        }
    }
    // the ball tree itself (same constructor as behind the trait object), through its Debug rendering
    let mut tree_coq = "None".to_string();
    let mut rows_ok = true;
    let mut notes: Vec<String> = vec![];
    let mut dump: Option<DT> = None;
    if sp.leaf > 0 && d > 0 {
        let dd = dist.clone();
        let b = &bview;
        match guarded(AssertUnwindSafe(move || BallTreeIndex::new(b, sp.leaf, dd).map(|t| format!("{:?}", t)))) {
            Ok(Ok(s)) => match parse_dump::<F>(&s, &batch) {
                Ok((t, ok)) => { tree_coq = format!("Some {}", dt_coq(&t)); rows_ok = ok; dump = Some(t); }
                Err(e) => notes.push(format!("tree dump not parsed: {}", e)),
            },
            Ok(Err(e)) => notes.push(format!("BallTreeIndex::new: {:?}", e)),
            Err(p) => notes.push(format!("BallTreeIndex::new panicked: {}", p)),
        }
    }
    let all_ok = bstats.iter().all(|b| *b == BStat::Ok || *b == BStat::Skip);
    // queries aimed at the nodes of the dumped tree (stream deep_surface)
    let mut queries: Vec<QuerySpec> = sp.queries.clone();
    let mut aimed = 0usize;
    if let (Some((cnt, seed)), Some(t)) = (sp.aim, dump.as_ref()) {
        let xs: Vec<Vec<f64>> = sp.x.iter().map(|r| r.iter().map(|v| F::of(*v).f64()).collect()).collect();
        let more = aim_queries(t, &xs, sp.met, cnt, seed, F::F32, sp.stream == "tiny_scale");
        aimed = more.len();
        queries.extend(more);
    }
    // the external crate behind KdTreeIndex, built the way KdTreeIndex::new builds it (capacity = leaf size,
    // rows added in order); its raw answers are shipped so that the wrapper model can be applied to them
    let flat: Vec<F> = batch.iter().cloned().collect();
    let kd_raw: Option<kdtree::KdTree<F, usize, &[F]>> = if sp.leaf > 0 && d > 0 && !kd_build_skip {
        let fl = &flat;
        guarded(AssertUnwindSafe(move || {
            let mut t = kdtree::KdTree::with_capacity(d.max(1), sp.leaf);
            for (i, ch) in fl.chunks(d).enumerate() { if t.add(ch, i).is_err() { return None; } }
            Some(t)
        })).ok().flatten()
    } else { None };
    let raw_coq = |r: Option<Vec<(F, usize)>>| -> String {
        match r {
            Some(v) => format!("(Some ({}, {}))", cvec64(&v.iter().map(|x| x.0.f64()).collect::<Vec<f64>>()), cvecn(&v.iter().map(|x| x.1).collect::<Vec<usize>>())),
            None => "None".to_string(),
        }
    };
    let mut raw_answers = 0usize;
    let mut qlay_used = 0usize;
    let mut kd_query_skips = 0usize;
    let mut qterms = vec![];
    let mut qdesc = vec![];
    let mut suspects = 0usize;
    let mut tags: Vec<String> = vec![
        format!("stream_{}", sp.stream), format!("metric_{}", sp.met.name()), format!("family_{}", sp.family),
        format!("leaf_{}", sp.leaf), (if F::F32 { "f32" } else { "f64" }).to_string(),
    ];
    let mut has_k0 = false;
    let mut near_border = false;
    if all_ok {
        for (qi, qs) in queries.iter().enumerate() {
            let q: Array1<F> = Array1::from(qs.q.iter().map(|v| F::of(*v)).collect::<Vec<F>>());
            let wellformed = q.len() == d;
            // the query as the index kinds see it: odd-numbered queries in the query layout of the case
            let ql = if qi % 2 == 1 { sp.qlay } else { QLay::Fwd };
            let qstore = qlay_store(&q, ql);
            let qv = qlay_view(&qstore, ql);
            assert!(qv == q, "query layout construction broke the logical content");
            let q_contiguous = q.len() <= 1 || ql == QLay::Fwd;
            if ql != QLay::Fwd { qlay_used += 1; }
            let (rd, dd): (Vec<F>, Vec<F>) = if wellformed {
                (batch.rows().into_iter().map(|r| dist.rdistance(q.view(), r)).collect(),
                 batch.rows().into_iter().map(|r| dist.distance(q.view(), r)).collect())
            } else { (vec![], vec![]) };
            let maxd = dd.iter().fold(0.0f64, |a, b| a.max(b.f64()));
            let radii: Vec<F> = qs.radii.iter().map(|r| match *r {
                RadSpec::Abs(v) => F::of(v),
                RadSpec::DistTo(j, ulps, fac) => if dd.is_empty() { F::of(1.0) } else { next_ulps(F::of(dd[j % dd.len()].f64() * fac), ulps) },
                RadSpec::Beyond => F::of(2.0 * maxd + 1.0),
            }).collect();
            let mut knn_terms = vec![];
            let mut kdesc = vec![];
            for &k in qs.ks.iter() {
                if k == 0 && n > 0 && wellformed { has_k0 = true; }
                let mut res = vec![];
                for (ki, ix) in idxs.iter().enumerate() {
                    let ix = match ix.as_ref() { Some(ix) => ix, None => { res.push(Outc::Skip); continue; } };
                    let qq = &qv;
                    let r = guarded(AssertUnwindSafe(|| ix.k_nearest(qq.reborrow(), k)));
                    match &r { Err(msg) if ki == 1 && !q_contiguous && msg.contains("contiguous") => { kd_query_skips += 1; res.push(Outc::Skip); }
                               _ => res.push(observe(r, &batch, sp.ship_coords)) }
                }
                let kd_skipped = matches!(res[1], Outc::Skip);
                if wellformed { suspects += res.iter().filter(|o| !matches!(o, Outc::Skip) && !knn_plausible(o, &rd, k)).count(); }
                else { suspects += res.iter().filter(|o| !matches!(o, Outc::Err | Outc::Skip)).count(); }
                let raw: Option<Vec<(F, usize)>> = if wellformed && !kd_skipped { kd_raw.as_ref().and_then(|t| {
                    let (qq, dd) = (&q, &dist);
                    guarded(AssertUnwindSafe(|| t.nearest(qq.as_slice().unwrap(), k, &|a: &[F], b: &[F]| dd.rdistance(ndarray::aview1(a), ndarray::aview1(b)))
                        .ok().map(|v| v.into_iter().map(|(dv, i)| (dv, *i)).collect::<Vec<_>>()))).ok().flatten() }) } else { None };
                if raw.is_some() { raw_answers += 1; }
                kdesc.push(format!("{{\"k\": {}, \"lin\": {}, \"kd\": {}, \"ball\": {}}}", k, outc_desc(&res[0]), outc_desc(&res[1]), outc_desc(&res[2])));
                knn_terms.push(format!("KO {}%N {} {} {} {}", k, outc_coq(&res[0]), outc_coq(&res[1]), outc_coq(&res[2]), raw_coq(raw)));
            }
            let mut rng_terms = vec![];
            let mut rdesc = vec![];
            for &r in radii.iter() {
                let rr = dist.dist_to_rdist(r);
                if rd.iter().any(|x| x.f64() < rr.f64() && x.f64() * (1.0 + 64.0 * if F::F32 { f32::EPSILON as f64 } else { f64::EPSILON }) >= rr.f64()) {
                    near_border = true;
                }
                let mut res = vec![];
                for (ki, ix) in idxs.iter().enumerate() {
                    let ix = match ix.as_ref() { Some(ix) => ix, None => { res.push(Outc::Skip); continue; } };
                    let qq = &qv;
                    let o = guarded(AssertUnwindSafe(|| ix.within_range(qq.reborrow(), r)));
                    match &o { Err(msg) if ki == 1 && !q_contiguous && msg.contains("contiguous") => { kd_query_skips += 1; res.push(Outc::Skip); }
                               _ => res.push(observe(o, &batch, sp.ship_coords)) }
                }
                let kd_skipped = matches!(res[1], Outc::Skip);
                if wellformed { suspects += res.iter().filter(|o| !matches!(o, Outc::Skip) && !range_plausible(o, &rd, rr)).count(); }
                else { suspects += res.iter().filter(|o| !matches!(o, Outc::Err | Outc::Skip)).count(); }
                rdesc.push(format!("{{\"radius\": {:e}, \"lin\": {}, \"kd\": {}, \"ball\": {}}}", r.f64(), outc_desc(&res[0]), outc_desc(&res[1]), outc_desc(&res[2])));
                let raw: Option<Vec<(F, usize)>> = if wellformed && !kd_skipped { kd_raw.as_ref().and_then(|t| {
                    let (qq, dd) = (&q, &dist);
                    guarded(AssertUnwindSafe(|| t.within(qq.as_slice().unwrap(), rr, &|a: &[F], b: &[F]| dd.rdistance(ndarray::aview1(a), ndarray::aview1(b)))
                        .ok().map(|v| v.into_iter().map(|(dv, i)| (dv, *i)).collect::<Vec<_>>()))).ok().flatten() }) } else { None };
                if raw.is_some() { raw_answers += 1; }
                rng_terms.push(format!("RO {} {} {} {} {} {}",
                    sf64(r.f64()), sf64(rr.f64()), outc_coq(&res[0]), outc_coq(&res[1]), outc_coq(&res[2]), raw_coq(raw)));
            }
            let ship_dd = qterms.is_empty();
            qterms.push(format!("QR {} {} {} [{}] [{}]",
                cvec64(&qs.q.iter().map(|v| F::of(*v).f64()).collect::<Vec<f64>>()),
                cvec64(&rd.iter().map(|v| v.f64()).collect::<Vec<f64>>()),
                if ship_dd { cvec64(&dd.iter().map(|v| v.f64()).collect::<Vec<f64>>()) } else { "[]".to_string() },
                knn_terms.join("; "), rng_terms.join("; ")));
            qdesc.push(format!("{{\"q\": {:?}, \"knn\": [{}], \"range\": [{}]}}", qs.q, kdesc.join(", "), rdesc.join(", ")));
        }
    }
    // decidable input class of finding F-C07-1: some squared coordinate difference (row - row or query - row)
    // is non-zero and below 2^-1000, i.e. far below the normal range of the format
    {
        let lim = if F::F32 { 2.0f64.powi(-70) } else { 2.0f64.powi(-500) };
        let rows: Vec<Vec<f64>> = sp.x.iter().map(|r| r.iter().map(|v| F::of(*v).f64()).collect()).collect();
        let mut pts: Vec<Vec<f64>> = queries.iter().filter(|q| q.q.len() == d).map(|q| q.q.iter().map(|v| F::of(*v).f64()).collect()).collect();
        pts.extend(rows.iter().cloned());
        if pts.iter().any(|a| rows.iter().any(|b| a.iter().zip(b.iter()).any(|(u, w)| { let df = (u - w).abs(); df > 0.0 && df < lim }))) {
            tags.push("sq_underflow".into());
        }
    }
    tags.push(format!("layout_{}", sp.lay.name()));
    if qlay_used > 0 { tags.push(format!("qlayout_{}", sp.qlay.name())); }
    if kd_build_skip { tags.push("kd_rejects_batch_layout".into()); }
    if kd_query_skips > 0 { tags.push("kd_rejects_query_layout".into()); }
    if has_k0 { tags.push("has_k0_nonempty".into()); }
    if near_border { tags.push("near_border".into()); }
    if sp.leaf == 0 || d == 0 { tags.push("malformed_build".into()); }
    if queries.iter().any(|q| q.q.len() != d) { tags.push("malformed_query".into()); }
    let xs: Vec<Vec<f64>> = sp.x.iter().map(|r| r.iter().map(|v| F::of(*v).f64()).collect()).collect();
    let coq = format!(
        "CS {}%N {} {}%N {}%N {}%N {}%N {} [{}] ({}) {} [{}]",
        sp.id, cbool(F::F32), sp.met.code(), sp.met.int_p(), d, sp.leaf, cmat64(&xs),
        bstats.iter().map(|b| bstat_coq(*b)).collect::<Vec<_>>().join("; "), tree_coq, cbool(rows_ok), qterms.join(";\n ")
    );
    let desc = format!(
        "{{\"stream\": {}, \"family\": {}, \"metric\": {}, \"float\": {}, \"n\": {}, \"dim\": {}, \"leaf_size\": {}, \"batch_layout\": {}, \"odd_query_layout\": {}, \"build\": {:?}, \"X\": {:?}, \"rust_side_suspect_answers\": {}, \"aimed_queries\": {}, \"notes\": {:?}, \"queries\": [{}]}}",
        jstr(sp.stream), jstr(&sp.family), jstr(&sp.met.name()), jstr(if F::F32 { "f32" } else { "f64" }), n, d, sp.leaf, jstr(sp.lay.name()), jstr(sp.qlay.name()),
        bstats.iter().map(|b| bstat_coq(*b)).collect::<Vec<_>>(), xs, suspects, aimed, notes, qdesc.join(", ")
    );
    let mut hv: Vec<f64> = xs.concat();
    for q in queries.iter() { hv.extend(q.q.iter()); hv.extend(q.ks.iter().map(|k| *k as f64)); }
    let hash = fnv_f64s(&hv, (sp.lay as u64) << 32 | (sp.qlay as u64) << 28 | sp.met.code() << 16 | (sp.leaf as u64) << 8 | F::F32 as u64);
    let (nknn, nrange) = if all_ok { (queries.iter().map(|q| q.ks.len()).sum(), queries.iter().map(|q| q.radii.len()).sum()) } else { (0, 0) };
    CaseOut { coq, tags, desc, suspects, hash, nqueries: queries.len(), nknn, nrange, aimed, raw_answers, qlay_used, kd_build_skip, kd_query_skips }
}

fn outc_desc(o: &Outc) -> String {
    match o {
        Outc::Ok(v) => format!("{:?}", v.iter().map(|x| x.0).collect::<Vec<_>>()),
        Outc::Err => "\"Err\"".into(),
        Outc::Panic(p) => jstr(&format!("PANIC: {}", p)),
        Outc::Skip => "\"documented panic: k-d tree needs contiguous points\"".into(),
    }
}
// brute-force plausibility of an answer (only used to point at the suspicious query in the
// description of a case; the verdict is Coq's)
fn knn_plausible<F: Fl>(o: &Outc, rd: &[F], k: usize) -> bool {
    match o {
        Outc::Ok(v) => {
            if v.len() != k.min(rd.len()) || v.iter().any(|x| x.0 >= rd.len()) { return false; }
            let mut all: Vec<f64> = rd.iter().map(|x| x.f64()).collect();
            all.sort_by(|a, b| a.partial_cmp(b).unwrap());
            v.iter().enumerate().all(|(j, x)| rd[x.0].f64() == all[j])
        }
        _ => false,
    }
}
fn range_plausible<F: Fl>(o: &Outc, rd: &[F], rr: F) -> bool {
    match o {
        Outc::Ok(v) => {
            if v.iter().any(|x| x.0 >= rd.len()) { return false; }
            let mut got: Vec<usize> = v.iter().map(|x| x.0).collect();
            got.sort();
            let want: Vec<usize> = (0..rd.len()).filter(|&i| rd[i] < rr).collect();
            got == want
        }
        _ => false,
    }
}

// ---------------------------------------------------------------------------------------------
// queries aimed at the spheres of the dumped ball tree
fn mdist(met: Met, a: &[f64], b: &[f64]) -> f64 {
    match met {
        Met::L1 => a.iter().zip(b).map(|(x, y)| (x - y).abs()).sum(),
        Met::L2 => a.iter().zip(b).map(|(x, y)| (x - y) * (x - y)).sum::<f64>().sqrt(),
        Met::Linf => a.iter().zip(b).fold(0.0, |m, (x, y)| m.max((x - y).abs())),
        Met::Lp(p) => a.iter().zip(b).map(|(x, y)| (x - y).abs().powf(p)).sum::<f64>().powf(1.0 / p),
    }
}
struct NodeInfo { c: Vec<f64>, r: f64, rows: Vec<usize>, branch: bool, depth: usize }
fn dt_nodes(t: &DT, depth: usize, out: &mut Vec<NodeInfo>) -> Vec<usize> {
    match t {
        DT::Leaf { c, r, rows } => { out.push(NodeInfo { c: c.clone(), r: *r, rows: rows.clone(), branch: false, depth }); rows.clone() }
        DT::Branch { c, r, l, rt } => {
            let idx = out.len();
            out.push(NodeInfo { c: c.clone(), r: *r, rows: vec![], branch: true, depth });
            let mut rows = dt_nodes(l, depth + 1, out);
            rows.extend(dt_nodes(rt, depth + 1, out));
            out[idx].rows = rows.clone();
            rows
        }
    }
}
/// For `cnt` nodes of the tree (three quarters branches, at every depth): the stored point of the node that
/// is farthest from the node's centre (the point that defines the radius; sometimes another one), and a query
/// just outside the sphere on the ray centre -> that point, at a gap of 1e-11 .. 6e-6 of the point's offset
/// (f32: 1e-4 .. 6e-3); radii a few ulps / a relative 1e-8 beyond the distance to that point.
fn aim_queries(t: &DT, x: &[Vec<f64>], met: Met, cnt: usize, seed: u64, f32_: bool, wide: bool) -> Vec<QuerySpec> {
    let mut r = Sm64::new(seed);
    let mut nodes = vec![];
    dt_nodes(t, 0, &mut nodes);
    let ok = |nd: &NodeInfo| nd.r > 0.0 && nd.r.is_finite() && nd.rows.len() >= 2 && nd.rows.iter().all(|j| *j < x.len() && x[*j].len() == nd.c.len());
    let mut br: Vec<usize> = (0..nodes.len()).filter(|&i| nodes[i].branch && ok(&nodes[i])).collect();
    let mut lf: Vec<usize> = (0..nodes.len()).filter(|&i| !nodes[i].branch && ok(&nodes[i])).collect();
    r.shuffle(&mut br);
    r.shuffle(&mut lf);
    // the root and one deepest branch are always among the targets
    if let Some(pos) = br.iter().position(|&i| nodes[i].depth == 0) { br.swap(0, pos); }
    if br.len() > 1 { let dmax = br.iter().map(|&i| nodes[i].depth).max().unwrap(); let pos = br.iter().position(|&i| nodes[i].depth == dmax).unwrap(); if pos != 0 { br.swap(1, pos); } }
    let nb = ((3 * cnt + 3) / 4).min(br.len());
    let nl = (cnt - nb).min(lf.len());
    let mut targets: Vec<usize> = br[..nb].to_vec();
    targets.extend(&lf[..nl]);
    targets.extend(br[nb..].iter().take(cnt - nb - nl));
    let mut out = vec![];
    for &ti in targets.iter() {
        let nd = &nodes[ti];
        let mut by: Vec<usize> = nd.rows.clone();
        by.sort_by(|u, w| mdist(met, &x[*w], &nd.c).partial_cmp(&mdist(met, &x[*u], &nd.c)).unwrap_or(std::cmp::Ordering::Equal));
        let a = match r.below(5) { 0 => by[1.min(by.len() - 1)], 1 => by[r.below(by.len() as u64) as usize], _ => by[0] };
        if x[a].iter().zip(nd.c.iter()).all(|(u, w)| u == w) { continue; }
        let t = (1 + r.below(64)) as f64 * if f32_ { 1.0e-4 } else { *r.pick(&[1.0e-9, 1.0e-9, 1.0e-7, 1.0e-11]) };
        let q: Vec<f64> = x[a].iter().zip(nd.c.iter()).map(|(u, w)| u + (u - w) * t).collect();
        let q: Vec<f64> = if f32_ { q.iter().map(|v| *v as f32 as f64).collect() } else { q };
        let fac = if f32_ { 1.0 + 2.0e-5 } else { 1.0 + 1.0e-8 };
        let mut radii = vec![RadSpec::DistTo(a, 0, fac), RadSpec::DistTo(a, 2, 1.0), RadSpec::DistTo(a, 0, 1.0), RadSpec::DistTo(a, 64, 1.0)];
        if wide { for k in [8, 12, 16, 20].iter() { radii.push(RadSpec::DistTo(a, 0, 1.0 + 2.0f64.powi(-k))); } }
        out.push(QuerySpec { q, ks: vec![1, 2], radii });
    }
    out
}

fn dispatch(sp: &Spec) -> CaseOut {
    match (sp.f32_, sp.met) {
        (false, Met::L1) => run_spec::<f64, _>(sp, L1Dist),
        (false, Met::L2) => run_spec::<f64, _>(sp, L2Dist),
        (false, Met::Linf) => run_spec::<f64, _>(sp, LInfDist),
        (false, Met::Lp(p)) => run_spec::<f64, _>(sp, LpDist(p)),
        (true, Met::L1) => run_spec::<f32, _>(sp, L1Dist),
        (true, Met::L2) => run_spec::<f32, _>(sp, L2Dist),
        (true, Met::Linf) => run_spec::<f32, _>(sp, LInfDist),
        (true, Met::Lp(p)) => run_spec::<f32, _>(sp, LpDist(p as f32)),
    }
}

// ---------------------------------------------------------------------------------------------
// generators
fn gen_points(r: &mut Sm64, family: &str, n: usize, d: usize) -> Vec<Vec<f64>> {
    let ipt = |r: &mut Sm64, lo: i64, hi: i64| -> Vec<f64> { (0..d).map(|_| r.range(lo, hi) as f64).collect() };
    match family {
        "lattice" => (0..n).map(|_| ipt(r, -2, 2)).collect(),
        "equal" => { let p = ipt(r, -3, 3); (0..n).map(|_| p.clone()).collect() }
        "dups" => {
            let m = 1 + r.below(3) as usize;
            let base: Vec<Vec<f64>> = (0..m).map(|_| ipt(r, -2, 2)).collect();
            (0..n).map(|_| base[r.below(m as u64) as usize].clone()).collect()
        }
        "blobs" => {
            let nb = 1 + r.below(3) as usize;
            let cs: Vec<Vec<f64>> = (0..nb).map(|_| ipt(r, -8, 8)).collect();
            (0..n).map(|i| cs[i % nb].iter().map(|c| c + 0.5 * r.gauss()).collect()).collect()
        }
        "uniform" => (0..n).map(|_| (0..d).map(|_| 20.0 * r.unit() - 10.0).collect()).collect(),
        "line" => {
            // collinear lattice points base + t*v: the nearest point of a sphere is then a stored point
            let v: Vec<f64> = (0..d).map(|_| r.range(1, 3) as f64).collect();
            let b = ipt(r, -2, 2);
            (0..n).map(|_| { let t = r.range(-4, 4) as f64; b.iter().zip(v.iter()).map(|(b, v)| b + t * v).collect() }).collect()
        }
        "frac" => (0..n).map(|_| (0..d).map(|_| r.range(-8, 8) as f64 / 8.0).collect()).collect(),
        "offset" => { let off = *r.pick(&[1048576.0, 1e6, -65536.0]); (0..n).map(|_| (0..d).map(|_| off + r.range(-3, 3) as f64).collect()).collect() }
        _ => unreachable!(),
    }
}
const FAMILIES: [&str; 8] = ["lattice", "equal", "dups", "blobs", "uniform", "line", "frac", "offset"];

fn gen_queries(r: &mut Sm64, family: &str, x: &[Vec<f64>], d: usize, nq: usize) -> Vec<QuerySpec> {
    let n = x.len();
    let mut out = vec![];
    for qi in 0..nq {
        let fresh = |r: &mut Sm64| -> Vec<f64> {
            match family {
                "blobs" | "uniform" => (0..d).map(|_| 24.0 * r.unit() - 12.0).collect(),
                "frac" => (0..d).map(|_| r.range(-10, 10) as f64 / 8.0).collect(),
                "offset" => x.get(0).map(|p| p.iter().map(|v| v + r.range(-4, 4) as f64).collect()).unwrap_or_else(|| vec![0.0; d]),
                _ => (0..d).map(|_| r.range(-3, 3) as f64).collect(),
            }
        };
        let q: Vec<f64> = if n == 0 { fresh(r) } else {
            match (qi as u64 + r.below(2)) % 6 {
                0 => x[r.below(n as u64) as usize].clone(),
                1 => fresh(r),
                2 => { let a = &x[r.below(n as u64) as usize]; let b = &x[r.below(n as u64) as usize]; a.iter().zip(b).map(|(u, v)| (u + v) / 2.0).collect() }
                3 => { let a = &x[r.below(n as u64) as usize]; let b = &x[r.below(n as u64) as usize]; a.iter().zip(b).map(|(u, v)| 2.0 * u - v).collect() }
                4 => { let a = &x[r.below(n as u64) as usize]; let b = &x[r.below(n as u64) as usize]; a.iter().zip(b).map(|(u, v)| u + 3.0 * (u - v)).collect() }
                _ => fresh(r).iter().map(|v| v * 8.0).collect(),
            }
        };
        let mut ks = vec![0, 1, 2, n / 2, n.saturating_sub(1), n, n + 1, n + 2, 1 + r.below(n as u64 + 1) as usize];
        r.shuffle(&mut ks);
        ks.truncate(3);
        ks.sort();
        ks.dedup();
        let mut radii = vec![];
        let cands = [
            RadSpec::Abs(0.0), RadSpec::DistTo(r.below(64) as usize, 0, 1.0), RadSpec::DistTo(r.below(64) as usize, 0, 1.0),
            RadSpec::DistTo(r.below(64) as usize, 1, 1.0), RadSpec::DistTo(r.below(64) as usize, -1, 1.0),
            RadSpec::DistTo(r.below(64) as usize, 0, 0.5), RadSpec::Beyond, RadSpec::Abs(r.range(1, 4) as f64),
            RadSpec::Abs(r.range(1, 12) as f64 / 4.0), RadSpec::DistTo(r.below(64) as usize, 0, 1.0),
        ];
        let mut order: Vec<usize> = (0..cands.len()).collect();
        r.shuffle(&mut order);
        for &c in order.iter().take(4) { radii.push(cands[c]); }
        out.push(QuerySpec { q, ks, radii });
    }
    out
}

fn specs(seed: u64, tier: &str) -> Vec<Spec> {
    let thorough = tier == "thorough";
    let mut rng = Sm64::new(seed);
    let mut v: Vec<Spec> = vec![];
    let mut id = 0u64;
    let mets = [Met::L1, Met::L2, Met::Linf];
    // (a) exhaustive small: every multiset order of points over {0,1,2} (d = 1, n <= 4) and over
    //     {0,1}^2 (n <= 3), leaf sizes 1 and 2, every k in 0..n+1, a grid of queries and radii
    let mut small: Vec<(usize, Vec<Vec<f64>>)> = vec![];
    for n in 0..=4usize {
        for code in 0..3usize.pow(n as u32) {
            let mut c = code;
            small.push((1, (0..n).map(|_| { let v = (c % 3) as f64; c /= 3; vec![v] }).collect()));
        }
    }
    for n in 1..=3usize {
        for code in 0..4usize.pow(n as u32) {
            let mut c = code;
            small.push((2, (0..n).map(|_| { let v = c % 4; c /= 4; vec![(v & 1) as f64, (v >> 1) as f64] }).collect()));
        }
    }
    for (si, (d, x)) in small.iter().enumerate() {
        for (li, leaf) in [1usize, 2].iter().enumerate() {
            if !thorough && (si + li) % 2 == 1 { continue; }
            let ml: Vec<Met> = if thorough { mets.to_vec() } else { vec![mets[(si / 2 + li) % 3]] };
            for met in ml {
                let n = x.len();
                let mut qpts: Vec<Vec<f64>> = if *d == 1 { [-1.0, 0.0, 0.5, 1.0, 1.5, 2.0, 3.0].iter().map(|v| vec![*v]).collect() }
                    else { vec![vec![0.0, 0.0], vec![0.5, 0.5], vec![1.0, 0.0], vec![0.5, 1.0], vec![2.0, 2.0], vec![-1.0, 1.0]] };
                let mut rads: Vec<RadSpec> = [0.0, 0.5, 1.0, 1.5, 2.0, 3.5].iter().map(|r| RadSpec::Abs(*r)).chain([RadSpec::DistTo(0, 0, 1.0), RadSpec::DistTo(1, 0, 1.0)].iter().cloned()).collect();
                if !thorough {
                    // a rotating half of the grid per case
                    qpts = qpts.into_iter().enumerate().filter(|(j, _)| (j + si) % 2 == 0).map(|x| x.1).collect();
                    rads = rads.into_iter().enumerate().filter(|(j, _)| (j + si / 2) % 2 == 0).map(|x| x.1).collect();
                }
                let queries = qpts.into_iter().map(|q| QuerySpec { q, ks: (0..=n + 1).collect(), radii: rads.clone() }).collect();
                v.push(Spec { id, stream: "exhaustive", family: format!("small{}d", d), met, f32_: false, x: x.clone(), dim: *d, leaf: *leaf, queries, ship_coords: true, aim: None, lay: Lay::Std, qlay: QLay::Fwd });
                id += 1;
            }
        }
    }
    // (b) structured random
    let nrand = if thorough { 2600 } else { 360 };
    let maxn = if thorough { 48 } else { 26 };
    for i in 0..nrand {
        let mut r = rng.fork();
        let family = FAMILIES[(i + r.below(2) as usize) % FAMILIES.len()];
        let d = match r.below(10) { 0..=2 => 1, 3..=5 => 2, 6..=7 => 3, 8 => 4 + r.below(4) as usize, _ => 8 + r.below(9) as usize };
        let n = match r.below(12) { 0 => 0, 1 => 1, 2 => 2, 3 => 3, _ => 2 + r.below(maxn as u64 - 1) as usize };
        let f32_ = i % 12 == 4;
        let (n, d) = if f32_ { (n.min(12), d.min(4)) } else { (n, d) };
        let x = gen_points(&mut r, family, n, d);
        let leaf = *r.pick(&[1usize, 1, 2, 2, 3, 4, 16, std::cmp::max(n, 1)]);
        let met = match r.below(9) { 0..=1 => Met::L1, 2..=5 => Met::L2, 6..=7 => Met::Linf, _ => Met::Lp(*r.pick(&[3.0, 1.5, 1.0, 4.0])) };
        let nq = if thorough { 6 } else { 5 };
        let queries = gen_queries(&mut r, family, &x, d, nq);
        let small_case = n * d <= 8;
        v.push(Spec { id, stream: if matches!(met, Met::Lp(_)) { "lp" } else { "random" }, family: family.into(), met, f32_, x, dim: d, leaf, queries, ship_coords: small_case, aim: None, lay: Lay::Std, qlay: QLay::Fwd });
        id += 1;
    }
    // (c) malformed builds and queries
    for &(n, d, leaf) in [(0usize, 0usize, 1usize), (1, 0, 1), (3, 0, 16), (0, 0, 0), (2, 0, 0), (0, 2, 0), (1, 1, 0), (4, 3, 0), (7, 2, 0)].iter() {
        for (mi, met) in mets.iter().enumerate() {
            if !thorough && (n + d + leaf + mi) % 2 == 1 { continue; }
            let x: Vec<Vec<f64>> = (0..n).map(|i| (0..d).map(|j| (i * 2 + j) as f64).collect()).collect();
            v.push(Spec { id, stream: "malformed", family: "malformed_build".into(), met: *met, f32_: mi == 1 && n == 1, x, dim: d, leaf, queries: vec![], ship_coords: false, aim: None, lay: Lay::Std, qlay: QLay::Fwd });
            id += 1;
        }
    }
    for &(n, d, leaf) in [(0usize, 2usize, 1usize), (1, 1, 1), (5, 2, 2), (6, 3, 1), (9, 1, 16), (3, 4, 2)].iter() {
        for (mi, met) in [Met::L1, Met::L2, Met::Linf, Met::Lp(3.0)].iter().enumerate() {
            if !thorough && (n + mi) % 2 == 1 { continue; }
            let mut r = rng.fork();
            let x = gen_points(&mut r, "lattice", n, d);
            let mut queries = vec![];
            for qd in [0usize, d.saturating_sub(1), d + 1, d + 3, d].iter() {
                if *qd == d && queries.len() >= 4 { /* one well-formed query among them */ }
                queries.push(QuerySpec { q: (0..*qd).map(|j| j as f64).collect(), ks: vec![0, 1, n + 1], radii: vec![RadSpec::Abs(0.0), RadSpec::Abs(2.0)] });
            }
            v.push(Spec { id, stream: "malformed", family: "malformed_query".into(), met: *met, f32_: false, x, dim: d, leaf, queries, ship_coords: false, aim: None, lay: Lay::Std, qlay: QLay::Fwd });
            id += 1;
        }
    }
    // (d) corpus: the minimal inputs of the defects found so far (F3 k-d tree border, F22 ball tree k = 0,
    //     F38 ball tree bound rounding), kept as regression cases
    for (x, q, radii, leaf) in [
        (vec![vec![0.0, 0.0], vec![1.0, 0.0]], vec![0.0, 0.0], vec![RadSpec::Abs(1.0), RadSpec::DistTo(1, 0, 1.0)], 16usize),
        (vec![vec![1.0, 1.0], vec![2.0, 2.0]], vec![0.0, 0.0], vec![RadSpec::DistTo(0, 0, 1.0), RadSpec::DistTo(1, 0, 1.0)], 1),
        (vec![vec![0.0, 0.0]], vec![0.5, 0.5], vec![RadSpec::DistTo(0, 0, 1.0), RadSpec::DistTo(0, 1, 1.0), RadSpec::DistTo(0, -1, 1.0)], 16),
    ].iter() {
        for met in mets.iter() {
            v.push(Spec { id, stream: "corpus", family: "corpus".into(), met: *met, f32_: false, x: x.clone(), dim: 2, leaf: *leaf,
                          queries: vec![QuerySpec { q: q.clone(), ks: vec![0, 1, 2, 3], radii: radii.clone() }], ship_coords: true, aim: None, lay: Lay::Std, qlay: QLay::Fwd });
            id += 1;
        }
    }
    // (e) near-surface queries: the query lies just outside a ball of non-zero radius (a leaf holding several
    //     points, or a branch), in line with the ball's centre and a stored point on its near border, at a gap
    //     that is tiny compared with the ball; the radius puts that stored point strictly inside by a few
    //     ulps / a relative 1e-8.  distance(q, centre) - radius then cancels, so a pruning bound whose safety
    //     margin does not cover the rounding of the two large terms loses the border point.
    let nsurf = if thorough { 420 } else { 72 };
    for i in 0..nsurf {
        let mut r = rng.fork();
        let f32_ = i % 6 == 5;
        let d = 1 + (i % 3);
        let n = *r.pick(&[2usize, 2, 3, 4, 6]);
        let x: Vec<Vec<f64>> = match r.below(3) {
            0 => (0..n).map(|j| (0..d).map(|c| if c == 0 { 1.0 + 2.0 * j as f64 } else { 0.0 }).collect()).collect(),
            1 => (0..n).map(|_| (0..d).map(|_| r.range(-6, 6) as f64).collect()).collect(),
            _ => (0..n).map(|_| (0..d).map(|_| 8.0 * r.unit() - 4.0).collect()).collect(),
        };
        let x: Vec<Vec<f64>> = if f32_ { x.iter().map(|p| p.iter().map(|v| *v as f32 as f64).collect()).collect() } else { x };
        let leaf = *r.pick(&[1usize, 2, 2, 16]);
        let met = match r.below(6) { 0 => Met::L1, 1 => Met::Linf, _ => Met::L2 };
        let mut queries = vec![];
        for _ in 0..6 {
            let a = r.below(n as u64) as usize;
            // centre of the whole batch, of a pair, or of the upper / lower half in first-coordinate order
            let members: Vec<usize> = match r.below(3) {
                0 => (0..n).collect(),
                1 => { let b = (a + 1 + r.below(n as u64 - 1) as usize) % n; vec![a, b] }
                _ => { let mut o: Vec<usize> = (0..n).collect(); o.sort_by(|u, w| x[*u][0].partial_cmp(&x[*w][0]).unwrap());
                       let h = n / 2; let pos = o.iter().position(|j| *j == a).unwrap();
                       if pos < h { o[..h.max(1)].to_vec() } else { o[h..].to_vec() } }
            };
            let c: Vec<f64> = (0..d).map(|k| members.iter().map(|j| x[*j][k]).sum::<f64>() / members.len() as f64).collect();
            let t = (1 + r.below(64)) as f64 * if f32_ { 1.0e-4 } else { *r.pick(&[1.0e-9, 1.0e-9, 1.0e-7, 1.0e-11]) };
            let q: Vec<f64> = (0..d).map(|k| x[a][k] + (x[a][k] - c[k]) * t).collect();
            let q: Vec<f64> = if f32_ { q.iter().map(|v| *v as f32 as f64).collect() } else { q };
            let fac = if f32_ { 1.0 + 2.0e-5 } else { 1.0 + 1.0e-8 };
            queries.push(QuerySpec { q, ks: vec![1, 2], radii: vec![RadSpec::DistTo(a, 0, fac), RadSpec::DistTo(a, 2, 1.0), RadSpec::DistTo(a, 0, 1.0), RadSpec::DistTo(a, 64, 1.0)] });
        }
        v.push(Spec { id, stream: "surface", family: "surface".into(), met, f32_, x, dim: d, leaf, queries, ship_coords: n * d <= 8, aim: None, lay: Lay::Std, qlay: QLay::Fwd });
        id += 1;
    }
    // (f) the same construction for the nodes of deeper trees: 12..64 points, leaf size 2..4; the queries are
    //     aimed at the spheres (centres, radii, members) read from the Debug dump of the tree the
    //     implementation builds, see aim_queries; two ordinary queries per case come along
    let ndeep = if thorough { 260 } else { 44 };
    for i in 0..ndeep {
        let mut r = rng.fork();
        let f32_ = i % 8 == 7;
        let d = match i % 5 { 0 => 1, 1 | 2 => 2, 3 => 3, _ => 2 + r.below(4) as usize };
        let n = if f32_ { 8 + r.below(17) as usize } else { 12 + r.below(53) as usize };
        let (family, x): (&str, Vec<Vec<f64>>) = match r.below(4) {
            0 => ("deep_lattice", (0..n).map(|_| (0..d).map(|_| r.range(-6, 6) as f64).collect()).collect()),
            1 => ("deep_blobs", { let nb = 2 + r.below(3) as usize; let cs: Vec<Vec<f64>> = (0..nb).map(|_| (0..d).map(|_| r.range(-8, 8) as f64).collect()).collect();
                                  (0..n).map(|j| cs[j % nb].iter().map(|c| c + 0.75 * r.gauss()).collect()).collect() }),
            _ => ("deep_uniform", (0..n).map(|_| (0..d).map(|_| 8.0 * r.unit() - 4.0).collect()).collect()),
        };
        let x: Vec<Vec<f64>> = if f32_ { x.iter().map(|p| p.iter().map(|v| *v as f32 as f64).collect()).collect() } else { x };
        let leaf = 2 + r.below(3) as usize;
        let met = match r.below(10) { 0 | 1 => Met::L1, 2 | 3 => Met::Linf, 4 => Met::Lp(3.0), _ => Met::L2 };
        let queries = gen_queries(&mut r, if family == "deep_lattice" { "lattice" } else { "uniform" }, &x, d, 2);
        let seed2 = r.next();
        v.push(Spec { id, stream: "deep_surface", family: family.into(), met, f32_, x, dim: d, leaf, queries, ship_coords: false, aim: Some((if f32_ { 6 } else { 8 }, seed2)), lay: Lay::Std, qlay: QLay::Fwd });
        id += 1;
    }
    // (g) k-nearest across a narrow gap: two leaves {a, a'} and {b, b'} of non-zero radius face each other
    //     across a gap of 2g (g = 1e-5 .. 1e-8 of the ball size); the query sits in the gap so that the border
    //     point a is nearer than b by a relative 1e-9 .. 1e-12 only.  The early exit of the search
    //     (bound of the other ball >= worst distance found) then decides on the rounding of the two bounds.
    let ngap = if thorough { 180 } else { 30 };
    for i in 0..ngap {
        let mut r = rng.fork();
        let d = 1 + (i % 3);
        // direction with small integer components, first one non-zero
        let e: Vec<f64> = (0..d).map(|c| if c == 0 { *r.pick(&[1.0, 2.0, 3.0]) } else { r.range(-2, 2) as f64 }).collect();
        let q0: Vec<f64> = (0..d).map(|_| r.range(-2, 2) as f64 * 0.25).collect();
        let g = *r.pick(&[1.0e-5, 1.0e-6, 1.0e-7, 1.0e-7, 1.0e-8]);
        let delta = *r.pick(&[1.0e-9, 1.0e-10, 1.0e-10, 1.0e-11, 1.0e-12]);
        let (s1, s2) = (*r.pick(&[0.5, 1.0, 2.0]), *r.pick(&[0.5, 1.0, 1.5]));
        let at = |t: f64| -> Vec<f64> { q0.iter().zip(e.iter()).map(|(q, e)| q + t * e).collect() };
        let mut x = vec![at(-g), at(-g - s1), at(g * (1.0 + delta)), at(g * (1.0 + delta) + s2)];
        if i % 4 == 3 { x.push(at(-g - 2.0 * s1)); x.push(at(g + 2.0 * s2)); }
        let leaf = if x.len() == 4 { 2 } else { *r.pick(&[2usize, 3]) };
        let met = match r.below(6) { 0 => Met::L1, 1 => Met::Linf, _ => Met::L2 };
        let mut queries = vec![];
        for tau in [0.0, 0.25, -0.25, 0.5, 0.75, -1.0].iter() {
            queries.push(QuerySpec { q: at(tau * g * delta), ks: vec![1, 2, 3], radii: vec![RadSpec::DistTo(0, 2, 1.0), RadSpec::DistTo(2, 2, 1.0), RadSpec::DistTo(2, 0, 1.0)] });
        }
        v.push(Spec { id, stream: "knn_gap", family: "knn_gap".into(), met, f32_: false, x, dim: d, leaf, queries, ship_coords: false, aim: None, lay: Lay::Std, qlay: QLay::Fwd });
        id += 1;
    }
    // (h) tiny scales: coordinates around 2^-500 .. 2^-1060, where squared differences fall below the normal
    //     range (the regime that the float-level theorems of C07/PropertiesFloat.v exclude); queries aimed at
    //     the dumped nodes with radii up to a relative 2^-8 beyond the border point (the quantum of a squared
    //     distance is 2^-1074 there), and the minimal input of finding F-C07-1
    v.push(Spec { id, stream: "tiny_scale", family: "tiny_witness".into(), met: Met::L2, f32_: false,
                  x: vec![vec![0.0], vec![60.0 * 2.0f64.powi(-537)]], dim: 1, leaf: 2,
                  queries: vec![QuerySpec { q: vec![60.7002 * 2.0f64.powi(-537)], ks: vec![1, 2], radii: vec![RadSpec::Abs(2.0f64.powi(-537)), RadSpec::Abs(2.0f64.powi(-536))] }],
                  ship_coords: true, aim: None, lay: Lay::Std, qlay: QLay::Fwd });
    id += 1;
    let ntiny = if thorough { 200 } else { 28 };
    for i in 0..ntiny {
        let mut r = rng.fork();
        let d = 1 + (i % 3);
        let n = 2 + r.below(12) as usize;
        let sc = *r.pick(&[2.0f64.powi(-500), 2.0f64.powi(-520), 2.0f64.powi(-530), 2.0f64.powi(-536), 2.0f64.powi(-1000), 2.0f64.powi(-1060)]);
        let x: Vec<Vec<f64>> = (0..n).map(|_| (0..d).map(|_| (r.range(-64, 64) as f64 + if r.below(2) == 0 { 0.0 } else { r.unit() }) * sc).collect()).collect();
        let leaf = *r.pick(&[1usize, 2, 3]);
        let met = match r.below(4) { 0 => Met::L1, 1 => Met::Linf, _ => Met::L2 };
        let mut queries = gen_queries(&mut r, "lattice", &x, d, 3);
        for qs in queries.iter_mut() {
            if !x.iter().any(|p| *p == qs.q) && qs.q.iter().all(|v| v.abs() >= 0.25 || *v == 0.0) { for v in qs.q.iter_mut() { *v *= sc; } }
            for rs in qs.radii.iter_mut() { if let RadSpec::Abs(a) = rs { *rs = RadSpec::Abs(*a * sc * 16.0); } }
        }
        v.push(Spec { id, stream: "tiny_scale", family: "tiny_scale".into(), met, f32_: false, x, dim: d, leaf, queries, ship_coords: false, aim: Some((6, r.next())), lay: Lay::Std, qlay: QLay::Fwd });
        id += 1;
    }
    // (i) memory layouts: the same logical batch in standard layout, with a reversed feature axis (view, and owned
    //     array keeping the negative stride), reversed row axis, column-major storage, and as a step-2 slice of a
    //     wider array (rows, columns, both); odd-numbered queries reversed / strided; every metric incl. Lp.
    //     Coordinates are anisotropic (coordinate j scaled by j+1) so that a reversed pairing changes distances.
    let nlay = if thorough { 384 } else { 72 };
    for i in 0..nlay {
        let mut r = rng.fork();
        let lay = LAYS[i % LAYS.len()];
        let qlay = [QLay::Rev, QLay::Fwd, QLay::Strided][(i / LAYS.len()) % 3];
        let d = match r.below(8) { 0 => 1, 1..=3 => 2, 4..=5 => 3, 6 => 4, _ => 5 + r.below(3) as usize };
        let n = match r.below(10) { 0 => 0, 1 => 1, _ => 2 + r.below(18) as usize };
        let family = *r.pick(&["lattice", "uniform", "blobs", "frac"]);
        let mut x = gen_points(&mut r, family, n, d);
        for p in x.iter_mut() { for (j, v) in p.iter_mut().enumerate() { *v *= (j + 1) as f64; } }
        let f32_ = i % 9 == 8;
        let x: Vec<Vec<f64>> = if f32_ { x.iter().map(|p| p.iter().map(|v| *v as f32 as f64).collect()).collect() } else { x };
        let leaf = *r.pick(&[1usize, 2, 3, 16]);
        let met = match (i / 3) % 6 { 0 => Met::Lp(3.0), 1 => Met::L2, 2 => Met::Lp(1.5), 3 => Met::L1, 4 => Met::Lp(4.0), _ => Met::Linf };
        let mut queries = gen_queries(&mut r, family, &x, d, 4);
        for qs in queries.iter_mut() { if !x.iter().any(|p| *p == qs.q) { for (j, v) in qs.q.iter_mut().enumerate() { *v *= (j + 1) as f64; } } }
        v.push(Spec { id, stream: "layout", family: family.into(), met, f32_, x, dim: d, leaf, queries, ship_coords: n * d <= 8, aim: None, lay, qlay });
        id += 1;
    }
    v
}

// ---------------------------------------------------------------------------------------------
fn work(args: &Args, skip: &[u64], crashed: &[(u64, String)], stop_before: Option<u64>, progress: &std::path::Path) {
    use std::io::Write;
    let mut out = Out::new(&args.out, args.shards, "C07.Corr", "case", args.only);
    let mut prog = std::fs::File::create(progress).unwrap();
    for sp in specs(args.seed, &args.tier) {
        if let Some(s) = stop_before { if sp.id >= s { break; } }
        if !out.wanted(sp.id) { continue; }
        let head = format!(
            "{{\"stream\": {}, \"family\": {}, \"metric\": {}, \"n\": {}, \"dim\": {}, \"leaf_size\": {}, \"X\": {:?}, \"queries\": {:?}}}",
            jstr(sp.stream), jstr(&sp.family), jstr(&sp.met.name()), sp.x.len(), sp.dim, sp.leaf, sp.x,
            sp.queries.iter().map(|q| q.q.clone()).collect::<Vec<_>>()
        );
        if let Some((_, why)) = crashed.iter().find(|c| c.0 == sp.id) {
            out.rust_fail(sp.id, 128, &["process_abort"], &format!("the process died while this case was built/queried ({}): unbounded recursion or abort in the index code", why), &head);
            out.rust_eval(&head, None);
            continue;
        }
        if skip.contains(&sp.id) { continue; }
        writeln!(prog, "{}", sp.id).unwrap();
        prog.flush().unwrap();
        let c = dispatch(&sp);
        out.bump(&format!("stream_{}", sp.stream));
        out.bump(&format!("metric_{}", sp.met.name()));
        out.bump(&format!("family_{}", sp.family));
        out.bump(&format!("leaf_{}", if sp.leaf >= 16 { "ge16".to_string() } else { sp.leaf.to_string() }));
        out.bump(&format!("dim_{}", if sp.dim >= 8 { "ge8".to_string() } else { sp.dim.to_string() }));
        out.bump(&format!("n_{}", match sp.x.len() { 0 => "0", 1 => "1", 2..=4 => "2to4", 5..=15 => "5to15", _ => "ge16" }));
        out.bump(if sp.f32_ { "float_f32" } else { "float_f64" });
        out.bump_by("queries", c.nqueries as u64);
        out.bump_by("knn_answers", 3 * c.nknn as u64);
        out.bump_by("range_answers", 3 * c.nrange as u64);
        out.bump_by("queries_aimed_at_dumped_nodes", c.aimed as u64);
        out.bump_by("kdtree_crate_raw_answers", c.raw_answers as u64);
        out.bump(&format!("layout_{}", sp.lay.name()));
        if c.qlay_used > 0 { out.bump_by(&format!("queries_in_layout_{}", sp.qlay.name()), c.qlay_used as u64); }
        if c.kd_build_skip { out.bump("kd_tree_documented_panic_on_batch_layout"); }
        out.bump_by("kd_tree_documented_panic_on_query_layout_answers", c.kd_query_skips as u64);
        for t in c.tags.iter() { if t == "near_border" || t == "has_k0_nonempty" || t == "sq_underflow" { out.bump(&format!("tag_{}", t)); } }
        if c.suspects > 0 { out.bump("cases_with_rust_side_suspects"); }
        let tagrefs: Vec<&str> = c.tags.iter().map(|s| s.as_str()).collect();
        let distinct = { let mut u: Vec<Vec<u64>> = sp.x.iter().map(|r| r.iter().map(|f| f.to_bits()).collect()).collect(); u.sort(); u.dedup(); u.len() };
        let key = if sp.x.len() >= 2 && distinct >= 1 && c.nqueries > 0 { Some(c.hash) } else { None };
        out.case(sp.id, &c.coq, &tagrefs, &c.desc, key);
    }
    out.finish("point sets: exhaustive over {0,1,2}^1 (n<=4) and {0,1}^2 (n<=3) x leaf size {1,2}; random from 8 families (integer lattice, all-equal, heavy duplicates, Gaussian blobs, uniform cloud, collinear lattice, fractional lattice, large offset), dimension 1..16, f64 and f32, leaf sizes 1,2,3,4,16,n, metrics L1/L2/Linf/Lp; queries: stored points, lattice points, midpoints, mirror images (sphere borders), far points; k in {0,1,2,n/2,n-1,n,n+1,n+2}; radii 0, computed distances to stored points (+-1 ulp, halves), beyond the diameter; near-surface queries (just outside a ball, on the ray centre -> border point, radii a few ulps beyond that point) for small batches and, aimed through the Debug dump of the implementation's tree, for the branch and leaf nodes of trees over 12..64 points with leaf size 2..4; memory layouts of the batch (standard, reversed feature axis as view and as owned array, reversed row axis, column-major, step-2 slices of a wider array) and of the queries (forward, reversed, strided) for the same logical points, all metrics incl. Lp; tiny scales (coordinates 2^-500 .. 2^-1060, squared distances below the normal range); k-nearest queries in a narrow gap between two balls whose border points differ in distance by a relative 1e-9..1e-12; the raw answers of the kdtree crate (nearest / within on a tree built like KdTreeIndex::new) for every well-formed query; malformed builds/queries; a case is non-trivial when it has >= 2 points and >= 1 query; distinct = distinct (points, metric, leaf size, queries) hashes");
}

fn main() {
    let args = parse_args();
    if args.extra.iter().any(|a| a == "work") {
        // child: --skip a,b,c  --crashed id:why;id:why  --stop-before N  --progress file
        let get = |k: &str| args.extra.iter().position(|a| a == k).and_then(|i| args.extra.get(i + 1)).cloned();
        let skip: Vec<u64> = get("--skip").map(|s| s.split(',').filter(|x| !x.is_empty()).map(|x| x.parse().unwrap()).collect()).unwrap_or_default();
        let crashed: Vec<(u64, String)> = get("--crashed").map(|s| s.split(';').filter(|x| !x.is_empty()).map(|x| { let mut it = x.splitn(2, ':'); (it.next().unwrap().parse().unwrap(), it.next().unwrap_or("").to_string()) }).collect()).unwrap_or_default();
        let stop = get("--stop-before").map(|s| s.parse().unwrap());
        let progress = std::path::PathBuf::from(get("--progress").unwrap());
        work(&args, &skip, &crashed, stop, &progress);
        return;
    }
    // supervisor
    std::fs::create_dir_all(&args.out).unwrap();
    let progress = args.out.with_extension("progress");
    let exe = std::env::current_exe().unwrap();
    let mut crashed: Vec<(u64, String)> = vec![];
    let mut stop: Option<u64> = None;
    for attempt in 0..8 {
        let mut cmd = std::process::Command::new(&exe);
        cmd.arg("gen").arg("work").arg("--seed").arg(args.seed.to_string()).arg("--tier").arg(&args.tier)
            .arg("--out").arg(&args.out).arg("--shards").arg(args.shards.to_string())
            .arg("--progress").arg(&progress)
            .arg("--crashed").arg(crashed.iter().map(|c| format!("{}:{}", c.0, c.1)).collect::<Vec<_>>().join(";"));
        if let Some(o) = args.only { cmd.arg("--only").arg(o.to_string()); }
        if let Some(s) = stop { cmd.arg("--stop-before").arg(s.to_string()); }
        let st = cmd.status().expect("cannot start the worker process");
        if st.success() { let _ = std::fs::remove_file(&progress); return; }
        let last: Option<u64> = std::fs::read_to_string(&progress).ok().and_then(|s| s.lines().last().and_then(|l| l.trim().parse().ok()));
        match last {
            Some(id) if !crashed.iter().any(|c| c.0 == id) => {
                eprintln!("worker died ({}) while working on case {}", st, id);
                crashed.push((id, format!("{}", st).replace(';', ",").replace(':', " ")));
                if attempt >= 5 { stop = Some(id + 1); }
            }
            _ => { eprintln!("worker died ({}) without progress", st); std::process::exit(3); }
        }
    }
    std::process::exit(3);
}
