//! C18 harness: PCA fits (linfa-reduction `Pca`) on generated record matrices; emits Coq cases for
//! C18/Corr.v.  One case = one fit (data, embedding size, whitening flag, memory layout) with
//!   * the implementation's outputs (mean, singular values, components, explained variance and
//!     ratio, predict on the training rows plus a few fresh points, inverse_transform of that), and
//!   * the raw output of the external solver (`linfa_linalg::lobpcg::TruncatedSvd`, same seed 42)
//!     on the centred data, which the Gallina model of `PcaParams::fit` takes as an oracle input.
use linfa::prelude::*;
use linfa::traits::Transformer;
use linfa_linalg::{lobpcg::TruncatedSvd, Order};
use linfa_reduction::{Pca, ReductionError};
use ndarray::{Array1, Array2, Axis, ShapeBuilder};
use rand::{rngs::SmallRng, Rng, SeedableRng};
use vh::*;

fn arr(rows: &[Vec<f64>], p: usize, fortran: bool) -> Array2<f64> {
    let n = rows.len();
    if fortran {
        let mut data = Vec::with_capacity(n * p);
        for j in 0..p {
            for r in rows {
                data.push(r[j]);
            }
        }
        Array2::from_shape_vec((n, p).f(), data).unwrap()
    } else {
        Array2::from_shape_vec((n, p), rows.iter().flatten().cloned().collect()).unwrap()
    }
}

struct FitOut {
    mean: Vec<f64>,
    sigma: Vec<f64>,
    emb: Vec<Vec<f64>>,
    ev: Vec<f64>,
    evr: Vec<f64>,
    pred: Vec<Vec<f64>>,
    inv: Vec<Vec<f64>>,
    transform_same: bool,
    targets_kept: bool,
    /// predict_inplace into a junk-filled buffer, then again into the same (now used) buffer with another batch,
    /// and the dataset calling form: all must give the bits of `predict` (what the property's scores are)
    inplace_same: bool,
}

enum Res {
    Ok(FitOut),
    ErrNotEnough,
    ErrTooSmall(usize),
    ErrOther(String),
    Panic(String),
}

fn run_fit(x: &Array2<f64>, q: &Array2<f64>, k: usize, whiten: bool) -> Res {
    let (x2, q2) = (x.clone(), q.clone());
    let r = guarded(move || {
        let n = x2.nrows();
        let targets: Array1<usize> = (0..n).collect();
        let weights: Array1<f32> = (0..n).map(|i| 1.0 + i as f32 * 0.5).collect();
        let ds = DatasetBase::new(x2.clone(), targets.clone()).with_weights(weights.clone());
        let model = match Pca::params(k).whiten(whiten).fit(&ds) {
            Ok(m) => m,
            Err(ReductionError::NotEnoughSamples) => return Res::ErrNotEnough,
            Err(ReductionError::EmbeddingTooSmall(s)) => return Res::ErrTooSmall(s),
            Err(e) => return Res::ErrOther(format!("{}", e)),
        };
        let pred = model.predict(&q2);
        let inv = model.inverse_transform(pred.clone());
        // Transformer::transform must be predict on the records with targets passed through
        let tds = model.transform(ds);
        let ptrain = model.predict(&x2);
        let transform_same = tds.records().shape() == ptrain.shape()
            && tds.records().iter().zip(ptrain.iter()).all(|(a, b)| a.to_bits() == b.to_bits());
        let targets_kept = tds.targets() == &targets && tds.weights().map_or(false, |w| w == weights.as_slice().unwrap());
        let same_bits = |a: &Array2<f64>, b: &Array2<f64>| a.shape() == b.shape() && a.iter().zip(b.iter()).all(|(u, v)| u.to_bits() == v.to_bits());
        let inplace_same = {
            // multi-step sequence on one buffer: junk -> batch q -> (same shape) batch q reversed row order
            let mut buf = Array2::<f64>::from_elem(pred.raw_dim(), 7.25);
            model.predict_inplace(&q2, &mut buf);
            let first = same_bits(&buf, &pred);
            let qrev = q2.slice(ndarray::s![..;-1, ..]).to_owned();
            let prev = model.predict(&qrev);
            model.predict_inplace(&qrev, &mut buf);
            let second = same_bits(&buf, &prev);
            // a buffer that already holds the answer must come back unchanged
            model.predict_inplace(&qrev, &mut buf);
            let third = same_bits(&buf, &prev);
            let dsq = DatasetBase::from(q2.clone());
            let pds = model.predict(&dsq);
            first && second && third && same_bits(&pds, &pred)
        };
        Res::Ok(FitOut {
            mean: model.mean().to_vec(),
            sigma: model.singular_values().to_vec(),
            emb: rows_of(&model.components().view()),
            ev: model.explained_variance().to_vec(),
            evr: model.explained_variance_ratio().to_vec(),
            pred: rows_of(&pred.view()),
            inv: rows_of(&inv.view()),
            transform_same,
            targets_kept,
            inplace_same,
        })
    });
    match r {
        Ok(r) => r,
        Err(p) => Res::Panic(p),
    }
}

/// the external solver exactly as `PcaParams::fit` calls it (feature `blas` off), on the centred data
fn raw_svd(x: &Array2<f64>, k: usize) -> Result<(Vec<f64>, Vec<Vec<f64>>), String> {
    let x2 = x.clone();
    match guarded(move || {
        let mean = x2.mean_axis(Axis(0)).unwrap();
        let xc = &x2 - &mean;
        match TruncatedSvd::new_with_rng(xc, Order::Largest, SmallRng::seed_from_u64(42)).decompose(k) {
            Ok(res) => {
                let (_, s, vt) = res.values_vectors();
                Ok((s.to_vec(), rows_of(&vt.view())))
            }
            Err(e) => Err(format!("{}", e)),
        }
    }) {
        Ok(r) => r,
        Err(p) => Err(format!("PANIC: {}", p)),
    }
}

/// what LOBPCG itself reported for that call: a replica of `TruncatedSvd::decompose` (n > p branch:
/// operator X^T X, random f32 start block from SmallRng(42), tolerance (1e-5)^2, maxiter 2n) that keeps
/// the status `decompose` throws away.  -> (status, eigenvalues) with status "ok" (all residual norms
/// below the tolerance), "budget" (Ok returned with residuals above the tolerance: iteration budget
/// exhausted), "err" (an error with a partial result, which decompose turns into Ok), "fail"
fn lobpcg_status(x: &Array2<f64>, k: usize) -> (String, Vec<f64>) {
    let x2 = x.clone();
    match guarded(move || {
        let mean = x2.mean_axis(Axis(0)).unwrap();
        let xc = &x2 - &mean;
        let (n, m) = (xc.nrows(), xc.ncols());
        if n <= m {
            return ("n_le_p".to_string(), vec![]);
        }
        let mut rng = SmallRng::seed_from_u64(42);
        let x0: Array2<f32> = Array2::from_shape_fn((usize::min(n, m), k), |_| rng.gen::<f32>());
        let x0 = x0.mapv(|v| v as f64);
        let precision: f32 = 1e-5;
        let tol = precision * precision;
        let res = linfa_linalg::lobpcg::lobpcg(|y| xc.t().dot(&xc.dot(&y)), x0, |_| {}, None, tol, n * 2, Order::Largest);
        match res {
            Ok(r) => {
                let conv = r.rnorm.iter().all(|v| *v <= tol as f64);
                ((if conv { "ok" } else { "budget" }).to_string(), r.eigvals.to_vec())
            }
            Err((_, Some(r))) => ("err".to_string(), r.eigvals.to_vec()),
            Err((_, None)) => ("fail".to_string(), vec![]),
        }
    }) {
        Ok(r) => r,
        Err(_) => ("panic".to_string(), vec![]),
    }
}

fn rotate(rng: &mut Sm64, rows: &mut [Vec<f64>], p: usize, times: usize) {
    if p < 2 {
        return;
    }
    for _ in 0..times {
        let a = rng.below(p as u64) as usize;
        let mut b = rng.below(p as u64 - 1) as usize;
        if b >= a {
            b += 1;
        }
        let th = rng.unit() * std::f64::consts::PI * 2.0;
        let (c, s) = (th.cos(), th.sin());
        for r in rows.iter_mut() {
            let (u, v) = (r[a], r[b]);
            r[a] = c * u - s * v;
            r[b] = s * u + c * v;
        }
    }
}

/// mix integer columns with small integer shears (keeps every entry an integer, correlates the columns)
fn rotate_int(rng: &mut Sm64, rows: &mut [Vec<f64>], p: usize) {
    if p < 2 {
        return;
    }
    for _ in 0..p {
        let a = rng.below(p as u64) as usize;
        let mut b = rng.below(p as u64 - 1) as usize;
        if b >= a {
            b += 1;
        }
        let c = rng.range(-2, 2) as f64;
        for r in rows.iter_mut() {
            r[a] += c * r[b];
        }
    }
}

const FAMILIES: [&str; 10] = ["isotropic", "anisotropic", "lowrank_noise", "lowrank_exact", "offset", "badscale", "lattice", "tiny", "dup_columns", "huge_offset"];

fn gen_data(rng: &mut Sm64, n: usize, p: usize, fam: usize) -> Vec<Vec<f64>> {
    let mut rows: Vec<Vec<f64>> = (0..n).map(|_| (0..p).map(|_| rng.gauss()).collect()).collect();
    match fam {
        0 => {}
        1 => {
            // strongly anisotropic: geometric column scales, then a random rotation
            let base = *rng.pick(&[3.0, 10.0, 30.0]);
            for r in rows.iter_mut() {
                for j in 0..p {
                    r[j] *= f64::powi(base, -(j as i32));
                }
            }
            rotate(rng, &mut rows, p, 2 * p);
        }
        2 | 3 => {
            // rank r < p signal (+ small noise for family 2)
            let rk = if p == 1 { 1 } else { 1 + rng.below(p as u64 - 1) as usize };
            let basis: Vec<Vec<f64>> = (0..rk).map(|_| (0..p).map(|_| rng.gauss()).collect()).collect();
            let noise = if fam == 2 { *rng.pick(&[1e-1, 1e-2, 1e-3]) } else { 0.0 };
            for r in rows.iter_mut() {
                let coef: Vec<f64> = (0..rk).map(|i| rng.gauss() * (3.0 / (1 + i) as f64)).collect();
                for j in 0..p {
                    let mut v = 0.0;
                    for i in 0..rk {
                        v += coef[i] * basis[i][j];
                    }
                    r[j] = v + noise * r[j];
                }
            }
        }
        4 => {
            // large offsets: the mean dominates the spread
            let off: Vec<f64> = (0..p).map(|_| rng.range(-9, 9) as f64 * *rng.pick(&[1e1, 1e3, 1e5])).collect();
            for r in rows.iter_mut() {
                for j in 0..p {
                    r[j] = r[j] * (1.0 + j as f64) + off[j];
                }
            }
        }
        5 => {
            // badly scaled columns (powers of ten between 1e-3 and 1e3) with an offset on some
            for j in 0..p {
                let sc = f64::powi(10.0, rng.range(-3, 3) as i32);
                let off = if rng.chance(0.5) { sc * rng.range(-50, 50) as f64 } else { 0.0 };
                for r in rows.iter_mut() {
                    r[j] = r[j] * sc + off;
                }
            }
        }
        7 => {
            // tiny overall scale with a geometric spectrum: singular values straddle the 1e-8 floor of pca.rs
            let sc = f64::powi(10.0, -(rng.range(7, 9) as i32));
            for r in rows.iter_mut() {
                for j in 0..p {
                    r[j] *= sc * f64::powi(3.0, -(j as i32));
                }
            }
            rotate(rng, &mut rows, p, p);
        }
        8 => {
            // duplicated columns: some columns are exact copies (or exact power-of-two multiples) of others,
            // so the centred data is EXACTLY rank deficient (rank p - d) - no rounding hides the null space
            if p >= 2 {
                if rng.chance(0.4) {
                    for r in rows.iter_mut() {
                        for j in 0..p {
                            r[j] = (r[j] * 4.0).round() * 0.25;
                        }
                    }
                }
                let d = 1 + rng.below(usize::min(3, p - 1) as u64) as usize;
                let mut idx: Vec<usize> = (0..p).collect();
                rng.shuffle(&mut idx);
                for t in 0..d {
                    // destination idx[t] copies a surviving source column idx[d + ...]
                    let src = idx[d + rng.below((p - d) as u64) as usize];
                    let f = *rng.pick(&[1.0, 1.0, -1.0, 2.0, 0.5]);
                    for r in rows.iter_mut() {
                        r[idx[t]] = f * r[src];
                    }
                }
            }
        }
        9 => {
            // offsets many orders of magnitude above the spread (|offset| <= 2^43, spread ~ 10): integer data, so
            // that every record and - for n a power of two - the column mean are exactly representable; the
            // centred data is then exact and an implementation that centres BEFORE projecting loses nothing,
            // whereas x.V^T - mean.V^T cancels catastrophically (absolute error ~ 2^43 eps sqrt(p) ~ 1e-3)
            for r in rows.iter_mut() {
                for j in 0..p {
                    r[j] = (r[j] * 6.0 / (1.0 + (j % 3) as f64)).round();
                }
            }
            rotate_int(rng, &mut rows, p);
            let off: Vec<f64> = (0..p).map(|_| {
                let m = (1 + rng.below(8)) as f64 * if rng.chance(0.5) { -1.0 } else { 1.0 };
                m * f64::powi(2.0, *rng.pick(&[40, 40, 38, 36]))
            }).collect();
            for r in rows.iter_mut() {
                for j in 0..p {
                    r[j] += off[j];
                }
            }
        }
        _ => {
            // small integer lattice: exact sums, repeated rows, tied eigenvalues are likely
            for r in rows.iter_mut() {
                for j in 0..p {
                    r[j] = rng.range(-3, 3) as f64 * 0.5;
                }
            }
        }
    }
    rows
}

/// quality of the external solver's own raw output (sigma, V^T) for the centred data, in f64 (used for
/// classification only, never for a verdict): (orthonormality defect, Ritz defect / trace, eigen-residual / trace)
fn solver_diag(x: &Array2<f64>, ss: &[f64], vt: &[Vec<f64>]) -> (f64, f64, f64) {
    let mean = x.mean_axis(Axis(0)).unwrap();
    let xc = x - &mean;
    let a = xc.t().dot(&xc);
    let p = a.nrows();
    let tr: f64 = (0..p).map(|i| a[(i, i)]).sum::<f64>().max(1e-300);
    let (mut orth, mut ritz, mut res) = (0.0f64, 0.0f64, 0.0f64);
    for i in 0..vt.len() {
        for j in 0..vt.len() {
            let d: f64 = vt[i].iter().zip(&vt[j]).map(|(u, v)| u * v).sum();
            orth = orth.max((d - if i == j { 1.0 } else { 0.0 }).abs());
        }
        let av: Vec<f64> = (0..p).map(|r| (0..p).map(|c| a[(r, c)] * vt[i][c]).sum()).collect();
        let lam = ss[i] * ss[i];
        let rq: f64 = av.iter().zip(&vt[i]).map(|(u, v)| u * v).sum();
        ritz = ritz.max((rq - lam).abs() / tr);
        for r in 0..p {
            res = res.max((av[r] - lam * vt[i][r]).abs() / tr);
        }
    }
    (orth, ritz, res)
}

fn f64_diag(x: &[Vec<f64>], f: &FitOut, n: usize) -> (f64, f64, f64) {
    // diagnostics for calibration only (never used for a verdict): orthonormality defect of the
    // un-whitened directions is not observable when whitened, so normalise rows first
    let p = f.mean.len();
    let xc: Vec<Vec<f64>> = x.iter().map(|r| r.iter().zip(&f.mean).map(|(a, b)| a - b).collect()).collect();
    let mut c = vec![vec![0.0; p]; p];
    for r in &xc {
        for i in 0..p {
            for j in 0..p {
                c[i][j] += r[i] * r[j];
            }
        }
    }
    let tr: f64 = (0..p).map(|i| c[i][i]).sum::<f64>().max(1e-300);
    let m = f.sigma.len();
    let vs: Vec<Vec<f64>> = f.emb.iter().map(|v| { let nr = v.iter().map(|a| a * a).sum::<f64>().sqrt(); v.iter().map(|a| a / nr).collect() }).collect();
    let mut orth: f64 = 0.0;
    let mut ritz: f64 = 0.0;
    let mut res: f64 = 0.0;
    for i in 0..m {
        for j in 0..m {
            let d: f64 = vs[i].iter().zip(&vs[j]).map(|(a, b)| a * b).sum();
            if i != j { orth = orth.max(d.abs()); }
        }
        let cv: Vec<f64> = (0..p).map(|a| (0..p).map(|b| c[a][b] * vs[i][b]).sum()).collect();
        let lam = f.sigma[i] * f.sigma[i];
        let rq: f64 = cv.iter().zip(&vs[i]).map(|(a, b)| a * b).sum();
        ritz = ritz.max((rq - lam).abs() / tr);
        for a in 0..p {
            res = res.max((cv[a] - lam * vs[i][a]).abs() / tr);
        }
    }
    let _ = n;
    (orth, ritz, res)
}

/// one fit of `x` (n x p, given layout) with embedding size k: runs the implementation and the external solver,
/// classifies the input (tags), emits the Coq case (or the Rust-side failure for a panic / an error)
#[allow(clippy::too_many_arguments)]
fn one_fit(out: &mut Out, id: u64, x: &[Vec<f64>], q: &[Vec<f64>], n: usize, p: usize, k: usize, whiten: bool, fortran: bool,
           fam: &str, di: usize, stream: &str, probe: bool) {
    if !out.wanted(id) {
        // replay of another case: nothing of this fit is needed (all randomness is drawn by the caller)
        return;
    }
    let xa = arr(x, p, fortran);
    let qa = arr(q, p, false);
    let res = run_fit(&xa, &qa, k, whiten);
    let svd = raw_svd(&xa, k);
    let (status, evals) = lobpcg_status(&xa, k);
    // the replica is trusted only if it reproduces the solver's singular values bit for bit
    let faithful = match &svd {
        Ok((ss, _)) => {
            let mut e = evals.clone();
            e.sort_by(|a, b| b.partial_cmp(a).unwrap_or(std::cmp::Ordering::Equal));
            ss.len() <= e.len() && ss.iter().zip(e.iter()).all(|(s, v)| s.to_bits() == v.sqrt().to_bits())
        }
        Err(_) => false,
    };
    let kcls = if k == 1 { "k_1" } else if k == p { "k_full" } else { "k_interior" };
    let mut tags: Vec<String> = vec![
        format!("family_{}", fam),
        kcls.to_string(),
        (if whiten { "whiten" } else { "plain" }).to_string(),
        (if fortran { "layout_f" } else { "layout_c" }).to_string(),
        "valid_input".to_string(),
        format!("stream_{}", stream),
    ];
    let desc_head = format!(
        "\"n\": {}, \"p\": {}, \"k\": {}, \"whiten\": {}, \"family\": {}, \"layout\": {}, \"stream\": {}, \"dataset\": {}, \"unseen_queries\": {}, \"X_first_row\": {:?}",
        n, p, k, whiten, jstr(fam), jstr(if fortran { "F" } else { "C" }), jstr(stream), di, q.len() - n, x[0]
    );
    out.bump(&format!("family_{}", fam));
    out.bump(&format!("stream_{}", stream));
    out.bump(&format!("p_{}", p));
    out.bump(kcls);
    out.bump(if whiten { "whiten" } else { "plain" });
    out.bump(if fortran { "layout_f" } else { "layout_c" });
    out.bump(&format!("n_minus_p_{}", if n - p <= 1 { "1" } else if n - p <= 3 { "2to3" } else if n - p <= 12 { "4to12" } else { "gt12" }));
    match res {
        Res::Ok(f) => {
            if probe {
                let (o, rz, rs) = f64_diag(x, &f, n);
                eprintln!("PROBE id={} fam={} n={} p={} k={} m={} w={} orth={:.2e} ritz={:.2e} res={:.2e} svd_ok={} status={} faithful={}", id, fam, n, p, k, f.sigma.len(), whiten, o, rz, rs, svd.is_ok(), status, faithful);
            }
            {
                // trace of the centred Gram matrix: at or below the solver's absolute residual tolerance
                // (precision^2 = 1e-10) LOBPCG accepts its random start block as converged
                let mut tr = 0.0;
                for j in 0..p {
                    let mj: f64 = x.iter().map(|r| r[j]).sum::<f64>() / n as f64;
                    tr += x.iter().map(|r| (r[j] - mj) * (r[j] - mj)).sum::<f64>();
                }
                if tr <= 1e-10 {
                    tags.push("gram_trace_le_1e-10".into());
                    out.bump("gram_trace_le_1e-10");
                }
            }
            out.bump(&format!("lobpcg_{}{}", status, if faithful { "" } else { "_unfaithful_replica" }));
            if faithful && status != "ok" {
                tags.push(format!("lobpcg_{}", status));
            }
            if let Ok((ss, vt)) = &svd {
                // known-finding classes are defined on the SOLVER's raw output, obtained by calling it
                // directly: thresholds are two orders below the oracle's, so that every oracle rejection
                // caused by the solver is tagged, and nothing pca.rs does can earn the tag
                let (so, sr, se) = solver_diag(&xa, ss, vt);
                if so > 1e-9 || sr > 1e-9 {
                    tags.push("solver_block_not_orthonormal".into());
                    out.bump("solver_block_not_orthonormal");
                }
                if se > 1e-9 {
                    tags.push("solver_block_residual".into());
                    out.bump("solver_block_residual");
                }
            }
            if let Ok((ss, _)) = &svd {
                if ss.iter().any(|s| *s < 1e-8) {
                    tags.push("sigma_below_floor".into());
                    out.bump("sigma_below_floor");
                }
            }
            if f.sigma.len() < k {
                tags.push("truncated".into());
                out.bump("fewer_components_than_requested");
            }
            if !f.transform_same || !f.targets_kept {
                let tr: Vec<&str> = tags.iter().map(|s| s.as_str()).collect();
                out.rust_fail(id, 1 << 20, &tr, "Transformer::transform differs from predict on the records or drops the targets / weights", &format!("{{{}}}", desc_head));
            }
            if !f.inplace_same {
                let tr: Vec<&str> = tags.iter().map(|s| s.as_str()).collect();
                out.rust_fail(id, 1 << 23, &tr, "predict_inplace into a pre-filled or reused buffer (or predict on a dataset) differs from predict on the records: the scores depend on the calling form / on earlier calls", &format!("{{{}}}", desc_head));
            }
            let (has_svd, ss, sv) = match &svd {
                Ok((s, v)) => (true, s.clone(), v.clone()),
                Err(_) => (false, vec![], vec![]),
            };
            let coq = format!(
                "{{| c_id := {}; c_n := {}; c_p := {}; c_k := {}; c_whiten := {}; c_colmajor := {}; c_X := {}; c_Q := {}; \
                 c_res := 0%N; c_errk := 0%N; c_has_svd := {}; c_svd_sigma := {}; c_svd_vt := {}; \
                 c_mean := {}; c_sigma := {}; c_emb := {}; c_ev := {}; c_evr := {}; c_pred := {}; c_inv := {} |}}",
                cn(id), cn(n as u64), cn(p as u64), cn(k as u64), cbool(whiten), cbool(fortran), cmat64(x), cmat64(&q[n..]),
                cbool(has_svd), cvec64(&ss), cmat64(&sv),
                cvec64(&f.mean), cvec64(&f.sigma), cmat64(&f.emb), cvec64(&f.ev), cvec64(&f.evr), cmat64(&f.pred), cmat64(&f.inv)
            );
            let desc = format!("{{{}, \"components_returned\": {}, \"sigma\": {:?}}}", desc_head, f.sigma.len(), f.sigma);
            let tr: Vec<&str> = tags.iter().map(|s| s.as_str()).collect();
            let key = fnv_f64s(&x.concat(), ((k as u64) << 8) | ((whiten as u64) << 1) | fortran as u64);
            out.case(id, &coq, &tr, &desc, Some(key));
        }
        Res::Panic(msg) => {
            if probe {
                eprintln!("PROBE id={} fam={} n={} p={} k={} PANIC {}", id, fam, n, p, k, msg);
            }
            tags.push(if msg.contains("NaN values in array") { "panic_nan_values".into() } else { "panic_other".into() });
            out.bump("fit_panicked");
            let tr: Vec<&str> = tags.iter().map(|s| s.as_str()).collect();
            let desc = format!("{{{}, \"panic\": {}}}", desc_head, jstr(&msg));
            out.rust_fail(id, 1 << 21, &tr, &format!("fit panicked on valid input: {}", msg), &desc);
            out.rust_eval(&desc, None);
        }
        Res::ErrNotEnough | Res::ErrTooSmall(_) | Res::ErrOther(_) => {
            let msg = match res { Res::ErrOther(m) => m, Res::ErrNotEnough => "NotEnoughSamples".into(), _ => "EmbeddingTooSmall".into() };
            if probe {
                eprintln!("PROBE id={} fam={} n={} p={} k={} ERR {}", id, fam, n, p, k, msg);
            }
            tags.push("fit_error".into());
            out.bump("fit_error_on_valid_input");
            let tr: Vec<&str> = tags.iter().map(|s| s.as_str()).collect();
            let desc = format!("{{{}, \"error\": {}}}", desc_head, jstr(&msg));
            out.rust_fail(id, 1 << 22, &tr, &format!("fit returned an error on valid input (n > p >= k >= 1): {}", msg), &desc);
            out.rust_eval(&desc, None);
        }
    }
}

fn main() {
    let args = parse_args();
    let mut rng = Sm64::new(args.seed);
    let thorough = args.tier == "thorough";
    let probe = std::env::var("C18_PROBE").is_ok();
    let ndatasets = if thorough { 400 } else { 62 };
    let maxp = 10usize;
    let mut out = Out::new(&args.out, args.shards, "C18.Corr", "case", args.only);
    let mut id: u64 = 0;

    // ---------- stream 1: valid fits, every embedding size 1..p ----------
    for di in 0..ndatasets {
        let mut r = rng.fork();
        let fam = if di < 2 * FAMILIES.len() { di % FAMILIES.len() } else { r.below(FAMILIES.len() as u64) as usize };
        // p = 1..10 once each, then mostly 1..8 (the two largest sizes cost the most in the exact checker)
        let p = if di < maxp { di + 1 } else if r.chance(0.12) { 9 + r.below(2) as usize } else { 1 + r.below(8) as usize };
        let nmax = if thorough { 60 } else { 36 };
        // n > p; barely over-determined data (n = p + 1: the centred data has rank <= p exactly, n - p <= 3) is over-represented
        let mut n = match r.below(4) {
            0 => p + 1,
            1 => p + 1 + r.below(3) as usize,
            _ => p + 1 + r.below((nmax - p) as u64) as usize,
        };
        if fam == 9 && r.chance(0.5) {
            // huge offsets: a power of two makes the column means exactly representable
            n = if p < 8 && r.chance(0.5) { 8 } else if p < 16 && r.chance(0.5) { 16 } else { 32 };
        }
        let x = gen_data(&mut r, n, p, fam);
        let fortran = r.chance(0.3);
        // queries = the training rows, then the zero vector, a far point, a fresh point
        let mut q = x.clone();
        q.push(vec![0.0; p]);
        q.push((0..p).map(|_| r.range(-40, 40) as f64 * 25.0).collect());
        q.push((0..p).map(|_| r.gauss()).collect());
        for k in 1..=p {
            let whiten = r.chance(0.5);
            one_fit(&mut out, id, &x, &q, n, p, k, whiten, fortran, FAMILIES[fam], di, "all_sizes", probe);
            id += 1;
        }
    }

    // ---------- stream 2: malformed requests (empty dataset, embedding size outside 1..p) ----------
    let nbad = if thorough { 120 } else { 40 };
    for bi in 0..nbad {
        let mut r = rng.fork();
        let p = 1 + r.below(maxp as u64) as usize;
        let kind = bi % 4;
        let (n, k) = match kind {
            0 => (0usize, 1 + r.below(p as u64) as usize),                 // empty dataset, size in range
            1 => (p + 1 + r.below(10) as usize, 0usize),                   // size 0
            2 => (p + 1 + r.below(10) as usize, p + 1),                    // size p + 1 (border)
            _ => (if r.chance(0.3) { 0 } else { p + 1 + r.below(10) as usize }, p + 2 + r.below(20) as usize), // far outside; an empty dataset wins
        };
        let x = gen_data(&mut r, n, p, 0);
        let fortran = r.chance(0.3);
        let xa = arr(&x, p, fortran);
        let qa = arr(&[vec![0.0; p]], p, false);
        let whiten = r.chance(0.5);
        let res = run_fit(&xa, &qa, k, whiten);
        let (code, errk, what) = match &res {
            Res::Ok(_) => (0u64, 0usize, "accepted".to_string()),
            Res::ErrNotEnough => (1, 0, "NotEnoughSamples".into()),
            Res::ErrTooSmall(s) => (2, *s, format!("EmbeddingTooSmall({})", s)),
            Res::ErrOther(m) => (3, 0, format!("other error: {}", m)),
            Res::Panic(m) => (4, 0, format!("panic: {}", m)),
        };
        let tags = ["malformed", if n == 0 { "empty_dataset" } else { "size_out_of_range" }];
        out.bump(&format!("malformed_kind_{}", kind));
        let coq = format!(
            "{{| c_id := {}; c_n := {}; c_p := {}; c_k := {}; c_whiten := {}; c_colmajor := {}; c_X := {}; c_Q := []; \
             c_res := {}; c_errk := {}; c_has_svd := false; c_svd_sigma := []; c_svd_vt := []; \
             c_mean := []; c_sigma := []; c_emb := []; c_ev := []; c_evr := []; c_pred := []; c_inv := [] |}}",
            cn(id), cn(n as u64), cn(p as u64), cn(k as u64), cbool(whiten), cbool(fortran), cmat64(&x), cn(code), cn(errk as u64)
        );
        let desc = format!("{{\"n\": {}, \"p\": {}, \"k\": {}, \"whiten\": {}, \"malformed_kind\": {}, \"implementation\": {}}}", n, p, k, whiten, kind, jstr(&what));
        out.case(id, &coq, &tags, &desc, Some(fnv(format!("bad {} {} {}", n, p, k).as_bytes())));
        id += 1;
    }

    // ---------- stream 3: whitening and inverse_transform chained over UNSEEN data ----------
    // a whitened model is fitted once without queries; the queries of the recorded (identical, the solver's seed
    // is fixed) second fit are: fresh rows of the same family, far rows, rows built inside mean + span(components)
    // (round trip must give them back even for k < p), and the rows inverse_transform(predict(.)) produced for the
    // fresh rows in the first pass (a second application of the round trip must not move them: idempotence)
    let nchain = if thorough { 60 } else { 9 };
    for ci in 0..nchain {
        let mut r = rng.fork();
        let fam = *r.pick(&[0usize, 1, 2, 4, 5, 6, 8, 9]);
        let p = 2 + r.below(if ci % 3 == 0 { 9 } else { 6 }) as usize;
        let n = if r.chance(0.4) { p + 1 + r.below(3) as usize } else { p + 1 + r.below(30) as usize };
        let x = gen_data(&mut r, n, p, fam);
        let fortran = r.chance(0.3);
        let fresh = {
            let mut r2 = r.fork();
            let mut f = gen_data(&mut r2, 4, p, if fam == 9 { 6 } else { fam });
            if fam == 9 {
                // stay next to the training cloud: fresh integer points about the first training row
                for row in f.iter_mut() {
                    for j in 0..p {
                        row[j] = x[0][j] + (row[j] * 8.0).round();
                    }
                }
            }
            f
        };
        let far: Vec<Vec<f64>> = (0..2).map(|_| (0..p).map(|j| x[0][j] + r.range(-40, 40) as f64 * 16.0).collect()).collect();
        let coefs: Vec<Vec<f64>> = (0..3).map(|_| (0..p).map(|_| r.range(-8, 8) as f64 * 0.5).collect()).collect();
        let ks: Vec<usize> = { let mut v = vec![1, p, 1 + r.below(p as u64) as usize, (p + 1) / 2]; v.sort(); v.dedup(); v };
        for k in ks {
            // first pass (never recorded): model + round-tripped fresh rows
            let mut q1 = fresh.clone();
            q1.extend(far.iter().cloned());
            let (xa, q1a) = (arr(&x, p, fortran), arr(&q1, p, false));
            let mut q = x.clone();
            q.extend(q1.iter().cloned());
            if out.wanted(id) {
                if let Res::Ok(f1) = run_fit(&xa, &q1a, k, true) {
                    // unit directions of the whitened components (norm (n-1)/sigma^2 is undone in f64: only "roughly in the span" is needed)
                    for c in &coefs {
                        let mut row = f1.mean.clone();
                        for (i, w) in f1.emb.iter().enumerate() {
                            let nr = w.iter().map(|a| a * a).sum::<f64>().sqrt();
                            let s = f1.sigma[i] / ((n as f64 - 1.0).sqrt());
                            for j in 0..p {
                                row[j] += c[i] * s * w[j] / nr.max(1e-300);
                            }
                        }
                        if row.iter().all(|v| v.is_finite()) {
                            q.push(row);
                        }
                    }
                    for row in f1.inv.iter().take(fresh.len()) {
                        if row.iter().all(|v| v.is_finite()) {
                            q.push(row.clone());
                        }
                    }
                }
            }
            one_fit(&mut out, id, &x, &q, n, p, k, true, fortran, FAMILIES[fam], ci, "chain_whiten_unseen", probe);
            id += 1;
        }
    }
    out.finish("record matrices n > p >= 1 (p <= 10) from 10 families (isotropic, rotated strongly anisotropic, low rank + noise, exact low rank, large offsets, badly scaled columns, half-integer lattice, tiny scale around the 1e-8 sigma floor, duplicated columns = exactly rank deficient, integer data with offsets up to 2^43 = 1e12 times the spread) in C or Fortran layout, n = p + 1 over-represented; every embedding size 1..p per matrix, whitening drawn per fit; plus malformed requests (empty dataset, size 0, p+1, far outside); plus whitened fits whose predict / inverse_transform are chained over unseen rows (fresh, far, inside mean + span(components), already round-tripped); distinct = distinct (data, size, whitening, layout) hashes");
}
