//! C16 harness: linear scalers (standard / min-max / max-abs, f64 and f32, row- and column-major
//! records), norm scalers and whiteners on generated matrices; emits Coq cases for C16/Corr.v and
//! evaluates the metamorphic (row-wise / fixed map / dataset form) oracles on the Rust side.
use linfa::prelude::*;
use linfa::DatasetBase;
use linfa_preprocessing::linear_scaling::{LinearScaler, LinearScalerParams, ScalingMethod};
use linfa_preprocessing::norm_scaling::NormScaler;
use linfa_preprocessing::whitening::Whitener;
use linfa_preprocessing::PreprocessingError;
use ndarray::{Array1, Array2, ShapeBuilder};
use std::panic::AssertUnwindSafe;
use vh::*;

// ---------------------------------------------------------------------------------------------
// the two float types
trait Fl: linfa::Float + std::fmt::Debug {
    const NAME: &'static str;
    const IS32: bool;
    fn of(x: f64) -> Self;
    fn to64(self) -> f64;
    fn lit(self) -> String; // Coq literal inside the scope given by `scope()`
    fn scope() -> &'static str;
    fn bits(self) -> u64;
    fn eps() -> f64;
    fn min_sub() -> f64;     // smallest positive (subnormal) number
    fn min_norm() -> f64;    // smallest positive normal number
    fn max_fin() -> f64;     // largest finite number
    fn mant() -> i32;        // explicit mantissa bits
}
impl Fl for f64 {
    const NAME: &'static str = "f64";
    const IS32: bool = false;
    fn of(x: f64) -> f64 { x }
    fn to64(self) -> f64 { self }
    fn lit(self) -> String { cf64(self) }
    fn scope() -> &'static str { "float" }
    fn bits(self) -> u64 { self.to_bits() }
    fn eps() -> f64 { f64::EPSILON }
    fn min_sub() -> f64 { f64::from_bits(1) }
    fn min_norm() -> f64 { f64::MIN_POSITIVE }
    fn max_fin() -> f64 { f64::MAX }
    fn mant() -> i32 { 52 }
}
impl Fl for f32 {
    const NAME: &'static str = "f32";
    const IS32: bool = true;
    fn of(x: f64) -> f32 { x as f32 }
    fn to64(self) -> f64 { self as f64 }
    fn lit(self) -> String { cbits32(self) }
    fn scope() -> &'static str { "Z" }
    fn bits(self) -> u64 { self.to_bits() as u64 }
    fn eps() -> f64 { f32::EPSILON as f64 }
    fn min_sub() -> f64 { f32::from_bits(1) as f64 }
    fn min_norm() -> f64 { f32::MIN_POSITIVE as f64 }
    fn max_fin() -> f64 { f32::MAX as f64 }
    fn mant() -> i32 { 23 }
}
fn sc<F: Fl>(x: F) -> String { format!("({})%{}", x.lit(), F::scope()) }
fn cvec<F: Fl>(xs: &[F]) -> String { format!("({})%{}", clist(xs, |x| x.lit()), F::scope()) }
fn cmat<F: Fl>(rows: &[Vec<F>]) -> String {
    format!("({})%{}", clist(rows, |r| clist(r, |x| x.lit())), F::scope())
}
fn copt<F: Fl>(m: &Option<Vec<Vec<F>>>) -> String {
    match m { Some(r) => format!("(Some {})", cmat(r)), None => "None".into() }
}
fn arr<F: Fl>(rows: &[Vec<F>], p: usize, colmajor: bool) -> Array2<F> {
    let n = rows.len();
    if colmajor {
        let mut v = Vec::with_capacity(n * p);
        for j in 0..p { for r in rows { v.push(r[j]); } }
        Array2::from_shape_vec((n, p).f(), v).unwrap()
    } else {
        Array2::from_shape_vec((n, p), rows.iter().flatten().cloned().collect()).unwrap()
    }
}
fn rows<F: Fl>(a: &Array2<F>) -> Vec<Vec<F>> { a.rows().into_iter().map(|r| r.to_vec()).collect() }
fn biteq<F: Fl>(a: &[Vec<F>], b: &[Vec<F>]) -> bool {
    a.len() == b.len() && a.iter().zip(b).all(|(r, s)| r.len() == s.len() && r.iter().zip(s).all(|(x, y)| x.bits() == y.bits() || (x.is_nan() && y.is_nan())))
}
fn hash_mat<F: Fl>(x: &[Vec<F>], salt: u64) -> u64 {
    let v: Vec<f64> = x.iter().flatten().map(|f| f64::from_bits(f.bits())).collect();
    fnv_f64s(&v, salt ^ ((x.len() as u64) << 32))
}

// ---------------------------------------------------------------------------------------------
// metadata of the dataset forms
#[derive(Clone, Debug, PartialEq)]
struct Meta { targets: Vec<i64>, weights: Vec<u32>, fnames: Vec<String>, tnames: Vec<String> }
impl Meta {
    fn gen(r: &mut Sm64, n: usize, p: usize) -> (Meta, usize) {
        let nt = 1 + r.below(2) as usize;
        let targets: Vec<i64> = (0..n * nt).map(|i| (i as i64) * 7 + 3 + r.below(3) as i64 * 1000).collect();
        let weights: Vec<u32> = if r.chance(0.7) { (0..n).map(|i| (0.25f32 + i as f32 * 1.5).to_bits()).collect() } else { vec![] };
        let fnames = if r.chance(0.7) { (0..p).map(|j| format!("feat_{}", j)).collect() } else { vec![] };
        let tnames = if r.chance(0.7) { (0..nt).map(|j| format!("target_{}", j)).collect() } else { vec![] };
        (Meta { targets, weights, fnames, tnames }, nt)
    }
    fn coq(&self) -> String {
        format!(
            "{{| m_targets := ({})%Z; m_weights := ({})%Z; m_fnames := {}; m_tnames := {} |}}",
            clist(&self.targets, |t| format!("{}", t)), clist(&self.weights, |t| format!("{}", t)),
            clist(&self.fnames, |s| cstr(s)), clist(&self.tnames, |s| cstr(s))
        )
    }
    fn dataset<F: Fl>(&self, x: Array2<F>, nt: usize) -> DatasetBase<Array2<F>, Array2<i64>> {
        let n = x.nrows();
        let t = Array2::from_shape_vec((n, nt), self.targets.clone()).unwrap();
        DatasetBase::new(x, t)
            .with_weights(Array1::from(self.weights.iter().map(|b| f32::from_bits(*b)).collect::<Vec<f32>>()))
            .with_feature_names(self.fnames.clone())
            .with_target_names(self.tnames.clone())
    }
    fn of<F: Fl>(d: &DatasetBase<Array2<F>, Array2<i64>>) -> Meta {
        Meta {
            targets: d.targets().iter().cloned().collect(),
            weights: d.weights().map(|w| w.iter().map(|x| x.to_bits()).collect()).unwrap_or_default(),
            fnames: d.feature_names().to_vec(),
            tnames: d.target_names().to_vec(),
        }
    }
}

// ---------------------------------------------------------------------------------------------
// generators
#[derive(Clone, Copy, Debug, PartialEq)]
enum Meth { Std(bool, bool), MinMax(f64, f64), MaxAbs }
impl Meth {
    fn name(&self) -> String {
        match self {
            Meth::Std(a, b) => format!("standard_{}_{}", if *a { "mean" } else { "nomean" }, if *b { "std" } else { "nostd" }),
            Meth::MinMax(..) => "minmax".into(),
            Meth::MaxAbs => "maxabs".into(),
        }
    }
    fn to<F: Fl>(&self) -> ScalingMethod<F> {
        match self {
            Meth::Std(a, b) => ScalingMethod::Standard(*a, *b),
            Meth::MinMax(lo, hi) => ScalingMethod::MinMax(F::of(*lo), F::of(*hi)),
            Meth::MaxAbs => ScalingMethod::MaxAbs,
        }
    }
    fn coq<F: Fl>(&self) -> String {
        match self {
            Meth::Std(a, b) => format!("(Standard {} {})", cbool(*a), cbool(*b)),
            Meth::MinMax(lo, hi) => format!("(MinMax {} {})", sc(F::of(*lo)), sc(F::of(*hi))),
            Meth::MaxAbs => "MaxAbs".into(),
        }
    }
}
/// min-max ranges of width exactly one away from zero (exhaustive stream)
const UNIT_WIDTH: [Meth; 2] = [Meth::MinMax(-0.5, 0.5), Meth::MinMax(1.0, 2.0)];
const METHODS: [Meth; 9] = [
    Meth::Std(true, true), Meth::Std(false, true), Meth::Std(true, false), Meth::Std(false, false),
    Meth::MinMax(0.0, 1.0), Meth::MinMax(-2.0, 3.0), Meth::MinMax(5.0, 10.0), Meth::MinMax(1.5, 1.5), Meth::MaxAbs,
];

/// one column of n values; returns (values, kind name)
fn gen_col(r: &mut Sm64, n: usize, is32: bool) -> (Vec<f64>, &'static str) {
    let eps = if is32 { f32::EPSILON as f64 } else { f64::EPSILON };
    let kind = r.below(14);
    let mut v: Vec<f64> = Vec::with_capacity(n);
    let name = match kind {
        0 | 1 => {
            let s = *r.pick(&[1.0, 0.01, 100.0, 3.7]);
            let off = *r.pick(&[0.0, 5.0, -5.0, 0.3]);
            for _ in 0..n { v.push(off + s * r.gauss()); }
            "normal"
        }
        2 => {
            let (off, s) = if is32 { (1.0e4, 1.0) } else { (1.0e9, 1.0e-3) };
            let off = if r.chance(0.5) { off } else { -off };
            for _ in 0..n { v.push(off + s * r.gauss()); }
            "large_offset"
        }
        3 => {
            let s = if is32 { *r.pick(&[1.0e-3, 1.0e6]) } else { *r.pick(&[1.0e-9, 1.0e9]) };
            for _ in 0..n { v.push(s * r.gauss()); }
            "badly_scaled"
        }
        4 => {
            let c = *r.pick(&[0.1, 3.0, -7.25, 1.0e9, 1.0e-9, -0.3]);
            for _ in 0..n { v.push(c); }
            "constant"
        }
        5 => {
            for _ in 0..n { v.push(if r.chance(0.3) { -0.0 } else { 0.0 }); }
            "all_zero"
        }
        6 | 7 => {
            for _ in 0..n { v.push(r.range(-2, 2) as f64); }
            "small_int"
        }
        8 => {
            // spread below the absolute EPSILON guard (finding F14)
            let base = if r.chance(0.5) { 0.0 } else { 1.0 };
            let step = if base == 0.0 { eps * 1.0e-3 } else { eps / 2.0 };
            for _ in 0..n { v.push(base + step * r.range(-3, 3) as f64); }
            "tiny_spread"
        }
        9 => {
            // spread exactly at / just above the guard
            let k = *r.pick(&[1.0, 2.0, 4.0]);
            match r.below(3) {
                0 => { for i in 0..n { v.push(if i % 2 == 0 { 1.0 } else { 1.0 + k * eps }); } }
                1 => { for i in 0..n { v.push(if i % 2 == 0 { 0.0 } else { 2.0 * k * eps }); } }
                _ => { for i in 0..n { v.push(if i % 2 == 0 { k * eps } else { -k * eps / 2.0 }); } }
            }
            "eps_boundary"
        }
        10 => {
            // largest magnitude is negative
            for _ in 0..n { v.push(r.unit() * 2.0); }
            let i = r.below(n as u64) as usize;
            v[i] = -(3.0 + r.unit());
            "neg_maxabs"
        }
        11 => {
            let a = *r.pick(&[-1.0, 0.0, 2.5, 1.0e3]);
            let b = a + *r.pick(&[1.0, 0.5, 1.0e-6, 7.0]);
            for _ in 0..n { v.push(if r.chance(0.5) { a } else { b }); }
            "two_valued"
        }
        12 => {
            let s = *r.pick(&[1.0, 0.37]);
            for i in 0..n { v.push(s * (n - i) as f64 + 0.1 * r.unit()); }
            "decreasing"
        }
        _ => {
            let s = *r.pick(&[1.0, 0.37]);
            for i in 0..n { v.push(-3.0 + s * i as f64 + 0.1 * r.unit()); }
            "increasing"
        }
    };
    (v, name)
}

fn cast_mat<F: Fl>(cols: &[Vec<f64>], n: usize) -> Vec<Vec<F>> {
    (0..n).map(|i| cols.iter().map(|c| F::of(c[i])).collect()).collect()
}

/// decidable input class of finding F14: some column is not constant but its spread (population standard
/// deviation for the standard scaler, max - min for min-max, max |x| for max-abs) is at most EPSILON
fn spread_le_eps<F: Fl>(x: &[Vec<F>], p: usize, m: &Meth) -> bool {
    let n = x.len();
    if n == 0 { return false; }
    (0..p).any(|j| {
        let c: Vec<f64> = x.iter().map(|r| r[j].to64()).collect();
        let mx = c.iter().cloned().fold(f64::NEG_INFINITY, f64::max);
        let mn = c.iter().cloned().fold(f64::INFINITY, f64::min);
        if mx == mn && !matches!(m, Meth::MaxAbs) { return false; }
        let spread = match m {
            Meth::Std(_, ws) => {
                if !*ws { return false; }
                let mean = c.iter().sum::<f64>() / n as f64;
                (c.iter().map(|v| (v - mean) * (v - mean)).sum::<f64>() / n as f64).sqrt()
            }
            Meth::MinMax(..) => mx - mn,
            Meth::MaxAbs => c.iter().fold(0.0f64, |a, v| a.max(v.abs())),
        };
        spread > 0.0 && spread <= F::eps()
    })
}

struct Ctx { out: Out, id: u64 }

fn fit_code(e: &PreprocessingError) -> u64 {
    match e {
        PreprocessingError::NotEnoughSamples => 1,
        PreprocessingError::FlippedMinMaxRange => 2,
        _ => 3,
    }
}

/// one linear-scaler case
fn lin_case<F: Fl>(cx: &mut Ctx, r: &mut Sm64, m: Meth, colmajor: bool, x: Vec<Vec<F>>, p: usize, x2: Vec<Vec<F>>, p2: usize, stream: &str, kinds: &[&str]) {
    let id = cx.id;
    cx.id += 1;
    if !cx.out.wanted(id) { return; }
    let n = x.len();
    let (meta, nt) = Meta::gen(r, n, p);
    let xa = arr(&x, p, colmajor);
    let ds = meta.dataset(xa.clone(), nt);
    // parameter-object history: every second case builds the parameter object with ANOTHER method, fits it once on the
    // data, then sets the case's method through the documented setter; the fit that follows is the one that is judged
    let params = if id % 2 == 1 {
        let other = match m.to::<F>() { ScalingMethod::Standard(_, _) => ScalingMethod::MaxAbs, _ => ScalingMethod::Standard(true, true) };
        let p0 = LinearScalerParams::new(other);
        let _ = guarded(AssertUnwindSafe(|| p0.fit(&ds).map(|_| ())));
        p0.method(m.to::<F>())
    } else {
        LinearScalerParams::new(m.to::<F>())
    };
    let fitted = guarded(AssertUnwindSafe(|| params.fit(&ds)));
    let mut tags: Vec<String> = vec![format!("method_{}", m.name()), F::NAME.into(), stream.into()];
    if colmajor { tags.push("colmajor".into()); }
    if spread_le_eps(&x, p, &m) { tags.push("spread_le_eps".into()); }
    let desc0 = format!(
        "\"kind\": \"linear\", \"dtype\": {}, \"method\": {}, \"colmajor\": {}, \"n\": {}, \"p\": {}, \"n2\": {}, \"p2\": {}, \"columns\": {:?}, \"X\": {:?}",
        jstr(F::NAME), jstr(&format!("{:?}", m)), colmajor, n, p, x2.len(), p2, kinds,
        x.iter().take(6).map(|r| r.iter().map(|v| v.to64()).collect::<Vec<f64>>()).collect::<Vec<_>>()
    );
    let dnull = format!("{{{}}}", desc0);
    let (code, offsets, scales, y, y2, meta_out): (u64, Vec<F>, Vec<F>, Option<Vec<Vec<F>>>, Option<Vec<Vec<F>>>, Meta) = match fitted {
        Err(_) => (4, vec![], vec![], None, None, meta.clone()),
        Ok(Err(e)) => (fit_code(&e), vec![], vec![], None, None, meta.clone()),
        Ok(Ok(s)) => {
            let y = guarded(AssertUnwindSafe(|| s.transform(xa.clone()))).ok().map(|a| rows(&a));
            let x2a = arr(&x2, p2, colmajor);
            let y2 = guarded(AssertUnwindSafe(|| s.transform(x2a.clone()))).ok().map(|a| rows(&a));
            // dataset form: same records, metadata handed through
            let dsf = guarded(AssertUnwindSafe(|| s.transform(meta.dataset(xa.clone(), nt))));
            let mut meta_out = meta.clone();
            match (&dsf, &y) {
                (Ok(d), Some(yy)) => {
                    meta_out = Meta::of(d);
                    if !biteq(&rows(d.records()), yy) {
                        cx.out.rust_fail(id, 4096, &[], "dataset form of LinearScaler::transform differs from the array form", &dnull);
                    }
                }
                (Err(_), None) => {}
                _ => cx.out.rust_fail(id, 4096, &[], "dataset form and array form of LinearScaler::transform disagree on panicking", &dnull),
            }
            // fixed row-wise map: permutation, split, copies of training rows among unseen rows
            if let Some(yy) = &y {
                if n >= 2 {
                    let mut idx: Vec<usize> = (0..n).collect();
                    r.shuffle(&mut idx);
                    let k = 1 + r.below(n as u64 - 1) as usize;
                    let sel: Vec<usize> = idx[..k].to_vec();
                    let xs: Vec<Vec<F>> = sel.iter().map(|&i| x[i].clone()).collect();
                    let ys = guarded(AssertUnwindSafe(|| s.transform(arr(&xs, p, colmajor)))).ok().map(|a| rows(&a));
                    let want: Vec<Vec<F>> = sel.iter().map(|&i| yy[i].clone()).collect();
                    if ys.as_ref().map_or(true, |v| !biteq(v, &want)) {
                        cx.out.rust_fail(id, 1024, &[], "LinearScaler::transform does not commute with row selection / reordering", &dnull);
                    }
                }
            }
            // identical on unseen data: a training row presented again among the unseen rows gets the same image
            if let (Some(yy), Some(yy2)) = (&y, &y2) {
                if p2 == p {
                    for (i2, row2) in x2.iter().enumerate() {
                        if let Some(i) = x.iter().position(|row| row.iter().zip(row2).all(|(a, b)| a.bits() == b.bits())) {
                            if !biteq(&[yy[i].clone()], &[yy2[i2].clone()]) {
                                cx.out.rust_fail(id, 1024, &[], "LinearScaler::transform maps a training row differently when it is presented as unseen data", &dnull);
                                break;
                            }
                        }
                    }
                }
            }
            (0, s.offsets().to_vec(), s.scales().to_vec(), y, y2, meta_out)
        }
    };
    let desc = format!("{{{}, \"fit_code\": {}}}", desc0, code);
    let payload = format!(
        "({} {{| lc_lay := {}; lc_method := {}; lc_p := {}; lc_X := {}; lc_fit := {}; lc_offsets := {}; lc_scales := {}; lc_Y := {}; lc_X2 := {}; lc_Y2 := {} |}})",
        if F::IS32 { "Lin32" } else { "Lin64" }, if colmajor { "ColMajor" } else { "RowMajor" }, m.coq::<F>(), cn(p as u64), cmat(&x), cn(code),
        cvec(&offsets), cvec(&scales), copt(&y), cmat(&x2), copt(&y2)
    );
    let coq = format!("{{| c_id := {}; c_meta_in := {}; c_meta_out := {}; c_payload := {} |}}", cn(id), meta.coq(), meta_out.coq(), payload);
    let distinct = { let mut v: Vec<Vec<u64>> = x.iter().map(|r| r.iter().map(|f| f.bits()).collect()).collect(); v.sort(); v.dedup(); v.len() };
    let salt = fnv(format!("{:?}{}{}", m, F::NAME, colmajor).as_bytes());
    let key = if distinct >= 2 { Some(hash_mat(&x, salt)) } else { None };
    cx.out.bump(&format!("linear_{}", m.name()));
    cx.out.bump(&format!("dtype_{}", F::NAME));
    cx.out.bump(if colmajor { "layout_colmajor" } else { "layout_rowmajor" });
    cx.out.bump(&format!("fit_code_{}", code));
    cx.out.bump(&format!("n_{}", if n == 0 { "0" } else if n == 1 { "1" } else if n < 8 { "2to7" } else if n < 20 { "8to19" } else { "ge20" }));
    for k in kinds { cx.out.bump(&format!("column_{}", k)); }
    if tags.iter().any(|t| t == "spread_le_eps") { cx.out.bump("class_spread_le_eps"); }
    if y2.is_none() && code == 0 { cx.out.bump("transform_width_mismatch_panics"); }
    let tr: Vec<&str> = tags.iter().map(|s| s.as_str()).collect();
    cx.out.case(id, &coq, &tr, &desc, key);
}

fn gen_lin<F: Fl>(cx: &mut Ctx, r: &mut Sm64, maxn: usize, maxp: usize) {
    let n = match r.below(10) { 0 => 1, 1 | 2 => 2, 3 | 4 => 3, 5 | 6 => 4 + r.below(5) as usize, _ => 2 + r.below(maxn as u64 - 1) as usize };
    let p = 1 + r.below(maxp as u64) as usize;
    let mut cols = Vec::new();
    let mut kinds = Vec::new();
    for _ in 0..p { let (c, k) = gen_col(r, n, F::IS32); cols.push(c); kinds.push(k); }
    let x: Vec<Vec<F>> = cast_mat(&cols, n);
    // unseen data: fresh rows (shifted and stretched, so partly outside the training range) and copies of training rows
    let n2 = r.below(6) as usize;
    let mut x2: Vec<Vec<F>> = Vec::new();
    for _ in 0..n2 {
        if r.chance(0.3) { x2.push(x[r.below(n as u64) as usize].clone()); }
        else {
            let i = r.below(n as u64) as usize;
            let a = *r.pick(&[1.0, -1.0, 2.0, 0.5]);
            let b = *r.pick(&[0.0, 1.0, -3.0]);
            x2.push(x[i].iter().map(|v| F::of(a * v.to64() + b)).collect());
        }
    }
    let mut p2 = p;
    if r.chance(0.04) && n2 > 0 {
        // malformed: unseen data of another width -> the transform must panic (as documented)
        p2 = if p > 1 && r.chance(0.5) { p - 1 } else { p + 1 };
        for row in x2.iter_mut() { row.resize(p2, F::of(1.0)); }
    }
    let m = match r.below(14) {
        0..=8 => METHODS[r.below(9) as usize],
        9 => Meth::MinMax(-1.0e3, 1.0e-3),
        10 => Meth::MinMax(3.0, -1.0),   // flipped range: rejected
        11 => Meth::MinMax(-0.0, 0.0),
        // ranges of width exactly one that do not start at zero (the shift must not depend on the width)
        12 => *r.pick(&[Meth::MinMax(-0.5, 0.5), Meth::MinMax(1.0, 2.0), Meth::MinMax(5.0, 6.0), Meth::MinMax(-1.0, 0.0)]),
        _ => *r.pick(&[Meth::MinMax(-3.0, -3.0), Meth::MinMax(0.25, 1.25), Meth::MinMax(-1.0e6, 1.0e6)]),
    };
    let colmajor = r.chance(0.3);
    lin_case::<F>(cx, r, m, colmajor, x, p, x2, p2, "structured", &kinds);
}

// ---------------------------------------------------------------------------------------------
/// one row at an extreme magnitude of the float type F (all entries finite in F); returns (row, family name).
/// Every value is built in f64 from the constants of F (smallest subnormal s, smallest normal m, largest finite M)
/// and cast: the f64 -> f32 cast is correctly rounded, also into the subnormal range, and never exceeds M.
fn ext_row<F: Fl>(r: &mut Sm64, p: usize) -> (Vec<f64>, &'static str) {
    let (s, m, big) = (F::min_sub(), F::min_norm(), F::max_fin());
    let sign = |r: &mut Sm64| if r.chance(0.5) { -1.0 } else { 1.0 };
    // a subnormal number k * 2^j * s, roughly log-uniform over the subnormal range
    let subn = |r: &mut Sm64| -> f64 {
        let j = r.below((F::mant() - 19) as u64) as i32;
        let k = 1 + r.below(1 << 20) as i64;
        (k as f64) * (2.0f64).powi(j) * s
    };
    let kind = r.below(12);
    let mut v: Vec<f64> = vec![0.0; p];
    let name = match kind {
        0 | 1 => {
            // every entry subnormal or zero, at least one non-zero
            for e in v.iter_mut() { *e = if r.chance(0.25) { if r.chance(0.3) { -0.0 } else { 0.0 } } else { sign(r) * subn(r) }; }
            let j = r.below(p as u64) as usize;
            if v[j] == 0.0 { v[j] = sign(r) * subn(r); }
            "subnormal_entries"
        }
        2 | 3 => {
            // one subnormal entry and zeros; the values around 1/M = m/4 are where a reciprocal starts to overflow
            let j = r.below(p as u64) as usize;
            for e in v.iter_mut() { *e = if r.chance(0.3) { -0.0 } else { 0.0 }; }
            let c = match r.below(10) {
                0 => s, 1 => 2.0 * s, 2 => 3.0 * s, 3 => m - s, 4 => m / 4.0, 5 => m / 4.0 - s, 6 => m / 4.0 + s, 7 => m / 2.0,
                _ => subn(r),
            };
            v[j] = sign(r) * c;
            "one_subnormal_and_zeros"
        }
        4 => {
            // around the smallest normal number: subnormal and small normal entries, l1 norm crosses the border
            for e in v.iter_mut() { *e = sign(r) * m * (0.25 + 3.75 * r.unit()); }
            "near_min_normal"
        }
        5 => {
            // subnormal entries whose sum is normal
            for e in v.iter_mut() { *e = sign(r) * m * (0.5 + 0.4999 * r.unit()); }
            "subnormal_entries_normal_l1"
        }
        6 => {
            // near the largest finite number (l1 / l2 norms overflow for p >= 2; the max norm does not)
            for e in v.iter_mut() { *e = sign(r) * big * (0.05 + 0.95 * r.unit()); }
            if r.chance(0.4) { let j = r.below(p as u64) as usize; v[j] = sign(r) * big; }
            "near_max"
        }
        7 => {
            // l1 norm next to the overflow border: entries about M / p
            let c = *r.pick(&[0.9, 0.99, 0.999999, 1.0, 1.01]);
            for e in v.iter_mut() { *e = sign(r) * (big / p as f64) * c * (1.0 - 1.0e-3 * r.unit()); }
            "l1_near_overflow"
        }
        8 => {
            // squares next to the underflow border: entries about sqrt(m) * 2^j
            let j = r.range(-8, 8) as i32;
            for e in v.iter_mut() { *e = sign(r) * m.sqrt() * (2.0f64).powi(j) * (0.5 + r.unit()); }
            "squares_near_underflow"
        }
        9 => {
            // squares next to the overflow border: entries about sqrt(M) * 2^j
            let j = r.range(-8, 8) as i32;
            for e in v.iter_mut() { *e = sign(r) * big.sqrt() * (2.0f64).powi(j) * (0.5 + r.unit()) / 2.0; }
            "squares_near_overflow"
        }
        10 => {
            // mixed magnitudes in one row: huge or ordinary entries beside subnormal ones and zeros
            let top = *r.pick(&[big, big / 3.0, 1.0, -2.5, 1.0e-9]);
            for e in v.iter_mut() { *e = match r.below(3) { 0 => 0.0, 1 => sign(r) * subn(r), _ => top * (0.5 + 0.5 * r.unit()) }; }
            let j = r.below(p as u64) as usize;
            v[j] = top;
            "mixed_magnitudes"
        }
        _ => {
            // the border values themselves
            for e in v.iter_mut() { *e = sign(r) * *r.pick(&[s, m, m - s, m + m * F::eps(), big, big / 2.0, m / 4.0, 0.0, 1.0]); }
            if v.iter().all(|e| *e == 0.0) { v[0] = s; }
            "border_values"
        }
    };
    // guard: stay finite in F (the cast of a value above M would give inf)
    for e in v.iter_mut() { if e.abs() > big { *e = e.signum() * big; } }
    (v, name)
}

/// one norm-scaler case; `ext`: most rows are drawn at extreme magnitudes (subnormal entries, the borders of the
/// normal range, one subnormal entry beside zeros, mixed magnitudes)
fn norm_case<F: Fl>(cx: &mut Ctx, r: &mut Sm64, maxn: usize, ext: bool) {
    let id = cx.id;
    cx.id += 1;
    if !cx.out.wanted(id) { return; }
    let n = if r.chance(0.03) { 0 } else { 1 + r.below(maxn as u64) as usize };
    let p = 1 + r.below(6) as usize;
    let which = r.below(3);
    let (scaler, kname) = match which { 0 => (NormScaler::l1(), "NL1"), 1 => (NormScaler::l2(), "NL2"), _ => (NormScaler::max(), "NMax") };
    let mut x: Vec<Vec<F>> = Vec::new();
    let mut nzero = 0;
    let mut families: Vec<&'static str> = Vec::new();
    for _ in 0..n {
        if ext && r.chance(0.8) {
            let (row, fam) = ext_row::<F>(r, p);
            families.push(fam);
            x.push(row.iter().map(|v| F::of(*v)).collect());
            continue;
        }
        let kind = r.below(8);
        let row: Vec<f64> = match kind {
            0 => { nzero += 1; (0..p).map(|_| if r.chance(0.3) { -0.0 } else { 0.0 }).collect() }
            1 => { let j = r.below(p as u64) as usize; (0..p).map(|k| if k == j { *r.pick(&[-2.5, 1.0, 1.0e-9, -1.0e9, 3.0]) } else { 0.0 }).collect() }
            2 => (0..p).map(|_| r.range(-3, 3) as f64).collect(),
            3 => { let s = *r.pick(&[1.0e-9, 1.0e9, 1.0e-4, 1.0e5]); (0..p).map(|_| s * r.gauss()).collect() }
            4 => { let a = r.gauss(); (0..p).map(|k| if k % 2 == 0 { a } else { -a }).collect() }
            _ => (0..p).map(|_| r.gauss() * 2.0 + 0.5).collect(),
        };
        let row: Vec<F> = row.iter().map(|v| F::of(*v)).collect();
        if kind == 2 && row.iter().all(|v| v.to64() == 0.0) { nzero += 1; }
        x.push(row);
    }
    let colmajor = r.chance(0.25);
    let xa = arr(&x, p, colmajor);
    let (meta, nt) = Meta::gen(r, n, p);
    let y = guarded(AssertUnwindSafe(|| scaler.transform(xa.clone()))).ok().map(|a| rows(&a));
    let dsf = guarded(AssertUnwindSafe(|| scaler.transform(meta.dataset(xa.clone(), nt))));
    let mut meta_out = meta.clone();
    let mut tags = vec![format!("norm_{}", kname), F::NAME.to_string()];
    if ext { tags.push("norm_extreme".into()); }
    // decidable input classes (max |x| of a row is exact in every float type; the widening to f64 is exact)
    let rmax: Vec<f64> = x.iter().map(|row| row.iter().fold(0.0f64, |a, v| a.max(v.to64().abs()))).collect();
    // some non-zero row has max |x| below the smallest normal number (its max norm is subnormal)
    let sub_max = rmax.iter().any(|&m| m > 0.0 && m < F::min_norm());
    // some non-zero row has max |x| outside the range in which squares neither underflow nor overflow for p <= 6:
    // f64 2^-507 .. 2^510, f32 2^-59 .. 2^62 (superset of the rows oracle bit 8192 can speak about)
    let (lo2, hi2) = if F::IS32 { ((2.0f64).powi(-59), (2.0f64).powi(62)) } else { ((2.0f64).powi(-507), (2.0f64).powi(510)) };
    let sq_out = rmax.iter().any(|&m| m > 0.0 && (m < lo2 || m > hi2));
    // the l1 / max norm as the code computes it is non-zero and at most min_normal / 4 (2^-1024 resp. 2^-128): its reciprocal overflows
    let recip_overflow = which != 1 && x.iter().any(|row| {
        let nm = if which == 0 { row.iter().fold(F::zero(), |a, v| a + v.abs()) } else { row.iter().fold(F::zero(), |a, v| v.abs().max(a)) };
        nm > F::zero() && nm.to64() <= F::min_norm() / 4.0
    });
    if sub_max { tags.push("row_max_subnormal".into()); }
    if sq_out { tags.push("row_max_outside_square_range".into()); }
    if recip_overflow { tags.push("norm_below_reciprocal_of_max".into()); }
    let tr: Vec<&str> = tags.iter().map(|s| s.as_str()).collect();
    let desc = format!(
        "{{\"kind\": \"norm\", \"dtype\": {}, \"norm\": {}, \"n\": {}, \"p\": {}, \"zero_rows\": {}, \"extreme\": {}, \"row_families\": {:?}, \"X\": {:?}}}",
        jstr(F::NAME), jstr(kname), n, p, nzero, ext, families, x.iter().take(6).map(|r| r.iter().map(|v| v.to64()).collect::<Vec<f64>>()).collect::<Vec<_>>()
    );
    cx.out.bump(&format!("norm_{}", kname));
    cx.out.bump(&format!("dtype_{}", F::NAME));
    if nzero > 0 { cx.out.bump("norm_has_zero_row"); }
    if ext { cx.out.bump("norm_extreme_case"); }
    for f in &families { cx.out.bump(&format!("norm_row_{}", f)); }
    if sub_max { cx.out.bump("class_row_max_subnormal"); }
    if sq_out { cx.out.bump("class_row_max_outside_square_range"); }
    if recip_overflow { cx.out.bump("class_norm_below_reciprocal_of_max"); }
    let yy = match y {
        None => { cx.out.rust_fail(id, 2048, &tr, "NormScaler::transform panicked on a finite matrix", &desc); cx.out.rust_eval(&desc, None); return; }
        Some(v) => v,
    };
    match &dsf {
        Ok(d) => {
            meta_out = Meta::of(d);
            if !biteq(&rows(d.records()), &yy) { cx.out.rust_fail(id, 4096, &tr, "dataset form of NormScaler::transform differs from the array form", &desc); }
        }
        Err(_) => cx.out.rust_fail(id, 4096, &tr, "dataset form of NormScaler::transform panicked", &desc),
    }
    if n >= 2 {
        let mut idx: Vec<usize> = (0..n).collect();
        r.shuffle(&mut idx);
        let k = 1 + r.below(n as u64 - 1) as usize;
        let xs: Vec<Vec<F>> = idx[..k].iter().map(|&i| x[i].clone()).collect();
        let ys = guarded(AssertUnwindSafe(|| scaler.transform(arr(&xs, p, colmajor)))).ok().map(|a| rows(&a));
        let want: Vec<Vec<F>> = idx[..k].iter().map(|&i| yy[i].clone()).collect();
        if ys.as_ref().map_or(true, |v| !biteq(v, &want)) {
            cx.out.rust_fail(id, 1024, &tr, "NormScaler::transform does not commute with row selection / reordering", &desc);
        }
    }
    let coq = format!(
        "{{| c_id := {}; c_meta_in := {}; c_meta_out := {}; c_payload := ({} {} {} {}) |}}",
        cn(id), meta.coq(), meta_out.coq(), if F::IS32 { "Norm32" } else { "Norm64" }, kname, cmat(&x), cmat(&yy)
    );
    let key = if n >= 2 && x.iter().any(|r| r.iter().any(|v| v.to64() != 0.0)) { Some(hash_mat(&x, which + 77)) } else { None };
    cx.out.case(id, &coq, &tr, &desc, key);
}

// ---------------------------------------------------------------------------------------------
fn whiten_case(cx: &mut Ctx, r: &mut Sm64, maxp: usize) {
    let id = cx.id;
    cx.id += 1;
    if !cx.out.wanted(id) { return; }
    let p = 1 + r.below(maxp as u64) as usize;
    let n = p + 2 + r.below(10) as usize;
    // full-rank, moderately conditioned data: gaussian scores mixed by D (I + R/2p), plus offsets
    let d: Vec<f64> = (0..p).map(|_| *r.pick(&[0.125, 0.5, 1.0, 2.0, 8.0])).collect();
    let mix: Vec<Vec<f64>> = (0..p).map(|i| (0..p).map(|j| (if i == j { 1.0 } else { 0.0 }) + (r.unit() - 0.5) / p as f64).collect()).collect();
    let off: Vec<f64> = (0..p).map(|_| *r.pick(&[0.0, 3.0, -50.0, 100.0])).collect();
    let gen_rows = |r: &mut Sm64, n: usize| -> Vec<Vec<f64>> {
        (0..n).map(|_| {
            let g: Vec<f64> = (0..p).map(|_| r.gauss()).collect();
            (0..p).map(|j| off[j] + d[j] * (0..p).map(|k| g[k] * mix[k][j]).sum::<f64>()).collect()
        }).collect()
    };
    let x = gen_rows(r, n);
    let n2 = 1 + r.below(4) as usize;
    let mut x2 = gen_rows(r, n2);
    x2.push(x[r.below(n as u64) as usize].clone());
    let which = r.below(3);
    let (w, wname) = match which { 0 => (Whitener::pca(), "pca"), 1 => (Whitener::zca(), "zca"), _ => (Whitener::cholesky(), "cholesky") };
    let colmajor = r.chance(0.2);
    let xa = arr(&x, p, colmajor);
    let (meta, nt) = Meta::gen(r, n, p);
    let ds = meta.dataset(xa.clone(), nt);
    let tags = vec![format!("whiten_{}", wname)];
    let tr: Vec<&str> = tags.iter().map(|s| s.as_str()).collect();
    let desc = format!("{{\"kind\": \"whiten\", \"method\": {}, \"n\": {}, \"p\": {}, \"colmajor\": {}, \"X\": {:?}}}", jstr(wname), n, p, colmajor, x);
    cx.out.bump(&format!("whiten_{}", wname));
    cx.out.bump(&format!("whiten_p_{}", p));
    let fitted = match guarded(AssertUnwindSafe(|| w.fit(&ds))) {
        Ok(Ok(f)) => f,
        Ok(Err(e)) => { cx.out.rust_fail(id, 2048, &tr, &format!("Whitener::fit rejected full-rank data: {}", e), &desc); cx.out.rust_eval(&desc, None); return; }
        Err(e) => { cx.out.rust_fail(id, 2048, &tr, &format!("Whitener::fit panicked on full-rank data: {}", e), &desc); cx.out.rust_eval(&desc, None); return; }
    };
    let y = rows(&fitted.transform(xa.clone()));
    let y2 = rows(&fitted.transform(arr(&x2, p, false)));
    let mut meta_out = meta.clone();
    match guarded(AssertUnwindSafe(|| fitted.transform(meta.dataset(xa.clone(), nt)))) {
        Ok(dd) => {
            meta_out = Meta::of(&dd);
            if !biteq(&rows(dd.records()), &y) { cx.out.rust_fail(id, 4096, &tr, "dataset form of FittedWhitener::transform differs from the array form", &desc); }
        }
        Err(_) => cx.out.rust_fail(id, 4096, &tr, "dataset form of FittedWhitener::transform panicked", &desc),
    }
    // the copied training row must map to the same image (up to the product kernel's rounding: 4 ulps of the largest image)
    let src = x.iter().position(|row| row == x2.last().unwrap()).unwrap();
    let ymax = y.iter().flatten().fold(0.0f64, |a, v| a.max(v.abs()));
    if !y2.last().unwrap().iter().zip(&y[src]).all(|(a, b)| (a - b).abs() <= 1e-12 * (1.0 + ymax)) {
        cx.out.rust_fail(id, 1024, &tr, "FittedWhitener::transform maps a training row differently when it is presented as unseen data", &desc);
    }
    // measured deviation of the sample covariance from the identity (binary log, for the evidence)
    let mut dev = 0.0f64;
    for k in 0..p { for l in 0..p {
        let mk = y.iter().map(|r| r[k]).sum::<f64>() / n as f64;
        let ml = y.iter().map(|r| r[l]).sum::<f64>() / n as f64;
        let c = y.iter().map(|r| (r[k] - mk) * (r[l] - ml)).sum::<f64>() / (n as f64 - 1.0);
        dev = dev.max((c - if k == l { 1.0 } else { 0.0 }).abs());
    } }
    cx.out.bump(&format!("whiten_cov_dev_log2_{}", if dev == 0.0 { -99 } else { dev.log2().ceil() as i64 }));
    let delta = (2.0f64).powi(-20);
    let coq = format!(
        "{{| c_id := {}; c_meta_in := {}; c_meta_out := {}; c_payload := Whiten {{| wc_lay := {}; wc_p := {}; wc_X := {}; wc_mean := {}; wc_W := {}; wc_Y := {}; wc_X2 := {}; wc_Y2 := {}; wc_delta := {} |}} |}}",
        cn(id), meta.coq(), meta_out.coq(), if colmajor { "ColMajor" } else { "RowMajor" }, cn(p as u64), cmat64(&x), cvec64(&fitted.mean().to_vec()), cmat64(&rows(&fitted.transformation_matrix().to_owned())),
        cmat64(&y), cmat64(&x2), cmat64(&y2), sf64(delta)
    );
    cx.out.case(id, &coq, &tr, &desc, Some(fnv_f64s(&x.concat(), which + 900)));
}

// ---------------------------------------------------------------------------------------------
fn fma_selftest(cx: &mut Ctx, r: &mut Sm64) {
    let empty = "{| m_targets := []; m_weights := []; m_fnames := []; m_tnames := [] |}";
    let mut t64 = Vec::new();
    let mut t32 = Vec::new();
    for i in 0..300 {
        let e = |r: &mut Sm64| (2.0f64).powi(r.range(-40, 40) as i32);
        let a = r.gauss() * e(r);
        let b = r.gauss() * e(r);
        let c = match i % 4 { 0 => -(a * b), 1 => r.gauss() * e(r), 2 => -(a * b) * (1.0 + f64::EPSILON), _ => 0.0 };
        t64.push(format!("({}, {}, {}, {})", cf64(a), cf64(b), cf64(c), cf64(a.mul_add(b, c))));
        let (a, b, c) = (a as f32, b as f32, match i % 4 { 0 => -((a as f32) * (b as f32)), 2 => -((a as f32) * (b as f32)) * (1.0 + f32::EPSILON), _ => c as f32 });
        t32.push(format!("({}, {}, {}, {})", a.to_bits(), b.to_bits(), c.to_bits(), a.mul_add(b, c).to_bits()));
    }
    // subnormal / overflow corners
    for &(a, b, c) in &[(1e-200f64, 1e-200f64, 0.0f64), (1e-200, 1e-200, 5e-324), (1e200, 1e200, -1e300), (-1e-160, 1e-160, 0.0), (3.0, 0.0, -0.0), (1e308, 10.0, -1e308)] {
        t64.push(format!("({}, {}, {}, {})", cf64(a), cf64(b), cf64(c), cf64(a.mul_add(b, c))));
    }
    for (name, ctor, body, scope) in [("f64", "Fma64", t64.join("; "), "float"), ("f32", "Fma32", t32.join("; "), "Z")] {
        let id = cx.id;
        cx.id += 1;
        let coq = format!("{{| c_id := {}; c_meta_in := {}; c_meta_out := {}; c_payload := {} ([{}])%{} |}}", cn(id), empty, empty, ctor, body, scope);
        cx.out.bump("fma_selftest");
        cx.out.case(id, &coq, &["fma_selftest", name], &format!("{{\"kind\": \"fma_selftest\", \"dtype\": {}}}", jstr(name)), None);
    }
}

/// empty training data must be rejected by the whitener as well (Rust-side oracle)
fn whiten_empty(cx: &mut Ctx, p: usize) {
    let id = cx.id;
    cx.id += 1;
    if !cx.out.wanted(id) { return; }
    let desc = format!("{{\"kind\": \"whiten_empty\", \"p\": {}}}", p);
    cx.out.bump("whiten_empty_training_data");
    for (w, name) in [(Whitener::pca(), "pca"), (Whitener::zca(), "zca"), (Whitener::cholesky(), "cholesky")] {
        let ds = DatasetBase::new(Array2::<f64>::zeros((0, p)), Array2::<i64>::zeros((0, 1)));
        let ok = matches!(guarded(AssertUnwindSafe(|| w.fit(&ds))), Ok(Err(PreprocessingError::NotEnoughSamples)));
        if !ok { cx.out.rust_fail(id, 2048, &["whiten_empty"], &format!("Whitener::{} did not reject empty training data with NotEnoughSamples", name), &desc); }
    }
    cx.out.rust_eval(&desc, None);
}

// ---------------------------------------------------------------------------------------------
// round 5: histories (state between calls) and the row order of the fitting data - Rust-side oracle bit 16384
const HIST: u64 = 16384;
fn opt_biteq<F: Fl>(a: &Option<Vec<Vec<F>>>, b: &Option<Vec<Vec<F>>>) -> bool {
    match (a, b) { (Some(x), Some(y)) => biteq(x, y), (None, None) => true, _ => false }
}
type Tr<'a, F> = &'a dyn Fn(&[Vec<F>], bool) -> Option<Vec<Vec<F>>>;
/// `used` is applied to B1 and then to B2; `fresh` is a clone taken before any use. B2 must come out bit for bit as
/// from the clone, as row by row, and as from the row-permuted B2 (permuted back); a repetition changes nothing.
fn history_check<F: Fl>(r: &mut Sm64, used: Tr<F>, fresh: Tr<F>, b1: &[Vec<F>], b2: &[Vec<F>]) -> Option<String> {
    let (lay1, lay2) = (r.chance(0.3), r.chance(0.3));
    let _ = used(b1, lay1);
    let y2 = used(b2, lay2);
    if !opt_biteq(&y2, &fresh(b2, lay2)) { return Some("image of B2 after B1 differs from that of a clone that never saw B1".into()); }
    let y2 = match y2 { Some(v) => v, None => return Some("transform panicked on B2".into()) };
    if y2.len() != b2.len() { return Some("image of B2 has another number of rows".into()); }
    for (i, row) in b2.iter().enumerate() {
        let yi = used(&[row.clone()], false);
        if yi.as_ref().map_or(true, |v| !biteq(v, &[y2[i].clone()])) {
            return Some(format!("row {} of B2 applied alone differs from its image inside the batch", i));
        }
    }
    if b2.len() >= 2 {
        let mut idx: Vec<usize> = (0..b2.len()).collect();
        r.shuffle(&mut idx);
        let xs: Vec<Vec<F>> = idx.iter().map(|&i| b2[i].clone()).collect();
        match used(&xs, r.chance(0.3)) {
            Some(yp) if yp.len() == xs.len() => {
                let mut back = y2.clone();
                for (k, &i) in idx.iter().enumerate() { back[i] = yp[k].clone(); }
                if !biteq(&back, &y2) { return Some("image of the row-permuted B2 (permuted back) differs from the image of B2".into()); }
            }
            _ => return Some("transform panicked on the row-permuted B2".into()),
        }
    }
    if !opt_biteq(&used(b2, lay2), &Some(y2)) { return Some("second application to B2 differs from the first".into()); }
    None
}
/// two batches derived from the rows of x: copies, affine images (partly outside the training range), sign flips
fn hist_batches<F: Fl>(r: &mut Sm64, x: &[Vec<F>]) -> (Vec<Vec<F>>, Vec<Vec<F>>) {
    let mut mk = |r: &mut Sm64, k: usize| -> Vec<Vec<F>> {
        (0..k).map(|_| {
            let row = &x[r.below(x.len() as u64) as usize];
            if r.chance(0.3) { row.clone() } else {
                let a = *r.pick(&[1.0, -1.0, 2.0, 0.5, 1.0e3]);
                let b = *r.pick(&[0.0, 1.0, -3.0]);
                row.iter().map(|v| F::of(a * v.to64() + b)).collect()
            }
        }).collect()
    };
    let k1 = 1 + r.below(6) as usize;
    let k2 = 1 + r.below(6) as usize;
    (mk(r, k1), mk(r, k2))
}
/// parameters of two standard-scaler fits on the same rows in another order: equal up to the summation order
fn std_params_close<F: Fl>(x: &[Vec<F>], p: usize, with_std: bool, o1: &[F], s1: &[F], o2: &[F], s2: &[F]) -> bool {
    if o1.len() != p || o2.len() != p || s1.len() != p || s2.len() != p { return false; }
    let n = x.len() as f64;
    let u = F::eps() / 2.0;
    (0..p).all(|j| {
        let c: Vec<f64> = x.iter().map(|r| r[j].to64()).collect();
        let maxabs = c.iter().fold(0.0f64, |a, v| a.max(v.abs()));
        let mean = c.iter().sum::<f64>() / n;
        let sd = (c.iter().map(|v| (v - mean) * (v - mean)).sum::<f64>() / n).sqrt();
        if (o1[j].to64() - o2[j].to64()).abs() > 8.0 * n * u * maxabs + F::min_sub() { return false; }
        if !with_std { return s1[j].bits() == s2[j].bits(); }
        if !(sd.is_finite() && sd > 4.0 * F::eps()) { return true; }   // at the guard the two orders may legitimately fall on different sides
        (s1[j].to64() - s2[j].to64()).abs() <= 64.0 * n * u * (1.0 + maxabs / sd) * s1[j].to64().abs()
    })
}
/// one history / row-order case of a linear scaler: fit on x, history on two batches, refit on every permutation in `perms`
fn hist_lin_case<F: Fl>(cx: &mut Ctx, r: &mut Sm64, m: Meth, x: Vec<Vec<F>>, p: usize, perms: &[Vec<usize>], stream: &str) {
    let id = cx.id;
    cx.id += 1;
    if !cx.out.wanted(id) { return; }
    let n = x.len();
    let colmajor = r.chance(0.3);
    let tags: Vec<String> = vec![format!("method_{}", m.name()), F::NAME.into(), stream.into(), "history".into()];
    let tr: Vec<&str> = tags.iter().map(|s| s.as_str()).collect();
    let desc = format!(
        "{{\"kind\": \"history_linear\", \"dtype\": {}, \"method\": {}, \"colmajor\": {}, \"n\": {}, \"p\": {}, \"permutations\": {:?}, \"X\": {:?}}}",
        jstr(F::NAME), jstr(&format!("{:?}", m)), colmajor, n, p, perms.iter().take(8).collect::<Vec<_>>(),
        x.iter().take(8).map(|r| r.iter().map(|v| v.to64()).collect::<Vec<f64>>()).collect::<Vec<_>>()
    );
    cx.out.bump(&format!("history_linear_{}", m.name()));
    cx.out.bump(&format!("history_{}", stream));
    let fit = |rows_: &[Vec<F>], cm: bool| -> Option<LinearScaler<F>> {
        let ds = DatasetBase::new(arr(rows_, p, cm), Array2::<i64>::zeros((rows_.len(), 1)));
        match guarded(AssertUnwindSafe(|| LinearScalerParams::new(m.to::<F>()).fit(&ds))) { Ok(Ok(s)) => Some(s), _ => None }
    };
    let s = match fit(&x, colmajor) {
        Some(s) => s,
        None => { cx.out.rust_fail(id, 2048, &tr, "LinearScalerParams::fit rejected valid data or panicked", &desc); cx.out.rust_eval(&desc, None); return; }
    };
    let fresh = s.clone();
    let (b1, b2) = hist_batches(r, &x);
    let used_f = |b: &[Vec<F>], cm: bool| guarded(AssertUnwindSafe(|| s.transform(arr(b, p, cm)))).ok().map(|a| rows(&a));
    let fresh_f = |b: &[Vec<F>], cm: bool| guarded(AssertUnwindSafe(|| fresh.transform(arr(b, p, cm)))).ok().map(|a| rows(&a));
    if let Some(w) = history_check::<F>(r, &used_f, &fresh_f, &b1, &b2) {
        cx.out.rust_fail(id, HIST, &tr, &format!("LinearScaler history: {}", w), &desc);
    }
    // the parameters did not change through use
    if !biteq(&[s.offsets().to_vec(), s.scales().to_vec()], &[fresh.offsets().to_vec(), fresh.scales().to_vec()]) {
        cx.out.rust_fail(id, HIST, &tr, "LinearScaler: offsets / scales changed through transform calls", &desc);
    }
    // row order of the fitting data
    let numeq = |a: &[F], b: &[F]| a.len() == b.len() && a.iter().zip(b).all(|(x, y)| x.to64() == y.to64());
    for perm in perms {
        let xp: Vec<Vec<F>> = perm.iter().map(|&i| x[i].clone()).collect();
        let cm = r.chance(0.3);
        let ok = match fit(&xp, cm) {
            None => false,
            Some(sp) => match m {
                Meth::Std(_, ws) => std_params_close(&x, p, ws, s.offsets().as_slice().unwrap(), s.scales().as_slice().unwrap(), sp.offsets().as_slice().unwrap(), sp.scales().as_slice().unwrap()),
                // order-free minima / maxima: offsets as numbers (a zero offset carries the sign of the last zero), scales bit for bit
                _ => numeq(s.offsets().as_slice().unwrap(), sp.offsets().as_slice().unwrap()) && biteq(&[s.scales().to_vec()], &[sp.scales().to_vec()]),
            },
        };
        if !ok {
            cx.out.rust_fail(id, HIST, &tr, &format!("fitted parameters depend on the order of the training rows (permutation {:?})", perm), &desc);
            break;
        }
    }
    cx.out.bump_by("history_refits_on_permuted_rows", perms.len() as u64);
    let salt = fnv(format!("hist{:?}{}{}", m, F::NAME, colmajor).as_bytes());
    cx.out.rust_eval(&desc, if n >= 2 { Some(hash_mat(&x, salt)) } else { None });
}
/// all rotations, the reversal and two random shuffles: every row visits every position
fn hist_perms(r: &mut Sm64, n: usize, all_rotations: bool) -> Vec<Vec<usize>> {
    let mut v: Vec<Vec<usize>> = Vec::new();
    if n < 2 { return v; }
    let rots: Vec<usize> = if all_rotations { (1..n).collect() } else { vec![1, n - 1] };
    for k in rots { v.push((0..n).map(|i| (i + k) % n).collect()); }
    v.push((0..n).rev().collect());
    for _ in 0..2 { let mut idx: Vec<usize> = (0..n).collect(); r.shuffle(&mut idx); v.push(idx); }
    v
}
/// the extreme value of a column is negative (column 0: largest magnitude and minimum), positive (column 1), tied
/// (column 2) and sits at row `pos`; with all rotations it visits every row position incl. first and last
fn hist_extreme<F: Fl>(cx: &mut Ctx, r: &mut Sm64, n: usize, pos: usize, m: Meth) {
    let mut x: Vec<Vec<f64>> = (0..n).map(|_| vec![r.unit() * 2.0, -r.unit() * 2.0, r.range(-2, 2) as f64]).collect();
    x[pos][0] = -(3.0 + r.unit());
    x[pos][1] = 3.0 + r.unit();
    x[pos][2] = -4.0;
    if n >= 3 && r.chance(0.5) { x[(pos + 1) % n][2] = -4.0; }
    let xf: Vec<Vec<F>> = x.iter().map(|row| row.iter().map(|v| F::of(*v)).collect()).collect();
    let perms = hist_perms(r, n, true);
    hist_lin_case::<F>(cx, r, m, xf, 3, &perms, "history_negative_extreme_every_position");
}
fn hist_lin_random<F: Fl>(cx: &mut Ctx, r: &mut Sm64, maxn: usize) {
    let n = 2 + r.below(maxn as u64 - 1) as usize;
    let p = 1 + r.below(4) as usize;
    let mut cols = Vec::new();
    for _ in 0..p { cols.push(gen_col(r, n, F::IS32).0); }
    let x: Vec<Vec<F>> = cast_mat(&cols, n);
    let m = match r.below(4) { 0 => Meth::MaxAbs, 1 => *r.pick(&[Meth::MinMax(0.0, 1.0), Meth::MinMax(-2.0, 3.0), Meth::MinMax(1.0, 2.0)]), _ => METHODS[r.below(9) as usize] };
    let perms = hist_perms(r, n, n <= 6);
    hist_lin_case::<F>(cx, r, m, x, p, &perms, "history_structured");
}
fn hist_norm_case<F: Fl>(cx: &mut Ctx, r: &mut Sm64) {
    let id = cx.id;
    cx.id += 1;
    if !cx.out.wanted(id) { return; }
    let p = 1 + r.below(5) as usize;
    let which = r.below(3);
    let (scaler, kname) = match which { 0 => (NormScaler::l1(), "NL1"), 1 => (NormScaler::l2(), "NL2"), _ => (NormScaler::max(), "NMax") };
    let mut mk = |r: &mut Sm64| -> Vec<Vec<F>> {
        let k = 1 + r.below(6) as usize;
        (0..k).map(|_| {
            let row: Vec<f64> = match r.below(5) {
                0 => (0..p).map(|_| if r.chance(0.3) { -0.0 } else { 0.0 }).collect(),
                1 => ext_row::<F>(r, p).0,
                2 => (0..p).map(|_| r.range(-3, 3) as f64).collect(),
                _ => { let s = *r.pick(&[1.0, 1.0e-9, 1.0e9]); (0..p).map(|_| s * r.gauss()).collect() }
            };
            row.iter().map(|v| F::of(*v)).collect()
        }).collect()
    };
    let (b1, b2) = (mk(r), mk(r));
    let fresh = scaler.clone();
    let tags = vec![format!("norm_{}", kname), F::NAME.to_string(), "history".to_string()];
    let tr: Vec<&str> = tags.iter().map(|s| s.as_str()).collect();
    let desc = format!("{{\"kind\": \"history_norm\", \"dtype\": {}, \"norm\": {}, \"p\": {}, \"B1\": {:?}, \"B2\": {:?}}}", jstr(F::NAME), jstr(kname), p,
        b1.iter().map(|r| r.iter().map(|v| v.to64()).collect::<Vec<f64>>()).collect::<Vec<_>>(), b2.iter().map(|r| r.iter().map(|v| v.to64()).collect::<Vec<f64>>()).collect::<Vec<_>>());
    cx.out.bump(&format!("history_norm_{}", kname));
    let used_f = |b: &[Vec<F>], cm: bool| guarded(AssertUnwindSafe(|| scaler.transform(arr(b, p, cm)))).ok().map(|a| rows(&a));
    let fresh_f = |b: &[Vec<F>], cm: bool| guarded(AssertUnwindSafe(|| fresh.transform(arr(b, p, cm)))).ok().map(|a| rows(&a));
    if let Some(w) = history_check::<F>(r, &used_f, &fresh_f, &b1, &b2) {
        cx.out.rust_fail(id, HIST, &tr, &format!("NormScaler history: {}", w), &desc);
    }
    cx.out.rust_eval(&desc, Some(hash_mat(&b2, which + 4100)));
}
fn hist_whiten_case(cx: &mut Ctx, r: &mut Sm64) {
    let id = cx.id;
    cx.id += 1;
    if !cx.out.wanted(id) { return; }
    let p = 1 + r.below(3) as usize;
    let n = p + 2 + r.below(8) as usize;
    let sc_: Vec<f64> = (0..p).map(|_| *r.pick(&[0.5, 1.0, 2.0, 8.0])).collect();
    let off: Vec<f64> = (0..p).map(|_| *r.pick(&[0.0, 3.0, -50.0])).collect();
    let mut gen_rows = |r: &mut Sm64, k: usize| -> Vec<Vec<f64>> {
        (0..k).map(|_| { let g: Vec<f64> = (0..p).map(|_| r.gauss()).collect(); (0..p).map(|j| off[j] + sc_[j] * (g[j] + 0.25 * g[(j + 1) % p])).collect() }).collect()
    };
    let x = gen_rows(r, n);
    let k1 = 1 + r.below(6) as usize;
    let k2 = 1 + r.below(6) as usize;
    let b1 = gen_rows(r, k1);
    let mut b2 = gen_rows(r, k2);
    b2.push(x[r.below(n as u64) as usize].clone());
    let which = r.below(3);
    let (w, wname) = match which { 0 => (Whitener::pca(), "pca"), 1 => (Whitener::zca(), "zca"), _ => (Whitener::cholesky(), "cholesky") };
    let tags = vec![format!("whiten_{}", wname), "history".to_string()];
    let tr: Vec<&str> = tags.iter().map(|s| s.as_str()).collect();
    let desc = format!("{{\"kind\": \"history_whiten\", \"method\": {}, \"n\": {}, \"p\": {}, \"X\": {:?}, \"B1\": {:?}, \"B2\": {:?}}}", jstr(wname), n, p, x, b1, b2);
    cx.out.bump(&format!("history_whiten_{}", wname));
    let ds = DatasetBase::new(arr(&x, p, false), Array2::<i64>::zeros((n, 1)));
    let fitted = match guarded(AssertUnwindSafe(|| w.fit(&ds))) {
        Ok(Ok(f)) => f,
        _ => { cx.out.bump("history_whiten_fit_failed"); cx.out.rust_eval(&desc, None); return; }
    };
    let fresh = fitted.clone();
    let used_f = |b: &[Vec<f64>], cm: bool| guarded(AssertUnwindSafe(|| fitted.transform(arr(b, p, cm)))).ok().map(|a| rows(&a));
    let fresh_f = |b: &[Vec<f64>], cm: bool| guarded(AssertUnwindSafe(|| fresh.transform(arr(b, p, cm)))).ok().map(|a| rows(&a));
    if let Some(wh) = history_check::<f64>(r, &used_f, &fresh_f, &b1, &b2) {
        cx.out.rust_fail(id, HIST, &tr, &format!("FittedWhitener history: {}", wh), &desc);
    }
    if !biteq(&rows(&fitted.transformation_matrix().to_owned()), &rows(&fresh.transformation_matrix().to_owned())) || !biteq(&[fitted.mean().to_vec()], &[fresh.mean().to_vec()]) {
        cx.out.rust_fail(id, HIST, &tr, "FittedWhitener: mean / matrix changed through transform calls", &desc);
    }
    cx.out.rust_eval(&desc, Some(fnv_f64s(&x.concat(), which + 4200)));
}

fn main() {
    let args = parse_args();
    let mut rng = Sm64::new(args.seed);
    let thorough = args.tier == "thorough";
    let out = Out::new(&args.out, args.shards, "C16.Corr", "case", args.only);
    let mut cx = Ctx { out, id: 0 };

    // (0) self-test of the fused multiply-add used by the Welford model
    { let mut r = rng.fork(); fma_selftest(&mut cx, &mut r); }

    // (a) exhaustive small: every column over {-1, 0, 2} with n <= 3 (4 in the thorough tier), every scaler variant,
    //     f64 row-major; unseen data = the three values
    {
        let mut r = rng.fork();
        let vals = [-1.0f64, 0.0, 2.0];
        let maxn = if thorough { 4 } else { 3 };
        for n in 1..=maxn {
            for code in 0..3usize.pow(n as u32) {
                let mut c = code;
                let col: Vec<f64> = (0..n).map(|_| { let v = vals[c % 3]; c /= 3; v }).collect();
                for m in METHODS.iter().chain(UNIT_WIDTH.iter()) {
                    let x: Vec<Vec<f64>> = col.iter().map(|v| vec![*v]).collect();
                    let x2: Vec<Vec<f64>> = vals.iter().map(|v| vec![*v]).collect();
                    let mut rc = r.fork();   // one generator per case, so that --only replays a case exactly
                    lin_case::<f64>(&mut cx, &mut rc, *m, false, x, 1, x2, 1, "exhaustive_small", &["exhaustive"]);
                }
            }
        }
    }

    // (b) malformed: empty training data (every variant, both types, p = 0..3), also with a flipped range
    {
        let mut r = rng.fork();
        for p in 0..=3usize {
            for m in METHODS.iter().chain([Meth::MinMax(3.0, -1.0)].iter()) {
                let x2: Vec<Vec<f64>> = vec![];
                let mut rc = r.fork();
                lin_case::<f64>(&mut cx, &mut rc, *m, false, vec![], p, x2, p, "malformed_empty", &[]);
                if p == 2 { let mut rc = r.fork(); lin_case::<f32>(&mut cx, &mut rc, *m, p % 2 == 0, vec![], p, vec![], p, "malformed_empty", &[]); }
            }
            whiten_empty(&mut cx, p);
        }
    }

    // (c) structured random
    let (nlin, nnorm, nwh) = if thorough { (4000, 1200, 400) } else { (1000, 320, 130) };
    let next = if thorough { 900 } else { 240 };
    let maxn = if thorough { 64 } else { 36 };
    for i in 0..nlin {
        let mut r = rng.fork();
        if i % 10 < 7 { gen_lin::<f64>(&mut cx, &mut r, maxn, 6); } else { gen_lin::<f32>(&mut cx, &mut r, maxn / 2, 4); }
    }
    for i in 0..nnorm {
        let mut r = rng.fork();
        if i % 10 < 7 { norm_case::<f64>(&mut cx, &mut r, 12, false); } else { norm_case::<f32>(&mut cx, &mut r, 8, false); }
    }
    for _ in 0..nwh {
        let mut r = rng.fork();
        whiten_case(&mut cx, &mut r, if thorough { 6 } else { 4 });
    }
    // (d) norm scalers on rows at extreme magnitudes (subnormal entries, borders of the normal range, mixed rows)
    for i in 0..next {
        let mut r = rng.fork();
        if i % 10 < 6 { norm_case::<f64>(&mut cx, &mut r, 6, true); } else { norm_case::<f32>(&mut cx, &mut r, 6, true); }
    }
    // (e) round 5: histories (B1 then B2 vs a never-used clone / row by row / permuted) and the row order of the fitting data;
    //     the extreme value of a column negative and in every row position (first and last included)
    {
        let mut r = rng.fork();
        let ms = [Meth::MaxAbs, Meth::MinMax(0.0, 1.0), Meth::MinMax(-2.0, 3.0), Meth::Std(true, true)];
        for n in 2..=(if thorough { 7usize } else { 5 }) {
            for pos in 0..n {
                for m in ms.iter() {
                    let mut rc = r.fork();
                    hist_extreme::<f64>(&mut cx, &mut rc, n, pos, *m);
                    let mut rc = r.fork();
                    hist_extreme::<f32>(&mut cx, &mut rc, n, pos, *m);
                }
            }
        }
        let (nh, nhn, nhw) = if thorough { (800, 300, 150) } else { (200, 80, 40) };
        for i in 0..nh {
            let mut rc = r.fork();
            if i % 10 < 7 { hist_lin_random::<f64>(&mut cx, &mut rc, 24); } else { hist_lin_random::<f32>(&mut cx, &mut rc, 12); }
        }
        for i in 0..nhn {
            let mut rc = r.fork();
            if i % 10 < 7 { hist_norm_case::<f64>(&mut cx, &mut rc); } else { hist_norm_case::<f32>(&mut cx, &mut rc); }
        }
        for _ in 0..nhw { let mut rc = r.fork(); hist_whiten_case(&mut cx, &mut rc); }
    }
    cx.out.finish("streams: fma self-test; exhaustive small (all columns over {-1,0,2}, n<=3 (4 thorough), 9 scaler variants + 2 min-max ranges of width one away from zero); empty training data x variants x p; structured random linear scalers (14 column families incl. offset / badly scaled / constant / zero / tiny spread / eps boundary, f64+f32, row+column major, min-max ranges incl. width one / width zero / wide / flipped, unseen data incl. copies, shifted rows and wrong widths); norm scalers (zero rows, single entries, 1e-9..1e9); norm scalers at extreme magnitudes, f64+f32 (12 row families: subnormal entries, one subnormal entry beside zeros incl. the values around 1/MAX, around the smallest normal number, near the largest finite number, l1 sum and squares next to their overflow / underflow borders, mixed magnitudes, border values; mixed with ordinary and zero rows); whiteners (3 methods, full rank, n>p); histories (Rust-side, oracle bit 16384): a fitted linear scaler / norm scaler / whitener applied to B1 then B2 vs a never-used clone, row by row and the permuted B2, bit for bit, and refits on permuted training rows (all rotations, reversal, shuffles) incl. a stream with the extreme value of a column negative / positive / tied at every row position, f64+f32, row+column major. A case is non-trivial when its training data has at least two distinct rows; distinct = distinct (data, variant, dtype, layout) hashes");
}
