//! C19 harness: every serialisable type of the workspace is constructed (parameter sets and fitted
//! models, f32 and f64), recorded as a serde data-model tree, sent through bincode (and serde_json),
//! restored, re-recorded and compared; behaviour (accessors, predictions, transforms, validation,
//! refits) of the restored value is compared bit for bit with the original on the Rust side; the trees,
//! the bincode bytes and an inferred shape go to Coq (C19/Corr.v) for the wire-format correspondence
//! and the declaration-level oracle.
#![allow(clippy::all)]
use std::collections::BTreeSet;
use std::fmt::Write as _;
use std::panic::AssertUnwindSafe;

use linfa::prelude::*;
use ndarray::{Array1, Array2, Axis, Ix1, Ix2};
use rand::SeedableRng;
use rand_xoshiro::Xoshiro256Plus;
use serde::de::DeserializeOwned;
use serde::ser::{self, Serialize};
use vh::*;

// ------------------------------------------------------------------------------------------------
// serde data-model tree
// ------------------------------------------------------------------------------------------------
#[derive(Clone, Copy, Debug, PartialEq, Eq)]
enum IK { U8, U16, U32, U64, I8, I16, I32, I64 }
#[derive(Clone, Copy, Debug, PartialEq, Eq)]
enum SK { Unit, Newtype, Tuple, Named }

#[derive(Clone, Debug, PartialEq)]
enum Val {
    Bool(bool),
    Int(IK, i128),
    F32(u32),
    F64(u64),
    Str(String),
    Unit,
    None,
    Some(Box<Val>),
    Seq(Vec<Val>),
    Map(Vec<(Val, Val)>),
    Tuple(Vec<Val>),
    Struct(SK, String, Vec<(String, Val)>),
    Enum(String, u32, String, SK, Vec<(String, Val)>),
}

#[derive(Debug)]
struct RecErr(String);
impl std::fmt::Display for RecErr {
    fn fmt(&self, f: &mut std::fmt::Formatter) -> std::fmt::Result { write!(f, "{}", self.0) }
}
impl std::error::Error for RecErr {}
impl ser::Error for RecErr {
    fn custom<T: std::fmt::Display>(msg: T) -> Self { RecErr(msg.to_string()) }
}

struct Rec;
struct SeqRec { items: Vec<Val>, kind: u8, name: String, idx: u32, variant: String }
struct MapRec { items: Vec<(Val, Val)>, key: Option<Val> }
struct FieldRec { items: Vec<(String, Val)>, name: String, idx: u32, variant: Option<String> }

fn record<T: Serialize + ?Sized>(v: &T) -> Result<Val, String> {
    v.serialize(Rec).map_err(|e| e.0)
}

impl ser::Serializer for Rec {
    type Ok = Val;
    type Error = RecErr;
    type SerializeSeq = SeqRec;
    type SerializeTuple = SeqRec;
    type SerializeTupleStruct = SeqRec;
    type SerializeTupleVariant = SeqRec;
    type SerializeMap = MapRec;
    type SerializeStruct = FieldRec;
    type SerializeStructVariant = FieldRec;
    fn is_human_readable(&self) -> bool { false }
    fn serialize_bool(self, v: bool) -> Result<Val, RecErr> { Ok(Val::Bool(v)) }
    fn serialize_i8(self, v: i8) -> Result<Val, RecErr> { Ok(Val::Int(IK::I8, v as i128)) }
    fn serialize_i16(self, v: i16) -> Result<Val, RecErr> { Ok(Val::Int(IK::I16, v as i128)) }
    fn serialize_i32(self, v: i32) -> Result<Val, RecErr> { Ok(Val::Int(IK::I32, v as i128)) }
    fn serialize_i64(self, v: i64) -> Result<Val, RecErr> { Ok(Val::Int(IK::I64, v as i128)) }
    fn serialize_u8(self, v: u8) -> Result<Val, RecErr> { Ok(Val::Int(IK::U8, v as i128)) }
    fn serialize_u16(self, v: u16) -> Result<Val, RecErr> { Ok(Val::Int(IK::U16, v as i128)) }
    fn serialize_u32(self, v: u32) -> Result<Val, RecErr> { Ok(Val::Int(IK::U32, v as i128)) }
    fn serialize_u64(self, v: u64) -> Result<Val, RecErr> { Ok(Val::Int(IK::U64, v as i128)) }
    fn serialize_f32(self, v: f32) -> Result<Val, RecErr> { Ok(Val::F32(v.to_bits())) }
    fn serialize_f64(self, v: f64) -> Result<Val, RecErr> { Ok(Val::F64(v.to_bits())) }
    fn serialize_char(self, _: char) -> Result<Val, RecErr> { Err(RecErr("char is outside the modelled universe".into())) }
    fn serialize_str(self, v: &str) -> Result<Val, RecErr> { Ok(Val::Str(v.to_string())) }
    fn serialize_bytes(self, _: &[u8]) -> Result<Val, RecErr> { Err(RecErr("bytes are outside the modelled universe".into())) }
    fn serialize_none(self) -> Result<Val, RecErr> { Ok(Val::None) }
    fn serialize_some<T: Serialize + ?Sized>(self, v: &T) -> Result<Val, RecErr> { Ok(Val::Some(Box::new(v.serialize(Rec)?))) }
    fn serialize_unit(self) -> Result<Val, RecErr> { Ok(Val::Unit) }
    fn serialize_unit_struct(self, name: &'static str) -> Result<Val, RecErr> { Ok(Val::Struct(SK::Unit, name.into(), vec![])) }
    fn serialize_unit_variant(self, name: &'static str, idx: u32, variant: &'static str) -> Result<Val, RecErr> {
        Ok(Val::Enum(name.into(), idx, variant.into(), SK::Unit, vec![]))
    }
    fn serialize_newtype_struct<T: Serialize + ?Sized>(self, name: &'static str, v: &T) -> Result<Val, RecErr> {
        Ok(Val::Struct(SK::Newtype, name.into(), vec![("0".into(), v.serialize(Rec)?)]))
    }
    fn serialize_newtype_variant<T: Serialize + ?Sized>(self, name: &'static str, idx: u32, variant: &'static str, v: &T) -> Result<Val, RecErr> {
        Ok(Val::Enum(name.into(), idx, variant.into(), SK::Newtype, vec![("0".into(), v.serialize(Rec)?)]))
    }
    fn serialize_seq(self, _len: Option<usize>) -> Result<SeqRec, RecErr> {
        Ok(SeqRec { items: vec![], kind: 0, name: String::new(), idx: 0, variant: String::new() })
    }
    fn serialize_tuple(self, _len: usize) -> Result<SeqRec, RecErr> {
        Ok(SeqRec { items: vec![], kind: 1, name: String::new(), idx: 0, variant: String::new() })
    }
    fn serialize_tuple_struct(self, name: &'static str, _len: usize) -> Result<SeqRec, RecErr> {
        Ok(SeqRec { items: vec![], kind: 2, name: name.into(), idx: 0, variant: String::new() })
    }
    fn serialize_tuple_variant(self, name: &'static str, idx: u32, variant: &'static str, _len: usize) -> Result<SeqRec, RecErr> {
        Ok(SeqRec { items: vec![], kind: 3, name: name.into(), idx, variant: variant.into() })
    }
    fn serialize_map(self, _len: Option<usize>) -> Result<MapRec, RecErr> { Ok(MapRec { items: vec![], key: None }) }
    fn serialize_struct(self, name: &'static str, _len: usize) -> Result<FieldRec, RecErr> {
        Ok(FieldRec { items: vec![], name: name.into(), idx: 0, variant: None })
    }
    fn serialize_struct_variant(self, name: &'static str, idx: u32, variant: &'static str, _len: usize) -> Result<FieldRec, RecErr> {
        Ok(FieldRec { items: vec![], name: name.into(), idx, variant: Some(variant.into()) })
    }
}
impl SeqRec {
    fn finish(self) -> Val {
        let named = |items: Vec<Val>| items.into_iter().enumerate().map(|(i, v)| (i.to_string(), v)).collect::<Vec<_>>();
        match self.kind {
            0 => Val::Seq(self.items),
            1 => Val::Tuple(self.items),
            2 => Val::Struct(SK::Tuple, self.name, named(self.items)),
            _ => Val::Enum(self.name, self.idx, self.variant, SK::Tuple, named(self.items)),
        }
    }
}
impl ser::SerializeSeq for SeqRec {
    type Ok = Val; type Error = RecErr;
    fn serialize_element<T: Serialize + ?Sized>(&mut self, v: &T) -> Result<(), RecErr> { self.items.push(v.serialize(Rec)?); Ok(()) }
    fn end(self) -> Result<Val, RecErr> { Ok(self.finish()) }
}
impl ser::SerializeTuple for SeqRec {
    type Ok = Val; type Error = RecErr;
    fn serialize_element<T: Serialize + ?Sized>(&mut self, v: &T) -> Result<(), RecErr> { self.items.push(v.serialize(Rec)?); Ok(()) }
    fn end(self) -> Result<Val, RecErr> { Ok(self.finish()) }
}
impl ser::SerializeTupleStruct for SeqRec {
    type Ok = Val; type Error = RecErr;
    fn serialize_field<T: Serialize + ?Sized>(&mut self, v: &T) -> Result<(), RecErr> { self.items.push(v.serialize(Rec)?); Ok(()) }
    fn end(self) -> Result<Val, RecErr> { Ok(self.finish()) }
}
impl ser::SerializeTupleVariant for SeqRec {
    type Ok = Val; type Error = RecErr;
    fn serialize_field<T: Serialize + ?Sized>(&mut self, v: &T) -> Result<(), RecErr> { self.items.push(v.serialize(Rec)?); Ok(()) }
    fn end(self) -> Result<Val, RecErr> { Ok(self.finish()) }
}
impl ser::SerializeMap for MapRec {
    type Ok = Val; type Error = RecErr;
    fn serialize_key<T: Serialize + ?Sized>(&mut self, k: &T) -> Result<(), RecErr> { self.key = Some(k.serialize(Rec)?); Ok(()) }
    fn serialize_value<T: Serialize + ?Sized>(&mut self, v: &T) -> Result<(), RecErr> {
        let k = self.key.take().ok_or_else(|| RecErr("map value without key".into()))?;
        self.items.push((k, v.serialize(Rec)?));
        Ok(())
    }
    fn end(self) -> Result<Val, RecErr> { Ok(Val::Map(self.items)) }
}
impl ser::SerializeStruct for FieldRec {
    type Ok = Val; type Error = RecErr;
    fn serialize_field<T: Serialize + ?Sized>(&mut self, key: &'static str, v: &T) -> Result<(), RecErr> {
        self.items.push((key.into(), v.serialize(Rec)?)); Ok(())
    }
    fn end(self) -> Result<Val, RecErr> { Ok(Val::Struct(SK::Named, self.name, self.items)) }
}
impl ser::SerializeStructVariant for FieldRec {
    type Ok = Val; type Error = RecErr;
    fn serialize_field<T: Serialize + ?Sized>(&mut self, key: &'static str, v: &T) -> Result<(), RecErr> {
        self.items.push((key.into(), v.serialize(Rec)?)); Ok(())
    }
    fn end(self) -> Result<Val, RecErr> { Ok(Val::Enum(self.name, self.idx, self.variant.unwrap_or_default(), SK::Named, self.items)) }
}

// ---- printing as Gallina ----
fn coq_string(s: &str) -> String {
    // Coq string literals take raw bytes; only the double quote is doubled
    format!("\"{}\"", s.replace('"', "\"\""))
}
fn sk(k: SK) -> &'static str { match k { SK::Unit => "KUnit", SK::Newtype => "KNewtype", SK::Tuple => "KTuple", SK::Named => "KNamed" } }
fn ik(k: IK) -> &'static str {
    match k { IK::U8 => "U8", IK::U16 => "U16", IK::U32 => "U32", IK::U64 => "U64", IK::I8 => "I8", IK::I16 => "I16", IK::I32 => "I32", IK::I64 => "I64" }
}
fn coq_val(v: &Val, o: &mut String) {
    match v {
        Val::Bool(b) => { let _ = write!(o, "(VBool {})", b); }
        Val::Int(k, z) => { let _ = write!(o, "(VInt {} ({})%Z)", ik(*k), z); }
        Val::F32(b) => { let _ = write!(o, "(VF32 {}%N)", b); }
        Val::F64(b) => { let _ = write!(o, "(VF64 {}%N)", b); }
        Val::Str(s) => { let _ = write!(o, "(VStr {})", coq_string(s)); }
        Val::Unit => o.push_str("VUnit"),
        Val::None => o.push_str("VNone"),
        Val::Some(x) => { o.push_str("(VSome "); coq_val(x, o); o.push(')'); }
        Val::Seq(l) => { o.push_str("(VSeq ["); for (i, x) in l.iter().enumerate() { if i > 0 { o.push_str("; "); } coq_val(x, o); } o.push_str("])"); }
        Val::Tuple(l) => { o.push_str("(VTuple ["); for (i, x) in l.iter().enumerate() { if i > 0 { o.push_str("; "); } coq_val(x, o); } o.push_str("])"); }
        Val::Map(l) => {
            o.push_str("(VMap [");
            for (i, (k, x)) in l.iter().enumerate() { if i > 0 { o.push_str("; "); } o.push('('); coq_val(k, o); o.push_str(", "); coq_val(x, o); o.push(')'); }
            o.push_str("])");
        }
        Val::Struct(k, n, fs) => { let _ = write!(o, "(VStruct {} {} ", sk(*k), coq_string(n)); coq_fields(fs, o); o.push(')'); }
        Val::Enum(n, i, vn, k, fs) => { let _ = write!(o, "(VEnum {} {}%N {} {} ", coq_string(n), i, coq_string(vn), sk(*k)); coq_fields(fs, o); o.push(')'); }
    }
}
fn coq_fields(fs: &[(String, Val)], o: &mut String) {
    o.push('[');
    for (i, (n, x)) in fs.iter().enumerate() { if i > 0 { o.push_str("; "); } let _ = write!(o, "({}, ", coq_string(n)); coq_val(x, o); o.push(')'); }
    o.push(']');
}

// ---- shapes (type-level, with holes where the value carries no information) ----
#[derive(Clone, Debug, PartialEq)]
enum Sh {
    Bool, Int(IK), F32, F64, Str, Unit,
    Opt(Option<Box<Sh>>), Seq(Option<Box<Sh>>), Map(Option<Box<(Sh, Sh)>>), Tuple(Vec<Sh>),
    Struct(SK, String, Vec<(String, Sh)>),
    Enum(String, Vec<Option<(String, SK, Vec<(String, Sh)>)>>),
}
fn merge_opt(a: Option<Box<Sh>>, b: Option<Box<Sh>>) -> Result<Option<Box<Sh>>, String> {
    Ok(match (a, b) { (None, x) | (x, None) => x, (Some(x), Some(y)) => Some(Box::new(merge(*x, *y)?)) })
}
fn merge_fields(a: Vec<(String, Sh)>, b: Vec<(String, Sh)>) -> Result<Vec<(String, Sh)>, String> {
    if a.len() != b.len() { return Err("field count differs".into()); }
    a.into_iter().zip(b).map(|((n, x), (m, y))| if n == m { Ok((n, merge(x, y)?)) } else { Err(format!("field {} vs {}", n, m)) }).collect()
}
fn merge(a: Sh, b: Sh) -> Result<Sh, String> {
    Ok(match (a, b) {
        (Sh::Opt(x), Sh::Opt(y)) => Sh::Opt(merge_opt(x, y)?),
        (Sh::Seq(x), Sh::Seq(y)) => Sh::Seq(merge_opt(x, y)?),
        (Sh::Map(x), Sh::Map(y)) => Sh::Map(match (x, y) {
            (None, z) | (z, None) => z,
            (Some(p), Some(q)) => Some(Box::new((merge(p.0, q.0)?, merge(p.1, q.1)?))),
        }),
        (Sh::Tuple(x), Sh::Tuple(y)) => {
            if x.len() != y.len() { return Err("tuple arity differs".into()); }
            Sh::Tuple(x.into_iter().zip(y).map(|(p, q)| merge(p, q)).collect::<Result<_, _>>()?)
        }
        (Sh::Struct(k, n, x), Sh::Struct(k2, n2, y)) => {
            if k != k2 || n != n2 { return Err(format!("struct {} vs {}", n, n2)); }
            Sh::Struct(k, n, merge_fields(x, y)?)
        }
        (Sh::Enum(n, mut x), Sh::Enum(n2, mut y)) => {
            if n != n2 { return Err(format!("enum {} vs {}", n, n2)); }
            let len = x.len().max(y.len());
            x.resize(len, None); y.resize(len, None);
            let mut out = vec![];
            for (p, q) in x.into_iter().zip(y) {
                out.push(match (p, q) {
                    (None, z) | (z, None) => z,
                    (Some((vn, k, f)), Some((vn2, k2, g))) => {
                        if vn != vn2 || k != k2 { return Err(format!("variant {} vs {}", vn, vn2)); }
                        Some((vn, k, merge_fields(f, g)?))
                    }
                });
            }
            Sh::Enum(n, out)
        }
        (x, y) => if x == y { x } else { return Err(format!("{:?} vs {:?}", x, y)); },
    })
}
fn merge_all(l: &[Val]) -> Result<Option<Box<Sh>>, String> {
    let mut acc: Option<Box<Sh>> = None;
    for v in l { acc = merge_opt(acc, Some(Box::new(shape_of(v)?)))?; }
    Ok(acc)
}
fn shape_fields(fs: &[(String, Val)]) -> Result<Vec<(String, Sh)>, String> {
    fs.iter().map(|(n, v)| Ok((n.clone(), shape_of(v)?))).collect()
}
fn shape_of(v: &Val) -> Result<Sh, String> {
    Ok(match v {
        Val::Bool(_) => Sh::Bool, Val::Int(k, _) => Sh::Int(*k), Val::F32(_) => Sh::F32, Val::F64(_) => Sh::F64,
        Val::Str(_) => Sh::Str, Val::Unit => Sh::Unit, Val::None => Sh::Opt(None),
        Val::Some(x) => Sh::Opt(Some(Box::new(shape_of(x)?))),
        Val::Seq(l) => Sh::Seq(merge_all(l)?),
        Val::Tuple(l) => Sh::Tuple(l.iter().map(shape_of).collect::<Result<_, _>>()?),
        Val::Map(l) => {
            let mut acc: Option<Box<(Sh, Sh)>> = None;
            for (k, x) in l {
                let (a, b) = (shape_of(k)?, shape_of(x)?);
                acc = Some(Box::new(match acc { None => (a, b), Some(p) => (merge(p.0, a)?, merge(p.1, b)?) }));
            }
            Sh::Map(acc)
        }
        Val::Struct(k, n, fs) => Sh::Struct(*k, n.clone(), shape_fields(fs)?),
        Val::Enum(n, i, vn, k, fs) => {
            let mut vs = vec![None; *i as usize];
            vs.push(Some((vn.clone(), *k, shape_fields(fs)?)));
            Sh::Enum(n.clone(), vs)
        }
    })
}
fn coq_sfields(fs: &[(String, Sh)], o: &mut String) {
    o.push('[');
    for (i, (n, x)) in fs.iter().enumerate() { if i > 0 { o.push_str("; "); } let _ = write!(o, "({}, ", coq_string(n)); coq_sh(x, o); o.push(')'); }
    o.push(']');
}
fn coq_sh(s: &Sh, o: &mut String) {
    match s {
        Sh::Bool => o.push_str("SBool"), Sh::F32 => o.push_str("SF32"), Sh::F64 => o.push_str("SF64"),
        Sh::Str => o.push_str("SStr"), Sh::Unit => o.push_str("SUnit"),
        Sh::Int(k) => { let _ = write!(o, "(SInt {})", ik(*k)); }
        Sh::Opt(None) => o.push_str("(SOpt None)"),
        Sh::Opt(Some(x)) => { o.push_str("(SOpt (Some "); coq_sh(x, o); o.push_str("))"); }
        Sh::Seq(None) => o.push_str("(SSeq None)"),
        Sh::Seq(Some(x)) => { o.push_str("(SSeq (Some "); coq_sh(x, o); o.push_str("))"); }
        Sh::Map(None) => o.push_str("(SMap None)"),
        Sh::Map(Some(p)) => { o.push_str("(SMap (Some ("); coq_sh(&p.0, o); o.push_str(", "); coq_sh(&p.1, o); o.push_str(")))"); }
        Sh::Tuple(l) => { o.push_str("(STuple ["); for (i, x) in l.iter().enumerate() { if i > 0 { o.push_str("; "); } coq_sh(x, o); } o.push_str("])"); }
        Sh::Struct(k, n, fs) => { let _ = write!(o, "(SStruct {} {} ", sk(*k), coq_string(n)); coq_sfields(fs, o); o.push(')'); }
        Sh::Enum(n, vs) => {
            let _ = write!(o, "(SEnum {} [", coq_string(n));
            for (i, v) in vs.iter().enumerate() {
                if i > 0 { o.push_str("; "); }
                match v {
                    None => o.push_str("None"),
                    Some((vn, k, fs)) => { let _ = write!(o, "Some ({}, {}, ", coq_string(vn), sk(*k)); coq_sfields(fs, o); o.push(')'); }
                }
            }
            o.push_str("])");
        }
    }
}

// ---- helpers on trees ----
fn names_in(v: &Val, acc: &mut BTreeSet<String>) {
    match v {
        Val::Some(x) => names_in(x, acc),
        Val::Seq(l) | Val::Tuple(l) => l.iter().for_each(|x| names_in(x, acc)),
        Val::Map(l) => l.iter().for_each(|(k, x)| { names_in(k, acc); names_in(x, acc); }),
        Val::Struct(_, n, fs) => { acc.insert(n.clone()); fs.iter().for_each(|(_, x)| names_in(x, acc)); }
        Val::Enum(n, _, _, _, fs) => { acc.insert(n.clone()); fs.iter().for_each(|(_, x)| names_in(x, acc)); }
        _ => {}
    }
}
fn all_finite(v: &Val) -> bool {
    match v {
        Val::F32(b) => f32::from_bits(*b).is_finite(),
        Val::F64(b) => f64::from_bits(*b).is_finite(),
        Val::Some(x) => all_finite(x),
        Val::Seq(l) | Val::Tuple(l) => l.iter().all(all_finite),
        Val::Map(l) => l.iter().all(|(k, x)| all_finite(k) && all_finite(x)),
        Val::Struct(_, _, fs) | Val::Enum(_, _, _, _, fs) => fs.iter().all(|(_, x)| all_finite(x)),
        _ => true,
    }
}
fn has_map(v: &Val) -> bool {
    match v {
        Val::Map(_) => true,
        Val::Some(x) => has_map(x),
        Val::Seq(l) | Val::Tuple(l) => l.iter().any(has_map),
        Val::Struct(_, _, fs) | Val::Enum(_, _, _, _, fs) => fs.iter().any(|(_, x)| has_map(x)),
        _ => false,
    }
}
fn count_leaves(v: &Val) -> usize {
    match v {
        Val::Some(x) => count_leaves(x),
        Val::Seq(l) | Val::Tuple(l) => l.iter().map(count_leaves).sum(),
        Val::Map(l) => l.iter().map(|(k, x)| count_leaves(k) + count_leaves(x)).sum(),
        Val::Struct(_, _, fs) | Val::Enum(_, _, _, _, fs) => fs.iter().map(|(_, x)| count_leaves(x)).sum(),
        Val::Unit | Val::None => 0,
        _ => 1,
    }
}
/// canonical form on the Rust side: hash maps sorted by key, hash sets (named fields) sorted
fn canon(v: &Val, un: &[&str]) -> Val {
    let key = |x: &Val| format!("{:?}", x);
    let sort_seq = |x: Val| match x {
        Val::Seq(mut l) => { l.sort_by_key(|a| key(a)); Val::Seq(l) }
        Val::Some(b) => match *b { Val::Seq(mut l) => { l.sort_by_key(|a| key(a)); Val::Some(Box::new(Val::Seq(l))) } o => Val::Some(Box::new(o)) },
        o => o,
    };
    match v {
        Val::Some(x) => Val::Some(Box::new(canon(x, un))),
        Val::Seq(l) => Val::Seq(l.iter().map(|x| canon(x, un)).collect()),
        Val::Tuple(l) => Val::Tuple(l.iter().map(|x| canon(x, un)).collect()),
        Val::Map(l) => { let mut m: Vec<(Val, Val)> = l.iter().map(|(k, x)| (canon(k, un), canon(x, un))).collect(); m.sort_by_key(|p| key(&p.0)); Val::Map(m) }
        Val::Struct(k, n, fs) => Val::Struct(*k, n.clone(), fs.iter().map(|(f, x)| { let c = canon(x, un); (f.clone(), if un.contains(&f.as_str()) { sort_seq(c) } else { c }) }).collect()),
        Val::Enum(n, i, vn, k, fs) => Val::Enum(n.clone(), *i, vn.clone(), *k, fs.iter().map(|(f, x)| (f.clone(), canon(x, un))).collect()),
        o => o.clone(),
    }
}
fn ord32(b: u32) -> i64 { let i = b as i32; (if i < 0 { i32::MIN.wrapping_sub(i) } else { i }) as i64 }
fn ord64(b: u64) -> i128 { let i = b as i64; (if i < 0 { i64::MIN.wrapping_sub(i) } else { i }) as i128 }
/// equality up to `ulps` units in the last place on every float (serde_json is built without float_roundtrip)
fn close(a: &Val, b: &Val, ulps: i128, worst: &mut i128) -> bool {
    let fields = |x: &[(String, Val)], y: &[(String, Val)], worst: &mut i128| x.len() == y.len() && x.iter().zip(y).all(|(p, q)| p.0 == q.0 && close(&p.1, &q.1, ulps, worst));
    match (a, b) {
        (Val::F32(x), Val::F32(y)) => { let d = (ord32(*x) - ord32(*y)).abs() as i128; *worst = (*worst).max(d); d <= ulps }
        (Val::F64(x), Val::F64(y)) => { let d = (ord64(*x) - ord64(*y)).abs(); *worst = (*worst).max(d); d <= ulps }
        (Val::Some(x), Val::Some(y)) => close(x, y, ulps, worst),
        (Val::Seq(x), Val::Seq(y)) | (Val::Tuple(x), Val::Tuple(y)) => x.len() == y.len() && x.iter().zip(y).all(|(p, q)| close(p, q, ulps, worst)),
        (Val::Map(x), Val::Map(y)) => x.len() == y.len() && x.iter().zip(y).all(|(p, q)| close(&p.0, &q.0, ulps, worst) && close(&p.1, &q.1, ulps, worst)),
        (Val::Struct(k, n, x), Val::Struct(k2, n2, y)) => k == k2 && n == n2 && fields(x, y, worst),
        (Val::Enum(n, i, vn, k, x), Val::Enum(n2, i2, vn2, k2, y)) => n == n2 && i == i2 && vn == vn2 && k == k2 && fields(x, y, worst),
        (x, y) => x == y,
    }
}
fn first_diff(a: &Val, b: &Val, path: &str) -> Option<String> {
    let fields = |x: &[(String, Val)], y: &[(String, Val)]| -> Option<String> {
        if x.len() != y.len() { return Some(format!("{}: {} fields vs {}", path, x.len(), y.len())); }
        for (p, q) in x.iter().zip(y) {
            if p.0 != q.0 { return Some(format!("{}: field {} vs {}", path, p.0, q.0)); }
            if let Some(d) = first_diff(&p.1, &q.1, &format!("{}.{}", path, p.0)) { return Some(d); }
        }
        None
    };
    match (a, b) {
        (Val::Some(x), Val::Some(y)) => first_diff(x, y, &format!("{}?", path)),
        (Val::Seq(x), Val::Seq(y)) | (Val::Tuple(x), Val::Tuple(y)) => {
            if x.len() != y.len() { return Some(format!("{}: length {} vs {}", path, x.len(), y.len())); }
            x.iter().zip(y).enumerate().find_map(|(i, (p, q))| first_diff(p, q, &format!("{}[{}]", path, i)))
        }
        (Val::Map(x), Val::Map(y)) => {
            if x.len() != y.len() { return Some(format!("{}: {} entries vs {}", path, x.len(), y.len())); }
            x.iter().zip(y).enumerate().find_map(|(i, (p, q))| first_diff(&p.0, &q.0, &format!("{}{{key {}}}", path, i)).or_else(|| first_diff(&p.1, &q.1, &format!("{}{{value {}}}", path, i))))
        }
        (Val::Struct(k, n, x), Val::Struct(k2, n2, y)) if k == k2 && n == n2 => fields(x, y),
        (Val::Enum(n, i, vn, k, x), Val::Enum(n2, i2, vn2, k2, y)) if n == n2 && i == i2 && vn == vn2 && k == k2 => fields(x, y),
        (x, y) => if x == y { None } else { let c = |v: &Val| { let s = format!("{:?}", v); if s.len() > 120 { format!("{}...", &s[..s.char_indices().take(120).last().map(|p| p.0).unwrap_or(0)]) } else { s } }; Some(format!("{}: {} vs {}", path, c(x), c(y))) },
    }
}
fn hex(bytes: &[u8]) -> String {
    let mut s = String::with_capacity(bytes.len() * 2);
    for b in bytes { let _ = write!(s, "{:02x}", b); }
    s
}

// ------------------------------------------------------------------------------------------------
// the harness' own reader of JSON text (structure and tokens only; independent of serde_json's parser):
// member order and duplicates are kept, a number stays a token and is shown to Coq through the integer
// parser (when the literal is integral) and Rust's correctly rounded f64 / f32 parsers
// ------------------------------------------------------------------------------------------------
#[derive(Clone, Debug, PartialEq)]
enum PJ { Null, Bool(bool), Num(String), Str(String), Arr(Vec<PJ>), Obj(Vec<(String, PJ)>) }
struct PjReader<'a> { b: &'a [u8], i: usize }
impl<'a> PjReader<'a> {
    fn ws(&mut self) { while self.i < self.b.len() && matches!(self.b[self.i], b' ' | b'\n' | b'\r' | b'\t') { self.i += 1; } }
    fn eat(&mut self, lit: &str) -> Result<(), String> {
        if self.b[self.i..].starts_with(lit.as_bytes()) { self.i += lit.len(); Ok(()) } else { Err(format!("expected `{}` at byte {}", lit, self.i)) }
    }
    fn hex4(&mut self) -> Result<u32, String> {
        let h = std::str::from_utf8(self.b.get(self.i..self.i + 4).ok_or("short \\u escape")?).map_err(|e| e.to_string())?;
        self.i += 4;
        u32::from_str_radix(h, 16).map_err(|e| e.to_string())
    }
    fn string(&mut self) -> Result<String, String> {
        self.eat("\"")?;
        let mut out: Vec<u8> = vec![];
        loop {
            let c = *self.b.get(self.i).ok_or("unterminated string")?;
            self.i += 1;
            match c {
                b'"' => break,
                b'\\' => {
                    let e = *self.b.get(self.i).ok_or("unterminated escape")?;
                    self.i += 1;
                    match e {
                        b'"' => out.push(b'"'), b'\\' => out.push(b'\\'), b'/' => out.push(b'/'), b'b' => out.push(8), b'f' => out.push(12),
                        b'n' => out.push(b'\n'), b'r' => out.push(b'\r'), b't' => out.push(b'\t'),
                        b'u' => {
                            let mut cp = self.hex4()?;
                            if (0xD800..0xDC00).contains(&cp) {
                                self.eat("\\u")?;
                                let lo = self.hex4()?;
                                cp = 0x10000 + ((cp - 0xD800) << 10) + (lo.wrapping_sub(0xDC00) & 0x3FF);
                            }
                            let ch = char::from_u32(cp).ok_or("bad code point")?;
                            let mut buf = [0u8; 4];
                            out.extend_from_slice(ch.encode_utf8(&mut buf).as_bytes());
                        }
                        _ => return Err(format!("bad escape at byte {}", self.i)),
                    }
                }
                c => out.push(c),
            }
        }
        String::from_utf8(out).map_err(|e| e.to_string())
    }
    fn value(&mut self) -> Result<PJ, String> {
        self.ws();
        let c = *self.b.get(self.i).ok_or("unexpected end of text")?;
        let v = match c {
            b'n' => { self.eat("null")?; PJ::Null }
            b't' => { self.eat("true")?; PJ::Bool(true) }
            b'f' => { self.eat("false")?; PJ::Bool(false) }
            b'"' => PJ::Str(self.string()?),
            b'[' => {
                self.i += 1;
                let mut l = vec![];
                self.ws();
                if self.b.get(self.i) == Some(&b']') { self.i += 1; } else {
                    loop {
                        l.push(self.value()?);
                        self.ws();
                        match self.b.get(self.i) { Some(b',') => self.i += 1, Some(b']') => { self.i += 1; break; } _ => return Err(format!("expected , or ] at byte {}", self.i)) }
                    }
                }
                PJ::Arr(l)
            }
            b'{' => {
                self.i += 1;
                let mut l = vec![];
                self.ws();
                if self.b.get(self.i) == Some(&b'}') { self.i += 1; } else {
                    loop {
                        self.ws();
                        let k = self.string()?;
                        self.ws();
                        self.eat(":")?;
                        l.push((k, self.value()?));
                        self.ws();
                        match self.b.get(self.i) { Some(b',') => self.i += 1, Some(b'}') => { self.i += 1; break; } _ => return Err(format!("expected , or }} at byte {}", self.i)) }
                    }
                }
                PJ::Obj(l)
            }
            b'-' | b'0'..=b'9' => {
                let st = self.i;
                while self.i < self.b.len() && matches!(self.b[self.i], b'-' | b'+' | b'.' | b'e' | b'E' | b'0'..=b'9') { self.i += 1; }
                PJ::Num(String::from_utf8_lossy(&self.b[st..self.i]).into_owned())
            }
            _ => return Err(format!("unexpected byte {} at {}", c, self.i)),
        };
        Ok(v)
    }
}
fn pj_parse(text: &str) -> Result<PJ, String> {
    let mut r = PjReader { b: text.as_bytes(), i: 0 };
    let v = r.value()?;
    r.ws();
    if r.i != r.b.len() { return Err(format!("trailing bytes at {}", r.i)); }
    Ok(v)
}
fn coq_pj(v: &PJ, o: &mut String) -> Result<(), String> {
    match v {
        PJ::Null => o.push_str("PNull"),
        PJ::Bool(b) => { let _ = write!(o, "(PBool {})", b); }
        PJ::Num(t) => {
            let int = if t.contains(|c| c == '.' || c == 'e' || c == 'E') { None } else { t.parse::<i128>().ok() };
            let f64v: f64 = t.parse().map_err(|_| format!("number token `{}`", t))?;
            let f32v: f32 = t.parse().map_err(|_| format!("number token `{}`", t))?;
            match int { Some(z) => { let _ = write!(o, "(PNum (Some ({})%Z) {}%N {}%N)", z, f64v.to_bits(), f32v.to_bits()); } None => { let _ = write!(o, "(PNum None {}%N {}%N)", f64v.to_bits(), f32v.to_bits()); } }
        }
        PJ::Str(s) => { let _ = write!(o, "(PStr {})", coq_string(s)); }
        PJ::Arr(l) => { o.push_str("(PArr ["); for (i, x) in l.iter().enumerate() { if i > 0 { o.push_str("; "); } coq_pj(x, o)?; } o.push_str("])"); }
        PJ::Obj(l) => { o.push_str("(PObj ["); for (i, (k, x)) in l.iter().enumerate() { if i > 0 { o.push_str("; "); } let _ = write!(o, "({}, ", coq_string(k)); coq_pj(x, o)?; o.push(')'); } o.push_str("])"); }
    }
    Ok(())
}

// ------------------------------------------------------------------------------------------------
// the round-trip driver
// ------------------------------------------------------------------------------------------------
// oracle bits (see props/C19.json)
const O_TREE: u64 = 1;        // (Coq) restored tree differs
const O_REFUSED: u64 = 2;     // serialisation refused
const O_DESER: u64 = 8;       // deserialisation failed
const O_BEHAV: u64 = 16;      // restored value behaves differently / compares unequal / re-serialises differently
const O_GUARD: u64 = 32;      // restored vectoriser refuses to work until the tokenizer is re-armed (documented)
/// serde_json is built without `float_roundtrip`: its number parser (u64 significand converted to f64, then one
/// multiplication/division by an inexact power of ten) is 1-3 ulp off on a fraction of the 17-digit inputs.
/// Calibrated on the unchanged tree (see props/C19.json); the largest distance seen is written to the evidence.
const JSON_ULPS: i128 = 4;
const O_JSON: u64 = 128;      // serde_json round trip differs by more than 1 ulp or in structure
const O_REFIT: u64 = 256;     // restored parameter set with a function tokenizer silently refits with the regex tokenizer
const O_PANIC: u64 = 512;
const O_HISTORY: u64 = 1024;  // a value that went through two or more round trips (documented re-arming in between) differs from the original     // (de)serialisation or an observation panicked

struct Ctx {
    out: Out,
    id: u64,
    seen: BTreeSet<String>,
    /// concrete instantiations (`ty` arguments of `rt`) that were recorded successfully
    types_done: BTreeSet<String>,
    json_ok: u64,
    json_na: u64,
    json_worst: i128,
    json_cases: u64,
    thorough: bool,
}
/// ids of the cases that carry the serde_json leg of value `id` to Coq
const JSON_ID: u64 = 2_000_000;
impl Ctx {
    /// a Rust-side verdict; muted for the values of the attribute zoo (their lossy members are the point)
    fn rf(&mut self, mute: bool, id: u64, code: u64, tags: &[&str], what: &str, desc: &str) {
        if !mute { self.out.rust_fail(id, code, tags, what, desc); }
    }
}

#[derive(Clone, Default)]
struct Opts {
    tags: Vec<String>,
    unordered: Vec<&'static str>,
    /// Some(variant): bincode is expected to refuse this value (a skipped variant)
    refusal_variant: Option<&'static str>,
    /// skip the serde_json leg (values JSON cannot represent by design, e.g. maps keyed by arrays)
    no_json: bool,
    /// a value of the attribute zoo: only the model correspondence is evaluated, no property verdict
    zoo: bool,
}
fn tags(t: &[&str]) -> Opts { Opts { tags: t.iter().map(|s| s.to_string()).collect(), ..Default::default() } }

/// ndarray's Debug output mentions the memory layout (`strides=[..], layout=Ff (0xa)`); the layout is not part of
/// the value (serialisation walks arrays in logical order and restores them in standard layout)
fn strip_layout(s: &str) -> String {
    let mut out = String::with_capacity(s.len());
    let mut rest = s;
    while let Some(i) = rest.find(", strides=[") {
        out.push_str(&rest[..i]);
        let tail = &rest[i..];
        match tail.find(", const ndim=") {
            Some(j) => rest = &tail[j..],
            None => { out.push_str(tail); rest = ""; }
        }
    }
    out.push_str(rest);
    out
}
fn diff_obs(a: &[String], b: &[String]) -> Option<String> {
    if a.len() != b.len() { return Some(format!("{} observations before, {} after", a.len(), b.len())); }
    for (i, (x, y)) in a.iter().zip(b).enumerate() {
        let (x, y) = (&strip_layout(x), &strip_layout(y));
        if x != y {
            let cut = |s: &String| if s.len() > 300 { format!("{}...", &s[..s.char_indices().take(300).last().map(|p| p.0).unwrap_or(0)]) } else { s.clone() };
            return Some(format!("observation #{}: original `{}` restored `{}`", i, cut(x), cut(y)));
        }
    }
    None
}

/// What the generic shell gathers about one value; everything else is type independent.
struct Gathered {
    tree: Result<Val, String>,
    bincode: Result<Vec<u8>, String>,
    /// outer Err = panic, inner Err = deserialisation error
    restored_ok: Result<Result<(), String>, String>,
    tree2: Option<Result<Val, String>>,
    obs0: Result<Vec<String>, String>,
    obs0b: Result<Vec<String>, String>,
    obs1: Option<Result<Vec<String>, String>>,
    eq: Option<bool>,
    reser: Option<Result<Vec<u8>, String>>,
    /// second generation: the restored value serialised again and restored again (Err = refused / panicked)
    gen2: Option<Result<(Result<Val, String>, Result<Vec<String>, String>, Option<bool>), String>>,
    /// tree of the value at the time JSON serialised it, JSON text or error, what came back
    json: Option<(Val, Result<String, String>, Result<Result<Result<Val, String>, String>, String>)>,
}

/// One value through the whole protocol. `obs` lists observable behaviour (accessors, predictions ...)
/// as strings in which floats are rendered exactly; `eq` is the type's own equality when it has one.
/// This generic shell only gathers data (it is instantiated once per type); `judge` does the rest.
fn rt<T: Serialize + DeserializeOwned>(
    ctx: &mut Ctx, ty: &str, v: &T, o: &Opts, obs: &dyn Fn(&T) -> Vec<String>, eq: Option<&dyn Fn(&T, &T) -> bool>,
) {
    let id = ctx.id;
    ctx.id += 1;
    if !ctx.out.wanted(id) && !ctx.out.wanted(JSON_ID + id) { return; }
    let tree = record(v);
    let bincode = bincode::serialize(v).map_err(|e| e.to_string());
    let mut g = Gathered { tree, bincode, restored_ok: Ok(Ok(())), tree2: None, obs0: Ok(vec![]), obs0b: Ok(vec![]), obs1: None, eq: None, reser: None, gen2: None, json: None };
    if let (Ok(tree), Ok(bytes)) = (&g.tree, &g.bincode) {
        let restored: Result<Result<T, String>, String> = guarded(AssertUnwindSafe(|| bincode::deserialize::<T>(bytes).map_err(|e| e.to_string())));
        g.obs0 = guarded(AssertUnwindSafe(|| obs(v)));
        g.obs0b = guarded(AssertUnwindSafe(|| obs(v)));
        match &restored {
            Err(p) => g.restored_ok = Err(p.clone()),
            Ok(Err(e)) => g.restored_ok = Ok(Err(e.clone())),
            Ok(Ok(r)) => {
                g.tree2 = Some(record(r));
                // serialise again and restore again BEFORE anything is observed on `r` (observations may fill caches
                // behind a RefCell, e.g. the compiled regex of the vectoriser parameters)
                g.reser = Some(bincode::serialize(r).map_err(|e| e.to_string()));
                let r2: Option<Result<Result<T, String>, String>> = match &g.reser {
                    Some(Ok(b2)) => Some(guarded(AssertUnwindSafe(|| bincode::deserialize::<T>(b2).map_err(|e| e.to_string())))),
                    _ => None,
                };
                let t3 = match &r2 { Some(Ok(Ok(r2))) => Some(record(r2)), _ => None };
                g.obs1 = Some(guarded(AssertUnwindSafe(|| obs(r))));
                g.eq = eq.map(|f| f(v, r));
                g.gen2 = r2.map(|r2| match r2 {
                    Ok(Ok(r2)) => Ok((t3.unwrap_or_else(|| Err("not recorded".into())), guarded(AssertUnwindSafe(|| obs(&r2))), eq.map(|f| f(v, &r2)))),
                    Ok(Err(e)) => Err(format!("bincode::deserialize failed: {}", e)),
                    Err(p) => Err(format!("bincode::deserialize panicked: {}", p)),
                });
            }
        }
        if !o.no_json {
            // the value as it is now (observations may have filled caches behind a RefCell)
            let tj = record(v).unwrap_or_else(|_| tree.clone());
            let text = serde_json::to_string(v).map_err(|e| e.to_string());
            let leg = match &text {
                Err(e) => Err(e.clone()),
                Ok(s) => Ok(guarded(AssertUnwindSafe(|| serde_json::from_str::<T>(s).map_err(|e| e.to_string()).map(|r| record(&r))))),
            };
            // flatten: Err(to_string error) | Ok(Err(panic)) | Ok(Ok(Err(de error))) | Ok(Ok(Ok(record result)))
            let leg = match leg {
                Err(e) => Err(e),
                Ok(Err(p)) => Ok(Err(p)),
                Ok(Ok(Err(e))) => Ok(Ok(Err(e))),
                Ok(Ok(Ok(Err(e)))) => Ok(Ok(Err(format!("value restored from JSON cannot be recorded: {}", e)))),
                Ok(Ok(Ok(Ok(t)))) => Ok(Ok(Ok(t))),
            };
            g.json = Some((tj, text, leg));
        }
    }
    judge(ctx, id, ty, o, g);
}

fn judge(ctx: &mut Ctx, id: u64, ty: &str, o: &Opts, g: Gathered) {
    let mut tg: Vec<String> = vec![format!("type_{}", ty.split('<').next().unwrap_or(ty))];
    tg.extend(o.tags.iter().cloned());
    let tagrefs: Vec<&str> = tg.iter().map(|s| s.as_str()).collect();
    ctx.out.bump(&format!("type_{}", ty));
    let tree = match g.tree {
        Ok(t) => t,
        Err(e) => {
            // the recorder refuses exactly what serde refuses (skipped variants) or what is outside the universe
            if let Some(var) = o.refusal_variant {
                let be = g.bincode.as_ref().err().cloned().unwrap_or_else(|| "bincode accepted it".into());
                let desc = format!("{{\"type\": {}, \"variant\": {}, \"recorder\": {}, \"bincode\": {}}}", jstr(ty), jstr(var), jstr(&e), jstr(&be));
                let coq = format!("Refused {}%N {} {}", id, coq_string(ty), coq_string(var));
                ctx.out.case(id, &coq, &tagrefs, &desc, Some(fnv(desc.as_bytes())));
                if g.bincode.is_ok() {
                    ctx.rf(o.zoo, id, O_BEHAV, &tagrefs, "the recorder refused the value but bincode serialised it", &desc);
                }
                return;
            }
            panic!("tree recorder failed on {}: {}", ty, e);
        }
    };
    names_in(&tree, &mut ctx.seen);
    ctx.types_done.insert(ty.to_string());
    let desc_of = |extra: &str| {
        let mut t = String::new();
        coq_val(&tree, &mut t);
        if t.len() > 1500 { t.truncate(t.char_indices().take(1500).last().map(|p| p.0).unwrap_or(0)); t.push_str("..."); }
        format!("{{\"type\": {}, \"value\": {}{}}}", jstr(ty), jstr(&t), extra)
    };
    let bytes = match g.bincode {
        Ok(b) => b,
        Err(e) => {
            let desc = desc_of(&format!(", \"bincode_error\": {}", jstr(&e)));
            ctx.rf(o.zoo, id, O_REFUSED, &tagrefs, &format!("bincode::serialize refused the value: {}", e), &desc);
            ctx.out.rust_eval(&desc, None);
            return;
        }
    };
    let desc = desc_of(&format!(", \"bincode_len\": {}", bytes.len()));
    let mut tree2: Option<Val> = None;
    match g.restored_ok {
        Err(p) => ctx.rf(o.zoo, id, O_PANIC, &tagrefs, &format!("bincode::deserialize panicked: {}", p), &desc),
        Ok(Err(e)) => ctx.rf(o.zoo, id, O_DESER, &tagrefs, &format!("bincode::deserialize failed: {}", e), &desc),
        Ok(Ok(())) => {
            match g.tree2 {
                Some(Ok(t)) => tree2 = Some(t),
                Some(Err(e)) => ctx.rf(o.zoo, id, O_BEHAV, &tagrefs, &format!("restored value cannot be recorded: {}", e), &desc),
                None => {}
            }
            // observations that are not even reproducible on the original (e.g. the parallel k-means|| initialiser)
            // cannot witness a difference: they are masked out and counted
            let (mut o0, o0b, mut o1) = (g.obs0, g.obs0b, g.obs1.unwrap_or_else(|| Ok(vec![])));
            let mut masked: Vec<usize> = vec![];
            if let (Ok(a), Ok(a2), Ok(b)) = (&mut o0, &o0b, &mut o1) {
                if a.len() == a2.len() && a.len() == b.len() {
                    for i in 0..a.len() {
                        if strip_layout(&a[i]) != strip_layout(&a2[i]) { a[i] = "<not reproducible>".into(); b[i] = "<not reproducible>".into(); masked.push(i); ctx.out.bump("observation_not_reproducible_on_original"); }
                    }
                }
            }
            // second generation (restored -> serialised again -> restored again) against the ORIGINAL
            match g.gen2 {
                None => {}
                Some(Err(e)) => ctx.rf(o.zoo, id, O_HISTORY | O_DESER, &tagrefs, &format!("the bytes of the restored value cannot be read back (second round trip): {}", e), &desc),
                Some(Ok((t3, o2, eq2))) => {
                    match t3 {
                        Ok(t3) => { let un: Vec<&str> = o.unordered.clone(); if let Some(d) = first_diff(&canon(&tree, &un), &canon(&t3, &un), "$") { ctx.rf(o.zoo, id, O_HISTORY, &tagrefs, &format!("after a second round trip the value serialises to a different tree: {}", d), &desc); } }
                        Err(e) => ctx.rf(o.zoo, id, O_HISTORY, &tagrefs, &format!("second-generation value cannot be recorded: {}", e), &desc),
                    }
                    match (&o0, o2) {
                        (Ok(a), Ok(mut b)) => { for &i in &masked { if i < b.len() { b[i] = "<not reproducible>".into(); } } if let Some(d) = diff_obs(a, &b) { ctx.rf(o.zoo, id, O_HISTORY, &tagrefs, &format!("behaviour differs after a second round trip: {}", d), &desc); } }
                        (Ok(_), Err(p)) => ctx.rf(o.zoo, id, O_HISTORY | O_PANIC, &tagrefs, &format!("second-generation value panics where the original does not: {}", p), &desc),
                        _ => {}
                    }
                    if eq2 == Some(false) { ctx.rf(o.zoo, id, O_HISTORY, &tagrefs, "second-generation value compares unequal (PartialEq) to the original", &desc); }
                }
            }
            match (o0, o1) {
                (Ok(a), Ok(b)) => if let Some(d) = diff_obs(&a, &b) { ctx.rf(o.zoo, id, O_BEHAV, &tagrefs, &format!("behaviour differs after the round trip: {}", d), &desc); },
                (Ok(_), Err(p)) => ctx.rf(o.zoo, id, O_BEHAV | O_PANIC, &tagrefs, &format!("restored value panics where the original does not: {}", p), &desc),
                (Err(_), Ok(_)) => ctx.rf(o.zoo, id, O_BEHAV, &tagrefs, "original panics where the restored value does not", &desc),
                (Err(a), Err(b)) => if a != b { ctx.rf(o.zoo, id, O_BEHAV, &tagrefs, &format!("different panics: `{}` vs `{}`", a, b), &desc); },
            }
            if g.eq == Some(false) { ctx.rf(o.zoo, id, O_BEHAV, &tagrefs, "restored value compares unequal (PartialEq) to the original", &desc); }
            // re-serialisation is byte-identical unless hash containers are involved
            if !has_map(&tree) && o.unordered.is_empty() {
                match g.reser {
                    Some(Ok(b2)) => if b2 != bytes { ctx.rf(o.zoo, id, O_BEHAV, &tagrefs, "re-serialising the restored value gives different bytes", &desc); },
                    Some(Err(e)) => ctx.rf(o.zoo, id, O_REFUSED, &tagrefs, &format!("restored value cannot be serialised again: {}", e), &desc),
                    None => {}
                }
            }
        }
    }
    // serde_json leg: the Rust-side verdict where every float is finite; the Coq case (model of the rendering and of the
    // reading back against serde_json's text and result) always
    let mut jcase: Option<(Val, Option<PJ>, Option<Val>)> = None;
    match g.json {
        None => ctx.json_na += 1,
        Some((tj, text, leg)) => {
            let finite = all_finite(&tj);
            let mut back: Option<Val> = None;
            match leg {
                Err(_) => ctx.json_na += 1,           // JSON cannot represent the value at all (e.g. non-string map keys)
                Ok(Ok(Ok(t))) => {
                    if finite {
                        let mut worst = 0i128;
                        let un: Vec<&str> = o.unordered.clone();
                        let ok = close(&canon(&tj, &un), &canon(&t, &un), JSON_ULPS, &mut worst);
                        if worst < 1 << 40 { ctx.json_worst = ctx.json_worst.max(worst); }
                        if ok { ctx.json_ok += 1; }
                        else { ctx.rf(o.zoo, id, O_JSON, &tagrefs, &format!("serde_json round trip changes the value by more than {} ulp or in structure (largest float distance {} ulp; first difference at {})", JSON_ULPS, worst, first_diff(&canon(&tj, &un), &canon(&t, &un), "$").unwrap_or_default()), &desc); }
                    }
                    back = Some(t);
                }
                Ok(Ok(Err(e))) => if finite { ctx.rf(o.zoo, id, O_JSON, &tagrefs, &format!("serde_json cannot read back what it wrote: {}", e), &desc) } else { ctx.out.bump("json_not_finite_not_read_back") },
                Ok(Err(p)) => ctx.rf(o.zoo, id, O_JSON | O_PANIC, &tagrefs, &format!("serde_json::from_str panicked: {}", p), &desc),
            }
            let parsed = match &text {
                Ok(t) => Some(pj_parse(t).unwrap_or_else(|e| panic!("the harness cannot read serde_json's text for {}: {} in `{}`", ty, e, t))),
                Err(_) => None,
            };
            jcase = Some((tj, parsed, back));
        }
    }
    if let Some((tj, parsed, back)) = jcase {
        let jid = JSON_ID + id;
        if ctx.out.wanted(jid) {
            let shape = shape_of(&tj).unwrap_or_else(|e| panic!("cannot infer a shape for {}: {}", ty, e));
            let mut c = String::new();
            let _ = write!(c, "JRound {}%N {} ", jid, coq_string(ty));
            coq_val(&tj, &mut c);
            c.push(' ');
            coq_sh(&shape, &mut c);
            match &parsed {
                Some(p) => { c.push_str(" (Some "); coq_pj(p, &mut c).unwrap_or_else(|e| panic!("{}", e)); c.push_str(") "); }
                None => c.push_str(" None "),
            }
            match &back { Some(t) => { c.push_str("(Some "); coq_val(t, &mut c); c.push(')'); } None => c.push_str("None") }
            c.push_str(" [");
            for (i, f) in o.unordered.iter().enumerate() { if i > 0 { c.push_str("; "); } c.push_str(&coq_string(f)); }
            c.push(']');
            let mut jt = tg.clone();
            jt.push("json".into());
            let jrefs: Vec<&str> = jt.iter().map(|s| s.as_str()).collect();
            let jdesc = desc_of(", \"format\": \"serde_json\"");
            let key = if count_leaves(&tj) > 0 { Some(fnv(jdesc.as_bytes()) ^ fnv(ty.as_bytes()) ^ 0x6a736f6e) } else { None };
            ctx.out.case(jid, &c, &jrefs, &jdesc, key);
            ctx.json_cases += 1;
        }
    }
    if !ctx.out.wanted(id) { return; }
    // the Coq case
    let shape = shape_of(&tree).unwrap_or_else(|e| panic!("cannot infer a shape for {}: {}", ty, e));
    let mut c = String::new();
    let _ = write!(c, "Round {}%N {} ", id, coq_string(ty));
    coq_val(&tree, &mut c);
    c.push(' ');
    coq_sh(&shape, &mut c);
    let _ = write!(c, " \"{}\" ", hex(&bytes));
    match &tree2 { Some(t) => { c.push_str("(Some "); coq_val(t, &mut c); c.push(')'); } None => c.push_str("None") }
    c.push_str(" [");
    for (i, f) in o.unordered.iter().enumerate() { if i > 0 { c.push_str("; "); } c.push_str(&coq_string(f)); }
    c.push(']');
    let key = if count_leaves(&tree) > 0 { Some(fnv(&bytes) ^ fnv(ty.as_bytes())) } else { None };
    ctx.out.case(id, &c, &tagrefs, &desc, key);
}

/// run `f` on a helper thread; None when it does not come back in time (the thread is left behind)
fn finishes_within<T: Send + 'static>(secs: u64, f: impl FnOnce() -> T + Send + 'static) -> Option<T> {
    let (tx, rx) = std::sync::mpsc::channel();
    std::thread::spawn(move || { let _ = tx.send(f()); });
    rx.recv_timeout(std::time::Duration::from_secs(secs)).ok()
}

// exact renderings for observations
fn fx<F: std::fmt::Debug>(x: F) -> String { format!("{:?}", x) }
fn a1<F: std::fmt::Debug>(a: &Array1<F>) -> String { a.iter().map(|x| format!("{:?}", x)).collect::<Vec<_>>().join(",") }
fn a2<F: std::fmt::Debug, S: ndarray::Data<Elem = F>>(a: &ndarray::ArrayBase<S, Ix2>) -> String {
    format!("{:?}:{}", a.dim(), a.iter().map(|x| format!("{:?}", x)).collect::<Vec<_>>().join(","))
}
fn an<F: std::fmt::Debug, S: ndarray::Data<Elem = F>, D: ndarray::Dimension>(a: &ndarray::ArrayBase<S, D>) -> String {
    format!("{:?}:{}", a.shape(), a.iter().map(|x| format!("{:?}", x)).collect::<Vec<_>>().join(","))
}
fn res<T, E: std::fmt::Display>(r: &Result<T, E>, f: impl Fn(&T) -> String) -> String {
    match r { Ok(x) => format!("Ok({})", f(x)), Err(e) => format!("Err({})", e) }
}

// ------------------------------------------------------------------------------------------------
// data
// ------------------------------------------------------------------------------------------------
struct Data { x: Array2<f64>, q: Array2<f64>, y: Array1<usize>, yb: Array1<bool>, yr: Array1<f64>, y2: Array2<f64> }
fn gen_data(rng: &mut Sm64, n: usize, d: usize, k: usize) -> Data {
    let centers: Vec<Vec<f64>> = (0..k).map(|_| (0..d).map(|_| rng.range(-6, 6) as f64 * 1.5).collect()).collect();
    let mut x = Array2::zeros((n, d));
    let mut y = Array1::zeros(n);
    for i in 0..n {
        let c = i % k;
        y[i] = c;
        for j in 0..d { x[(i, j)] = centers[c][j] + 0.8 * rng.gauss(); }
    }
    let nq = 5;
    let mut q = Array2::zeros((nq, d));
    for i in 0..nq {
        for j in 0..d {
            q[(i, j)] = match i { 0 => x[(rng.below(n as u64) as usize, j)], 1 => 0.0, _ => rng.range(-40, 40) as f64 * 0.25 + 0.1 * rng.gauss() };
        }
    }
    let w: Vec<f64> = (0..d).map(|_| rng.range(-3, 3) as f64 * 0.5 + 0.25).collect();
    let yr = Array1::from_iter((0..n).map(|i| (0..d).map(|j| w[j] * x[(i, j)]).sum::<f64>() + 0.3 * rng.gauss() + 1.0));
    let y2 = Array2::from_shape_fn((n, 2), |(i, t)| if t == 0 { yr[i] } else { x[(i, 0)] - 0.5 * yr[i] + 0.1 * rng.gauss() });
    let yb = y.mapv(|c| c % 2 == 0);
    Data { x, q, y, yb, yr, y2 }
}
const EXTREME: [f64; 6] = [-0.0, 5e-324, 2.2250738585072014e-308, 1.7976931348623157e308, f64::INFINITY, 1.0000000000000002];

// ------------------------------------------------------------------------------------------------
// sections, one per crate; `$F` is f32 or f64
// ------------------------------------------------------------------------------------------------
/// solver tolerances a float type can actually reach (an f32 L-BFGS line search asked for 1e-6 can spin for ever)
macro_rules! ftols { ($F:ty) => { if std::mem::size_of::<$F>() == 4 { [1e-3, 1e-4] } else { [1e-4, 1e-6] } }; }

macro_rules! sec_nn {
    ($F:ty, $ctx:expr, $r:expr) => {{
        use linfa_nn::{distance::*, BallTree, CommonNearestNeighbour, KdTree, LinearSearch, NearestNeighbour};
        let ctx: &mut Ctx = $ctx;
        let r: &mut Sm64 = $r;
        let d = gen_data(r, 14, 3, 2);
        let x = d.x.mapv(|v| v as $F);
        let q = d.q.mapv(|v| v as $F);
        let fl = stringify!($F);
        macro_rules! nn_case { ($name:expr, $v:expr) => {{
            let (x, q) = (x.clone(), q.clone());
            rt(ctx, $name, &$v, &tags(&[fl]), &move |a| {
                let idx = a.from_batch(&x, L2Dist).unwrap();
                q.rows().into_iter().map(|row| format!("{:?}|{:?}", idx.k_nearest(row, 3).unwrap().iter().map(|p| p.1).collect::<Vec<_>>(),
                    idx.within_range(row, 4.0 as $F).unwrap().iter().map(|p| p.1).collect::<Vec<_>>())).collect()
            }, None);
        }}; }
        nn_case!("LinearSearch", LinearSearch::new());
        nn_case!("KdTree", KdTree::new());
        nn_case!("BallTree", BallTree::new());
        for v in [CommonNearestNeighbour::LinearSearch, CommonNearestNeighbour::KdTree, CommonNearestNeighbour::BallTree] {
            nn_case!("CommonNearestNeighbour", v);
        }
        macro_rules! dist_case { ($name:expr, $v:expr) => {{
            let (x, q) = (x.clone(), q.clone());
            rt(ctx, $name, &$v, &tags(&[fl]), &move |a| {
                let mut o = vec![format!("{:?}", a)];
                for i in 0..q.nrows() { o.push(fx(Distance::<$F>::distance(a, x.row(i), q.row(i)))); o.push(fx(Distance::<$F>::rdistance(a, x.row(i), q.row(i)))); }
                o
            }, Some(&|a, b| a == b));
        }}; }
        dist_case!("L1Dist", L1Dist);
        dist_case!("L2Dist", L2Dist);
        dist_case!("LInfDist", LInfDist);
        for p in [1.0, 2.0, 3.5, 0.5, 1.0000001] { dist_case!(concat!("LpDist<", stringify!($F), ">"), LpDist(p as $F)); }
        for p in EXTREME { dist_case!(concat!("LpDist<", stringify!($F), ">"), LpDist(p as $F)); }
    }};
}

macro_rules! sec_kmeans {
    ($F:ty, $ctx:expr, $r:expr) => {{
        use linfa_clustering::{KMeans, KMeansInit, KMeansParams, KMeansValidParams};
        use linfa_nn::distance::*;
        let ctx: &mut Ctx = $ctx;
        let r: &mut Sm64 = $r;
        let fl = stringify!($F);
        let reps = if ctx.thorough { 6 } else { 2 };
        for rep in 0..reps {
            let k = 2 + r.below(3) as usize;
            let (n_, d_) = (12 + r.below(12) as usize, 2 + r.below(3) as usize);
            let d = gen_data(r, n_, d_, k);
            let x = d.x.mapv(|v| v as $F);
            let q = d.q.mapv(|v| v as $F);
            let ds = DatasetBase::from(x.clone());
            let seed = r.below(1 << 20);
            let inits: Vec<KMeansInit<$F>> = vec![KMeansInit::Random, KMeansInit::KMeansPlusPlus, KMeansInit::KMeansPara,
                KMeansInit::Precomputed(x.select(Axis(0), &(0..k).collect::<Vec<_>>()))];
            for init in inits.iter() {
                rt(ctx, concat!("KMeansInit<", stringify!($F), ">"), init, &tags(&[fl]), &|a| vec![format!("{:?}", a)], Some(&|a, b| a == b));
            }
            macro_rules! km { ($dist:expr, $dn:expr) => {{
                let init = inits[(rep + $dn.len()) % inits.len()].clone();
                let tol = *r.pick(&[1e-4, 1e-2, 1e-9, 1.0]) as $F;
                let params = KMeans::params_with(k, Xoshiro256Plus::seed_from_u64(seed), $dist)
                    .n_runs(1 + r.below(3) as usize).tolerance(tol).max_n_iterations(1 + r.below(8)).init_method(init);
                let dsc = ds.clone();
                let qc = q.clone();
                let pobs = move |p: &KMeansParams<$F, Xoshiro256Plus, _>| {
                    let mut o = vec![format!("{:?}", p)];
                    o.push(res(&p.check_ref(), |c| format!("{:?}", c)));
                    if !matches!(p.check_ref().map(|c| c.init_method().clone()), Ok(KMeansInit::KMeansPara)) {
                        o.push(res(&p.fit(&dsc), |m| format!("{:?}|{}|{}", m, a1(&m.predict(&qc)), a1(&m.transform(&qc)))));
                    }
                    o
                };
                rt(ctx, &format!("KMeansParams<{},Xoshiro256Plus,{}>", fl, $dn), &params, &tags(&[fl, "params"]), &pobs, Some(&|a, b| a == b));
                // an invalid parameter set must be rejected identically after the round trip
                let bad = KMeans::params_with(k, Xoshiro256Plus::seed_from_u64(seed), $dist).n_runs(0).tolerance(-1.0 as $F);
                rt(ctx, &format!("KMeansParams<{},Xoshiro256Plus,{}>", fl, $dn), &bad, &tags(&[fl, "params", "invalid"]), &pobs, Some(&|a, b| a == b));
                let valid: KMeansValidParams<$F, Xoshiro256Plus, _> = params.clone().check().unwrap_or_else(|e| panic!("kmeans params: {}", e));
                let dsc2 = ds.clone();
                rt(ctx, &format!("KMeansValidParams<{},Xoshiro256Plus,{}>", fl, $dn), &valid, &tags(&[fl, "params"]), &move |p| {
                    vec![format!("{:?}", p), format!("{:?} {:?} {:?} {:?} {:?} {:?} {:?}", p.n_runs(), p.tolerance(), p.max_n_iterations(), p.n_clusters(), p.init_method(), p.rng(), p.dist_fn()),
                         if matches!(p.init_method(), KMeansInit::KMeansPara) { String::new() } else { res(&p.fit(&dsc2), |m| format!("{:?}", m)) }]
                }, Some(&|a, b| a == b));
                if let Ok(model) = params.fit(&ds) {
                    let qc = q.clone();
                    rt(ctx, &format!("KMeans<{},{}>", fl, $dn), &model, &tags(&[fl, "fitted"]), &move |m| {
                        vec![format!("{:?}", m), a2(m.centroids()), a1(m.cluster_count()), fx(m.inertia()), a1(&m.predict(&qc)), a1(&m.transform(&qc))]
                    }, Some(&|a, b| a == b));
                }
            }}; }
            km!(L2Dist, "L2Dist");
            km!(L1Dist, "L1Dist");
            if rep % 2 == 0 { km!(LInfDist, "LInfDist"); } else { km!(LpDist(3.0 as $F), "LpDist"); }
        }
    }};
}

macro_rules! sec_density {
    ($F:ty, $ctx:expr, $r:expr) => {{
        use linfa_clustering::{Dbscan, Optics};
        use linfa_nn::{distance::*, BallTree, CommonNearestNeighbour, KdTree, LinearSearch};
        let ctx: &mut Ctx = $ctx;
        let r: &mut Sm64 = $r;
        let fl = stringify!($F);
        rt(ctx, "Dbscan", &Dbscan, &tags(&[fl]), &|a| vec![format!("{:?}", a)], Some(&|a, b| a == b));
        rt(ctx, "Optics", &Optics, &tags(&[fl]), &|a| vec![format!("{:?}", a)], Some(&|a, b| a == b));
        let reps = if ctx.thorough { 5 } else { 2 };
        for rep in 0..reps {
            let d = gen_data(r, 18 + 4 * rep, 2, 3);
            let x = d.x.mapv(|v| v as $F);
            let mp = 2 + r.below(3) as usize;
            let tol = *r.pick(&[0.9, 1.7, 2.5, 4.0]) as $F;
            macro_rules! db { ($p:expr, $name:expr) => {{
                let valid = $p.check().unwrap_or_else(|e| panic!("dbscan params: {}", e));
                let xc = x.clone();
                rt(ctx, $name, &valid, &tags(&[fl, "params"]), &move |p| {
                    vec![format!("{:?}", p), format!("{:?} {:?} {:?} {:?}", p.tolerance(), p.minimum_points(), p.dist_fn(), p.nn_algo()), format!("{:?}", p.transform(&xc))]
                }, Some(&|a, b| a == b));
            }}; }
            db!(Dbscan::params::<$F>(mp).tolerance(tol), &format!("DbscanValidParams<{},L2Dist,CommonNearestNeighbour>", fl));
            db!(Dbscan::params_with::<$F, _, _>(mp, L1Dist, KdTree).tolerance(tol), &format!("DbscanValidParams<{},L1Dist,KdTree>", fl));
            db!(Dbscan::params_with::<$F, _, _>(mp, LpDist(2.5 as $F), BallTree).tolerance(tol), &format!("DbscanValidParams<{},LpDist,BallTree>", fl));
            db!(Dbscan::params_with::<$F, _, _>(mp, LInfDist, LinearSearch).tolerance(tol), &format!("DbscanValidParams<{},LInfDist,LinearSearch>", fl));
            macro_rules! op { ($p:expr, $name:expr) => {{
                let params = $p;
                let xc = x.clone();
                rt(ctx, &format!("OpticsParams<{}>", $name), &params, &tags(&[fl, "params"]), &move |p| {
                    vec![format!("{:?}", p), res(&p.check_ref(), |c| format!("{:?}", c)), res(&p.transform(xc.view()), |a| format!("{:?}", a))]
                }, Some(&|a, b| a == b));
                if let Ok(valid) = params.clone().check() {
                    let xc = x.clone();
                    rt(ctx, &format!("OpticsValidParams<{}>", $name), &valid, &tags(&[fl, "params"]), &move |p| {
                        vec![format!("{:?}", p), format!("{:?} {:?} {:?} {:?}", p.tolerance(), p.minimum_points(), p.dist_fn(), p.nn_algo()), format!("{:?}", p.transform(xc.view()))]
                    }, Some(&|a, b| a == b));
                    let analysis = valid.transform(x.view());
                    rt(ctx, &format!("OpticsAnalysis<{}>", fl), &analysis, &tags(&[fl, "fitted"]), &|a| {
                        let mut o = vec![format!("{:?}", a)];
                        for s in a.iter() { o.push(format!("{} {:?} {:?}", s.index(), s.reachability_distance(), s.core_distance())); }
                        o
                    }, Some(&|a, b| a == b));
                    for s in analysis.as_slice().iter().take(3) {
                        rt(ctx, &format!("Sample<{}>", fl), s, &tags(&[fl, "fitted"]), &|a| vec![format!("{:?}", a), format!("{} {:?} {:?}", a.index(), a.reachability_distance(), a.core_distance())], Some(&|a, b| a == b));
                    }
                }
            }}; }
            op!(Optics::params::<$F>(mp), format!("{},L2Dist,CommonNearestNeighbour", fl));
            op!(Optics::params::<$F>(mp).tolerance(tol * (2.0 as $F)), format!("{},L2Dist,CommonNearestNeighbour", fl));
            op!(Optics::params_with::<$F, _, _>(mp, L1Dist, KdTree).tolerance(tol * (3.0 as $F)), format!("{},L1Dist,KdTree", fl));
            op!(Optics::params_with::<$F, _, _>(mp, LInfDist, LinearSearch).tolerance(tol), format!("{},LInfDist,LinearSearch", fl));
            op!(Optics::params::<$F>(1).tolerance(-1.0 as $F), format!("{},L2Dist,CommonNearestNeighbour", fl));
        }
    }};
}

macro_rules! sec_gmm {
    ($F:ty, $ctx:expr, $r:expr) => {{
        use linfa_clustering::{GaussianMixtureModel, GmmCovarType, GmmInitMethod};
        let ctx: &mut Ctx = $ctx;
        let r: &mut Sm64 = $r;
        let fl = stringify!($F);
        rt(ctx, "GmmCovarType", &GmmCovarType::Full, &tags(&[fl]), &|a| vec![format!("{:?}", a)], Some(&|a, b| a == b));
        for m in [GmmInitMethod::KMeans, GmmInitMethod::Random] {
            rt(ctx, "GmmInitMethod", &m, &tags(&[fl]), &|a| vec![format!("{:?}", a)], Some(&|a, b| a == b));
        }
        let reps = if ctx.thorough { 5 } else { 2 };
        for rep in 0..reps {
            let k = 2 + rep % 2;
            let d = gen_data(r, 30 + 6 * rep, 2 + rep % 2, k);
            let x = d.x.mapv(|v| v as $F);
            let q = d.q.mapv(|v| v as $F);
            let ds = DatasetBase::from(x.clone());
            let params = GaussianMixtureModel::<$F>::params_with_rng(k, Xoshiro256Plus::seed_from_u64(r.below(1 << 30)))
                .tolerance(*r.pick(&[1e-3, 1e-2, 1e-5]) as $F).reg_covariance(*r.pick(&[1e-6, 1e-3]) as $F)
                .n_runs(1 + r.below(3)).max_n_iterations(5 + r.below(30))
                .init_method(if rep % 2 == 0 { GmmInitMethod::KMeans } else { GmmInitMethod::Random });
            let dsc = ds.clone();
            let qc = q.clone();
            let pobs = move |p: &linfa_clustering::GmmParams<$F, Xoshiro256Plus>| {
                vec![format!("{:?}", p), res(&p.check_ref(), |c| format!("{:?}", c)),
                     res(&p.fit(&dsc), |m| format!("{:?}|{}|{}", m, a1(&m.predict(&qc)), a2(&m.predict_proba(&qc))))]
            };
            rt(ctx, &format!("GmmParams<{},Xoshiro256Plus>", fl), &params, &tags(&[fl, "params"]), &pobs, Some(&|a, b| a == b));
            let bad = GaussianMixtureModel::<$F>::params_with_rng(0, Xoshiro256Plus::seed_from_u64(3)).tolerance(-1.0 as $F);
            rt(ctx, &format!("GmmParams<{},Xoshiro256Plus>", fl), &bad, &tags(&[fl, "params", "invalid"]), &pobs, Some(&|a, b| a == b));
            if let Ok(valid) = params.clone().check() {
                let dsc = ds.clone();
                rt(ctx, &format!("GmmValidParams<{},Xoshiro256Plus>", fl), &valid, &tags(&[fl, "params"]), &move |p| {
                    vec![format!("{:?}", p), format!("{:?} {:?} {:?} {:?} {:?} {:?} {:?} {:?}", p.n_clusters(), p.covariance_type(), p.tolerance(), p.reg_covariance(), p.n_runs(), p.max_n_iterations(), p.init_method(), p.rng()),
                         res(&p.fit(&dsc), |m| format!("{:?}", m))]
                }, Some(&|a, b| a == b));
            }
            if let Ok(model) = params.fit(&ds) {
                let qc = q.clone();
                rt(ctx, &format!("GaussianMixtureModel<{}>", fl), &model, &tags(&[fl, "fitted"]), &move |m| {
                    vec![format!("{:?}", m), a1(m.weights()), a2(m.means()), an(m.covariances()), an(m.precisions()), a2(m.centroids()), a1(&m.predict(&qc)), a2(&m.predict_proba(&qc))]
                }, Some(&|a, b| a == b));
            }
        }
    }};
}

macro_rules! sec_linear {
    ($F:ty, $ctx:expr, $r:expr) => {{
        use linfa_linear::{IsotonicRegression, LinearRegression, Link, TweedieRegressor};
        let ctx: &mut Ctx = $ctx;
        let r: &mut Sm64 = $r;
        let fl = stringify!($F);
        for l in [Link::Identity, Link::Log, Link::Logit] {
            rt(ctx, "Link", &l, &tags(&[fl]), &|a| vec![format!("{:?}", a)], Some(&|a, b| a == b));
        }
        let reps = if ctx.thorough { 5 } else { 2 };
        for rep in 0..reps {
            let d = gen_data(r, 16 + 5 * rep, 2 + rep % 3, 2);
            let x = d.x.mapv(|v| v as $F);
            let q = d.q.mapv(|v| v as $F);
            let y = d.yr.mapv(|v| v as $F);
            let ds = Dataset::new(x.clone(), y.clone());
            for icpt in [true, false] {
                let lr = LinearRegression::new().with_intercept(icpt);
                let dsc = ds.clone();
                rt(ctx, "LinearRegression", &lr, &tags(&[fl, "params"]), &move |p| vec![format!("{:?}", p), res(&p.fit(&dsc), |m| format!("{:?}", m))], Some(&|a, b| a == b));
                if let Ok(m) = lr.fit(&ds) {
                    let qc = q.clone();
                    rt(ctx, &format!("FittedLinearRegression<{}>", fl), &m, &tags(&[fl, "fitted"]), &move |m| vec![format!("{:?}", m), a1(m.params()), fx(m.intercept()), a1(&m.predict(&qc))], Some(&|a, b| a == b));
                }
            }
            // isotonic regression: one feature
            let x1 = x.slice(ndarray::s![.., 0..1]).to_owned();
            let ds1 = Dataset::new(x1.clone(), y.clone());
            let iso = IsotonicRegression::new();
            let dsc = ds1.clone();
            rt(ctx, "IsotonicRegression", &iso, &tags(&[fl, "params"]), &move |p| vec![format!("{:?}", p), res(&p.fit(&dsc), |m| format!("{:?}", m))], Some(&|a, b| a == b));
            if let Ok(m) = iso.fit(&ds1) {
                let q1 = q.slice(ndarray::s![.., 0..1]).to_owned();
                rt(ctx, &format!("FittedIsotonicRegression<{}>", fl), &m, &tags(&[fl, "fitted"]), &move |m| vec![format!("{:?}", m), a1(&m.predict(&q1)), a1(&m.predict(&x1))], Some(&|a, b| a == b));
            }
            // Tweedie: two fixed, well-conditioned settings first (normal/identity and gamma/log), then a random one
            let yp = y.mapv(|v| v.abs() + (0.5 as $F));
            let dsp = Dataset::new(x.clone(), yp);
            let power = *r.pick(&[0.0, 1.0, 1.5, 2.0, 3.0]) as $F;
            let mut tp = TweedieRegressor::<$F>::params().alpha(*r.pick(&[0.0, 0.1, 1.0]) as $F).power(power)
                .max_iter(20 + r.below(80) as usize).tol(*r.pick(&ftols!($F)) as $F).fit_intercept(rep % 2 == 0);
            if r.chance(0.5) { tp = tp.link(if power == 0.0 { Link::Identity } else { Link::Log }); }
            let anchors = vec![
                TweedieRegressor::<$F>::params().alpha(0.1 as $F).power(0.0 as $F).link(Link::Identity).max_iter(100).tol(ftols!($F)[0] as $F),
                TweedieRegressor::<$F>::params().alpha(0.5 as $F).power(2.0 as $F).link(Link::Log).max_iter(100).tol(ftols!($F)[0] as $F),
                tp,
            ];
            for tp in anchors {
            if std::env::var("VERIF_C19_DEBUG").is_ok() { eprintln!("tweedie {} rep {} power {:?} params {:?}", fl, rep, power, tp); }
            if let Ok(valid) = tp.check() {
                // the f32 L-BFGS line search of the GLM can spin for ever on some settings (seen: power 3, log link):
                // such a parameter set cannot be observed, it is skipped and counted
                let probe = { let (v, d) = (valid.clone(), dsp.clone()); finishes_within(5, move || v.fit(&d).is_ok()) };
                if probe.is_none() { ctx.out.bump("tweedie_fit_did_not_terminate_skipped"); continue; }
                let dsc = dsp.clone();
                rt(ctx, &format!("TweedieRegressorValidParams<{}>", fl), &valid, &tags(&[fl, "params"]), &move |p| {
                    vec![format!("{:?}", p), format!("{:?} {:?} {:?} {:?} {:?} {:?}", p.alpha(), p.fit_intercept(), p.power(), p.link(), p.max_iter(), p.tol()), res(&p.fit(&dsc), |m| format!("{:?}", m))]
                }, Some(&|a, b| a == b));
                if let Ok(m) = valid.fit(&dsp) {
                    let qc = q.clone();
                    rt(ctx, &format!("TweedieRegressor<{}>", fl), &m, &tags(&[fl, "fitted"]), &move |m| vec![format!("{:?}", m), a1(&m.coef), fx(m.intercept), a1(&m.predict(&qc))], Some(&|a, b| a == b));
                }
            }
            }
        }
    }};
}

macro_rules! sec_elasticnet {
    ($F:ty, $ctx:expr, $r:expr) => {{
        use linfa_elasticnet::{ElasticNet, MultiTaskElasticNet};
        let ctx: &mut Ctx = $ctx;
        let r: &mut Sm64 = $r;
        let fl = stringify!($F);
        let reps = if ctx.thorough { 6 } else { 3 };
        for rep in 0..reps {
            // rep 2: fewer samples than features, so that the stored variance is an Err(...)
            let (n, dd) = if rep == 2 { (3, 4) } else { (14 + 4 * rep, 2 + rep % 3) };
            let d = gen_data(r, n, dd, 2);
            let x = d.x.mapv(|v| v as $F);
            let q = d.q.mapv(|v| v as $F);
            let ds = Dataset::new(x.clone(), d.yr.mapv(|v| v as $F));
            let ds2 = Dataset::new(x.clone(), d.y2.mapv(|v| v as $F));
            let pen = *r.pick(&[0.0, 0.05, 0.3, 1.0]) as $F;
            let l1 = *r.pick(&[0.0, 0.5, 1.0, 0.25]) as $F;
            let icpt = rep % 2 == 0;
            let tol = *r.pick(&ftols!($F)) as $F;
            if let Ok(valid) = ElasticNet::<$F>::params().penalty(pen).l1_ratio(l1).with_intercept(icpt).tolerance(tol).max_iterations(50 + r.below(500) as u32).check() {
                let dsc = ds.clone();
                rt(ctx, &format!("ElasticNetValidParamsBase<{},false>", fl), &valid, &tags(&[fl, "params"]), &move |p| {
                    vec![format!("{:?}", p), format!("{:?} {:?} {:?} {:?} {:?}", p.penalty(), p.l1_ratio(), p.with_intercept(), p.max_iterations(), p.tolerance()), res(&p.fit(&dsc), |m| format!("{:?}", m))]
                }, Some(&|a, b| a == b));
                if let Ok(m) = valid.fit(&ds) {
                    let qc = q.clone();
                    let varerr = match guarded(AssertUnwindSafe(|| m.z_score().is_err())) { Ok(true) => "variance_err", Ok(false) => "variance_ok", Err(_) => "z_score_panics" };
                    rt(ctx, &format!("ElasticNet<{}>", fl), &m, &tags(&[fl, "fitted", varerr]), &move |m| {
                        vec![format!("{:?}", m), a1(m.hyperplane()), fx(m.intercept()), fx(m.duality_gap()), fx(m.n_steps()), res(&m.z_score(), |z| a1(z)), res(&m.confidence_95th(), |z| a1(z)), a1(&m.predict(&qc))]
                    }, None);
                }
            }
            if let Ok(valid) = MultiTaskElasticNet::<$F>::params().penalty(pen).l1_ratio(l1).with_intercept(icpt).tolerance(tol).max_iterations(50 + r.below(500) as u32).check() {
                let dsc = ds2.clone();
                rt(ctx, &format!("ElasticNetValidParamsBase<{},true>", fl), &valid, &tags(&[fl, "params"]), &move |p| {
                    vec![format!("{:?}", p), format!("{:?} {:?} {:?} {:?} {:?}", p.penalty(), p.l1_ratio(), p.with_intercept(), p.max_iterations(), p.tolerance()), res(&p.fit(&dsc), |m| format!("{:?}", m))]
                }, Some(&|a, b| a == b));
                if let Ok(m) = valid.fit(&ds2) {
                    let qc = q.clone();
                    let varerr = match guarded(AssertUnwindSafe(|| m.z_score().is_err())) { Ok(true) => "variance_err", Ok(false) => "variance_ok", Err(_) => "z_score_panics" };
                    rt(ctx, &format!("MultiTaskElasticNet<{}>", fl), &m, &tags(&[fl, "fitted", varerr]), &move |m| {
                        vec![format!("{:?}", m), a2(m.hyperplane()), a1(m.intercept()), fx(m.duality_gap()), fx(m.n_steps()), res(&m.z_score(), |z| a2(z)), res(&m.confidence_95th(), |z| a2(z)), a2(&m.predict(&qc))]
                    }, None);
                }
            }
        }
    }};
}

macro_rules! sec_logistic {
    ($F:ty, $ctx:expr, $r:expr) => {{
        use linfa_logistic::{LogisticRegression, MultiLogisticRegression};
        let ctx: &mut Ctx = $ctx;
        let r: &mut Sm64 = $r;
        let fl = stringify!($F);
        let reps = if ctx.thorough { 5 } else { 2 };
        for rep in 0..reps {
            let dd = 2 + rep % 2;
            let d = gen_data(r, 24 + 6 * rep, dd, 3);
            // overlap the classes so that the solver converges to a finite point
            let x = d.x.mapv(|v| (v * 0.15) as $F);
            let q = d.q.mapv(|v| (v * 0.15) as $F);
            let icpt = rep % 2 == 0;
            let alpha = *r.pick(&[1.0, 0.3, 3.0]) as $F;
            // binary, three label types
            macro_rules! bin { ($labels:expr, $lt:expr) => {{
                let ds = Dataset::new(x.clone(), $labels);
                let mut p = LogisticRegression::<$F>::default().alpha(alpha).with_intercept(icpt).max_iterations(30 + r.below(100)).gradient_tolerance(*r.pick(&[1e-4, 1e-3]) as $F);
                if rep % 2 == 1 { p = p.initial_params(Array1::from_elem(dd + icpt as usize, 0.05 as $F)); }
                let dsc = ds.clone();
                rt(ctx, &format!("LogisticRegressionParams<{},Ix1>", fl), &p, &tags(&[fl, "params", $lt]), &move |p| {
                    vec![format!("{:?}", p), res(&p.check_ref(), |c| format!("{:?}", c)), res(&p.fit(&dsc), |m| format!("{:?}", m))]
                }, Some(&|a, b| a == b));
                if let Ok(valid) = p.clone().check() {
                    let dsc = ds.clone();
                    rt(ctx, &format!("LogisticRegressionValidParams<{},Ix1>", fl), &valid, &tags(&[fl, "params", $lt]), &move |p| vec![format!("{:?}", p), res(&p.fit(&dsc), |m| format!("{:?}", m))], Some(&|a, b| a == b));
                }
                if let Ok(m) = p.fit(&ds) {
                    let m = if rep % 2 == 0 { m } else { m.set_threshold(0.3 as $F) };
                    let qc = q.clone();
                    rt(ctx, &format!("FittedLogisticRegression<{},{}>", fl, $lt), &m, &tags(&[fl, "fitted", $lt]), &move |m| {
                        vec![format!("{:?}", m), a1(m.params()), fx(m.intercept()), format!("{:?}", m.labels()), a1(&m.predict_probabilities(&qc)), a1(&m.predict(&qc))]
                    }, Some(&|a, b| a == b));
                    rt(ctx, &format!("BinaryClassLabels<{},{}>", fl, $lt), m.labels(), &tags(&[fl, "fitted", $lt]), &|l| vec![format!("{:?}", l)], Some(&|a, b| a == b));
                    rt(ctx, &format!("ClassLabel<{},{}>", fl, $lt), &m.labels().pos, &tags(&[fl, "fitted", $lt]), &|l| vec![format!("{:?}", l)], Some(&|a, b| a == b));
                }
            }}; }
            bin!(d.y.mapv(|c| c % 2), "usize");
            bin!(d.y.mapv(|c| c % 2 == 0), "bool");
            bin!(d.y.mapv(|c| if c % 2 == 0 { "even".to_string() } else { "odd \"q\" é".to_string() }), "String");
            // multinomial
            let ds = Dataset::new(x.clone(), d.y.clone());
            let mut p = MultiLogisticRegression::<$F>::default().alpha(alpha).with_intercept(icpt).max_iterations(30 + r.below(100));
            if rep % 2 == 1 { p = p.initial_params(Array2::from_elem((dd + icpt as usize, 3), 0.01 as $F)); }
            let dsc = ds.clone();
            rt(ctx, &format!("LogisticRegressionParams<{},Ix2>", fl), &p, &tags(&[fl, "params"]), &move |p| {
                vec![format!("{:?}", p), res(&p.check_ref(), |c| format!("{:?}", c)), res(&p.fit(&dsc), |m| format!("{:?}", m))]
            }, Some(&|a, b| a == b));
            let bad = MultiLogisticRegression::<$F>::default().alpha(-1.0 as $F).gradient_tolerance(0.0 as $F);
            let dsc = ds.clone();
            rt(ctx, &format!("LogisticRegressionParams<{},Ix2>", fl), &bad, &tags(&[fl, "params", "invalid"]), &move |p| {
                vec![format!("{:?}", p), res(&p.check_ref(), |c| format!("{:?}", c)), res(&p.fit(&dsc), |m| format!("{:?}", m))]
            }, Some(&|a, b| a == b));
            if let Ok(valid) = p.clone().check() {
                let dsc = ds.clone();
                rt(ctx, &format!("LogisticRegressionValidParams<{},Ix2>", fl), &valid, &tags(&[fl, "params"]), &move |p| vec![format!("{:?}", p), res(&p.fit(&dsc), |m| format!("{:?}", m))], Some(&|a, b| a == b));
            }
            if let Ok(m) = p.fit(&ds) {
                let qc = q.clone();
                rt(ctx, &format!("MultiFittedLogisticRegression<{},usize>", fl), &m, &tags(&[fl, "fitted"]), &move |m| {
                    vec![format!("{:?}", m), a2(m.params()), a1(m.intercept()), format!("{:?}", m.classes()), a2(&m.predict_probabilities(&qc)), a1(&m.predict(&qc))]
                }, Some(&|a, b| a == b));
            }
        }
    }};
}

macro_rules! sec_svm {
    ($F:ty, $ctx:expr, $r:expr) => {{
        use linfa_kernel::KernelMethod;
        use linfa_svm::{ExitReason, SeparatingHyperplane, Svm};
        let ctx: &mut Ctx = $ctx;
        let r: &mut Sm64 = $r;
        let fl = stringify!($F);
        for e in [ExitReason::ReachedThreshold, ExitReason::ReachedIterations] {
            rt(ctx, "ExitReason", &e, &tags(&[fl]), &|a| vec![format!("{:?}", a)], Some(&|a, b| a == b));
        }
        for m in [KernelMethod::Gaussian(0.5 as $F), KernelMethod::Linear, KernelMethod::Polynomial(1.0 as $F, 3.0 as $F), KernelMethod::Gaussian(-0.0 as $F), KernelMethod::Polynomial(<$F>::MAX, <$F>::MIN_POSITIVE)] {
            rt(ctx, &format!("KernelMethod<{}>", fl), &m, &tags(&[fl]), &|a| vec![format!("{:?}", a), fx(a.distance(ndarray::aview1(&[1.0 as $F, 2.0 as $F]), ndarray::aview1(&[0.5 as $F, -1.0 as $F]))), fx(a.is_linear())], Some(&|a, b| a == b));
        }
        let reps = if ctx.thorough { 4 } else { 2 };
        for rep in 0..reps {
            let d = gen_data(r, 20 + 6 * rep, 2, 2);
            let x = d.x.mapv(|v| (v * 0.4) as $F);
            let q = d.q.mapv(|v| (v * 0.4) as $F);
            let dsb = Dataset::new(x.clone(), d.yb.clone());
            let dsr = Dataset::new(x.clone(), d.yr.mapv(|v| v as $F));
            macro_rules! obs_svm { ($q:expr) => {{ let qc = $q.clone(); move |m: &Svm<$F, _>| {
                let mut o = vec![format!("{:?}", m), format!("{}", m), format!("{:?} {:?} {}", m.alpha, m.rho, m.nsupport())];
                for row in qc.rows() { o.push(fx(m.weighted_sum(&row))); }
                o
            } }}; }
            // classification, linear and Gaussian kernels
            for kern in 0..3 {
                let p = Svm::<$F, bool>::params().pos_neg_weights(*r.pick(&[1.0, 10.0, 0.5]) as $F, *r.pick(&[1.0, 3.0]) as $F);
                let p = match kern { 0 => p.linear_kernel(), 1 => p.gaussian_kernel(*r.pick(&[0.5, 2.0, 8.0]) as $F), _ => p.polynomial_kernel(1.0 as $F, 2.0 as $F) };
                if let Ok(m) = p.fit(&dsb) {
                    let qc = q.clone();
                    let base = obs_svm!(q);
                    rt(ctx, &format!("Svm<{},bool>", fl), &m, &tags(&[fl, "fitted"]), &move |m| { let mut o = base(m); o.push(a1(&m.predict(&qc))); o }, Some(&|a, b| a == b));
                }
            }
            // probability outputs (Platt coefficients stored in the model)
            {
                let p = Svm::<$F, Pr>::params().pos_neg_weights(2.0 as $F, 2.0 as $F).gaussian_kernel(1.5 as $F);
                let fitted: Result<Svm<$F, Pr>, _> = p.fit(&dsb);
                if let Ok(m) = fitted {
                    let qc = q.clone();
                    let base = obs_svm!(q);
                    rt(ctx, &format!("Svm<{},Pr>", fl), &m, &tags(&[fl, "fitted"]), &move |m| { let mut o = base(m); o.push(a1(&m.predict(&qc))); o }, Some(&|a, b| a == b));
                }
            }
            // regression
            for kern in 0..2 {
                let p = Svm::<$F, $F>::params();
                let p = if rep % 2 == 0 { p.c_svr(*r.pick(&[1.0, 10.0]) as $F, Some(0.1 as $F)) } else { p.nu_svr(0.5 as $F, Some(3.0 as $F)) };
                let p = if kern == 0 { p.linear_kernel() } else { p.gaussian_kernel(4.0 as $F) };
                if let Ok(m) = p.fit(&dsr) {
                    let qc = q.clone();
                    let base = obs_svm!(q);
                    rt(ctx, &format!("Svm<{},{}>", fl, fl), &m, &tags(&[fl, "fitted"]), &move |m| { let mut o = base(m); o.push(a1(&m.predict(&qc))); o }, Some(&|a, b| a == b));
                }
            }
            let hp = if rep % 2 == 0 { SeparatingHyperplane::Linear(x.row(0).to_owned()) } else { SeparatingHyperplane::WeightedCombination(x.clone()) };
            rt(ctx, &format!("SeparatingHyperplane<{}>", fl), &hp, &tags(&[fl]), &|a| vec![format!("{:?}", a)], Some(&|a, b| a == b));
        }
    }};
}

macro_rules! sec_trees {
    ($F:ty, $ctx:expr, $r:expr) => {{
        use linfa_trees::{DecisionTree, SplitQuality};
        let ctx: &mut Ctx = $ctx;
        let r: &mut Sm64 = $r;
        let fl = stringify!($F);
        for s in [SplitQuality::Gini, SplitQuality::Entropy] {
            rt(ctx, "SplitQuality", &s, &tags(&[fl]), &|a| vec![format!("{:?}", a)], Some(&|a, b| a == b));
        }
        let reps = if ctx.thorough { 6 } else { 3 };
        for rep in 0..reps {
            let d = gen_data(r, 20 + 10 * rep, 2 + rep % 3, 2 + rep % 2);
            // overlapping classes: deeper trees
            let x = d.x.mapv(|v| (v * 0.3) as $F);
            let q = d.q.mapv(|v| (v * 0.3) as $F);
            let ds = Dataset::new(x.clone(), d.y.clone()).with_feature_names((0..x.ncols()).map(|i| format!("feat \"{}\"", i)).collect::<Vec<_>>());
            let p = DecisionTree::<$F, usize>::params().split_quality(if rep % 2 == 0 { SplitQuality::Gini } else { SplitQuality::Entropy })
                .max_depth(if rep % 3 == 0 { None } else { Some(1 + r.below(5) as usize) }).min_weight_split(*r.pick(&[2.0, 4.0]) as f32)
                .min_weight_leaf(*r.pick(&[1.0, 2.0]) as f32).min_impurity_decrease(*r.pick(&[1e-5, 1e-2]) as $F);
            let dsc = ds.clone();
            let qc = q.clone();
            let pobs = move |p: &linfa_trees::DecisionTreeParams<$F, usize>| {
                vec![format!("{:?}", p), res(&p.check_ref(), |c| format!("{:?}", c)), res(&p.fit(&dsc), |m| format!("{:?}|{}", m, a1(&m.predict(&qc))))]
            };
            rt(ctx, &format!("DecisionTreeParams<{},usize>", fl), &p, &tags(&[fl, "params"]), &pobs, Some(&|a, b| a == b));
            let bad = DecisionTree::<$F, usize>::params().min_impurity_decrease(0.0 as $F).max_depth(Some(0));
            rt(ctx, &format!("DecisionTreeParams<{},usize>", fl), &bad, &tags(&[fl, "params", "invalid"]), &pobs, Some(&|a, b| a == b));
            if let Ok(valid) = p.clone().check() {
                let dsc = ds.clone();
                rt(ctx, &format!("DecisionTreeValidParams<{},usize>", fl), &valid, &tags(&[fl, "params"]), &move |p| {
                    vec![format!("{:?}", p), format!("{:?} {:?} {:?} {:?} {:?}", p.split_quality(), p.max_depth(), p.min_weight_split(), p.min_weight_leaf(), p.min_impurity_decrease()), res(&p.fit(&dsc), |m| format!("{:?}", m))]
                }, Some(&|a, b| a == b));
            }
            if let Ok(m) = p.fit(&ds) {
                let qc = q.clone();
                let xc = x.clone();
                rt(ctx, &format!("DecisionTree<{},usize>", fl), &m, &tags(&[fl, "fitted"]), &move |m| {
                    vec![format!("{:?}", m), format!("{:?} {:?} {:?} {:?} {} {}", { let mut f = m.features(); f.sort(); f }, m.mean_impurity_decrease(), m.relative_impurity_decrease(), m.feature_importance(), m.max_depth(), m.num_leaves()),
                         a1(&m.predict(&qc)), a1(&m.predict(&xc)), format!("{}", m.export_to_tikz().complete(true))]
                }, Some(&|a, b| a == b));
                let node = m.root_node().clone();
                rt(ctx, &format!("TreeNode<{},usize>", fl), &node, &tags(&[fl, "fitted"]), &|n| {
                    vec![format!("{:?}", n), format!("{} {} {:?} {:?} {:?}", n.is_leaf(), n.depth(), n.prediction(), n.split(), n.feature_name())]
                }, Some(&|a, b| a == b));
            }
        }
    }};
}

macro_rules! sec_bayes {
    ($F:ty, $ctx:expr, $r:expr) => {{
        use linfa_bayes::{GaussianNb, MultinomialNb};
        let ctx: &mut Ctx = $ctx;
        let r: &mut Sm64 = $r;
        let fl = stringify!($F);
        let reps = if ctx.thorough { 5 } else { 2 };
        for rep in 0..reps {
            let d = gen_data(r, 18 + 6 * rep, 2 + rep % 2, 2 + rep % 3);
            let x = d.x.mapv(|v| v as $F);
            let q = d.q.mapv(|v| v as $F);
            let ds = Dataset::new(x.clone(), d.y.clone());
            if let Ok(valid) = GaussianNb::<$F, usize>::params().var_smoothing(*r.pick(&[1e-9, 1e-3, 0.1]) as $F).check() {
                let (dsc, qc) = (ds.clone(), q.clone());
                rt(ctx, &format!("GaussianNbValidParams<{},usize>", fl), &valid, &tags(&[fl, "params"]), &move |p| {
                    vec![format!("{:?}", p), fx(p.var_smoothing()), res(&p.fit(&dsc), |m| a1(&m.predict(&qc)))]
                }, Some(&|a, b| a == b));
                if let Ok(m) = valid.fit(&ds) {
                    let (qc, xc) = (q.clone(), x.clone());
                    rt(ctx, &format!("GaussianNb<{},usize>", fl), &m, &tags(&[fl, "fitted", "hash"]), &move |m| vec![a1(&m.predict(&qc)), a1(&m.predict(&xc))], Some(&|a, b| a == b));
                }
            }
            // multinomial: non-negative counts
            let xc = x.mapv(|v| (v.abs() * (2.0 as $F)).floor());
            let qn = q.mapv(|v| (v.abs() * (2.0 as $F)).floor());
            let dsm = Dataset::new(xc.clone(), d.y.clone());
            if let Ok(valid) = MultinomialNb::<$F, usize>::params().alpha(*r.pick(&[1.0, 0.5, 1e-3]) as $F).check() {
                let (dsc, qc) = (dsm.clone(), qn.clone());
                rt(ctx, &format!("MultinomialNbValidParams<{},usize>", fl), &valid, &tags(&[fl, "params"]), &move |p| {
                    vec![format!("{:?}", p), fx(p.alpha()), res(&p.fit(&dsc), |m| a1(&m.predict(&qc)))]
                }, Some(&|a, b| a == b));
                if let Ok(m) = valid.fit(&dsm) {
                    let (qc, xcc) = (qn.clone(), xc.clone());
                    rt(ctx, &format!("MultinomialNb<{},usize>", fl), &m, &tags(&[fl, "fitted", "hash"]), &move |m| vec![a1(&m.predict(&qc)), a1(&m.predict(&xcc))], Some(&|a, b| a == b));
                }
            }
        }
    }};
}

macro_rules! sec_ftrl {
    ($F:ty, $ctx:expr, $r:expr) => {{
        use linfa_ftrl::Ftrl;
        let ctx: &mut Ctx = $ctx;
        let r: &mut Sm64 = $r;
        let fl = stringify!($F);
        let reps = if ctx.thorough { 5 } else { 2 };
        for rep in 0..reps {
            let d = gen_data(r, 20 + 6 * rep, 2 + rep % 3, 2);
            let x = d.x.mapv(|v| (v * 0.3) as $F);
            let q = d.q.mapv(|v| (v * 0.3) as $F);
            let ds = Dataset::new(x.clone(), d.yb.clone());
            let p = Ftrl::<$F>::params_with_rng(Xoshiro256Plus::seed_from_u64(r.below(1 << 30)))
                .alpha(*r.pick(&[0.005, 0.1, 1.0]) as $F).beta(*r.pick(&[0.0, 1.0]) as $F).l1_ratio(*r.pick(&[0.0, 0.5, 1.0]) as $F).l2_ratio(*r.pick(&[0.0, 0.5, 1.0]) as $F);
            let (dsc, qc) = (ds.clone(), q.clone());
            let pobs = move |p: &linfa_ftrl::FtrlParams<$F, Xoshiro256Plus>| {
                vec![format!("{:?}", p), res(&p.check_ref(), |c| format!("{:?}", c)), res(&p.fit_with(None, &dsc), |m| format!("{:?}|{}", m, a1(&m.predict(&qc))))]
            };
            rt(ctx, &format!("FtrlParams<{},Xoshiro256Plus>", fl), &p, &tags(&[fl, "params"]), &pobs, Some(&|a, b| a == b));
            let bad = Ftrl::<$F>::params_with_rng(Xoshiro256Plus::seed_from_u64(1)).alpha(-1.0 as $F).l1_ratio(2.0 as $F);
            rt(ctx, &format!("FtrlParams<{},Xoshiro256Plus>", fl), &bad, &tags(&[fl, "params", "invalid"]), &pobs, Some(&|a, b| a == b));
            if let Ok(m) = p.fit_with(None, &ds) {
                // second batch on top of the restored model must equal the second batch on the original
                let (dsc, qc) = (ds.clone(), q.clone());
                let pc = p.clone();
                rt(ctx, &format!("Ftrl<{}>", fl), &m, &tags(&[fl, "fitted"]), &move |m| {
                    vec![format!("{:?}", m), a1(m.z()), a1(m.n()), format!("{:?} {:?} {:?} {:?}", m.alpha(), m.beta(), m.l1_ratio(), m.l2_ratio()), a1(&m.get_weights()), a1(&m.predict(&qc)),
                         res(&pc.fit_with(Some(m.clone()), &dsc), |m2| format!("{:?}", m2))]
                }, None);
            }
        }
    }};
}

macro_rules! sec_pls {
    ($F:ty, $ctx:expr, $r:expr) => {{
        use linfa_pls::{PlsCanonical, PlsCca, PlsRegression, PlsSvd};
        let ctx: &mut Ctx = $ctx;
        let r: &mut Sm64 = $r;
        let fl = stringify!($F);
        let reps = if ctx.thorough { 4 } else { 2 };
        for rep in 0..reps {
            let d = gen_data(r, 20 + 6 * rep, 3 + rep % 2, 2);
            let x = d.x.mapv(|v| v as $F);
            let q = d.q.mapv(|v| v as $F);
            let ds = Dataset::new(x.clone(), d.y2.mapv(|v| v as $F));
            let nc = 1 + rep % 2;
            macro_rules! pls { ($T:ident, $name:expr) => {{
                if let Ok(m) = $T::<$F>::params(nc).scale(rep % 2 == 0).max_iterations(200).fit(&ds) {
                    let (qc, dsc) = (q.clone(), ds.clone());
                    rt(ctx, &format!("{}<{}>", $name, fl), &m, &tags(&[fl, "fitted"]), &move |m| {
                        let t = m.transform(dsc.clone());
                        vec![format!("{:?}", m), a2(m.weights().0), a2(m.weights().1), a2(m.loadings().0), a2(m.rotations().1), a2(m.coefficients()), a2(&m.predict(&qc)), a2(t.records()), a2(t.targets())]
                    }, Some(&|a, b| a == b));
                }
            }}; }
            pls!(PlsRegression, "PlsRegression");
            pls!(PlsCanonical, "PlsCanonical");
            pls!(PlsCca, "PlsCca");
            let sp = PlsSvd::<$F>::params(nc).scale(rep % 2 == 1);
            let dsc = ds.clone();
            rt(ctx, "PlsSvdParams", &sp, &tags(&[fl, "params"]), &move |p| {
                vec![format!("{:?}", p), res(&Fit::<Array2<$F>, Array2<$F>, _>::fit(p, &dsc), |m| { let t = m.transform(dsc.clone()); format!("{}|{}", a2(t.records()), a2(t.targets())) })]
            }, Some(&|a, b| a == b));
        }
    }};
}

macro_rules! sec_ica {
    ($F:ty, $ctx:expr, $r:expr) => {{
        use linfa_ica::fast_ica::{FastIca, GFunc};
        let ctx: &mut Ctx = $ctx;
        let r: &mut Sm64 = $r;
        let fl = stringify!($F);
        for g in [GFunc::Logcosh(1.0), GFunc::Logcosh(1.5), GFunc::Exp, GFunc::Cube, GFunc::Logcosh(-0.0), GFunc::Logcosh(5e-324)] {
            rt(ctx, "GFunc", &g, &tags(&[fl]), &|a| vec![format!("{:?}", a)], Some(&|a, b| a == b));
        }
        let reps = if ctx.thorough { 4 } else { 2 };
        for rep in 0..reps {
            let d = gen_data(r, 40 + 10 * rep, 2 + rep % 2, 2);
            let x = d.x.mapv(|v| v as $F);
            let q = d.q.mapv(|v| v as $F);
            let ds = DatasetBase::from(x.clone());
            let mut p = FastIca::<$F>::params().gfunc(if rep % 2 == 0 { GFunc::Logcosh(1.0) } else { GFunc::Exp }).max_iter(50 + r.below(100) as usize)
                .tol(*r.pick(&[1e-3, 1e-2]) as $F).random_state(r.below(1000) as usize);
            if rep % 2 == 1 { p = p.ncomponents(2); }
            if let Ok(valid) = p.check() {
                let (dsc, qc) = (ds.clone(), q.clone());
                rt(ctx, &format!("FastIcaValidParams<{}>", fl), &valid, &tags(&[fl, "params"]), &move |p| {
                    vec![format!("{:?}", p), format!("{:?} {:?} {:?} {:?} {:?}", p.ncomponents(), p.gfunc(), p.max_iter(), p.tol(), p.random_state()), res(&p.fit(&dsc), |m| format!("{:?}|{}", m, a2(&m.predict(&qc))))]
                }, Some(&|a, b| a == b));
                if let Ok(m) = valid.fit(&ds) {
                    let qc = q.clone();
                    rt(ctx, &format!("FastIca<{}>", fl), &m, &tags(&[fl, "fitted"]), &move |m| vec![format!("{:?}", m), a2(&m.predict(&qc))], Some(&|a, b| a == b));
                }
            }
        }
    }};
}

macro_rules! sec_scalers {
    ($F:ty, $ctx:expr, $r:expr) => {{
        use linfa_preprocessing::linear_scaling::{LinearScaler, LinearScalerParams, ScalingMethod};
        use linfa_preprocessing::norm_scaling::NormScaler;
        use linfa_preprocessing::whitening::{Whitener, WhiteningMethod};
        let ctx: &mut Ctx = $ctx;
        let r: &mut Sm64 = $r;
        let fl = stringify!($F);
        for m in [WhiteningMethod::Pca, WhiteningMethod::Zca, WhiteningMethod::Cholesky] {
            rt(ctx, "WhiteningMethod", &m, &tags(&[fl]), &|a| vec![format!("{:?}", a)], Some(&|a, b| a == b));
        }
        let reps = if ctx.thorough { 4 } else { 2 };
        for rep in 0..reps {
            let d = gen_data(r, 16 + 6 * rep, 2 + rep % 3, 2);
            let x = d.x.mapv(|v| v as $F);
            let q = d.q.mapv(|v| v as $F);
            let ds = DatasetBase::from(x.clone());
            let methods: Vec<ScalingMethod<$F>> = vec![ScalingMethod::Standard(true, true), ScalingMethod::Standard(false, true), ScalingMethod::Standard(true, false),
                ScalingMethod::MinMax(0.0 as $F, 1.0 as $F), ScalingMethod::MinMax(-2.5 as $F, 7.0 as $F), ScalingMethod::MaxAbs, ScalingMethod::MinMax(-0.0 as $F, <$F>::MAX)];
            for m in methods.iter() {
                rt(ctx, &format!("ScalingMethod<{}>", fl), m, &tags(&[fl]), &|a| vec![format!("{:?}", a), format!("{}", a)], Some(&|a, b| a == b));
                let p = LinearScalerParams::new(m.clone());
                let (dsc, qc) = (ds.clone(), q.clone());
                rt(ctx, &format!("LinearScalerParams<{}>", fl), &p, &tags(&[fl, "params"]), &move |p| {
                    vec![format!("{:?}", p), res(&p.fit(&dsc), |s| format!("{:?}|{}", s, a2(&s.transform(qc.clone()))))]
                }, Some(&|a, b| a == b));
                if let Ok(s) = p.fit(&ds) {
                    let qc = q.clone();
                    rt(ctx, &format!("LinearScaler<{}>", fl), &s, &tags(&[fl, "fitted"]), &move |s| {
                        vec![format!("{:?}", s), a1(s.offsets()), a1(s.scales()), format!("{:?}", s.method()), a2(&s.transform(qc.clone()))]
                    }, Some(&|a, b| a == b));
                }
            }
            let _ = LinearScaler::<$F>::standard();
            for ns in [NormScaler::l1(), NormScaler::l2(), NormScaler::max()] {
                let qc = q.clone();
                rt(ctx, "NormScaler", &ns, &tags(&[fl, "params"]), &move |s| vec![format!("{:?}", s), a2(&s.transform(qc.clone()))], Some(&|a, b| a == b));
            }
            for w in [Whitener::pca(), Whitener::zca(), Whitener::cholesky()] {
                let (dsc, qc) = (ds.clone(), q.clone());
                rt(ctx, "Whitener", &w, &tags(&[fl, "params"]), &move |w| vec![format!("{:?}", w), res(&w.fit(&dsc), |f| format!("{:?}|{}", f, a2(&f.transform(qc.clone()))))], Some(&|a, b| a == b));
                if let Ok(f) = w.fit(&ds) {
                    let qc = q.clone();
                    rt(ctx, &format!("FittedWhitener<{}>", fl), &f, &tags(&[fl, "fitted"]), &move |f| {
                        vec![format!("{:?}", f), a2(&f.transformation_matrix()), format!("{:?}", f.mean()), a2(&f.transform(qc.clone()))]
                    }, Some(&|a, b| a == b));
                }
            }
        }
    }};
}

fn sec_pca(ctx: &mut Ctx, r: &mut Sm64) {
    use linfa_reduction::Pca;
    let reps = if ctx.thorough { 5 } else { 3 };
    for rep in 0..reps {
        let d = gen_data(r, 20 + 6 * rep, 3 + rep % 2, 2);
        let ds = DatasetBase::from(d.x.clone());
        let p = Pca::params(1 + rep % 3).whiten(rep % 2 == 1);
        let (dsc, qc) = (ds.clone(), d.q.clone());
        rt(ctx, "PcaParams", &p, &tags(&["f64", "params"]), &move |p| vec![format!("{:?}", p), res(&p.fit(&dsc), |m| format!("{:?}|{}", m, a2(&m.predict(&qc))))], Some(&|a, b| a == b));
        if let Ok(m) = p.fit(&ds) {
            let qc = d.q.clone();
            rt(ctx, "Pca<f64>", &m, &tags(&["f64", "fitted"]), &move |m| {
                vec![format!("{:?}", m), a1(&m.explained_variance()), a1(&m.explained_variance_ratio()), a2(m.components()), a1(m.mean()), a1(m.singular_values()), a2(&m.predict(&qc)),
                     a2(&m.inverse_transform(m.predict(&qc)))]
            }, Some(&|a, b| a == b));
        }
    }
}

/// per document: the sorted (word, count) pairs - the numbering of the vocabulary follows hash-set iteration order
/// inside `fit` and differs from fit to fit, so observations must not depend on it
fn bag<T: std::fmt::Debug + Clone + PartialEq + Default>(vocab: &[String], m: &sprs::CsMat<T>) -> String {
    let mut rows = vec![];
    for row in m.outer_iterator() {
        let mut w: Vec<(String, String)> = row.iter().filter(|(_, c)| **c != T::default()).map(|(j, c)| (vocab[j].clone(), format!("{:?}", c))).collect();
        w.sort();
        rows.push(format!("{:?}", w));
    }
    rows.join(" / ")
}
fn sorted(v: &[String]) -> Vec<String> { let mut v = v.to_vec(); v.sort(); v }
fn tok_ws(s: &str) -> Vec<&str> { s.split(' ').filter(|w| !w.is_empty()).collect() }
fn tok_chars3(s: &str) -> Vec<&str> {
    // overlapping-free 3-byte chunks on ASCII text (deliberately unlike any regex word tokenizer)
    let b = s.as_bytes();
    (0..b.len() / 3).filter_map(|i| std::str::from_utf8(&b[3 * i..3 * i + 3]).ok()).collect()
}

fn sec_text(ctx: &mut Ctx, r: &mut Sm64) {
    use linfa_preprocessing::tf_idf_vectorization::{TfIdfMethod, TfIdfVectorizer};
    use linfa_preprocessing::{CountVectorizer, Tokenizer};
    let words = ["alpha", "beta", "gamma", "delta", "the", "of", "Rust", "serde", "na\u{ef}ve", "caf\u{e9}", "x", "yy", "quo\"te", "\u{65e5}\u{672c}", "zeta", "eta"];
    for m in [TfIdfMethod::Smooth, TfIdfMethod::NonSmooth, TfIdfMethod::Textbook] {
        rt(ctx, "TfIdfMethod", &m, &tags(&["text"]), &|a| vec![format!("{:?}", a), fx(a.compute_idf(10, 3))], Some(&|a, b| a == b));
    }
    let reps = if ctx.thorough { 8 } else { 4 };
    for rep in 0..reps {
        let ndocs = 4 + r.below(5) as usize;
        let docs: Vec<String> = (0..ndocs).map(|_| (0..(3 + r.below(8))).map(|_| r.pick(&words).to_string()).collect::<Vec<_>>().join(" ")).collect();
        let fresh: Vec<String> = (0..3).map(|_| (0..(3 + r.below(8))).map(|_| r.pick(&words).to_string()).collect::<Vec<_>>().join(" ")).collect();
        let docs = Array1::from(docs);
        let fresh = Array1::from(fresh);
        // ---- regex tokenizers (must round-trip completely) ----
        let mut p = CountVectorizer::params().convert_to_lowercase(rep % 2 == 0).normalize(rep % 3 != 0)
            .n_gram_range(1, 1 + rep % 3).document_frequency(*r.pick(&[0.0, 0.2]), *r.pick(&[1.0, 0.9]));
        if rep % 2 == 1 { p = p.tokenizer(Tokenizer::Regex(r"\b[a-z]+\b".to_string())); }
        if rep % 3 == 1 { p = p.stopwords(&["the", "of", "x"]); }
        if rep % 4 == 2 { p = p.max_features(Some(5)); }
        let un = Opts { tags: vec!["text".into(), "params".into(), "tokenizer_regex".into()], unordered: vec!["stopwords"], ..Default::default() };
        let (dc, fc) = (docs.clone(), fresh.clone());
        let pobs = move |p: &linfa_preprocessing::CountVectorizerParams| {
            vec![res(&p.check_ref().map(|_| ()), |_| "valid".into()),
                 res(&p.fit(&dc), |v| format!("{:?}|{}", sorted(v.vocabulary()), res(&v.transform(&fc), |m| bag(v.vocabulary(), m))))]
        };
        rt(ctx, "CountVectorizerParams", &p, &un, &pobs, None);
        // checked once: the compiled regex is part of the value now (SerdeRegex re-compiled on the way back)
        let _ = p.check_ref();
        rt(ctx, "CountVectorizerParams", &p, &un, &pobs, None);
        let bad = CountVectorizer::params().n_gram_range(2, 1).document_frequency(0.9, 0.1);
        let mut unb = un.clone();
        unb.tags.push("invalid".into());
        rt(ctx, "CountVectorizerParams", &bad, &unb, &pobs, None);
        if let Ok(valid) = p.clone().check() {
            let (dc, fc) = (docs.clone(), fresh.clone());
            rt(ctx, "CountVectorizerValidParams", &valid, &un, &move |p| {
                vec![format!("{:?} {:?} {:?} {:?} {:?} {:?} {:?}", p.max_features(), p.convert_to_lowercase(), p.split_regex().as_str(), p.n_gram_range(), p.normalize(), p.document_frequency(),
                             p.stopwords().as_ref().map(|s| { let mut v: Vec<&String> = s.iter().collect(); v.sort(); v })),
                     res(&p.fit(&dc), |v| format!("{:?}|{}", sorted(v.vocabulary()), res(&v.transform(&fc), |m| bag(v.vocabulary(), m))))]
            }, None);
        }
        if let Ok(v) = p.fit(&docs) {
            let mut o = un.clone();
            o.tags = vec!["text".into(), "fitted".into(), "hash".into(), "tokenizer_regex".into()];
            let (dc, fc) = (docs.clone(), fresh.clone());
            rt(ctx, "CountVectorizer", &v, &o, &move |v| vec![format!("{:?} {}", v.vocabulary(), v.nentries()), res(&v.transform(&fc), |m| format!("{:?}|{}", m.to_dense(), bag(v.vocabulary(), m))), res(&v.transform(&dc), |m| format!("{:?}", m.to_dense()))], None);
        }
        let method = [TfIdfMethod::Smooth, TfIdfMethod::NonSmooth, TfIdfMethod::Textbook][rep % 3].clone();
        let _ = method;
        let mut tp = TfIdfVectorizer::default().convert_to_lowercase(rep % 2 == 0).n_gram_range(1, 1 + rep % 2);
        if rep % 3 == 1 { tp = tp.stopwords(&["the", "of"]); }
        let mut o = un.clone();
        o.tags = vec!["text".into(), "params".into(), "tokenizer_regex".into()];
        let (dc, fc) = (docs.clone(), fresh.clone());
        rt(ctx, "TfIdfVectorizer", &tp, &o, &move |p| vec![res(&p.fit(&dc), |v| format!("{:?}|{}", sorted(v.vocabulary()), res(&v.transform(&fc), |m| bag(v.vocabulary(), m))))], None);
        if let Ok(v) = tp.fit(&docs) {
            let mut o = un.clone();
            o.tags = vec!["text".into(), "fitted".into(), "hash".into(), "tokenizer_regex".into()];
            let fc = fresh.clone();
            rt(ctx, "FittedTfIdfVectorizer", &v, &o, &move |v| vec![format!("{:?} {} {:?}", v.vocabulary(), v.nentries(), v.method()), res(&v.transform(&fc), |m| format!("{:?}|{}", m.to_dense(), bag(v.vocabulary(), m)))], None);
        }
        // ---- function tokenizers: the function pointer is skipped by design (finding F17) ----
        let fp: fn(&str) -> Vec<&str> = if rep % 2 == 0 { tok_ws } else { tok_chars3 };
        let pf = CountVectorizer::params().tokenizer(Tokenizer::Function(fp)).convert_to_lowercase(rep % 2 == 0).n_gram_range(1, 1 + rep % 2);
        function_tokenizer_cases(ctx, &pf, fp, &docs, &fresh);
        tokenizer_histories(ctx, &pf, fp, &docs, &fresh, false);
        tokenizer_histories(ctx, &pf, fp, &docs, &fresh, true);
    }
}

/// A vectoriser whose tokenizer is a function pointer: serde skips the pointer. Documented behaviour: the
/// restored *fitted* vectoriser refuses to transform until `force_tokenizer_function_redefinition` is called, and
/// is identical afterwards. Everything else (silent use of another tokenizer, other differences) is a violation.
fn function_tokenizer_cases(ctx: &mut Ctx, pf: &linfa_preprocessing::CountVectorizerParams, fp: fn(&str) -> Vec<&str>, docs: &Array1<String>, fresh: &Array1<String>) {
    use linfa_preprocessing::PreprocessingError;
    type Obs = Result<(Vec<String>, Result<String, String>), String>;
    let tg = ["type_CountVectorizer", "text", "tokenizer_function"];
    let fit_obs = |p: &linfa_preprocessing::CountVectorizerParams| -> (Obs, bool) {
        match p.fit(docs) {
            Err(e) => (Err(e.to_string()), matches!(e, PreprocessingError::TokenizerNotSet)),
            Ok(v) => match v.transform(fresh) {
                Ok(m) => (Ok((sorted(v.vocabulary()), Ok(bag(v.vocabulary(), &m)))), false),
                Err(e) => { let g = matches!(e, PreprocessingError::TokenizerNotSet); (Ok((sorted(v.vocabulary()), Err(e.to_string()))), g) }
            },
        }
    };
    // (a) parameter set
    let id = ctx.id; ctx.id += 1;
    if ctx.out.wanted(id) {
        ctx.out.bump("type_CountVectorizerParams(function tokenizer)");
        let desc = format!("{{\"type\": \"CountVectorizerParams with Tokenizer::Function\", \"docs\": {}}}", jstr(&format!("{:?}", docs.to_vec())));
        let bytes = bincode::serialize(pf).expect("serialise params");
        match bincode::deserialize::<linfa_preprocessing::CountVectorizerParams>(&bytes) {
            Err(e) => ctx.out.rust_fail(id, O_DESER, &tg, &format!("bincode::deserialize failed: {}", e), &desc),
            Ok(rp) => {
                let (orig, orig_guard) = fit_obs(pf);
                if orig_guard || !matches!(&orig, Ok((_, Ok(_)))) {
                    ctx.out.rust_fail(id, O_BEHAV, &tg, &format!("the ORIGINAL parameter set (never serialised) does not fit/transform with its function tokenizer: {:?}", orig), &desc);
                }
                let (rest, guarded_err) = fit_obs(&rp);
                if rest != orig {
                    let vocab = |o: &Obs| o.as_ref().ok().map(|p| p.0.clone());
                    if rest.is_ok() && vocab(&rest) != vocab(&orig) {
                        ctx.out.rust_fail(id, O_REFIT, &tg, &format!("restored parameter set fits silently with the regex tokenizer (the deserialisation guard is not consulted by fit): vocabulary {:?} instead of {:?}", vocab(&rest).unwrap_or_default(), vocab(&orig).unwrap_or_default()), &desc);
                    } else if guarded_err {
                        ctx.out.rust_fail(id, O_GUARD, &tg, &format!("restored parameter set refuses to work until the tokenizer is set again: {:?}", rest), &desc);
                    } else {
                        ctx.out.rust_fail(id, O_BEHAV, &tg, &format!("restored parameter set behaves differently: {:?} instead of {:?}", rest, orig), &desc);
                    }
                }
                // re-armed through the builder: must be identical again
                let rearmed = rp.tokenizer(linfa_preprocessing::Tokenizer::Function(fp));
                let (again, _) = fit_obs(&rearmed);
                if again != orig { ctx.out.rust_fail(id, O_BEHAV, &tg, &format!("restored parameter set differs from the original even after the tokenizer function is set again: {:?} vs {:?}", again, orig), &desc); }
            }
        }
        ctx.out.rust_eval(&desc, Some(fnv(&bytes)));
    }
    // (b) fitted vectoriser
    let id = ctx.id; ctx.id += 1;
    if ctx.out.wanted(id) {
        ctx.out.bump("type_CountVectorizer(function tokenizer)");
        let desc = format!("{{\"type\": \"CountVectorizer fitted with Tokenizer::Function\", \"docs\": {}}}", jstr(&format!("{:?}", docs.to_vec())));
        let v = match pf.fit(docs) { Ok(v) => v, Err(e) => panic!("fit with function tokenizer: {}", e) };
        let bytes = bincode::serialize(&v).expect("serialise vectoriser");
        match bincode::deserialize::<linfa_preprocessing::CountVectorizer>(&bytes) {
            Err(e) => ctx.out.rust_fail(id, O_DESER, &tg, &format!("bincode::deserialize failed: {}", e), &desc),
            Ok(mut rv) => {
                let orig = v.transform(fresh).map(|m| format!("{:?}", m.to_dense())).map_err(|e| e.to_string());
                if let Err(e) = &orig { ctx.out.rust_fail(id, O_BEHAV, &tg, &format!("the ORIGINAL vectoriser (never serialised) refuses to transform: {}", e), &desc); }
                let rest = rv.transform(fresh);
                if rv.vocabulary() != v.vocabulary() { ctx.out.rust_fail(id, O_BEHAV, &tg, "restored vocabulary differs", &desc); }
                match rest {
                    Ok(m) => if Ok(format!("{:?}", m.to_dense())) != orig { ctx.out.rust_fail(id, O_BEHAV, &tg, "restored vectoriser silently transforms with another tokenizer (the deserialisation guard did not fire)", &desc); },
                    Err(PreprocessingError::TokenizerNotSet) => ctx.out.rust_fail(id, O_GUARD, &tg, "restored vectoriser refuses to transform until re-armed (PreprocessingError::TokenizerNotSet)", &desc),
                    Err(e) => ctx.out.rust_fail(id, O_BEHAV, &tg, &format!("restored vectoriser fails with an unexpected error: {}", e), &desc),
                }
                rv.force_tokenizer_function_redefinition(fp);
                let again = rv.transform(fresh).map(|m| format!("{:?}", m.to_dense())).map_err(|e| e.to_string());
                if again != orig { ctx.out.rust_fail(id, O_BEHAV, &tg, &format!("after force_tokenizer_function_redefinition the restored vectoriser still differs: {:?} vs {:?}", again, orig), &desc); }
            }
        }
        ctx.out.rust_eval(&desc, Some(fnv(&bytes)));
    }
}

/// Histories: a vectoriser with a function tokenizer is sent through three round trips (bincode, serde_json, bincode),
/// with or without the documented re-arming step after each of them. Oracle: in every state the value either
/// transforms exactly like the original, or - while no tokenizer function is installed - answers the documented
/// `TokenizerNotSet`; after re-arming it is identical again. A silently different transform is never acceptable.
fn tokenizer_histories(ctx: &mut Ctx, pf: &linfa_preprocessing::CountVectorizerParams, fp: fn(&str) -> Vec<&str>, docs: &Array1<String>, fresh: &Array1<String>, tfidf: bool) {
    use linfa_preprocessing::tf_idf_vectorization::{FittedTfIdfVectorizer, TfIdfVectorizer};
    use linfa_preprocessing::{CountVectorizer, CountVectorizerParams, PreprocessingError, Tokenizer};
    let tg = ["type_CountVectorizer", "text", "tokenizer_function", "history"];
    fn hop<T: Serialize + DeserializeOwned>(v: &T, json: bool) -> Result<T, String> {
        if json { let s = serde_json::to_string(v).map_err(|e| e.to_string())?; serde_json::from_str(&s).map_err(|e| e.to_string()) }
        else { let b = bincode::serialize(v).map_err(|e| e.to_string())?; bincode::deserialize(&b).map_err(|e| e.to_string()) }
    }
    #[derive(PartialEq, Debug, Clone)]
    enum St { Same, NotSet, Different(String) }
    let patterns: [[bool; 3]; 5] = [[true, true, true], [true, false, false], [false, true, false], [true, false, true], [false, false, true]];
    for (pi, arm) in patterns.iter().enumerate() {
        let id = ctx.id; ctx.id += 1;
        if !ctx.out.wanted(id) { continue; }
        let kind = if tfidf { "FittedTfIdfVectorizer" } else if pi % 2 == 0 { "CountVectorizer" } else { "CountVectorizerParams" };
        ctx.out.bump(&format!("history_{}", kind));
        let desc = format!("{{\"type\": \"{} with Tokenizer::Function, history\", \"rearm_after_round_trip\": {:?}, \"formats\": \"bincode, serde_json, bincode\", \"docs\": {}}}", kind, arm, jstr(&format!("{:?}", docs.to_vec())));
        let mut trace: Vec<String> = vec![];
        let mut problem: Option<String> = None;
        // the three kinds share the protocol; closures give the state of the current value
        if tfidf {
            let orig = TfIdfVectorizer::default().tokenizer(Tokenizer::Function(fp)).fit(docs).expect("tf-idf fit with function tokenizer");
            let reference = orig.transform(fresh).map(|m| format!("{:?}", m.to_dense())).map_err(|e| e.to_string());
            let state = |v: &FittedTfIdfVectorizer| match v.transform(fresh) {
                Ok(m) => if Ok(format!("{:?}", m.to_dense())) == reference && v.vocabulary() == orig.vocabulary() { St::Same } else { St::Different("transform differs".into()) },
                Err(PreprocessingError::TokenizerNotSet) => St::NotSet,
                Err(e) => St::Different(format!("unexpected error {}", e)),
            };
            if state(&orig) != St::Same { problem = Some("the original does not reproduce its own transform".into()); }
            let mut cur = hop(&orig, false);
            for step in 0..3 {
                let mut v = match cur { Ok(v) => v, Err(e) => { problem.get_or_insert(format!("round trip {} failed: {}", step + 1, e)); break; } };
                let st = state(&v);
                trace.push(format!("rt{}:{:?}", step + 1, st));
                if let St::Different(d) = &st { problem.get_or_insert(format!("after round trip {} (trace {:?}) the vectoriser transforms without error but not like the original: {}", step + 1, trace, d)); }
                if arm[step] {
                    v.force_tokenizer_redefinition(fp);
                    let st = state(&v);
                    trace.push(format!("arm:{:?}", st));
                    if st != St::Same { problem.get_or_insert(format!("after re-arming following round trip {} (trace {:?}) the vectoriser is not identical to the original: {:?}", step + 1, trace, st)); }
                }
                cur = hop(&v, step % 2 == 0);
            }
        } else if pi % 2 == 0 {
            let orig = pf.fit(docs).expect("fit with function tokenizer");
            let reference = orig.transform(fresh).map(|m| format!("{:?}", m.to_dense())).map_err(|e| e.to_string());
            let state = |v: &CountVectorizer| match v.transform(fresh) {
                Ok(m) => if Ok(format!("{:?}", m.to_dense())) == reference && v.vocabulary() == orig.vocabulary() { St::Same } else { St::Different("transform differs".into()) },
                Err(PreprocessingError::TokenizerNotSet) => St::NotSet,
                Err(e) => St::Different(format!("unexpected error {}", e)),
            };
            if state(&orig) != St::Same { problem = Some("the original does not reproduce its own transform".into()); }
            let mut cur = hop(&orig, false);
            for step in 0..3 {
                let mut v = match cur { Ok(v) => v, Err(e) => { problem.get_or_insert(format!("round trip {} failed: {}", step + 1, e)); break; } };
                let st = state(&v);
                trace.push(format!("rt{}:{:?}", step + 1, st));
                if let St::Different(d) = &st { problem.get_or_insert(format!("after round trip {} (trace {:?}) the vectoriser transforms without error but not like the original: {}", step + 1, trace, d)); }
                if arm[step] {
                    v.force_tokenizer_function_redefinition(fp);
                    let st = state(&v);
                    trace.push(format!("arm:{:?}", st));
                    if st != St::Same { problem.get_or_insert(format!("after re-arming following round trip {} (trace {:?}) the vectoriser is not identical to the original: {:?}", step + 1, trace, st)); }
                }
                cur = hop(&v, step % 2 == 0);
            }
        } else {
            // parameter set: observed through fit + transform (canonical form, the numbering of the vocabulary is hash-order dependent)
            let obs = |p: &CountVectorizerParams| -> Result<(Vec<String>, String), PreprocessingError> { let v = p.fit(docs)?; let m = v.transform(fresh)?; Ok((sorted(v.vocabulary()), bag(v.vocabulary(), &m))) };
            let reference = obs(pf).map_err(|e| e.to_string());
            let state = |p: &CountVectorizerParams| match obs(p) {
                Ok(x) => if Ok(x) == reference { St::Same } else { St::Different("fit/transform differs".into()) },
                Err(PreprocessingError::TokenizerNotSet) => St::NotSet,
                Err(e) => St::Different(format!("unexpected error {}", e)),
            };
            if state(pf) != St::Same { problem = Some("the original does not reproduce its own fit".into()); }
            let mut cur = hop(pf, false);
            for step in 0..3 {
                let mut v = match cur { Ok(v) => v, Err(e) => { problem.get_or_insert(format!("round trip {} failed: {}", step + 1, e)); break; } };
                let st = state(&v);
                trace.push(format!("rt{}:{:?}", step + 1, st));
                if let St::Different(d) = &st { problem.get_or_insert(format!("after round trip {} (trace {:?}) the parameter set fits without error but not like the original: {}", step + 1, trace, d)); }
                if arm[step] {
                    v = v.tokenizer(Tokenizer::Function(fp));
                    let st = state(&v);
                    trace.push(format!("arm:{:?}", st));
                    if st != St::Same { problem.get_or_insert(format!("after setting the tokenizer again following round trip {} (trace {:?}) the parameter set is not identical to the original: {:?}", step + 1, trace, st)); }
                }
                cur = hop(&v, step % 2 == 0);
            }
        }
        if let Some(p) = problem { ctx.out.rust_fail(id, O_HISTORY, &tg, &p, &desc); }
        ctx.out.rust_eval(&desc, Some(fnv(format!("{:?}{:?}{}", arm, trace, kind).as_bytes()) ^ fnv(desc.as_bytes())));
    }
}

// ------------------------------------------------------------------------------------------------
// the attribute zoo: small types of the harness' own that carry every serde attribute the derive model
// (C19/Model.v) gives a meaning to. tools/c19_serde2coq.py translates the block between the two markers
// into gen.zoo_declared; every value below is sent through bincode and serde_json and Coq compares what
// serde_derive's generated code did with what the model predicts (corr bits 1024 / 2048 / 4096).
// ------------------------------------------------------------------------------------------------
// ZOO-BEGIN
mod zoo {
    use serde::{Deserialize, Serialize};
    pub fn seven() -> u32 { 7 }
    pub fn is_zero(x: &u32) -> bool { *x == 0 }
    pub mod as_str {
        use serde::{Deserialize, Deserializer, Serializer};
        pub fn serialize<S: Serializer>(v: &u32, s: S) -> Result<S::Ok, S::Error> { s.serialize_str(&v.to_string()) }
        pub fn deserialize<'de, D: Deserializer<'de>>(d: D) -> Result<u32, D::Error> { let s = String::deserialize(d)?; s.parse().map_err(serde::de::Error::custom) }
    }
    #[derive(Serialize, Deserialize, Debug, Clone, PartialEq)]
    #[serde(rename_all = "camelCase")]
    pub struct ZRename { pub first_field: u32, #[serde(rename = "second")] pub b_field: String, #[serde(alias = "old_c")] pub c_field: Option<f64> }
    #[derive(Serialize, Deserialize, Debug, Clone, PartialEq)]
    pub struct ZSkip { pub a: u32, #[serde(skip)] pub b: u32, pub c: u32 }
    #[derive(Serialize, Deserialize, Debug, Clone, PartialEq)]
    pub struct ZSkipDefault { #[serde(skip, default = "seven")] pub t: u32, pub a: u32 }
    #[derive(Serialize, Deserialize, Debug, Clone, PartialEq)]
    pub struct ZSkipSer { pub a: u32, #[serde(skip_serializing)] pub b: u32, pub c: u32 }
    #[derive(Serialize, Deserialize, Debug, Clone, PartialEq)]
    pub struct ZSkipSerDefault { pub a: u32, #[serde(skip_serializing, default)] pub b: u32, pub c: u32 }
    #[derive(Serialize, Deserialize, Debug, Clone, PartialEq)]
    pub struct ZSkipSerOpt { pub a: u32, #[serde(skip_serializing)] pub b: Option<u32>, pub c: u32 }
    #[derive(Serialize, Deserialize, Debug, Clone, PartialEq)]
    pub struct ZSkipDe { pub a: u32, #[serde(skip_deserializing)] pub b: u32, pub c: u32 }
    #[derive(Serialize, Deserialize, Debug, Clone, PartialEq)]
    #[serde(deny_unknown_fields)]
    pub struct ZSkipDeDeny { pub a: u32, #[serde(skip_deserializing)] pub b: u32, pub c: u32 }
    #[derive(Serialize, Deserialize, Debug, Clone, PartialEq)]
    pub struct ZSkipIf { pub a: u32, #[serde(skip_serializing_if = "Option::is_none")] pub b: Option<u32>, pub c: u32 }
    #[derive(Serialize, Deserialize, Debug, Clone, PartialEq)]
    pub struct ZSkipIfDefault { #[serde(skip_serializing_if = "is_zero", default)] pub n: u32, #[serde(skip_serializing_if = "is_zero", default = "seven")] pub m: u32, pub z: u32 }
    #[derive(Serialize, Deserialize, Debug, Clone, PartialEq)]
    pub struct ZSkipIfNoDefault { #[serde(skip_serializing_if = "is_zero")] pub n: u32, pub z: u32 }
    #[derive(Serialize, Deserialize, Debug, Clone, PartialEq)]
    pub struct ZDefault { pub a: u32, #[serde(default)] pub b: u32, #[serde(default = "seven")] pub c: u32 }
    #[derive(Serialize, Deserialize, Debug, Clone, PartialEq, Default)]
    #[serde(default)]
    pub struct ZCDefault { pub a: u32, #[serde(skip_serializing)] pub b: u32 }
    #[derive(Serialize, Deserialize, Debug, Clone, PartialEq)]
    pub struct ZWith { #[serde(with = "as_str")] pub n: u32, pub z: u32 }
    #[derive(Serialize, Deserialize, Debug, Clone, PartialEq, Default)]
    pub struct ZInner { pub x: u32, pub y: String }
    #[derive(Serialize, Deserialize, Debug, Clone, PartialEq)]
    pub struct ZFlatten { pub a: u32, #[serde(flatten)] pub inner: ZInner, pub z: u32 }
    #[derive(Serialize, Deserialize, Debug, Clone, PartialEq, Default)]
    pub struct ZInnerC { pub a: u32 }
    #[derive(Serialize, Deserialize, Debug, Clone, PartialEq)]
    pub struct ZFlattenCollide { pub a: u32, #[serde(flatten)] pub inner: ZInnerC }
    #[derive(Serialize, Deserialize, Debug, Clone, PartialEq)]
    #[serde(transparent)]
    pub struct ZTransparent { pub v: f64 }
    #[derive(Serialize, Deserialize, Debug, Clone, PartialEq)]
    #[serde(untagged)]
    pub enum ZUntagged { A(u32), B(String), C { x: u32 } }
    #[derive(Serialize, Deserialize, Debug, Clone, PartialEq)]
    #[serde(untagged)]
    pub enum ZUntaggedOverlap { A(u32), B(u64) }
    #[derive(Serialize, Deserialize, Debug, Clone, PartialEq)]
    #[serde(tag = "t")]
    pub enum ZTag { A { x: u32 }, B }
    #[derive(Serialize, Deserialize, Debug, Clone, PartialEq)]
    #[serde(tag = "t", content = "c")]
    pub enum ZAdj { A(u32), B, C { x: u32 } }
    #[derive(Serialize, Deserialize, Debug, Clone, PartialEq)]
    pub enum ZEnumSkip { A, #[serde(skip)] B, C(u32), D }
    #[derive(Serialize, Deserialize, Debug, Clone, PartialEq)]
    pub struct ZRenameAsym { #[serde(rename(serialize = "x", deserialize = "y"))] pub a: u32, pub b: u32 }
    #[derive(Serialize, Deserialize, Debug, Clone, PartialEq)]
    pub struct ZRenameAsymAlias { #[serde(rename(serialize = "x", deserialize = "y"), alias = "x")] pub a: u32, pub b: u32 }
    #[derive(Serialize, Deserialize, Debug, Clone, PartialEq)]
    pub enum ZOther { A, #[serde(other)] Other }
    #[derive(Serialize, Deserialize, Debug, Clone, PartialEq)]
    #[serde(rename_all = "snake_case")]
    pub enum ZEnumRename { FirstOne, #[serde(rename = "2nd", alias = "second")] SecondOne(u32), #[serde(rename_all = "UPPERCASE")] Third { low_x: u32 } }
    #[derive(Serialize, Deserialize, Debug, Clone, PartialEq)]
    pub struct ZOptOpt { pub a: Option<Option<u32>>, pub u: Option<()> }
}
// ZOO-END

/// every field of a zoo value (skipped ones included), its fill-in value when nothing is read for it, the outcome of
/// its skip_serializing_if predicate; for enums the position of the variant
trait ZooParts {
    fn parts(&self) -> (u32, Vec<Val>);
    fn dflt(&self) -> Vec<Val>;
    fn sif(&self) -> Vec<bool>;
    /// untagged enums: which variants' payload types accept this value's JSON on their own
    fn accepts(&self, _json: &str) -> Vec<bool> { vec![] }
}
fn rv<T: Serialize + ?Sized>(x: &T) -> Val { record(x).expect("zoo field") }
macro_rules! zstruct {
    ($T:ty, [$($f:ident => $d:expr, $s:expr);*]) => {
        impl ZooParts for $T {
            fn parts(&self) -> (u32, Vec<Val>) { (0, vec![$(rv(&self.$f)),*]) }
            fn dflt(&self) -> Vec<Val> { vec![$(rv(&$d)),*] }
            fn sif(&self) -> Vec<bool> { vec![$(($s)(&self.$f)),*] }
        }
    };
}
fn no<T>(_: &T) -> bool { false }
zstruct!(zoo::ZRename, [first_field => 0u32, no; b_field => String::new(), no; c_field => None::<f64>, no]);
zstruct!(zoo::ZSkip, [a => 0u32, no; b => 0u32, no; c => 0u32, no]);
zstruct!(zoo::ZSkipDefault, [t => zoo::seven(), no; a => 0u32, no]);
zstruct!(zoo::ZSkipSer, [a => 0u32, no; b => 0u32, no; c => 0u32, no]);
zstruct!(zoo::ZSkipSerDefault, [a => 0u32, no; b => 0u32, no; c => 0u32, no]);
zstruct!(zoo::ZSkipSerOpt, [a => 0u32, no; b => None::<u32>, no; c => 0u32, no]);
zstruct!(zoo::ZSkipDe, [a => 0u32, no; b => 0u32, no; c => 0u32, no]);
zstruct!(zoo::ZSkipDeDeny, [a => 0u32, no; b => 0u32, no; c => 0u32, no]);
zstruct!(zoo::ZSkipIf, [a => 0u32, no; b => None::<u32>, |b: &Option<u32>| b.is_none(); c => 0u32, no]);
zstruct!(zoo::ZSkipIfDefault, [n => 0u32, zoo::is_zero; m => zoo::seven(), zoo::is_zero; z => 0u32, no]);
zstruct!(zoo::ZSkipIfNoDefault, [n => 0u32, zoo::is_zero; z => 0u32, no]);
zstruct!(zoo::ZDefault, [a => 0u32, no; b => 0u32, no; c => zoo::seven(), no]);
zstruct!(zoo::ZCDefault, [a => zoo::ZCDefault::default().a, no; b => zoo::ZCDefault::default().b, no]);
zstruct!(zoo::ZWith, [n => 0u32, no; z => 0u32, no]);
zstruct!(zoo::ZFlatten, [a => 0u32, no; inner => zoo::ZInner::default(), no; z => 0u32, no]);
zstruct!(zoo::ZFlattenCollide, [a => 0u32, no; inner => zoo::ZInnerC::default(), no]);
zstruct!(zoo::ZTransparent, [v => 0f64, no]);
zstruct!(zoo::ZRenameAsym, [a => 0u32, no; b => 0u32, no]);
zstruct!(zoo::ZRenameAsymAlias, [a => 0u32, no; b => 0u32, no]);
macro_rules! zenum {
    ($T:ty, |$v:ident| $parts:expr) => { zenum!($T, |$v| $parts, |_j| vec![]); };
    ($T:ty, |$v:ident| $parts:expr, |$j:ident| $acc:expr) => {
        impl ZooParts for $T {
            fn parts(&self) -> (u32, Vec<Val>) { let $v = self; $parts }
            fn dflt(&self) -> Vec<Val> { self.parts().1.iter().map(|_| Val::Unit).collect() }
            fn sif(&self) -> Vec<bool> { self.parts().1.iter().map(|_| false).collect() }
            fn accepts(&self, $j: &str) -> Vec<bool> { $acc }
        }
    };
}
#[derive(serde::Deserialize)]
struct ZUntC { #[allow(dead_code)] x: u32 }
zenum!(zoo::ZUntagged, |v| match v { zoo::ZUntagged::A(x) => (0, vec![rv(x)]), zoo::ZUntagged::B(x) => (1, vec![rv(x)]), zoo::ZUntagged::C { x } => (2, vec![rv(x)]) },
       |j| vec![serde_json::from_str::<u32>(j).is_ok(), serde_json::from_str::<String>(j).is_ok(), serde_json::from_str::<ZUntC>(j).is_ok()]);
zenum!(zoo::ZUntaggedOverlap, |v| match v { zoo::ZUntaggedOverlap::A(x) => (0, vec![rv(x)]), zoo::ZUntaggedOverlap::B(x) => (1, vec![rv(x)]) },
       |j| vec![serde_json::from_str::<u32>(j).is_ok(), serde_json::from_str::<u64>(j).is_ok()]);
zenum!(zoo::ZTag, |v| match v { zoo::ZTag::A { x } => (0, vec![rv(x)]), zoo::ZTag::B => (1, vec![]) });
zenum!(zoo::ZAdj, |v| match v { zoo::ZAdj::A(x) => (0, vec![rv(x)]), zoo::ZAdj::B => (1, vec![]), zoo::ZAdj::C { x } => (2, vec![rv(x)]) });
zenum!(zoo::ZEnumSkip, |v| match v { zoo::ZEnumSkip::A => (0, vec![]), zoo::ZEnumSkip::B => (1, vec![]), zoo::ZEnumSkip::C(x) => (2, vec![rv(x)]), zoo::ZEnumSkip::D => (3, vec![]) });
zenum!(zoo::ZOther, |v| match v { zoo::ZOther::A => (0, vec![]), zoo::ZOther::Other => (1, vec![]) });
zenum!(zoo::ZEnumRename, |v| match v { zoo::ZEnumRename::FirstOne => (0, vec![]), zoo::ZEnumRename::SecondOne(x) => (1, vec![rv(x)]), zoo::ZEnumRename::Third { low_x } => (2, vec![rv(low_x)]) });

fn coq_vals(l: &[Val], o: &mut String) { o.push('['); for (i, x) in l.iter().enumerate() { if i > 0 { o.push_str("; "); } coq_val(x, o); } o.push(']'); }
fn zoo_case<T: Serialize + DeserializeOwned + ZooParts + std::fmt::Debug>(ctx: &mut Ctx, ty: &str, v: &T) {
    let id = ctx.id;
    ctx.id += 1;
    if !ctx.out.wanted(id) { return; }
    ctx.out.bump(&format!("zoo_{}", ty));
    let (vidx, vals) = v.parts();
    let (dflt, sif) = (v.dflt(), v.sif());
    assert!(vals.len() == dflt.len() && vals.len() == sif.len(), "zoo parts of {}", ty);
    let back = |r: Result<Result<T, String>, String>| -> String {
        match r {
            Err(_) => "ZRefused".to_string(),
            Ok(Err(_)) => "ZFail".to_string(),
            Ok(Ok(t)) => { let (i, f) = t.parts(); let mut o = format!("(ZBack {}%N ", i); coq_vals(&f, &mut o); o.push(')'); o }
        }
    };
    let bin = back(bincode::serialize(v).map_err(|e| e.to_string()).map(|b| bincode::deserialize::<T>(&b).map_err(|e| e.to_string())));
    let text = serde_json::to_string(v).map_err(|e| e.to_string());
    let accepts = match &text { Ok(t) => v.accepts(t), Err(_) => vec![] };
    let js = back(text.clone().map(|t| serde_json::from_str::<T>(&t).map_err(|e| e.to_string())));
    let mut c = format!("Zoo {}%N {} {}%N [", id, coq_string(ty), vidx);
    for k in 0..vals.len() {
        if k > 0 { c.push_str("; "); }
        c.push_str("mkIn ");
        coq_val(&vals[k], &mut c);
        c.push(' ');
        coq_val(&dflt[k], &mut c);
        let _ = write!(c, " {}", sif[k]);
    }
    c.push_str("] [");
    for (k, a) in accepts.iter().enumerate() { if k > 0 { c.push_str("; "); } let _ = write!(c, "{}", a); }
    c.push_str("] ");
    match record(v) { Ok(t) => { c.push_str("(Some "); coq_val(&t, &mut c); c.push(')'); } Err(_) => c.push_str("None") }
    let _ = write!(c, " {} {}", bin, js);
    let desc = format!("{{\"zoo\": {}, \"value\": {}, \"bincode\": {}, \"serde_json\": {}, \"text\": {}}}", jstr(ty), jstr(&format!("{:?}", v)), jstr(&bin), jstr(&js), jstr(&text.unwrap_or_else(|e| e)));
    ctx.out.case(id, &c, &["zoo", &format!("zoo_{}", ty)], &desc, Some(fnv(desc.as_bytes())));
}

fn sec_zoo(ctx: &mut Ctx) {
    use zoo::*;
    zoo_case(ctx, "ZRename", &ZRename { first_field: 1, b_field: "x \"y\"".into(), c_field: Some(1.5) });
    zoo_case(ctx, "ZRename", &ZRename { first_field: u32::MAX, b_field: String::new(), c_field: None });
    for b in [2, 0] { zoo_case(ctx, "ZSkip", &ZSkip { a: 1, b, c: 3 }); }
    for t in [9, 7, 0] { zoo_case(ctx, "ZSkipDefault", &ZSkipDefault { t, a: 1 }); }
    for b in [2, 0] { zoo_case(ctx, "ZSkipSer", &ZSkipSer { a: 1, b, c: 3 }); zoo_case(ctx, "ZSkipSerDefault", &ZSkipSerDefault { a: 1, b, c: 3 }); }
    for b in [Some(2), None] { zoo_case(ctx, "ZSkipSerOpt", &ZSkipSerOpt { a: 1, b, c: 3 }); zoo_case(ctx, "ZSkipIf", &ZSkipIf { a: 1, b, c: 3 }); }
    for b in [2, 0] { zoo_case(ctx, "ZSkipDe", &ZSkipDe { a: 1, b, c: 3 }); zoo_case(ctx, "ZSkipDeDeny", &ZSkipDeDeny { a: 1, b, c: 3 }); }
    for (n, m) in [(0, 0), (1, 2), (0, 7), (3, 0)] { zoo_case(ctx, "ZSkipIfDefault", &ZSkipIfDefault { n, m, z: 5 }); }
    for n in [0, 4] { zoo_case(ctx, "ZSkipIfNoDefault", &ZSkipIfNoDefault { n, z: 5 }); }
    zoo_case(ctx, "ZDefault", &ZDefault { a: 1, b: 2, c: 3 });
    zoo_case(ctx, "ZDefault", &ZDefault { a: 1, b: 0, c: 7 });
    for b in [2, 0] { zoo_case(ctx, "ZCDefault", &ZCDefault { a: 1, b }); }
    zoo_case(ctx, "ZWith", &ZWith { n: 12, z: 1 });
    zoo_case(ctx, "ZFlatten", &ZFlatten { a: 1, inner: ZInner { x: 2, y: "q".into() }, z: 3 });
    zoo_case(ctx, "ZFlattenCollide", &ZFlattenCollide { a: 1, inner: ZInnerC { a: 2 } });
    zoo_case(ctx, "ZTransparent", &ZTransparent { v: 1.5 });
    zoo_case(ctx, "ZTransparent", &ZTransparent { v: -0.0 });
    for v in [ZUntagged::A(1), ZUntagged::B("s".into()), ZUntagged::C { x: 3 }] { zoo_case(ctx, "ZUntagged", &v); }
    for v in [ZUntaggedOverlap::A(1), ZUntaggedOverlap::B(5), ZUntaggedOverlap::B(1 << 40)] { zoo_case(ctx, "ZUntaggedOverlap", &v); }
    for v in [ZTag::A { x: 1 }, ZTag::B] { zoo_case(ctx, "ZTag", &v); }
    for v in [ZAdj::A(1), ZAdj::B, ZAdj::C { x: 2 }] { zoo_case(ctx, "ZAdj", &v); }
    for v in [ZEnumSkip::A, ZEnumSkip::B, ZEnumSkip::C(4), ZEnumSkip::D] { zoo_case(ctx, "ZEnumSkip", &v); }
    zoo_case(ctx, "ZRenameAsym", &ZRenameAsym { a: 1, b: 2 });
    zoo_case(ctx, "ZRenameAsymAlias", &ZRenameAsymAlias { a: 1, b: 2 });
    for v in [ZOther::A, ZOther::Other] { zoo_case(ctx, "ZOther", &v); }
    for v in [ZEnumRename::FirstOne, ZEnumRename::SecondOne(3), ZEnumRename::Third { low_x: 1 }] { zoo_case(ctx, "ZEnumRename", &v); }
    // the format level (bytes, JSON text, reading back) on zoo values: renamed members, transparent, Some(None)
    let zo = Opts { tags: vec!["zoo".into()], zoo: true, ..Default::default() };
    rt(ctx, "ZRename", &ZRename { first_field: 1, b_field: "x \"y\" \u{e9}\n".into(), c_field: Some(0.1) }, &zo, &|a| vec![format!("{:?}", a)], Some(&|a, b| a == b));
    rt(ctx, "ZTransparent", &ZTransparent { v: 0.1 }, &zo, &|a| vec![format!("{:?}", a)], Some(&|a, b| a == b));
    rt(ctx, "ZEnumRename", &ZEnumRename::Third { low_x: 9 }, &zo, &|a| vec![format!("{:?}", a)], Some(&|a, b| a == b));
    for v in [ZOptOpt { a: Some(None), u: Some(()) }, ZOptOpt { a: Some(Some(1)), u: None }, ZOptOpt { a: None, u: None }] {
        rt(ctx, "ZOptOpt", &v, &zo, &|a| vec![format!("{:?}", a)], Some(&|a, b| a == b));
    }
    rt(ctx, "ZTransparent", &ZTransparent { v: f64::NAN }, &zo, &|a| vec![format!("{:?}", a)], None);
}

// ------------------------------------------------------------------------------------------------
// histories of incremental fits: a model that is serialised, restored, updated by `fit_with` and serialised
// again - under several patterns of round trips - must equal the model that was never serialised
// ------------------------------------------------------------------------------------------------
fn hop_bin<T: Serialize + DeserializeOwned>(v: &T) -> Result<T, String> {
    let b = bincode::serialize(v).map_err(|e| e.to_string())?;
    bincode::deserialize(&b).map_err(|e| e.to_string())
}
/// `step(model, batch)`: one incremental update (None: the update failed); `pat[b]`: how many round trips follow batch b
fn history<M: Serialize + DeserializeOwned>(
    ctx: &mut Ctx, ty: &str, un: &[&'static str], nbatch: usize,
    step: &dyn Fn(Option<M>, usize) -> Result<M, String>, obs: &dyn Fn(&M) -> Vec<String>,
) {
    let patterns: [&[usize]; 4] = [&[1, 1, 1, 1], &[1, 0, 0, 0], &[0, 2, 0, 1], &[2, 1, 2, 1]];
    // the history that never sees a serialiser
    let run = |pat: Option<&[usize]>| -> Result<M, String> {
        let mut m: Option<M> = None;
        for b in 0..nbatch {
            let mut next = step(m.take(), b)?;
            if let Some(p) = pat { for _ in 0..p[b % p.len()] { next = hop_bin(&next).map_err(|e| format!("round trip after batch {}: {}", b, e))?; } }
            m = Some(next);
        }
        m.ok_or_else(|| "no batches".to_string())
    };
    let never = match guarded(AssertUnwindSafe(|| run(None))) { Ok(Ok(m)) => m, Ok(Err(e)) | Err(e) => { ctx.out.bump(&format!("history_not_built_{}", ty)); let _ = e; return; } };
    let (t0, o0, o0b) = (record(&never), guarded(AssertUnwindSafe(|| obs(&never))), guarded(AssertUnwindSafe(|| obs(&never))));
    let t0 = match t0 { Ok(t) => t, Err(e) => panic!("history: cannot record {}: {}", ty, e) };
    for (pi, pat) in patterns.iter().enumerate() {
        let id = ctx.id;
        ctx.id += 1;
        if !ctx.out.wanted(id) { continue; }
        ctx.out.bump(&format!("history_fit_with_{}", ty.split('<').next().unwrap_or(ty)));
        let tg = [&format!("type_{}", ty.split('<').next().unwrap_or(ty))[..], "history", "fit_with"];
        let desc = format!("{{\"type\": {}, \"history\": \"fit_with over {} batches\", \"bincode_round_trips_after_each_batch\": {:?}}}", jstr(ty), nbatch, pat);
        match guarded(AssertUnwindSafe(|| run(Some(pat)))) {
            Err(p) => ctx.out.rust_fail(id, O_HISTORY | O_PANIC, &tg, &format!("the history with round trips panicked: {}", p), &desc),
            Ok(Err(e)) => ctx.out.rust_fail(id, O_HISTORY, &tg, &format!("the history with round trips failed where the never-serialised one succeeded: {}", e), &desc),
            Ok(Ok(m)) => {
                let t1 = record(&m).unwrap_or_else(|e| panic!("history: cannot record {}: {}", ty, e));
                if let (Ok(a), Ok(a2)) = (&o0, &o0b) {
                    match guarded(AssertUnwindSafe(|| obs(&m))) {
                        Ok(mut b) => {
                            let mut a = a.clone();
                            for i in 0..a.len().min(a2.len()).min(b.len()) { if strip_layout(&a[i]) != strip_layout(&a2[i]) { a[i] = "<not reproducible>".into(); b[i] = "<not reproducible>".into(); } }
                            if let Some(d) = diff_obs(&a, &b) { ctx.out.rust_fail(id, O_HISTORY, &tg, &format!("the model updated across round trips behaves differently from the never-serialised one: {}", d), &desc); }
                        }
                        Err(p) => ctx.out.rust_fail(id, O_HISTORY | O_PANIC, &tg, &format!("observing the model updated across round trips panicked: {}", p), &desc),
                    }
                }
                let mut c = String::new();
                let _ = write!(c, "History {}%N {} ", id, coq_string(ty));
                coq_val(&t0, &mut c);
                c.push(' ');
                coq_val(&t1, &mut c);
                c.push_str(" [");
                for (i, f) in un.iter().enumerate() { if i > 0 { c.push_str("; "); } c.push_str(&coq_string(f)); }
                c.push(']');
                let mut hb = String::new();
                coq_val(&t0, &mut hb);
                ctx.out.case(id, &c, &tg, &desc, Some(fnv(hb.as_bytes()) ^ fnv(ty.as_bytes()) ^ (pi as u64 + 1)));
            }
        }
    }
}

macro_rules! sec_histories {
    ($F:ty, $ctx:expr, $r:expr) => {{
        use linfa_bayes::{GaussianNb, MultinomialNb};
        use linfa_clustering::{IncrKMeansError, KMeans, KMeansInit};
        use linfa_ftrl::Ftrl;
        use linfa_nn::distance::L2Dist;
        let ctx: &mut Ctx = $ctx;
        let r: &mut Sm64 = $r;
        let fl = stringify!($F);
        let reps = if ctx.thorough { 3 } else { 1 };
        for _rep in 0..reps {
            let nb = 4;
            let k = 2 + r.below(2) as usize;
            let dd = 2 + r.below(2) as usize;
            let batches: Vec<Data> = (0..nb).map(|_| { let n = 12 + r.below(8) as usize; gen_data(r, n, dd, k) }).collect();
            let xs: Vec<Array2<$F>> = batches.iter().map(|d| d.x.mapv(|v| v as $F)).collect();
            let q = batches[0].q.mapv(|v| v as $F);
            // Gaussian naive Bayes
            {
                let p = GaussianNb::<$F, usize>::params().var_smoothing(*r.pick(&[1e-9, 1e-3]) as $F).check().expect("gnb params");
                let ds: Vec<_> = (0..nb).map(|b| Dataset::new(xs[b].clone(), batches[b].y.clone())).collect();
                let qc = q.clone();
                history::<GaussianNb<$F, usize>>(ctx, &format!("GaussianNb<{},usize>", fl), &[], nb,
                    &|m, b| p.fit_with(m, &ds[b]).map_err(|e| e.to_string())?.ok_or_else(|| "fit_with returned None".to_string()),
                    &|m| vec![a1(&m.predict(&qc))]);
            }
            // multinomial naive Bayes on counts
            {
                let p = MultinomialNb::<$F, usize>::params().alpha(*r.pick(&[1.0, 0.5]) as $F).check().expect("mnb params");
                let ds: Vec<_> = (0..nb).map(|b| Dataset::new(xs[b].mapv(|v| (v.abs() * (2.0 as $F)).floor()), batches[b].y.clone())).collect();
                let qc = q.mapv(|v| (v.abs() * (2.0 as $F)).floor());
                history::<MultinomialNb<$F, usize>>(ctx, &format!("MultinomialNb<{},usize>", fl), &[], nb,
                    &|m, b| p.fit_with(m, &ds[b]).map_err(|e| e.to_string())?.ok_or_else(|| "fit_with returned None".to_string()),
                    &|m| vec![a1(&m.predict(&qc))]);
            }
            // FTRL
            {
                let p = Ftrl::<$F>::params_with_rng(Xoshiro256Plus::seed_from_u64(r.below(1 << 30))).alpha(*r.pick(&[0.05, 0.5]) as $F).l1_ratio(*r.pick(&[0.0, 0.5]) as $F);
                let ds: Vec<_> = (0..nb).map(|b| Dataset::new(xs[b].mapv(|v| v * (0.3 as $F)), batches[b].yb.clone())).collect();
                let qc = q.mapv(|v| v * (0.3 as $F));
                history::<Ftrl<$F>>(ctx, &format!("Ftrl<{}>", fl), &[], nb,
                    &|m, b| p.fit_with(m, &ds[b]).map_err(|e| e.to_string()),
                    &|m| vec![format!("{:?}", m), a1(m.z()), a1(m.n()), a1(&m.get_weights()), a1(&m.predict(&qc))]);
            }
            // incremental (mini-batch) k-means: "not converged yet" carries the updated model
            {
                let init = KMeansInit::Precomputed(xs[0].select(Axis(0), &(0..k).collect::<Vec<_>>()));
                let p = KMeans::params_with(k, Xoshiro256Plus::seed_from_u64(r.below(1 << 20)), L2Dist).tolerance(1e-9 as $F).init_method(init).check().expect("kmeans params");
                let ds: Vec<_> = (0..nb).map(|b| DatasetBase::from(xs[b].clone())).collect();
                let qc = q.clone();
                history::<KMeans<$F, L2Dist>>(ctx, &format!("KMeans<{},L2Dist>", fl), &[], nb,
                    &|m, b| match p.fit_with(m, &ds[b]) { Ok(m) => Ok(m), Err(IncrKMeansError::NotConverged(m)) => Ok(m), Err(e) => Err(e.to_string()) },
                    &|m| vec![format!("{:?}", m), a2(m.centroids()), a1(m.cluster_count()), fx(m.inertia()), a1(&m.predict(&qc))]);
            }
        }
    }};
}

fn sec_errors(ctx: &mut Ctx) {
    use linfa::composing::platt_scaling::PlattError;
    use linfa::Error;
    use linfa_elasticnet::ElasticNetError;
    use linfa_ftrl::FtrlError;
    let disp = |e: &dyn std::fmt::Display| vec![format!("{}", e)];
    let shape_err = Array2::<f64>::zeros((2, 3)).into_shape((5, 5)).unwrap_err();
    let base: Vec<(Error, &str)> = vec![
        (Error::Parameters("bad \"k\" \u{e9}".into()), "Parameters"), (Error::Priors(String::new()), "Priors"), (Error::NotConverged("after 10".into()), "NotConverged"),
        (Error::NotEnoughSamples, "NotEnoughSamples"), (Error::MismatchedShapes(3, 7), "MismatchedShapes"), (Error::MismatchedShapes(usize::MAX, 0), "MismatchedShapes"),
    ];
    for (e, vn) in base.iter() {
        rt(ctx, "Error", e, &tags(&["error", &format!("variant_{}", vn)]), &|e| vec![format!("{:?}", e), format!("{}", e)], None);
    }
    let mut o = tags(&["error", "variant_NdShape"]);
    o.refusal_variant = Some("NdShape");
    rt(ctx, "Error", &Error::NdShape(shape_err.clone()), &o, &|e| vec![format!("{}", e)], None);
    let _ = disp;
    for e in [PlattError::LineSearchNotConverged, PlattError::MaxIterReached, PlattError::MaxIterZero, PlattError::MinStepNegative(-1.5), PlattError::SigmaNegative(-0.0),
              PlattError::LinfaError(Error::Parameters("p".into())), PlattError::LinfaError(Error::NotEnoughSamples), PlattError::LinfaError(Error::MismatchedShapes(1, 2))] {
        let vn = format!("{:?}", e);
        let inner = if vn.contains("NotEnoughSamples") { "inner_NotEnoughSamples" } else if vn.contains("MismatchedShapes") { "inner_MismatchedShapes" } else { "inner_none_or_early" };
        rt(ctx, "PlattError", &e, &tags(&["error", inner]), &|e| vec![format!("{:?}", e), format!("{}", e)], None);
    }
    for e in [ElasticNetError::NotEnoughSamples, ElasticNetError::IllConditioned, ElasticNetError::InvalidL1Ratio(1.5), ElasticNetError::InvalidPenalty(-1.0), ElasticNetError::InvalidTolerance(f32::MIN_POSITIVE),
              ElasticNetError::IncorrectTargetShape, ElasticNetError::BaseCrate(Error::Priors("x".into())), ElasticNetError::BaseCrate(Error::NotEnoughSamples), ElasticNetError::BaseCrate(Error::MismatchedShapes(4, 5))] {
        let vn = format!("{:?}", e);
        let inner = if vn.contains("BaseCrate(NotEnoughSamples") { "inner_NotEnoughSamples" } else if vn.contains("MismatchedShapes") { "inner_MismatchedShapes" } else { "inner_none_or_early" };
        rt(ctx, "ElasticNetError", &e, &tags(&["error", inner]), &|e| vec![format!("{:?}", e), format!("{}", e)], None);
    }
    for e in [FtrlError::InvalidL1Ratio(2.0), FtrlError::InvalidL2Ratio(-1.0), FtrlError::InvalidAlpha(0.0), FtrlError::InvalidBeta(-3.0), FtrlError::InvalidNFeatures(0),
              FtrlError::LinfaError(Error::NotConverged("n".into())), FtrlError::LinfaError(Error::NotEnoughSamples), FtrlError::LinfaError(Error::MismatchedShapes(9, 8))] {
        let vn = format!("{:?}", e);
        let inner = if vn.contains("NotEnoughSamples") { "inner_NotEnoughSamples" } else if vn.contains("MismatchedShapes") { "inner_MismatchedShapes" } else { "inner_none_or_early" };
        rt(ctx, "FtrlError", &e, &tags(&["error", inner]), &|e| vec![format!("{:?}", e), format!("{}", e)], None);
    }
}

fn main() {
    let args = parse_args();
    let mut rng = Sm64::new(args.seed);
    let thorough = args.tier == "thorough";
    // the thorough tier carries about three times the data: more, smaller shards keep every coqc below 0.8 GB
    let out = Out::new(&args.out, if thorough { args.shards.max(32) } else { args.shards }, "C19.Corr", "case", args.only);
    let mut ctx = Ctx { out, id: 0, seen: BTreeSet::new(), types_done: BTreeSet::new(), json_ok: 0, json_na: 0, json_worst: 0, json_cases: 0, thorough };

    // Every section must produce each of the instantiations listed with it, whatever the seed: fits that fail (or
    // do not terminate) for one draw of data / hyper-parameters are not silently dropped - the section is run again
    // with a fresh generator derived from the same seed until all of them exist (random draws only ADD cases);
    // if that is impossible the harness stops loudly instead of writing an incomplete sweep.
    fn missing(done: &BTreeSet<String>, needs: &[String]) -> Vec<String> {
        needs.iter().filter(|n| !done.iter().any(|t| t == *n || (n.contains('<') && t.starts_with(n.as_str())))).cloned().collect()
    }
    macro_rules! ensure {
        ($needs:expr, $run:expr) => {{
            let needs: Vec<String> = $needs;
            let mut attempt = 0;
            loop {
                let mut r = rng.fork();
                $run(&mut ctx, &mut r);
                let miss = missing(&ctx.types_done, &needs);
                if miss.is_empty() { break; }
                attempt += 1;
                ctx.out.bump("section_rerun_because_a_fit_failed");
                if attempt >= 12 { panic!("C19 harness: no successful instantiation of {:?} after {} attempts", miss, attempt); }
            }
        }};
    }
    macro_rules! both {
        ($m:ident, [$($need:expr),*]) => {{
            ensure!(vec![$($need.replace("{}", "f32")),*], |c: &mut Ctx, r: &mut Sm64| { $m!(f32, c, r); });
            ensure!(vec![$($need.replace("{}", "f64")),*], |c: &mut Ctx, r: &mut Sm64| { $m!(f64, c, r); });
        }};
    }
    both!(sec_nn, ["LinearSearch", "KdTree", "BallTree", "CommonNearestNeighbour", "L1Dist", "L2Dist", "LInfDist", "LpDist<{}"]);
    both!(sec_kmeans, ["KMeans<{},L2Dist", "KMeans<{},L1Dist", "KMeansParams<{}", "KMeansValidParams<{}", "KMeansInit<{}"]);
    both!(sec_density, ["Dbscan", "Optics", "DbscanValidParams<{}", "OpticsParams<{}", "OpticsValidParams<{}", "OpticsAnalysis<{}", "Sample<{}"]);
    both!(sec_gmm, ["GmmParams<{}", "GmmValidParams<{}", "GaussianMixtureModel<{}", "GmmCovarType", "GmmInitMethod"]);
    both!(sec_linear, ["LinearRegression", "FittedLinearRegression<{}", "IsotonicRegression", "FittedIsotonicRegression<{}", "TweedieRegressorValidParams<{}", "TweedieRegressor<{}", "Link"]);
    both!(sec_elasticnet, ["ElasticNetValidParamsBase<{},false", "ElasticNetValidParamsBase<{},true", "ElasticNet<{}", "MultiTaskElasticNet<{}"]);
    both!(sec_logistic, ["LogisticRegressionParams<{},Ix1", "LogisticRegressionParams<{},Ix2", "LogisticRegressionValidParams<{},Ix1", "LogisticRegressionValidParams<{},Ix2",
                         "FittedLogisticRegression<{},usize", "FittedLogisticRegression<{},bool", "FittedLogisticRegression<{},String", "BinaryClassLabels<{}", "ClassLabel<{}",
                         "MultiFittedLogisticRegression<{}"]);
    both!(sec_svm, ["ExitReason", "KernelMethod<{}", "Svm<{},bool", "Svm<{},Pr", "Svm<{},{}", "SeparatingHyperplane<{}"]);
    both!(sec_trees, ["SplitQuality", "DecisionTreeParams<{}", "DecisionTreeValidParams<{}", "DecisionTree<{}", "TreeNode<{}"]);
    both!(sec_bayes, ["GaussianNbValidParams<{}", "GaussianNb<{}", "MultinomialNbValidParams<{}", "MultinomialNb<{}"]);
    both!(sec_ftrl, ["FtrlParams<{}", "Ftrl<{}"]);
    both!(sec_pls, ["PlsRegression<{}", "PlsCanonical<{}", "PlsCca<{}", "PlsSvdParams"]);
    both!(sec_ica, ["GFunc", "FastIcaValidParams<{}", "FastIca<{}"]);
    both!(sec_scalers, ["WhiteningMethod", "ScalingMethod<{}", "LinearScalerParams<{}", "LinearScaler<{}", "NormScaler", "Whitener", "FittedWhitener<{}"]);
    ensure!(vec!["PcaParams".to_string(), "Pca<f64>".to_string()], |c: &mut Ctx, r: &mut Sm64| sec_pca(c, r));
    ensure!(["TfIdfMethod", "CountVectorizerParams", "CountVectorizerValidParams", "CountVectorizer", "TfIdfVectorizer", "FittedTfIdfVectorizer"].iter().map(|s| s.to_string()).collect(),
            |c: &mut Ctx, r: &mut Sm64| sec_text(c, r));
    sec_errors(&mut ctx);
    { let mut r = rng.fork(); sec_histories!(f32, &mut ctx, &mut r); }
    { let mut r = rng.fork(); sec_histories!(f64, &mut ctx, &mut r); }
    sec_zoo(&mut ctx);
    // a type that derives serde nominally but cannot be instantiated: linfa_kernel::Kernel (finding F23)
    {
        let id = ctx.id; ctx.id += 1;
        if ctx.out.wanted(id) {
            let desc = "{\"type\": \"KernelBase<K1,K2> (linfa_kernel::Kernel<F>)\", \"note\": \"serde(bound = KernelInner<K1,K2>: Serialize) but KernelInner has no serde impl: any caller serialising a Kernel fails to compile\"}";
            ctx.out.case(id, &format!("Nominal {}%N \"KernelBase\"", id), &["type_KernelBase", "uninhabitable_derive"], desc, None);
        }
    }

    // coverage sweep: every declared type must have been seen (Coq compares with the translated list)
    let id = 1_000_000;
    if ctx.out.wanted(id) {
        let names: Vec<String> = ctx.seen.iter().map(|s| coq_string(s)).collect();
        let coq = format!("Sweep {}%N [{}]", id, names.join("; "));
        let desc = format!("{{\"sweep\": \"type names recorded in this run\", \"count\": {}}}", names.len());
        ctx.out.case(id, &coq, &["sweep"], &desc, None);
    }
    ctx.out.bump_by("json_roundtrips_within_tolerance", ctx.json_ok);
    ctx.out.bump_by("json_not_applicable", ctx.json_na);
    ctx.out.bump_by("json_worst_ulp", ctx.json_worst as u64);
    ctx.out.bump_by("json_text_and_decode_cases_sent_to_coq", ctx.json_cases);
    let _ = (Ix1, O_TREE, O_GUARD, O_REFIT);
    ctx.out.finish("every serialisable type x {parameter sets incl. invalid and extreme values, fitted models on random blobs} x {f32,f64}, each through bincode (Round) and serde_json (JRound); incremental-fit histories x 4 round-trip patterns; the attribute zoo (every modelled serde attribute x lossless and lossy values); a case is non-trivial when its tree carries at least one scalar; distinct = distinct (type, bincode bytes / JSON description / history pattern / zoo value)");
}
