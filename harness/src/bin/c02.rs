//! C02 harness: dataset operations on identity-tagged datasets; emits Coq cases for C02/Corr.v.
//!
//! Record cell (r, c) of the ORIGINAL dataset carries the tag r*64 + c, the weight of sample r is
//! r + 0.5 (written 2w = 2r+1), names are "f<c>" / "t<c>".  Every result of every operation is read
//! out through the public accessors into a type-erased canonical form (`Canon`), the next operation
//! of a history is applied to a standard-layout dataset rebuilt from the kept result.
use linfa::dataset::{AsTargets, Dataset, DatasetBase, Label, Labels, Records};
use ndarray::{Array1, Array2, ArrayView, Axis, Dimension, Ix1, Ix2};
use rand::SeedableRng;
use rand_xoshiro::Xoshiro256Plus;
use std::collections::HashMap;
use std::panic::AssertUnwindSafe;
use vh::*;

const TAGW: u64 = 64;
const STAY: u64 = 255;

#[derive(Clone, PartialEq, Debug)]
struct Canon {
    nf: usize,
    nt: usize,
    t1: bool,
    recs: Vec<Vec<u64>>,
    tgts: Vec<Vec<u64>>,
    ws: Vec<u64>,
    fnm: Vec<u64>,
    tnm: Vec<u64>,
}

#[derive(Clone, Debug)]
struct OutC {
    label: Option<u64>,
    ds: Canon,
    counts: Vec<Vec<(u64, usize)>>,
}
fn plain(ds: Canon) -> OutC {
    OutC { label: None, ds, counts: vec![] }
}

struct StepRes {
    panic: Option<String>,
    outs: Vec<OutC>,
    same: bool,
}

// ---------------------------------------------------------------- labels
trait Lab: Label + 'static {
    fn enc(&self) -> u64;
    fn dec(v: u64) -> Self;
}
impl Lab for usize {
    fn enc(&self) -> u64 { *self as u64 }
    fn dec(v: u64) -> Self { v as usize }
}
impl Lab for bool {
    fn enc(&self) -> u64 { *self as u64 }
    fn dec(v: u64) -> Self { v & 1 == 1 }
}
static STRS: [&str; 16] = ["s0", "s1", "s2", "s3", "s4", "s5", "s6", "s7", "s8", "s9", "s10", "s11", "s12", "s13", "s14", "s15"];
impl Lab for &'static str {
    fn enc(&self) -> u64 { self[1..].parse().unwrap() }
    fn dec(v: u64) -> Self { STRS[(v % 16) as usize] }
}
impl Lab for String {
    fn enc(&self) -> u64 { self[1..].parse().unwrap() }
    fn dec(v: u64) -> Self { format!("s{}", v) }
}

#[derive(Clone, Copy, PartialEq, Debug)]
enum LT { Usize, Bool, Str, Strg }

// ---------------------------------------------------------------- read-out / build
fn pname(s: &str) -> u64 {
    s.get(1..).and_then(|x| x.parse().ok()).unwrap_or(9999)
}

fn tg_rows<L: Lab, I: Dimension>(a: ArrayView<L, I>) -> (bool, usize, Vec<Vec<u64>>) {
    let a = a.into_dyn();
    match a.ndim() {
        1 => (true, 1, a.iter().map(|x| vec![x.enc()]).collect()),
        2 => {
            let nt = a.shape()[1];
            (false, nt, a.axis_iter(Axis(0)).map(|r| r.iter().map(|x| x.enc()).collect()).collect())
        }
        _ => panic!("unexpected target dimension"),
    }
}

macro_rules! canon {
    ($d:expr) => {{
        let d = &$d;
        let r = d.records().view();
        let (t1, nt, tgts) = tg_rows(d.as_targets());
        Canon {
            nf: r.ncols(),
            nt,
            t1,
            recs: (0..r.nrows()).map(|i| r.row(i).iter().map(|v| *v as u64).collect()).collect(),
            tgts,
            ws: d.weights.iter().map(|w| (*w * 2.0) as u64).collect(),
            fnm: d.feature_names().iter().map(|s| pname(s)).collect(),
            tnm: d.target_names().iter().map(|s| pname(s)).collect(),
        }
    }};
}

fn recs_arr(c: &Canon) -> Array2<f64> {
    Array2::from_shape_vec((c.recs.len(), c.nf), c.recs.iter().flatten().map(|v| *v as f64).collect()).unwrap()
}
fn decorate<T: AsTargets>(d: DatasetBase<Array2<f64>, T>, c: &Canon) -> DatasetBase<Array2<f64>, T> {
    d.with_weights(Array1::from(c.ws.iter().map(|w| *w as f32 / 2.0).collect::<Vec<f32>>()))
        .with_feature_names(c.fnm.iter().map(|k| format!("f{}", k)).collect::<Vec<_>>())
        .with_target_names(c.tnm.iter().map(|k| format!("t{}", k)).collect::<Vec<_>>())
}
fn build1<L: Lab>(c: &Canon) -> Dataset<f64, L, Ix1> {
    let t = Array1::from(c.tgts.iter().map(|r| L::dec(r[0])).collect::<Vec<L>>());
    decorate(Dataset::new(recs_arr(c), t), c)
}
fn build2<L: Lab>(c: &Canon) -> Dataset<f64, L, Ix2> {
    let t = Array2::from_shape_vec((c.tgts.len(), c.nt), c.tgts.iter().flatten().map(|v| L::dec(*v)).collect::<Vec<L>>()).unwrap();
    decorate(Dataset::new(recs_arr(c), t), c)
}
fn counts_vec<L: Lab>(v: Vec<HashMap<L, usize>>) -> Vec<Vec<(u64, usize)>> {
    v.into_iter()
        .map(|m| {
            let mut l: Vec<(u64, usize)> = m.into_iter().map(|(k, c)| (k.enc(), c)).collect();
            l.sort();
            l
        })
        .collect()
}

// ---------------------------------------------------------------- operations
#[derive(Clone, Debug, PartialEq)]
enum Op {
    SplitOwned(f32),
    SplitView(f32),
    Shuffle,
    Bootstrap(usize, usize),
    BootSamples(usize),
    BootFeatures(usize),
    WithLabels(Vec<u64>),
    OneVsAll,
    MapTargets(u64, u64, u64),
    View,
    ToOwned,
    IntoSingle,
    SampleIter,
    FeatureIter,
    TargetIter,
    Chunks(usize),
}

// operations available for every label type, on an owned dataset or a view bound to `$ds`
macro_rules! ops_any {
    ($ds:ident, $op:expr, $L:ty) => {
        match $op {
            Op::View => {
                let v = $ds.view();
                Some(vec![plain(canon!(v))])
            }
            Op::MapTargets(a, b, m) => {
                let (a, b, m) = (*a, *b, *m);
                let r = $ds.clone().map_targets(|x| <$L as Lab>::dec((a * x.enc() + b) % m));
                Some(vec![plain(canon!(r))])
            }
            Op::SampleIter => {
                let base = canon!($ds);
                let mut recs: Vec<Vec<u64>> = vec![];
                let mut tg: Vec<Vec<u64>> = vec![];
                for (a, b) in $ds.sample_iter() {
                    recs.push(a.iter().map(|v| *v as u64).collect());
                    tg.push(b.iter().map(|x| x.enc()).collect());
                }
                Some(vec![plain(Canon { nf: base.nf, nt: base.nt, t1: base.t1, recs, tgts: tg, ws: vec![], fnm: vec![], tnm: vec![] })])
            }
            Op::FeatureIter => Some($ds.feature_iter().map(|v| plain(canon!(v))).collect::<Vec<OutC>>()),
            Op::TargetIter => Some($ds.target_iter().map(|v| plain(canon!(v))).collect::<Vec<OutC>>()),
            _ => None,
        }
    };
}

// operations that need `Copy` labels
macro_rules! ops_copy {
    (no, $ds:ident, $op:expr, $seed:expr, $L:ty) => {
        None::<Vec<OutC>>
    };
    (yes, $ds:ident, $op:expr, $seed:expr, $L:ty) => {
        match $op {
            Op::Shuffle => {
                let mut rng = Xoshiro256Plus::seed_from_u64($seed);
                let r = $ds.shuffle(&mut rng);
                Some(vec![plain(canon!(r))])
            }
            Op::Bootstrap(a, b) => {
                let mut rng = Xoshiro256Plus::seed_from_u64($seed);
                let v: Vec<OutC> = $ds.bootstrap((*a, *b), &mut rng).take(2).map(|d| plain(canon!(d))).collect();
                Some(v)
            }
            Op::BootSamples(k) => {
                let mut rng = Xoshiro256Plus::seed_from_u64($seed);
                let v: Vec<OutC> = $ds.bootstrap_samples(*k, &mut rng).take(2).map(|d| plain(canon!(d))).collect();
                Some(v)
            }
            Op::BootFeatures(k) => {
                let mut rng = Xoshiro256Plus::seed_from_u64($seed);
                let v: Vec<OutC> = $ds.bootstrap_features(*k, &mut rng).take(2).map(|d| plain(canon!(d))).collect();
                Some(v)
            }
            Op::WithLabels(ls) => {
                let labels: Vec<$L> = ls.iter().map(|v| <$L as Lab>::dec(*v)).collect();
                let r = $ds.with_labels(&labels);
                let counts = counts_vec(r.label_count());
                Some(vec![OutC { label: None, ds: canon!(r), counts }])
            }
            Op::ToOwned => {
                let r = DatasetBase::to_owned(&$ds);
                Some(vec![plain(canon!(r))])
            }
            Op::Chunks(s) => Some($ds.sample_chunks(*s).map(|v| plain(canon!(v))).collect::<Vec<OutC>>()),
            _ => None,
        }
    };
}

// operations tied to the target dimension
macro_rules! ops_dim {
    (1, owned, $ds:ident, $op:expr) => {
        ops_dim!(1, view, $ds, $op)
    };
    (1, view, $ds:ident, $op:expr) => {
        match $op {
            Op::OneVsAll => {
                let r = $ds.one_vs_all().unwrap();
                let mut v: Vec<OutC> = r
                    .iter()
                    .map(|(l, d)| OutC { label: Some(l.enc()), counts: counts_vec(d.label_count()), ds: canon!(d) })
                    .collect();
                v.sort_by_key(|o| o.label);
                Some(v)
            }
            _ => None,
        }
    };
    (2, owned, $ds:ident, $op:expr) => {
        match $op {
            Op::IntoSingle => {
                let r = $ds.clone().into_single_target();
                Some(vec![plain(canon!(r))])
            }
            _ => None,
        }
    };
    (2, view, $ds:ident, $op:expr) => {
        None::<Vec<OutC>>
    };
}

macro_rules! def_step {
    ($name:ident, $build:ident, $copy:tt, $ix:tt, [$($bound:tt)*]) => {
        fn $name<L: $($bound)*>(c: &Canon, op: &Op, on_view: bool, seed: u64) -> StepRes {
            let before = c.clone();
            let r = guarded(AssertUnwindSafe(|| {
                let d = $build::<L>(c);
                let outs: Option<Vec<OutC>> = if on_view {
                    let v = d.view();
                    match op {
                        Op::SplitView(r) => {
                            let (a, b) = v.split_with_ratio(*r);
                            Some(vec![plain(canon!(a)), plain(canon!(b))])
                        }
                        _ => ops_any!(v, op, L).or_else(|| ops_copy!($copy, v, op, seed, L)).or_else(|| ops_dim!($ix, view, v, op)),
                    }
                } else {
                    match op {
                        Op::SplitOwned(r) => {
                            let (a, b) = d.clone().split_with_ratio(*r);
                            Some(vec![plain(canon!(a)), plain(canon!(b))])
                        }
                        _ => ops_any!(d, op, L).or_else(|| ops_copy!($copy, d, op, seed, L)).or_else(|| ops_dim!($ix, owned, d, op)),
                    }
                };
                let same = canon!(d) == before;
                (outs, same)
            }));
            match r {
                Ok((Some(outs), same)) => StepRes { panic: None, outs, same },
                Ok((None, _)) => panic!("harness: operation {:?} (view={}) is not available for this dataset type", op, on_view),
                Err(p) => StepRes { panic: Some(p), outs: vec![], same: true },
            }
        }
    };
}
def_step!(step1, build1, yes, 1, [Lab + Copy]);
def_step!(step2, build2, yes, 2, [Lab + Copy]);
def_step!(step1_nc, build1, no, 1, [Lab]);
def_step!(step2_nc, build2, no, 2, [Lab]);

fn needs_copy(op: &Op) -> bool {
    matches!(op, Op::Shuffle | Op::Bootstrap(..) | Op::BootSamples(_) | Op::BootFeatures(_) | Op::WithLabels(_) | Op::ToOwned | Op::Chunks(_))
}
/// can the call be written at all (type level) for this dataset / label type / ownership?
fn expressible(lt: LT, c: &Canon, op: &Op, on_view: bool) -> bool {
    if lt == LT::Strg && needs_copy(op) { return false; }
    match op {
        Op::SplitOwned(_) => !on_view,
        Op::SplitView(_) => on_view,
        Op::OneVsAll => c.t1,
        Op::IntoSingle => !c.t1 && !on_view,
        _ => true,
    }
}

fn run_step(lt: LT, c: &Canon, op: &Op, on_view: bool, seed: u64) -> StepRes {
    match (lt, c.t1) {
        (LT::Usize, true) => step1::<usize>(c, op, on_view, seed),
        (LT::Usize, false) => step2::<usize>(c, op, on_view, seed),
        (LT::Bool, true) => step1::<bool>(c, op, on_view, seed),
        (LT::Bool, false) => step2::<bool>(c, op, on_view, seed),
        (LT::Str, true) => step1::<&'static str>(c, op, on_view, seed),
        (LT::Str, false) => step2::<&'static str>(c, op, on_view, seed),
        (LT::Strg, true) => step1_nc::<String>(c, op, on_view, seed),
        (LT::Strg, false) => step2_nc::<String>(c, op, on_view, seed),
    }
}

// ---------------------------------------------------------------- read-back of the drawn indices
fn rid(row: &[u64]) -> Option<u64> {
    row.first().map(|c| c / TAGW)
}
/// for every result row the index of a source row it can have come from (identity tag of its first
/// cell, then its targets); `distinct`: a source row is used once (shuffle)
fn readback_rows(cur: &Canon, out: &Canon, distinct: bool) -> Vec<usize> {
    let mut used = vec![false; cur.recs.len()];
    let mut res = vec![];
    for i in 0..out.recs.len() {
        let r = rid(&out.recs[i]);
        let tag_match = |j: usize| r.is_none() || rid(&cur.recs[j]).is_none() || rid(&cur.recs[j]) == r;
        let tg_match = |j: usize| out.tgts.get(i) == cur.tgts.get(j);
        let n = cur.recs.len();
        let pick = (0..n)
            .find(|&j| tag_match(j) && tg_match(j) && !(distinct && used[j]))
            .or_else(|| (0..n).find(|&j| tag_match(j) && !(distinct && used[j])))
            .or_else(|| (0..n).find(|&j| tag_match(j)))
            .unwrap_or(0);
        if pick < n { used[pick] = true; }
        res.push(pick);
    }
    res
}
fn readback_cols(cur: &Canon, out: &Canon, k: usize) -> Vec<usize> {
    match (out.recs.first(), cur.recs.first()) {
        (Some(o), Some(c)) => o.iter().map(|cell| c.iter().position(|x| x % TAGW == cell % TAGW).unwrap_or(0)).collect(),
        _ => vec![0; k],
    }
}

// ---------------------------------------------------------------- Coq printing
fn cnat(xs: &[usize]) -> String {
    format!("({})%nat", clist(xs, |x| format!("{}", x)))
}
fn cvecu(xs: &[u64]) -> String {
    format!("({})%N", clist(xs, |x| format!("{}", x)))
}
fn cmatu(rows: &[Vec<u64>]) -> String {
    format!("({})%N", clist(rows, |r| clist(r, |x| format!("{}", x))))
}
fn canon_coq(c: &Canon) -> String {
    format!(
        "(mkD {}%nat {}%nat {} {} {} {} {} {})",
        c.nf, c.nt, cbool(c.t1), cmatu(&c.recs), cmatu(&c.tgts), cvecu(&c.ws), cvecu(&c.fnm), cvecu(&c.tnm)
    )
}
fn out_coq(o: &OutC) -> String {
    let lab = match o.label { Some(l) => format!("(Some {}%N)", l), None => "None".to_string() };
    let counts = clist(&o.counts, |m| clist(m, |(k, c)| format!("({}%N, {}%nat)", k, c)));
    format!("(mkO {} {} {})", lab, canon_coq(&o.ds), counts)
}
fn ratio_coq(r: f32) -> String {
    format!("(b32_of_bits {}%Z)", r.to_bits())
}
fn op_coq(op: &Op, cur: &Canon, res: &StepRes) -> String {
    match op {
        Op::SplitOwned(r) => format!("(OpSplitOwned {})", ratio_coq(*r)),
        Op::SplitView(r) => format!("(OpSplitView {})", ratio_coq(*r)),
        Op::Shuffle => {
            let idx = res.outs.first().map(|o| readback_rows(cur, &o.ds, true)).unwrap_or_default();
            format!("(OpShuffle {})", cnat(&idx))
        }
        Op::Bootstrap(a, b) => {
            let draws: Vec<String> = if res.panic.is_some() {
                vec![format!("({}, {})", cnat(&vec![0; *a]), cnat(&vec![0; *b]))]
            } else {
                res.outs.iter().map(|o| format!("({}, {})", cnat(&readback_rows(cur, &o.ds, false)), cnat(&readback_cols(cur, &o.ds, *b)))).collect()
            };
            format!("(OpBootstrap [{}])", draws.join("; "))
        }
        Op::BootSamples(k) => {
            let draws: Vec<String> = if res.panic.is_some() { vec![cnat(&vec![0; *k])] } else { res.outs.iter().map(|o| cnat(&readback_rows(cur, &o.ds, false))).collect() };
            format!("(OpBootSamples [{}])", draws.join("; "))
        }
        Op::BootFeatures(k) => {
            let draws: Vec<String> = if res.panic.is_some() { vec![cnat(&vec![0; *k])] } else { res.outs.iter().map(|o| cnat(&readback_cols(cur, &o.ds, *k))).collect() };
            format!("(OpBootFeatures [{}])", draws.join("; "))
        }
        Op::WithLabels(ls) => format!("(OpWithLabels {})", cvecu(ls)),
        Op::OneVsAll => "OpOneVsAll".into(),
        Op::MapTargets(a, b, m) => format!("(OpMapTargets (affine {}%N {}%N {}%N))", a, b, m),
        Op::View => "OpView".into(),
        Op::ToOwned => "OpToOwned".into(),
        Op::IntoSingle => "OpIntoSingle".into(),
        Op::SampleIter => "OpSampleIter".into(),
        Op::FeatureIter => "OpFeatureIter".into(),
        Op::TargetIter => "OpTargetIter".into(),
        Op::Chunks(s) => format!("(OpChunks {}%nat)", s),
    }
}
fn step_coq(op: &Op, cur: &Canon, res: &StepRes, keep: u64) -> String {
    format!(
        "(mkStep {} {}%N {} {} [{}])",
        op_coq(op, cur, res),
        keep,
        cbool(res.panic.is_some()),
        cbool(res.same),
        res.outs.iter().map(out_coq).collect::<Vec<_>>().join("; ")
    )
}

// ---------------------------------------------------------------- generators
fn modulus(lt: LT) -> u64 {
    match lt { LT::Bool => 2, _ => 4 }
}

/// tk: 0 = one-dimensional targets, k >= 1: two-dimensional with k-1 columns
fn gen_ds(r: &mut Sm64, lt: LT, n: usize, nf: usize, tk: usize, weights: bool, names: bool, tagged: bool) -> Canon {
    let (t1, nt) = if tk == 0 { (true, 1) } else { (false, tk - 1) };
    let nl = if lt == LT::Bool { 2 } else { 2 + r.below(3) };
    let recs = (0..n).map(|i| (0..nf).map(|c| i as u64 * TAGW + c as u64).collect()).collect();
    let tgts = (0..n)
        .map(|i| (0..nt).map(|c| if tagged && lt == LT::Usize { 100 + (i * 8 + c) as u64 } else { r.below(nl) }).collect())
        .collect();
    Canon {
        nf, nt, t1, recs, tgts,
        ws: if weights { (0..n).map(|i| 2 * i as u64 + 1).collect() } else { vec![] },
        fnm: if names { (0..nf as u64).collect() } else { vec![] },
        tnm: if names { (0..nt as u64).collect() } else { vec![] },
    }
}

fn nudge(x: f32, d: i64) -> f32 {
    if x == 0.0 { return if d < 0 { -1e-6 } else if d > 0 { f32::from_bits(d as u32) } else { 0.0 }; }
    f32::from_bits((x.to_bits() as i64 + d) as u32)
}
/// ratios around k/n (where the single-precision product sits on or next to an integer) and the usual ones
fn gen_ratio(r: &mut Sm64, n: usize) -> f32 {
    match r.below(8) {
        0 => *r.pick(&[0.0f32, 1.0, 0.5, 0.1, 0.9, 0.25, 0.75, 1.0 / 3.0, 0.7, 0.3, 0.99, 0.01]),
        _ => {
            let k = r.below(n as u64 + 1) as f32;
            let base = if n == 0 { r.unit() as f32 } else { k / n as f32 };
            nudge(base, r.range(-2, 2))
        }
    }
}
fn bad_ratio(r: &mut Sm64) -> f32 {
    *r.pick(&[1.5f32, 2.0, f32::NAN, f32::INFINITY, f32::NEG_INFINITY, -0.5, -0.0, 1.0000001, 1e30, -1e-30, 1.1])
}

/// a label value that no sample carries and that every label type can represent (none for bool data using both values)
fn foreign(c: &Canon) -> Option<u64> {
    let present = labels_of(c);
    if present.iter().all(|v| *v < 2) { (0..2).find(|v| !present.contains(v)) } else { Some(7) }
}
fn labels_of(c: &Canon) -> Vec<u64> {
    let mut v: Vec<u64> = c.tgts.iter().flatten().cloned().collect();
    v.sort();
    v.dedup();
    v
}

fn gen_labels(r: &mut Sm64, c: &Canon) -> Vec<u64> {
    let present = labels_of(c);
    let mut ls: Vec<u64> = present.iter().cloned().filter(|_| r.chance(0.5)).collect();
    if r.chance(0.2) { if let Some(f) = foreign(c) { ls.push(f); } }   // a label nobody carries
    if r.chance(0.15) { if let Some(x) = ls.first().cloned() { ls.push(x); } }   // listed twice
    if r.chance(0.5) { ls.reverse(); }
    ls
}

/// one well-formed call on `c` (inside the documented domain whenever possible)
fn gen_op(r: &mut Sm64, lt: LT, c: &Canon) -> (Op, bool) {
    let n = c.recs.len();
    for _ in 0..100 {
        let on_view = r.chance(0.5);
        let op = match r.below(17) {
            0 | 1 => if on_view { Op::SplitView(gen_ratio(r, n)) } else { Op::SplitOwned(gen_ratio(r, n)) },
            2 => Op::Shuffle,
            3 => Op::Bootstrap(r.below(5) as usize, r.below(4) as usize),
            4 => Op::BootSamples(r.below(6) as usize),
            5 => Op::BootFeatures(r.below(5) as usize),
            6 | 7 => Op::WithLabels(gen_labels(r, c)),
            8 => Op::OneVsAll,
            9 => Op::MapTargets(1 + r.below(3), r.below(4), modulus(lt)),
            10 => Op::View,
            11 => Op::ToOwned,
            12 => Op::IntoSingle,
            13 => Op::SampleIter,
            14 => Op::FeatureIter,
            15 => Op::TargetIter,
            _ => Op::Chunks(1 + r.below(4) as usize),
        };
        if !expressible(lt, c, &op, on_view) { continue; }
        // stay inside the documented domain in this stream
        let ok = match &op {
            Op::Bootstrap(a, b) => (*a == 0 || n > 0) && (*b == 0 || c.nf > 0),
            Op::BootSamples(k) => *k == 0 || n > 0,
            Op::BootFeatures(k) => *k == 0 || c.nf > 0,
            Op::IntoSingle => c.nt == 1 || n == 0,
            Op::TargetIter => !c.t1,
            Op::MapTargets(..) => c.tgts.iter().flatten().all(|v| *v < 64),
            _ => true,
        };
        if ok { return (op, on_view); }
    }
    (Op::View, false)
}

/// calls outside the documented domain (panics expected) and ill-formed weights
fn gen_bad_op(r: &mut Sm64, lt: LT, c: &Canon) -> (Op, bool) {
    for _ in 0..100 {
        let on_view = r.chance(0.5);
        let op = match r.below(8) {
            0 | 1 => if on_view { Op::SplitView(bad_ratio(r)) } else { Op::SplitOwned(bad_ratio(r)) },
            2 => Op::Chunks(0),
            3 => Op::IntoSingle,
            4 => Op::TargetIter,
            5 => Op::Bootstrap(1 + r.below(3) as usize, 1 + r.below(3) as usize),
            6 => Op::BootSamples(1 + r.below(3) as usize),
            _ => Op::BootFeatures(1 + r.below(3) as usize),
        };
        if expressible(lt, c, &op, on_view) { return (op, on_view); }
    }
    (Op::Chunks(0), false)
}

struct Emit {
    id: u64,
}

fn lt_name(lt: LT) -> &'static str {
    match lt { LT::Usize => "usize", LT::Bool => "bool", LT::Str => "str", LT::Strg => "String" }
}
fn op_name(op: &Op) -> &'static str {
    match op {
        Op::SplitOwned(_) => "split_owned", Op::SplitView(_) => "split_view", Op::Shuffle => "shuffle", Op::Bootstrap(..) => "bootstrap",
        Op::BootSamples(_) => "bootstrap_samples", Op::BootFeatures(_) => "bootstrap_features", Op::WithLabels(_) => "with_labels",
        Op::OneVsAll => "one_vs_all", Op::MapTargets(..) => "map_targets", Op::View => "view", Op::ToOwned => "to_owned",
        Op::IntoSingle => "into_single_target", Op::SampleIter => "sample_iter", Op::FeatureIter => "feature_iter",
        Op::TargetIter => "target_iter", Op::Chunks(_) => "sample_chunks",
    }
}

fn hash_canon(c: &Canon, salt: u64) -> u64 {
    let mut v: Vec<u64> = vec![c.nf as u64, c.nt as u64, c.t1 as u64, c.recs.len() as u64, c.ws.len() as u64, c.fnm.len() as u64, c.tnm.len() as u64];
    v.extend(c.tgts.iter().flatten());
    let bytes: Vec<u8> = v.iter().flat_map(|x| x.to_le_bytes().to_vec()).collect();
    fnv(&bytes) ^ salt.wrapping_mul(0x9E3779B97F4A7C15)
}

/// run the planned calls, write one CSeq case
fn emit_seq(out: &mut Out, em: &mut Emit, lt: LT, src: &Canon, plan: &mut dyn FnMut(&Canon, usize) -> Option<(Op, bool, bool)>, stream: &str, r: &mut Sm64) {
    let id = em.id;
    em.id += 1;
    if !out.wanted(id) {
        // keep the random stream aligned: the plan still has to be consumed
    }
    let mut cur = src.clone();
    let mut steps: Vec<String> = vec![];
    let mut names: Vec<String> = vec![];
    let mut salt: u64 = 0;
    let mut k = 0;
    while let Some((op, on_view, stay)) = plan(&cur, k) {
        k += 1;
        let seed = r.below(1 << 30);
        let res = run_step(lt, &cur, &op, on_view, seed);
        let keep = if stay || res.panic.is_some() || res.outs.is_empty() { STAY } else { r.below(res.outs.len() as u64) };
        steps.push(step_coq(&op, &cur, &res, keep));
        names.push(format!("{}{}{}", op_name(&op), if on_view { "@view" } else { "" }, if res.panic.is_some() { "!panic" } else { "" }));
        out.bump(&format!("op_{}", op_name(&op)));
        if res.panic.is_some() { out.bump("panics"); }
        salt = salt.wrapping_mul(31).wrapping_add(fnv(format!("{:?}{}", op, on_view).as_bytes()));
        if keep != STAY { cur = res.outs[keep as usize].ds.clone(); }
    }
    let n = src.recs.len();
    out.bump(&format!("stream_{}", stream));
    out.bump(&format!("labels_{}", lt_name(lt)));
    out.bump(&format!("n_{}", if n < 4 { "lt4" } else if n < 9 { "4to8" } else { "ge9" }));
    out.bump(&format!("targets_{}", if src.t1 { "1d".to_string() } else { format!("2d_{}col", src.nt) }));
    out.bump(if src.ws.is_empty() { "weights_no" } else { "weights_yes" });
    out.bump(if src.fnm.is_empty() && src.tnm.is_empty() { "names_no" } else { "names_yes" });
    let desc = format!(
        "{{\"stream\": {}, \"label_type\": {}, \"n\": {}, \"nfeatures\": {}, \"targets\": {}, \"weights\": {}, \"names\": {}, \"target_values\": {:?}, \"calls\": {}}}",
        jstr(stream), jstr(lt_name(lt)), n, src.nf, jstr(&if src.t1 { "1-D".to_string() } else { format!("2-D x{}", src.nt) }),
        !src.ws.is_empty(), !src.fnm.is_empty() || !src.tnm.is_empty(), src.tgts, jstr(&names.join(" -> "))
    );
    let wf_src = src.ws.is_empty() || src.ws.len() == n;
    let coq = format!("(CSeq {}%N {} {} [{}])", id, cbool(wf_src), canon_coq(src), steps.join(";\n   "));
    let key = if n >= 2 { Some(hash_canon(src, salt)) } else { None };
    let tags = [format!("stream_{}", stream), format!("labels_{}", lt_name(lt))];
    let tagrefs: Vec<&str> = tags.iter().map(|s| s.as_str()).collect();
    out.case(id, &coq, &tagrefs, &desc, key);
}

fn all_single_ops(r: &mut Sm64, lt: LT, c: &Canon) -> Vec<(Op, bool)> {
    let n = c.recs.len();
    let mut v: Vec<(Op, bool)> = vec![];
    for k in 0..=n {
        let base = if n == 0 { 0.0 } else { k as f32 / n as f32 };
        for d in [-1i64, 0, 1] {
            let ratio = nudge(base, d);
            v.push((Op::SplitOwned(ratio), false));
            v.push((Op::SplitView(ratio), true));
        }
    }
    for on_view in [false, true] {
        v.push((Op::Shuffle, on_view));
        v.push((Op::Bootstrap(r.below(4) as usize, r.below(4) as usize), on_view));
        v.push((Op::BootSamples(r.below(5) as usize), on_view));
        v.push((Op::BootFeatures(r.below(4) as usize), on_view));
        let ls = labels_of(c);
        // every subset of the (at most 3 smallest) labels present, plus a foreign label
        let m = ls.len().min(3);
        for mask in 0..(1u32 << m) {
            let mut sub: Vec<u64> = (0..m).filter(|i| mask >> i & 1 == 1).map(|i| ls[i]).collect();
            if mask % 3 == 1 { if let Some(f) = foreign(c) { sub.push(f); } }
            if on_view == (mask % 2 == 0) { v.push((Op::WithLabels(sub), on_view)); }
        }
        v.push((Op::OneVsAll, on_view));
        v.push((Op::MapTargets(1 + r.below(3), r.below(4), modulus(lt)), on_view));
        v.push((Op::View, on_view));
        v.push((Op::ToOwned, on_view));
        v.push((Op::IntoSingle, on_view));
        v.push((Op::SampleIter, on_view));
        v.push((Op::FeatureIter, on_view));
        v.push((Op::TargetIter, on_view));
        for s in 0..=(n + 1).min(4) {
            if on_view == (s % 2 == 0) { v.push((Op::Chunks(s), on_view)); }
        }
    }
    v.into_iter().filter(|(op, w)| expressible(lt, c, op, *w)).collect()
}

fn main() {
    let args = parse_args();
    let mut rng = Sm64::new(args.seed);
    let thorough = args.tier == "thorough";
    let mut out = Out::new(&args.out, args.shards, "C02.Corr", "case", args.only);
    let mut em = Emit { id: 0 };
    let lts = [LT::Usize, LT::Bool, LT::Str, LT::Strg];

    // (a) exhaustive-small: every operation once on every small shape
    let maxn = if thorough { 8 } else { 5 };
    let mut combo = 0usize;
    for n in 0..=maxn {
        for nf in 0..=3usize {
            for tk in 0..=3usize {
                for wn in 0..4u32 {
                    let lt = lts[combo % 4];
                    combo += 1;
                    let mut r = rng.fork();
                    let src = gen_ds(&mut r, lt, n, nf, tk, wn & 1 == 1, wn & 2 == 2, combo % 5 == 0);
                    let ops = all_single_ops(&mut r, lt, &src);
                    let mut it = ops.into_iter();
                    let mut r2 = r.fork();
                    emit_seq(&mut out, &mut em, lt, &src, &mut |_c, _k| it.next().map(|(o, w)| (o, w, true)), "exhaustive", &mut r2);
                }
            }
        }
    }

    // (b) random histories of 1..4 (thorough: ..6) calls
    let nseq = if thorough { 12000 } else { 1400 };
    let maxlen = if thorough { 6 } else { 4 };
    let maxn = if thorough { 24 } else { 12 };
    for _ in 0..nseq {
        let mut r = rng.fork();
        let lt = *r.pick(&lts);
        let n = if r.chance(0.1) { r.below(2) as usize } else { 2 + r.below(maxn - 1) as usize };
        let nf = if r.chance(0.08) { 0 } else { 1 + r.below(4) as usize };
        let tk = *r.pick(&[0usize, 0, 0, 2, 2, 3, 3, 4, 1]);
        let (w, nm, tg) = (r.chance(0.7), r.chance(0.7), r.chance(0.25));
        let src = gen_ds(&mut r, lt, n, nf, tk, w, nm, tg);
        let len = 1 + r.below(maxlen) as usize;
        let mut r1 = r.fork();
        let mut r2 = r.fork();
        emit_seq(&mut out, &mut em, lt, &src, &mut |c, k| if k < len { let (o, w) = gen_op(&mut r1, lt, c); Some((o, w, false)) } else { None }, "random", &mut r2);
    }

    // (c) malformed: calls outside the documented domain, weights of the wrong length
    let nbad = if thorough { 1500 } else { 240 };
    for _ in 0..nbad {
        let mut r = rng.fork();
        let lt = *r.pick(&lts);
        let n = r.below(7) as usize;
        let nf = r.below(4) as usize;
        let tk = *r.pick(&[0usize, 0, 2, 3, 1]);
        let (w, nm) = (r.chance(0.6), r.chance(0.6));
        let mut src = gen_ds(&mut r, lt, n, nf, tk, w, nm, false);
        let bad_weights = r.chance(0.4);
        if bad_weights {
            // ill-formed on purpose: a weight vector that is neither empty nor one per sample
            let m = if n > 1 && r.chance(0.5) { n - 1 } else { n + 1 + r.below(2) as usize };
            src.ws = (0..m).map(|i| 2 * i as u64 + 1).collect();
        }
        let len = 1 + r.below(3) as usize;
        let mut r1 = r.fork();
        let mut r2 = r.fork();
        emit_seq(
            &mut out, &mut em, lt, &src,
            &mut |c, k| {
                if k >= len { return None; }
                let (o, w) = if bad_weights && r1.chance(0.6) { gen_op(&mut r1, lt, c) } else { gen_bad_op(&mut r1, lt, c) };
                // ill-formed weights stay with the source only: every call is made on the source
                Some((o, w, bad_weights))
            },
            if bad_weights { "malformed_weights" } else { "malformed_calls" }, &mut r2,
        );
    }

    // (d) the split point alone, on zero-feature datasets without targets (any n is cheap)
    let nratio = if thorough { 6000 } else { 600 };
    let big: [u64; 12] = [16777215, 16777216, 16777217, 16777219, 33554433, 50000001, 100000007, 1000000007, 4294967297, 1099511640121, 999999937, 16777218];
    for i in 0..nratio {
        let mut r = rng.fork();
        let n: u64 = match i % 4 {
            0 => *r.pick(&big),
            1 => 1 + r.below(64),
            2 => 1 + r.below(5000),
            _ => 1 + r.below(1 << 26),
        };
        let ratio = match r.below(10) {
            0 => bad_ratio(&mut r),
            1 => *r.pick(&[0.0f32, 1.0, 0.5, 0.1, 0.9, 0.25, 0.75, 1.0 / 3.0, 0.7, 0.3, 0.2, 0.8, 0.6]),
            2 => r.unit() as f32,
            _ => {
                let k = r.below(n + 1);
                nudge((k as f64 / n as f64) as f32, r.range(-2, 2))
            }
        };
        let id = em.id;
        em.id += 1;
        let res = guarded(move || {
            let ds: Dataset<f64, (), Ix1> = DatasetBase::from(Array2::<f64>::zeros((n as usize, 0)));
            let (a, b) = ds.split_with_ratio(ratio);
            (a.nsamples() as u64, a.targets().len() as u64, b.nsamples() as u64, b.targets().len() as u64)
        });
        let (p, n1, n2, consistent) = match res {
            Ok((a, at, b, bt)) => (false, a, b, a == at && b == bt),
            Err(_) => (true, 0, 0, true),
        };
        let desc = format!("{{\"stream\": \"ratio\", \"n\": {}, \"ratio_bits\": {}, \"ratio\": {}, \"first\": {}, \"second\": {}, \"panicked\": {}}}", n, ratio.to_bits(), jstr(&format!("{:e}", ratio)), n1, n2, p);
        out.bump("stream_ratio");
        out.bump(if n > (1 << 24) { "ratio_n_above_2^24" } else { "ratio_n_upto_2^24" });
        if p { out.bump("panics"); }
        if !consistent {
            out.rust_fail(id, 4096, &["stream_ratio"], "records and targets of a split part have different lengths", &desc);
            out.rust_eval(&desc, None);
            continue;
        }
        let coq = format!("(CRatio {}%N {}%N {}%Z {} {}%N {}%N)", id, n, ratio.to_bits(), cbool(p), n1, n2);
        let key = Some(fnv(format!("{}:{}", n, ratio.to_bits()).as_bytes()));
        out.case(id, &coq, &["stream_ratio"], &desc, key);
    }

    out.finish("identity-tagged datasets (cell = 64*sample + column, weight = sample + 1/2, names f<c>/t<c>); streams: exhaustive (every operation once on every shape n<=5 x features 0..3 x targets {1-D, 2-D with 0,1,2 columns} x weights x names, label types rotating), random histories of 1..4 calls (owned and view receivers), malformed (calls outside the documented domain, weight vectors of the wrong length), ratio (split point alone, n up to 2^40 on zero-feature datasets); a history is non-trivial when the source has >= 2 samples; distinct = distinct (shape, target values, calls) hashes");
}
