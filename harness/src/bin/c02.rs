//! C02 harness: dataset operations on identity-tagged datasets; emits Coq cases for C02/Corr.v.
//!
//! Record cell (r, c) of the ORIGINAL dataset carries the tag r*64 + c, the weight of sample r is
//! r + 0.5 (written 2w = 2r+1), names are "f<c>" / "t<c>".  Every result of every operation is read
//! out through the public accessors into a type-erased canonical form (`Canon`), the next operation
//! of a history is applied to a standard-layout dataset rebuilt from the kept result (streams
//! exhaustive / random / malformed) or - stream "layout" - to the very object an operation returned.
//!
//! Every generator handed to an RNG-driven operation is wrapped in `RecRng`, which records each word
//! the operation obtains (`next_u32` / `next_u64`); C02/Rng.v replays rand's index generation from
//! those words.  Stream "layout" builds the source in non-standard memory layouts (Fortran order,
//! strided / reversed / offset slices of a larger allocation, transposed) and ships the raw vectors,
//! offsets and strides - read from the live ndarray objects - to C02/Layout.v.
use linfa::dataset::{AsTargets, Dataset, DatasetBase, DatasetView, Label, Labels, Records};
use ndarray::{s, Array, Array1, Array2, ArrayBase, ArrayView, Axis, Data, Dimension, Ix1, Ix2, ShapeBuilder};
use rand::{RngCore, SeedableRng};
use rand_xoshiro::Xoshiro256Plus;
use std::cell::RefCell;
use std::collections::HashMap;
use std::panic::AssertUnwindSafe;
use vh::*;

// ---------------------------------------------------------------- recording generator
thread_local! {
    static WORDS: RefCell<Vec<(u8, u64)>> = RefCell::new(Vec::new());
}
struct RecRng(Xoshiro256Plus);
impl RecRng {
    fn new(seed: u64) -> Self { RecRng(Xoshiro256Plus::seed_from_u64(seed)) }
}
impl RngCore for RecRng {
    fn next_u32(&mut self) -> u32 {
        let v = self.0.next_u32();
        WORDS.with(|w| w.borrow_mut().push((32, v as u64)));
        v
    }
    fn next_u64(&mut self) -> u64 {
        let v = self.0.next_u64();
        WORDS.with(|w| w.borrow_mut().push((64, v)));
        v
    }
    // not part of the modelled algorithms: a call shows up as a word the replay cannot account for
    fn fill_bytes(&mut self, dest: &mut [u8]) {
        WORDS.with(|w| w.borrow_mut().push((8, dest.len() as u64)));
        self.0.fill_bytes(dest)
    }
    fn try_fill_bytes(&mut self, dest: &mut [u8]) -> Result<(), rand::Error> {
        self.fill_bytes(dest);
        Ok(())
    }
}
fn words_clear() { WORDS.with(|w| w.borrow_mut().clear()); }
fn words_take() -> Vec<(u8, u64)> { WORDS.with(|w| std::mem::take(&mut *w.borrow_mut())) }

const TAGW: u64 = 64;
const STAY: u64 = 255;

#[derive(Clone, PartialEq, Debug)]
struct Canon {
    nf: usize,
    nt: usize,
    t1: bool,
    recs: Vec<Vec<u64>>,
    tgts: Vec<Vec<u64>>,
    ws: Vec<u64>,
    fnm: Vec<u64>,
    tnm: Vec<u64>,
}

#[derive(Clone, Debug)]
struct OutC {
    label: Option<u64>,
    ds: Canon,
    counts: Vec<Vec<(u64, usize)>>,
}
fn plain(ds: Canon) -> OutC {
    OutC { label: None, ds, counts: vec![] }
}

struct StepRes {
    panic: Option<String>,
    outs: Vec<OutC>,
    same: bool,
    words: Vec<(u8, u64)>,
}

// ---------------------------------------------------------------- labels
trait Lab: Label + 'static {
    fn enc(&self) -> u64;
    fn dec(v: u64) -> Self;
}
impl Lab for usize {
    fn enc(&self) -> u64 { *self as u64 }
    fn dec(v: u64) -> Self { v as usize }
}
impl Lab for bool {
    fn enc(&self) -> u64 { *self as u64 }
    fn dec(v: u64) -> Self { v & 1 == 1 }
}
static STRS: [&str; 16] = ["s0", "s1", "s2", "s3", "s4", "s5", "s6", "s7", "s8", "s9", "s10", "s11", "s12", "s13", "s14", "s15"];
impl Lab for &'static str {
    fn enc(&self) -> u64 { self[1..].parse().unwrap() }
    fn dec(v: u64) -> Self { STRS[(v % 16) as usize] }
}
impl Lab for String {
    fn enc(&self) -> u64 { self[1..].parse().unwrap() }
    fn dec(v: u64) -> Self { format!("s{}", v) }
}

#[derive(Clone, Copy, PartialEq, Debug)]
enum LT { Usize, Bool, Str, Strg }

// ---------------------------------------------------------------- read-out / build
fn pname(s: &str) -> u64 {
    s.get(1..).and_then(|x| x.parse().ok()).unwrap_or(9999)
}

fn tg_rows<L: Lab, I: Dimension>(a: ArrayView<L, I>) -> (bool, usize, Vec<Vec<u64>>) {
    let a = a.into_dyn();
    match a.ndim() {
        1 => (true, 1, a.iter().map(|x| vec![x.enc()]).collect()),
        2 => {
            let nt = a.shape()[1];
            (false, nt, a.axis_iter(Axis(0)).map(|r| r.iter().map(|x| x.enc()).collect()).collect())
        }
        _ => panic!("unexpected target dimension"),
    }
}

macro_rules! canon {
    ($d:expr) => {{
        let d = &$d;
        let r = d.records().view();
        let (t1, nt, tgts) = tg_rows(d.as_targets());
        Canon {
            nf: r.ncols(),
            nt,
            t1,
            recs: (0..r.nrows()).map(|i| r.row(i).iter().map(|v| *v as u64).collect()).collect(),
            tgts,
            ws: d.weights.iter().map(|w| (*w * 2.0) as u64).collect(),
            fnm: d.feature_names().iter().map(|s| pname(s)).collect(),
            tnm: d.target_names().iter().map(|s| pname(s)).collect(),
        }
    }};
}

fn recs_arr(c: &Canon) -> Array2<f64> {
    Array2::from_shape_vec((c.recs.len(), c.nf), c.recs.iter().flatten().map(|v| *v as f64).collect()).unwrap()
}
fn decorate<T: AsTargets>(d: DatasetBase<Array2<f64>, T>, c: &Canon) -> DatasetBase<Array2<f64>, T> {
    d.with_weights(Array1::from(c.ws.iter().map(|w| *w as f32 / 2.0).collect::<Vec<f32>>()))
        .with_feature_names(c.fnm.iter().map(|k| format!("f{}", k)).collect::<Vec<_>>())
        .with_target_names(c.tnm.iter().map(|k| format!("t{}", k)).collect::<Vec<_>>())
}
fn build1<L: Lab>(c: &Canon) -> Dataset<f64, L, Ix1> {
    let t = Array1::from(c.tgts.iter().map(|r| L::dec(r[0])).collect::<Vec<L>>());
    decorate(Dataset::new(recs_arr(c), t), c)
}
fn build2<L: Lab>(c: &Canon) -> Dataset<f64, L, Ix2> {
    let t = Array2::from_shape_vec((c.tgts.len(), c.nt), c.tgts.iter().flatten().map(|v| L::dec(*v)).collect::<Vec<L>>()).unwrap();
    decorate(Dataset::new(recs_arr(c), t), c)
}
fn counts_vec<L: Lab>(v: Vec<HashMap<L, usize>>) -> Vec<Vec<(u64, usize)>> {
    v.into_iter()
        .map(|m| {
            let mut l: Vec<(u64, usize)> = m.into_iter().map(|(k, c)| (k.enc(), c)).collect();
            l.sort();
            l
        })
        .collect()
}

// ---------------------------------------------------------------- operations
#[derive(Clone, Debug, PartialEq)]
enum Op {
    SplitOwned(f32),
    SplitView(f32),
    Shuffle,
    Bootstrap(usize, usize),
    BootSamples(usize),
    BootFeatures(usize),
    WithLabels(Vec<u64>),
    OneVsAll,
    MapTargets(u64, u64, u64),
    View,
    ToOwned,
    IntoSingle,
    SampleIter,
    FeatureIter,
    TargetIter,
    Chunks(usize),
}

// operations available for every label type, on an owned dataset or a view bound to `$ds`
macro_rules! ops_any {
    ($ds:ident, $op:expr, $L:ty) => {
        match $op {
            Op::View => {
                let v = $ds.view();
                Some(vec![plain(canon!(v))])
            }
            Op::MapTargets(a, b, m) => {
                let (a, b, m) = (*a, *b, *m);
                let r = $ds.clone().map_targets(|x| <$L as Lab>::dec((a * x.enc() + b) % m));
                Some(vec![plain(canon!(r))])
            }
            Op::SampleIter => {
                let base = canon!($ds);
                let mut recs: Vec<Vec<u64>> = vec![];
                let mut tg: Vec<Vec<u64>> = vec![];
                for (a, b) in $ds.sample_iter() {
                    recs.push(a.iter().map(|v| *v as u64).collect());
                    tg.push(b.iter().map(|x| x.enc()).collect());
                }
                Some(vec![plain(Canon { nf: base.nf, nt: base.nt, t1: base.t1, recs, tgts: tg, ws: vec![], fnm: vec![], tnm: vec![] })])
            }
            Op::FeatureIter => Some($ds.feature_iter().map(|v| plain(canon!(v))).collect::<Vec<OutC>>()),
            Op::TargetIter => Some($ds.target_iter().map(|v| plain(canon!(v))).collect::<Vec<OutC>>()),
            _ => None,
        }
    };
}

// operations that need `Copy` labels
macro_rules! ops_copy {
    (no, $ds:ident, $op:expr, $seed:expr, $L:ty) => {
        None::<Vec<OutC>>
    };
    (yes, $ds:ident, $op:expr, $seed:expr, $L:ty) => {
        match $op {
            Op::Shuffle => {
                let mut rng = RecRng::new($seed);
                let r = $ds.shuffle(&mut rng);
                Some(vec![plain(canon!(r))])
            }
            Op::Bootstrap(a, b) => {
                let mut rng = RecRng::new($seed);
                let v: Vec<OutC> = $ds.bootstrap((*a, *b), &mut rng).take(2).map(|d| plain(canon!(d))).collect();
                Some(v)
            }
            Op::BootSamples(k) => {
                let mut rng = RecRng::new($seed);
                let v: Vec<OutC> = $ds.bootstrap_samples(*k, &mut rng).take(2).map(|d| plain(canon!(d))).collect();
                Some(v)
            }
            Op::BootFeatures(k) => {
                let mut rng = RecRng::new($seed);
                let v: Vec<OutC> = $ds.bootstrap_features(*k, &mut rng).take(2).map(|d| plain(canon!(d))).collect();
                Some(v)
            }
            Op::WithLabels(ls) => {
                let labels: Vec<$L> = ls.iter().map(|v| <$L as Lab>::dec(*v)).collect();
                let r = $ds.with_labels(&labels);
                let counts = counts_vec(r.label_count());
                Some(vec![OutC { label: None, ds: canon!(r), counts }])
            }
            Op::ToOwned => {
                let r = DatasetBase::to_owned(&$ds);
                Some(vec![plain(canon!(r))])
            }
            Op::Chunks(s) => Some($ds.sample_chunks(*s).map(|v| plain(canon!(v))).collect::<Vec<OutC>>()),
            _ => None,
        }
    };
}

// operations tied to the target dimension
macro_rules! ops_dim {
    (1, owned, $ds:ident, $op:expr) => {
        ops_dim!(1, view, $ds, $op)
    };
    (1, view, $ds:ident, $op:expr) => {
        match $op {
            Op::OneVsAll => {
                let r = $ds.one_vs_all().unwrap();
                let mut v: Vec<OutC> = r
                    .iter()
                    .map(|(l, d)| OutC { label: Some(l.enc()), counts: counts_vec(d.label_count()), ds: canon!(d) })
                    .collect();
                v.sort_by_key(|o| o.label);
                Some(v)
            }
            _ => None,
        }
    };
    (2, owned, $ds:ident, $op:expr) => {
        match $op {
            Op::IntoSingle => {
                let r = $ds.clone().into_single_target();
                Some(vec![plain(canon!(r))])
            }
            _ => None,
        }
    };
    (2, view, $ds:ident, $op:expr) => {
        None::<Vec<OutC>>
    };
}

// ---------------------------------------------------------------- physical layout read-out
/// an array as it lies in memory: raw vector (cells encoded), offset of the first logical element, shape, strides
#[derive(Clone, Debug, PartialEq)]
struct Phys {
    buf: Vec<u64>,
    off: usize,
    shape: Vec<usize>,
    strides: Vec<isize>,
}
/// of an owned array: `clone()` copies the whole raw vector and keeps the offset (OwnedRepr::clone_with_ptr),
/// `into_raw_vec()` hands it out; second component = address of the first element of `a`'s OWN raw vector
fn phys_owned<T: Clone, D: Dimension>(a: &Array<T, D>, enc: &dyn Fn(&T) -> u64) -> (Phys, usize) {
    let c = a.clone();
    let p = c.as_ptr() as usize;
    let shape = c.shape().to_vec();
    let strides = c.strides().to_vec();
    let raw = c.into_raw_vec();
    let sz = std::mem::size_of::<T>();
    let off = if raw.is_empty() { 0 } else { (p - raw.as_ptr() as usize) / sz };
    let start = (a.as_ptr() as usize).wrapping_sub(off * sz);
    (Phys { buf: raw.iter().map(|x| enc(x)).collect(), off, shape, strides }, start)
}
/// of a view into an allocation whose contents (`base`) and start address are known
fn phys_view<T, S: Data<Elem = T>, D: Dimension>(v: &ArrayBase<S, D>, base: &Phys, start: usize) -> Phys {
    let sz = std::mem::size_of::<T>();
    let off = if v.is_empty() { 0 } else { ((v.as_ptr() as usize).wrapping_sub(start)) / sz };
    Phys { buf: base.buf.clone(), off, shape: v.shape().to_vec(), strides: v.strides().to_vec() }
}
fn enc_f64(x: &f64) -> u64 { *x as u64 }
fn enc_w(x: &f32) -> u64 { (*x * 2.0) as u64 }
fn enc_l<L: Lab>(x: &L) -> u64 { x.enc() }

#[derive(Clone, Debug, PartialEq)]
struct PhysDs {
    recs: Phys,
    tgts: Phys,
    ws: Phys,
    fnm: Vec<u64>,
    tnm: Vec<u64>,
}
fn phys_ds<L: Lab, I: linfa::dataset::TargetDim>(d: &Dataset<f64, L, I>) -> (PhysDs, usize, usize) {
    let (recs, rstart) = phys_owned(&d.records, &enc_f64);
    let (tgts, tstart) = phys_owned(&d.targets, &enc_l::<L>);
    let (ws, _) = phys_owned(&d.weights, &enc_w);
    (
        PhysDs { recs, tgts, ws, fnm: d.feature_names().iter().map(|s| pname(s)).collect(), tnm: d.target_names().iter().map(|s| pname(s)).collect() },
        rstart,
        tstart,
    )
}

// ---------------------------------------------------------------- one call
macro_rules! apply_call {
    ($d:ident, $op:expr, $on_view:expr, $seed:expr, $L:ty, $copy:tt, $ix:tt) => {{
        let outs: Option<Vec<OutC>> = if $on_view {
            let v = $d.view();
            match $op {
                Op::SplitView(r) => {
                    let (a, b) = v.split_with_ratio(*r);
                    Some(vec![plain(canon!(a)), plain(canon!(b))])
                }
                _ => ops_any!(v, $op, $L).or_else(|| ops_copy!($copy, v, $op, $seed, $L)).or_else(|| ops_dim!($ix, view, v, $op)),
            }
        } else {
            match $op {
                Op::SplitOwned(r) => {
                    let (a, b) = $d.clone().split_with_ratio(*r);
                    Some(vec![plain(canon!(a)), plain(canon!(b))])
                }
                _ => ops_any!($d, $op, $L).or_else(|| ops_copy!($copy, $d, $op, $seed, $L)).or_else(|| ops_dim!($ix, owned, $d, $op)),
            }
        };
        outs
    }};
}

macro_rules! def_step {
    ($name:ident, $copy:tt, $ix:tt, $ixt:ty, [$($bound:tt)*]) => {
        /// `mk` builds the receiver afresh; the source counts as unchanged when, after the call, its logical
        /// contents AND its raw vectors / offsets / strides are what they were
        fn $name<L: $($bound)*>(mk: &dyn Fn() -> Dataset<f64, L, $ixt>, op: &Op, on_view: bool, seed: u64) -> StepRes {
            words_clear();
            let r = guarded(AssertUnwindSafe(|| {
                let d = mk();
                let before = canon!(d);
                let fp = phys_ds(&d).0;
                let outs = apply_call!(d, op, on_view, seed, L, $copy, $ix);
                let same = canon!(d) == before && phys_ds(&d).0 == fp;
                (outs, same)
            }));
            let words = words_take();
            match r {
                Ok((Some(outs), same)) => StepRes { panic: None, outs, same, words },
                Ok((None, _)) => panic!("harness: operation {:?} (view={}) is not available for this dataset type", op, on_view),
                Err(p) => StepRes { panic: Some(p), outs: vec![], same: true, words },
            }
        }
    };
}
def_step!(step1, yes, 1, Ix1, [Lab + Copy]);
def_step!(step2, yes, 2, Ix2, [Lab + Copy]);
def_step!(step1_nc, no, 1, Ix1, [Lab]);
def_step!(step2_nc, no, 2, Ix2, [Lab]);

fn needs_copy(op: &Op) -> bool {
    matches!(op, Op::Shuffle | Op::Bootstrap(..) | Op::BootSamples(_) | Op::BootFeatures(_) | Op::WithLabels(_) | Op::ToOwned | Op::Chunks(_))
}
/// can the call be written at all (type level) for this dataset / label type / ownership?
fn expressible(lt: LT, c: &Canon, op: &Op, on_view: bool) -> bool {
    if lt == LT::Strg && needs_copy(op) { return false; }
    match op {
        Op::SplitOwned(_) => !on_view,
        Op::SplitView(_) => on_view,
        Op::OneVsAll => c.t1,
        Op::IntoSingle => !c.t1 && !on_view,
        _ => true,
    }
}

fn run_step(lt: LT, c: &Canon, op: &Op, on_view: bool, seed: u64) -> StepRes {
    match (lt, c.t1) {
        (LT::Usize, true) => step1::<usize>(&|| build1(c), op, on_view, seed),
        (LT::Usize, false) => step2::<usize>(&|| build2(c), op, on_view, seed),
        (LT::Bool, true) => step1::<bool>(&|| build1(c), op, on_view, seed),
        (LT::Bool, false) => step2::<bool>(&|| build2(c), op, on_view, seed),
        (LT::Str, true) => step1::<&'static str>(&|| build1(c), op, on_view, seed),
        (LT::Str, false) => step2::<&'static str>(&|| build2(c), op, on_view, seed),
        (LT::Strg, true) => step1_nc::<String>(&|| build1(c), op, on_view, seed),
        (LT::Strg, false) => step2_nc::<String>(&|| build2(c), op, on_view, seed),
    }
}

// ---------------------------------------------------------------- read-back of the drawn indices
fn rid(row: &[u64]) -> Option<u64> {
    row.first().map(|c| c / TAGW)
}
/// for every result row the index of a source row it can have come from (identity tag of its first
/// cell, then its targets); `distinct`: a source row is used once (shuffle)
fn readback_rows(cur: &Canon, out: &Canon, distinct: bool) -> Vec<usize> {
    let mut used = vec![false; cur.recs.len()];
    let mut res = vec![];
    for i in 0..out.recs.len() {
        let r = rid(&out.recs[i]);
        let tag_match = |j: usize| r.is_none() || rid(&cur.recs[j]).is_none() || rid(&cur.recs[j]) == r;
        let tg_match = |j: usize| out.tgts.get(i) == cur.tgts.get(j);
        let n = cur.recs.len();
        let pick = (0..n)
            .find(|&j| tag_match(j) && tg_match(j) && !(distinct && used[j]))
            .or_else(|| (0..n).find(|&j| tag_match(j) && !(distinct && used[j])))
            .or_else(|| (0..n).find(|&j| tag_match(j)))
            .unwrap_or(0);
        if pick < n { used[pick] = true; }
        res.push(pick);
    }
    res
}
fn readback_cols(cur: &Canon, out: &Canon, k: usize) -> Vec<usize> {
    match (out.recs.first(), cur.recs.first()) {
        (Some(o), Some(c)) => o.iter().map(|cell| c.iter().position(|x| x % TAGW == cell % TAGW).unwrap_or(0)).collect(),
        _ => vec![0; k],
    }
}

// ---------------------------------------------------------------- Coq printing
fn cnat(xs: &[usize]) -> String {
    format!("({})%nat", clist(xs, |x| format!("{}", x)))
}
fn cvecu(xs: &[u64]) -> String {
    format!("({})%N", clist(xs, |x| format!("{}", x)))
}
fn cmatu(rows: &[Vec<u64>]) -> String {
    format!("({})%N", clist(rows, |r| clist(r, |x| format!("{}", x))))
}
fn canon_coq(c: &Canon) -> String {
    format!(
        "(mkD {}%nat {}%nat {} {} {} {} {} {})",
        c.nf, c.nt, cbool(c.t1), cmatu(&c.recs), cmatu(&c.tgts), cvecu(&c.ws), cvecu(&c.fnm), cvecu(&c.tnm)
    )
}
fn out_coq(o: &OutC) -> String {
    let lab = match o.label { Some(l) => format!("(Some {}%N)", l), None => "None".to_string() };
    let counts = clist(&o.counts, |m| clist(m, |(k, c)| format!("({}%N, {}%nat)", k, c)));
    format!("(mkO {} {} {})", lab, canon_coq(&o.ds), counts)
}
fn ratio_coq(r: f32) -> String {
    format!("(b32_of_bits {}%Z)", r.to_bits())
}
fn op_coq(op: &Op, cur: &Canon, res: &StepRes) -> String {
    match op {
        Op::SplitOwned(r) => format!("(OpSplitOwned {})", ratio_coq(*r)),
        Op::SplitView(r) => format!("(OpSplitView {})", ratio_coq(*r)),
        Op::Shuffle => {
            let idx = res.outs.first().map(|o| readback_rows(cur, &o.ds, true)).unwrap_or_default();
            format!("(OpShuffle {})", cnat(&idx))
        }
        Op::Bootstrap(a, b) => {
            let draws: Vec<String> = if res.panic.is_some() {
                vec![format!("({}, {})", cnat(&vec![0; *a]), cnat(&vec![0; *b]))]
            } else {
                res.outs.iter().map(|o| format!("({}, {})", cnat(&readback_rows(cur, &o.ds, false)), cnat(&readback_cols(cur, &o.ds, *b)))).collect()
            };
            format!("(OpBootstrap [{}])", draws.join("; "))
        }
        Op::BootSamples(k) => {
            let draws: Vec<String> = if res.panic.is_some() { vec![cnat(&vec![0; *k])] } else { res.outs.iter().map(|o| cnat(&readback_rows(cur, &o.ds, false))).collect() };
            format!("(OpBootSamples [{}])", draws.join("; "))
        }
        Op::BootFeatures(k) => {
            let draws: Vec<String> = if res.panic.is_some() { vec![cnat(&vec![0; *k])] } else { res.outs.iter().map(|o| cnat(&readback_cols(cur, &o.ds, *k))).collect() };
            format!("(OpBootFeatures [{}])", draws.join("; "))
        }
        Op::WithLabels(ls) => format!("(OpWithLabels {})", cvecu(ls)),
        Op::OneVsAll => "OpOneVsAll".into(),
        Op::MapTargets(a, b, m) => format!("(OpMapTargets (affine {}%N {}%N {}%N))", a, b, m),
        Op::View => "OpView".into(),
        Op::ToOwned => "OpToOwned".into(),
        Op::IntoSingle => "OpIntoSingle".into(),
        Op::SampleIter => "OpSampleIter".into(),
        Op::FeatureIter => "OpFeatureIter".into(),
        Op::TargetIter => "OpTargetIter".into(),
        Op::Chunks(s) => format!("(OpChunks {}%nat)", s),
    }
}
/// what an RNG-driven call asks the generator for (C02/Rng.v `rreq`); the bootstrap iterators are taken twice
fn req_coq(op: &Op, res: &StepRes) -> String {
    let iters = if res.panic.is_some() { 1 } else { res.outs.len() };
    match op {
        Op::Shuffle => "(Some RShuffle)".into(),
        Op::Bootstrap(a, b) => format!("(Some (RBootstrap {} {} {}))", a, b, iters),
        Op::BootSamples(k) => format!("(Some (RBootSamples {} {}))", k, iters),
        Op::BootFeatures(k) => format!("(Some (RBootFeatures {} {}))", k, iters),
        _ => "None".into(),
    }
}
fn words_coq(ws: &[(u8, u64)]) -> String {
    clist(ws, |(k, v)| match k {
        32 => format!("W32 {}%N", v),
        64 => format!("W64 {}%N", v),
        _ => format!("WBytes {}%N", v),
    })
}
fn step_coq(op: &Op, cur: &Canon, res: &StepRes, keep: u64) -> String {
    format!(
        "(mkStep {} {}%N {} {} {} {} [{}])",
        op_coq(op, cur, res),
        keep,
        cbool(res.panic.is_some()),
        cbool(res.same),
        req_coq(op, res),
        words_coq(&res.words),
        res.outs.iter().map(out_coq).collect::<Vec<_>>().join("; ")
    )
}

// ---------------------------------------------------------------- generators
fn modulus(lt: LT) -> u64 {
    match lt { LT::Bool => 2, _ => 4 }
}

/// tk: 0 = one-dimensional targets, k >= 1: two-dimensional with k-1 columns
fn gen_ds(r: &mut Sm64, lt: LT, n: usize, nf: usize, tk: usize, weights: bool, names: bool, tagged: bool) -> Canon {
    let (t1, nt) = if tk == 0 { (true, 1) } else { (false, tk - 1) };
    let nl = if lt == LT::Bool { 2 } else { 2 + r.below(3) };
    let recs = (0..n).map(|i| (0..nf).map(|c| i as u64 * TAGW + c as u64).collect()).collect();
    let tgts = (0..n)
        .map(|i| (0..nt).map(|c| if tagged && lt == LT::Usize { 100 + (i * 8 + c) as u64 } else { r.below(nl) }).collect())
        .collect();
    Canon {
        nf, nt, t1, recs, tgts,
        ws: if weights { (0..n).map(|i| 2 * i as u64 + 1).collect() } else { vec![] },
        fnm: if names { (0..nf as u64).collect() } else { vec![] },
        tnm: if names { (0..nt as u64).collect() } else { vec![] },
    }
}

fn nudge(x: f32, d: i64) -> f32 {
    if x == 0.0 { return if d < 0 { -1e-6 } else if d > 0 { f32::from_bits(d as u32) } else { 0.0 }; }
    f32::from_bits((x.to_bits() as i64 + d) as u32)
}
/// ratios around k/n (where the single-precision product sits on or next to an integer) and the usual ones
fn gen_ratio(r: &mut Sm64, n: usize) -> f32 {
    match r.below(8) {
        0 => *r.pick(&[0.0f32, 1.0, 0.5, 0.1, 0.9, 0.25, 0.75, 1.0 / 3.0, 0.7, 0.3, 0.99, 0.01]),
        _ => {
            let k = r.below(n as u64 + 1) as f32;
            let base = if n == 0 { r.unit() as f32 } else { k / n as f32 };
            nudge(base, r.range(-2, 2))
        }
    }
}
fn bad_ratio(r: &mut Sm64) -> f32 {
    *r.pick(&[1.5f32, 2.0, f32::NAN, f32::INFINITY, f32::NEG_INFINITY, -0.5, -0.0, 1.0000001, 1e30, -1e-30, 1.1])
}

/// a label value that no sample carries and that every label type can represent (none for bool data using both values)
fn foreign(c: &Canon) -> Option<u64> {
    let present = labels_of(c);
    if present.iter().all(|v| *v < 2) { (0..2).find(|v| !present.contains(v)) } else { Some(7) }
}
fn labels_of(c: &Canon) -> Vec<u64> {
    let mut v: Vec<u64> = c.tgts.iter().flatten().cloned().collect();
    v.sort();
    v.dedup();
    v
}

fn gen_labels(r: &mut Sm64, c: &Canon) -> Vec<u64> {
    let present = labels_of(c);
    let mut ls: Vec<u64> = present.iter().cloned().filter(|_| r.chance(0.5)).collect();
    if r.chance(0.2) { if let Some(f) = foreign(c) { ls.push(f); } }   // a label nobody carries
    if r.chance(0.15) { if let Some(x) = ls.first().cloned() { ls.push(x); } }   // listed twice
    if r.chance(0.5) { ls.reverse(); }
    ls
}

/// one well-formed call on `c` (inside the documented domain whenever possible)
fn gen_op(r: &mut Sm64, lt: LT, c: &Canon) -> (Op, bool) {
    let n = c.recs.len();
    for _ in 0..100 {
        let on_view = r.chance(0.5);
        let op = match r.below(17) {
            0 | 1 => if on_view { Op::SplitView(gen_ratio(r, n)) } else { Op::SplitOwned(gen_ratio(r, n)) },
            2 => Op::Shuffle,
            3 => Op::Bootstrap(r.below(5) as usize, r.below(4) as usize),
            4 => Op::BootSamples(r.below(6) as usize),
            5 => Op::BootFeatures(r.below(5) as usize),
            6 | 7 => Op::WithLabels(gen_labels(r, c)),
            8 => Op::OneVsAll,
            9 => Op::MapTargets(1 + r.below(3), r.below(4), modulus(lt)),
            10 => Op::View,
            11 => Op::ToOwned,
            12 => Op::IntoSingle,
            13 => Op::SampleIter,
            14 => Op::FeatureIter,
            15 => Op::TargetIter,
            _ => Op::Chunks(1 + r.below(4) as usize),
        };
        if !expressible(lt, c, &op, on_view) { continue; }
        // stay inside the documented domain in this stream
        let ok = match &op {
            Op::Bootstrap(a, b) => (*a == 0 || n > 0) && (*b == 0 || c.nf > 0),
            Op::BootSamples(k) => *k == 0 || n > 0,
            Op::BootFeatures(k) => *k == 0 || c.nf > 0,
            Op::IntoSingle => c.nt == 1 || n == 0,
            Op::TargetIter => !c.t1,
            Op::MapTargets(..) => c.tgts.iter().flatten().all(|v| *v < 64),
            _ => true,
        };
        if ok { return (op, on_view); }
    }
    (Op::View, false)
}

/// calls outside the documented domain (panics expected) and ill-formed weights
fn gen_bad_op(r: &mut Sm64, lt: LT, c: &Canon) -> (Op, bool) {
    for _ in 0..100 {
        let on_view = r.chance(0.5);
        let op = match r.below(8) {
            0 | 1 => if on_view { Op::SplitView(bad_ratio(r)) } else { Op::SplitOwned(bad_ratio(r)) },
            2 => Op::Chunks(0),
            3 => Op::IntoSingle,
            4 => Op::TargetIter,
            5 => Op::Bootstrap(1 + r.below(3) as usize, 1 + r.below(3) as usize),
            6 => Op::BootSamples(1 + r.below(3) as usize),
            _ => Op::BootFeatures(1 + r.below(3) as usize),
        };
        if expressible(lt, c, &op, on_view) { return (op, on_view); }
    }
    (Op::Chunks(0), false)
}

struct Emit {
    id: u64,
}

fn lt_name(lt: LT) -> &'static str {
    match lt { LT::Usize => "usize", LT::Bool => "bool", LT::Str => "str", LT::Strg => "String" }
}
fn op_name(op: &Op) -> &'static str {
    match op {
        Op::SplitOwned(_) => "split_owned", Op::SplitView(_) => "split_view", Op::Shuffle => "shuffle", Op::Bootstrap(..) => "bootstrap",
        Op::BootSamples(_) => "bootstrap_samples", Op::BootFeatures(_) => "bootstrap_features", Op::WithLabels(_) => "with_labels",
        Op::OneVsAll => "one_vs_all", Op::MapTargets(..) => "map_targets", Op::View => "view", Op::ToOwned => "to_owned",
        Op::IntoSingle => "into_single_target", Op::SampleIter => "sample_iter", Op::FeatureIter => "feature_iter",
        Op::TargetIter => "target_iter", Op::Chunks(_) => "sample_chunks",
    }
}

fn hash_canon(c: &Canon, salt: u64) -> u64 {
    let mut v: Vec<u64> = vec![c.nf as u64, c.nt as u64, c.t1 as u64, c.recs.len() as u64, c.ws.len() as u64, c.fnm.len() as u64, c.tnm.len() as u64];
    v.extend(c.tgts.iter().flatten());
    let bytes: Vec<u8> = v.iter().flat_map(|x| x.to_le_bytes().to_vec()).collect();
    fnv(&bytes) ^ salt.wrapping_mul(0x9E3779B97F4A7C15)
}

/// run the planned calls, write one CSeq case
fn emit_seq(out: &mut Out, em: &mut Emit, lt: LT, src: &Canon, plan: &mut dyn FnMut(&Canon, usize) -> Option<(Op, bool, bool)>, stream: &str, r: &mut Sm64) {
    let id = em.id;
    em.id += 1;
    if !out.wanted(id) {
        // keep the random stream aligned: the plan still has to be consumed
    }
    let mut cur = src.clone();
    let mut steps: Vec<String> = vec![];
    let mut names: Vec<String> = vec![];
    let mut salt: u64 = 0;
    let mut k = 0;
    while let Some((op, on_view, stay)) = plan(&cur, k) {
        k += 1;
        let seed = r.below(1 << 30);
        let res = run_step(lt, &cur, &op, on_view, seed);
        let keep = if stay || res.panic.is_some() || res.outs.is_empty() { STAY } else { r.below(res.outs.len() as u64) };
        steps.push(step_coq(&op, &cur, &res, keep));
        names.push(format!("{}{}{}", op_name(&op), if on_view { "@view" } else { "" }, if res.panic.is_some() { "!panic" } else { "" }));
        out.bump(&format!("op_{}", op_name(&op)));
        if res.panic.is_some() { out.bump("panics"); }
        salt = salt.wrapping_mul(31).wrapping_add(fnv(format!("{:?}{}", op, on_view).as_bytes()));
        if keep != STAY { cur = res.outs[keep as usize].ds.clone(); }
    }
    let n = src.recs.len();
    out.bump(&format!("stream_{}", stream));
    out.bump(&format!("labels_{}", lt_name(lt)));
    out.bump(&format!("n_{}", if n < 4 { "lt4" } else if n < 9 { "4to8" } else { "ge9" }));
    out.bump(&format!("targets_{}", if src.t1 { "1d".to_string() } else { format!("2d_{}col", src.nt) }));
    out.bump(if src.ws.is_empty() { "weights_no" } else { "weights_yes" });
    out.bump(if src.fnm.is_empty() && src.tnm.is_empty() { "names_no" } else { "names_yes" });
    let desc = format!(
        "{{\"stream\": {}, \"label_type\": {}, \"n\": {}, \"nfeatures\": {}, \"targets\": {}, \"weights\": {}, \"names\": {}, \"target_values\": {:?}, \"calls\": {}}}",
        jstr(stream), jstr(lt_name(lt)), n, src.nf, jstr(&if src.t1 { "1-D".to_string() } else { format!("2-D x{}", src.nt) }),
        !src.ws.is_empty(), !src.fnm.is_empty() || !src.tnm.is_empty(), src.tgts, jstr(&names.join(" -> "))
    );
    let wf_src = src.ws.is_empty() || src.ws.len() == n;
    let coq = format!("(CSeq {}%N {} {} [{}])", id, cbool(wf_src), canon_coq(src), steps.join(";\n   "));
    let key = if n >= 2 { Some(hash_canon(src, salt)) } else { None };
    let tags = [format!("stream_{}", stream), format!("labels_{}", lt_name(lt))];
    let tagrefs: Vec<&str> = tags.iter().map(|s| s.as_str()).collect();
    out.case(id, &coq, &tagrefs, &desc, key);
}

fn all_single_ops(r: &mut Sm64, lt: LT, c: &Canon) -> Vec<(Op, bool)> {
    let n = c.recs.len();
    let mut v: Vec<(Op, bool)> = vec![];
    for k in 0..=n {
        let base = if n == 0 { 0.0 } else { k as f32 / n as f32 };
        for d in [-1i64, 0, 1] {
            let ratio = nudge(base, d);
            v.push((Op::SplitOwned(ratio), false));
            v.push((Op::SplitView(ratio), true));
        }
    }
    for on_view in [false, true] {
        v.push((Op::Shuffle, on_view));
        v.push((Op::Bootstrap(r.below(4) as usize, r.below(4) as usize), on_view));
        v.push((Op::BootSamples(r.below(5) as usize), on_view));
        v.push((Op::BootFeatures(r.below(4) as usize), on_view));
        let ls = labels_of(c);
        // every subset of the (at most 3 smallest) labels present, plus a foreign label
        let m = ls.len().min(3);
        for mask in 0..(1u32 << m) {
            let mut sub: Vec<u64> = (0..m).filter(|i| mask >> i & 1 == 1).map(|i| ls[i]).collect();
            if mask % 3 == 1 { if let Some(f) = foreign(c) { sub.push(f); } }
            if on_view == (mask % 2 == 0) { v.push((Op::WithLabels(sub), on_view)); }
        }
        v.push((Op::OneVsAll, on_view));
        v.push((Op::MapTargets(1 + r.below(3), r.below(4), modulus(lt)), on_view));
        v.push((Op::View, on_view));
        v.push((Op::ToOwned, on_view));
        v.push((Op::IntoSingle, on_view));
        v.push((Op::SampleIter, on_view));
        v.push((Op::FeatureIter, on_view));
        v.push((Op::TargetIter, on_view));
        for s in 0..=(n + 1).min(4) {
            if on_view == (s % 2 == 0) { v.push((Op::Chunks(s), on_view)); }
        }
    }
    v.into_iter().filter(|(op, w)| expressible(lt, c, op, *w)).collect()
}

// ---------------------------------------------------------------- memory layouts (stream "layout")
/// how a two-dimensional array sits in a larger allocation: storage order of the allocation, rows/columns
/// skipped in front, step (negative = reversed) and slack behind, per axis; `transposed`: built as the
/// (w, n) array of the exchanged description and turned around with `reversed_axes()`
#[derive(Clone, Debug)]
struct L2 {
    name: &'static str,
    forder: bool,
    transposed: bool,
    r0: usize,
    rstep: isize,
    rpad: usize,
    c0: usize,
    cstep: isize,
    cpad: usize,
}
#[derive(Clone, Debug)]
struct L1 {
    name: &'static str,
    o0: usize,
    step: isize,
    pad: usize,
}
const L2_STD: L2 = L2 { name: "std", forder: false, transposed: false, r0: 0, rstep: 1, rpad: 0, c0: 0, cstep: 1, cpad: 0 };
const L1_STD: L1 = L1 { name: "std", o0: 0, step: 1, pad: 0 };

fn gen_l2(r: &mut Sm64) -> L2 {
    let b = L2_STD;
    match r.below(14) {
        0 => b,
        1 => L2 { name: "fortran", forder: true, ..b },
        2 => L2 { name: "transposed", transposed: true, ..b },
        3 => L2 { name: "row_step2", rstep: 2, ..b },
        4 => L2 { name: "col_step2", cstep: 2, ..b },
        5 => L2 { name: "rows_reversed", rstep: -1, ..b },
        6 => L2 { name: "cols_reversed", cstep: -1, ..b },
        7 => L2 { name: "rows_offset", r0: 1 + r.below(2) as usize, ..b },           // standard strides, longer raw vector, offset > 0
        8 => L2 { name: "rows_slack_behind", rpad: 1 + r.below(2) as usize, ..b },   // standard strides, longer raw vector, offset 0
        9 => L2 { name: "cols_offset", c0: 1, cpad: r.below(2) as usize, ..b },
        10 => L2 { name: "fortran_row_step2", forder: true, rstep: 2, r0: r.below(2) as usize, ..b },
        11 => L2 { name: "transposed_sliced", transposed: true, r0: r.below(2) as usize, cstep: 2, ..b },
        _ => L2 {
            name: "mixed",
            forder: r.chance(0.5),
            transposed: r.chance(0.3),
            r0: r.below(2) as usize,
            rstep: *r.pick(&[1isize, 1, 2, -1, -2]),
            rpad: r.below(2) as usize,
            c0: r.below(2) as usize,
            cstep: *r.pick(&[1isize, 1, 2, -1]),
            cpad: r.below(2) as usize,
        },
    }
}
fn gen_l1(r: &mut Sm64) -> L1 {
    match r.below(8) {
        0 | 1 => L1_STD,
        2 => L1 { name: "step2", o0: 0, step: 2, pad: 0 },
        3 => L1 { name: "reversed", o0: 0, step: -1, pad: 0 },
        4 => L1 { name: "offset", o0: 1 + r.below(2) as usize, step: 1, pad: 0 },
        5 => L1 { name: "slack_behind", o0: 0, step: 1, pad: 1 + r.below(2) as usize },
        6 => L1 { name: "reversed_step2", o0: r.below(2) as usize, step: -2, pad: 0 },
        _ => L1 { name: "mixed", o0: r.below(2) as usize, step: *r.pick(&[1isize, 2, -1, 3]), pad: r.below(2) as usize },
    }
}

/// the allocation is filled with `poison(k)`, then the logical cells are written through the sliced array
fn mk2<T: Clone>(n: usize, w: usize, l: &L2, cell: &dyn Fn(usize, usize) -> T, poison: &dyn Fn(usize) -> T) -> Array2<T> {
    if l.transposed {
        let lx = L2 { transposed: false, r0: l.c0, rstep: l.cstep, rpad: l.cpad, c0: l.r0, cstep: l.rstep, cpad: l.rpad, ..l.clone() };
        return mk2(w, n, &lx, &|j, i| cell(i, j), poison).reversed_axes();
    }
    let (ra, ca) = (l.rstep.unsigned_abs(), l.cstep.unsigned_abs());
    let (nn, mm) = (l.r0 + n * ra + l.rpad, l.c0 + w * ca + l.cpad);
    let v: Vec<T> = (0..nn * mm).map(|k| poison(k)).collect();
    let base = if l.forder { Array2::from_shape_vec((nn, mm).f(), v).unwrap() } else { Array2::from_shape_vec((nn, mm), v).unwrap() };
    let mut a = base.slice_move(s![l.r0..l.r0 + n * ra; l.rstep, l.c0..l.c0 + w * ca; l.cstep]);
    assert_eq!(a.dim(), (n, w), "harness: layout construction");
    for i in 0..n {
        for j in 0..w {
            a[[i, j]] = cell(i, j);
        }
    }
    a
}
fn mk1<T: Clone>(n: usize, l: &L1, cell: &dyn Fn(usize) -> T, poison: &dyn Fn(usize) -> T) -> Array1<T> {
    let sa = l.step.unsigned_abs();
    let v: Vec<T> = (0..l.o0 + n * sa + l.pad).map(|k| poison(k)).collect();
    let mut a = Array1::from(v).slice_move(s![l.o0..l.o0 + n * sa; l.step]);
    assert_eq!(a.len(), n, "harness: layout construction");
    for i in 0..n {
        a[i] = cell(i);
    }
    a
}

#[derive(Clone, Debug)]
struct LaySpec {
    c: Canon,
    lt: LT,
    lr: L2,
    lt2: L2,
    lt1: L1,
    lw: L1,
}
/// cells of the allocation that belong to no sample: record tags >= 60000 (sample id >= 937), weights
/// 1000.5 + k, labels 9000 + k where the label type can tell them apart
fn poison_label(lt: LT, k: usize) -> u64 {
    match lt { LT::Usize => 9000 + k as u64, LT::Bool => (k % 2) as u64, _ => 12 + (k % 4) as u64 }
}
fn lay_decorate<T: AsTargets>(d: DatasetBase<Array2<f64>, T>, s: &LaySpec) -> DatasetBase<Array2<f64>, T> {
    let c = &s.c;
    let w = if c.ws.is_empty() { Array1::zeros(0) } else { mk1(c.ws.len(), &s.lw, &|i| c.ws[i] as f32 / 2.0, &|k| 1000.5 + k as f32) };
    d.with_weights(w)
        .with_feature_names(c.fnm.iter().map(|k| format!("f{}", k)).collect::<Vec<_>>())
        .with_target_names(c.tnm.iter().map(|k| format!("t{}", k)).collect::<Vec<_>>())
}
fn lay_recs(s: &LaySpec) -> Array2<f64> {
    let c = &s.c;
    mk2(c.recs.len(), c.nf, &s.lr, &|i, j| c.recs[i][j] as f64, &|k| (60000 + k) as f64)
}
fn lay_build1<L: Lab>(s: &LaySpec) -> Dataset<f64, L, Ix1> {
    let c = &s.c;
    let t = mk1(c.tgts.len(), &s.lt1, &|i| L::dec(c.tgts[i][0]), &|k| L::dec(poison_label(s.lt, k)));
    lay_decorate(Dataset::new(lay_recs(s), t), s)
}
fn lay_build2<L: Lab>(s: &LaySpec) -> Dataset<f64, L, Ix2> {
    let c = &s.c;
    let t = mk2(c.tgts.len(), c.nt, &s.lt2, &|i, j| L::dec(c.tgts[i][j]), &|k| L::dec(poison_label(s.lt, k)));
    lay_decorate(Dataset::new(lay_recs(s), t), s)
}

/// the first call is made on a view of the source, its `k`-th result (a view into the source's allocations,
/// with whatever offsets and strides the call produced) is the receiver of the second call - no rebuilding
macro_rules! def_chain {
    ($name:ident, $ix:tt, $ixt:ty) => {
        fn $name<L: Lab + Copy>(mk: &dyn Fn() -> Dataset<f64, L, $ixt>, op1: &Op, k: usize, op2: &Op, seed: u64) -> Option<(PhysDs, Canon, StepRes)> {
            words_clear();
            let mut inter: Option<(PhysDs, Canon)> = None;
            let r = guarded(AssertUnwindSafe(|| {
                let d = mk();
                let (pd, rstart, tstart) = phys_ds(&d);
                let v = d.view();
                let firsts: Vec<DatasetView<f64, L, $ixt>> = match op1 {
                    Op::View => vec![v.view()],
                    Op::SplitView(r) => {
                        let (a, b) = v.split_with_ratio(*r);
                        vec![a, b]
                    }
                    Op::Chunks(s) => v.sample_chunks(*s).collect(),
                    Op::FeatureIter => v.feature_iter().collect(),
                    Op::TargetIter => v.target_iter().collect(),
                    _ => panic!("harness: not a view-producing call"),
                };
                if firsts.is_empty() {
                    return (None, true);
                }
                let w = firsts[k % firsts.len()].clone();
                let phys_w = |w: &DatasetView<f64, L, $ixt>| PhysDs {
                    recs: phys_view(&w.records, &pd.recs, rstart),
                    tgts: phys_view(&w.targets, &pd.tgts, tstart),
                    ws: phys_owned(&w.weights, &enc_w).0,
                    fnm: w.feature_names().iter().map(|s| pname(s)).collect(),
                    tnm: w.target_names().iter().map(|s| pname(s)).collect(),
                };
                let pw = phys_w(&w);
                let before = canon!(w);
                inter = Some((pw.clone(), before.clone()));
                words_clear();
                let outs: Option<Vec<OutC>> = match op2 {
                    Op::SplitView(r) => {
                        let (a, b) = w.split_with_ratio(*r);
                        Some(vec![plain(canon!(a)), plain(canon!(b))])
                    }
                    _ => ops_any!(w, op2, L).or_else(|| ops_copy!(yes, w, op2, seed, L)).or_else(|| ops_dim!($ix, view, w, op2)),
                };
                let same = canon!(w) == before && phys_w(&w) == pw && phys_ds(&d).0 == pd;
                (outs, same)
            }));
            let words = words_take();
            let (pw, before) = inter?;
            let res = match r {
                Ok((Some(outs), same)) => StepRes { panic: None, outs, same, words },
                Ok((None, _)) => return None,
                Err(p) => StepRes { panic: Some(p), outs: vec![], same: true, words },
            };
            Some((pw, before, res))
        }
    };
}
def_chain!(chain1, 1, Ix1);
def_chain!(chain2, 2, Ix2);

/// the same for calls that return OWNED datasets: the receiver of the second call is the object the first
/// call returned, in whatever layout ndarray built it (select along the feature axis, for one, returns a
/// Fortran-ordered array); its raw vectors, offsets and strides are read from the live object
macro_rules! def_chain_owned {
    ($name:ident, $ix:tt, $ixt:ty) => {
        fn $name<L: Lab + Copy>(mk: &dyn Fn() -> Dataset<f64, L, $ixt>, op1: &Op, k: usize, op2: &Op, on_view2: bool, seed1: u64, seed2: u64) -> Option<(PhysDs, Canon, StepRes)> {
            words_clear();
            let mut inter: Option<(PhysDs, Canon)> = None;
            let r = guarded(AssertUnwindSafe(|| {
                let d = mk();
                let firsts: Vec<Dataset<f64, L, $ixt>> = {
                    let mut rng = RecRng::new(seed1);
                    match op1 {
                        Op::Shuffle => vec![d.shuffle(&mut rng)],
                        Op::Bootstrap(a, b) => d.bootstrap((*a, *b), &mut rng).take(2).collect(),
                        Op::BootSamples(n) => d.bootstrap_samples(*n, &mut rng).take(2).collect(),
                        Op::BootFeatures(n) => d.bootstrap_features(*n, &mut rng).take(2).collect(),
                        Op::ToOwned => vec![DatasetBase::to_owned(&d)],
                        Op::MapTargets(a, b, m) => {
                            let (a, b, m) = (*a, *b, *m);
                            vec![d.clone().map_targets(|x| <L as Lab>::dec((a * x.enc() + b) % m))]
                        }
                        Op::SplitOwned(r) => {
                            let (x, y) = d.clone().split_with_ratio(*r);
                            vec![x, y]
                        }
                        _ => panic!("harness: not a call returning owned datasets of the same type"),
                    }
                };
                if firsts.is_empty() {
                    return (None, true);
                }
                let w = firsts[k % firsts.len()].clone();
                let pw = phys_ds(&w).0;
                let before = canon!(w);
                inter = Some((pw.clone(), before.clone()));
                words_clear();
                let outs = apply_call!(w, op2, on_view2, seed2, L, yes, $ix);
                let same = canon!(w) == before && phys_ds(&w).0 == pw;
                (outs, same)
            }));
            let words = words_take();
            let (pw, before) = inter?;
            let res = match r {
                Ok((Some(outs), same)) => StepRes { panic: None, outs, same, words },
                Ok((None, _)) => return None,
                Err(p) => StepRes { panic: Some(p), outs: vec![], same: true, words },
            };
            Some((pw, before, res))
        }
    };
}
def_chain_owned!(chain_owned1, 1, Ix1);
def_chain_owned!(chain_owned2, 2, Ix2);

fn lay_step(s: &LaySpec, op: &Op, on_view: bool, seed: u64) -> StepRes {
    match (s.lt, s.c.t1) {
        (LT::Usize, true) => step1::<usize>(&|| lay_build1(s), op, on_view, seed),
        (LT::Usize, false) => step2::<usize>(&|| lay_build2(s), op, on_view, seed),
        (LT::Bool, true) => step1::<bool>(&|| lay_build1(s), op, on_view, seed),
        (LT::Bool, false) => step2::<bool>(&|| lay_build2(s), op, on_view, seed),
        (LT::Str, true) => step1::<&'static str>(&|| lay_build1(s), op, on_view, seed),
        (LT::Str, false) => step2::<&'static str>(&|| lay_build2(s), op, on_view, seed),
        (LT::Strg, true) => step1_nc::<String>(&|| lay_build1(s), op, on_view, seed),
        (LT::Strg, false) => step2_nc::<String>(&|| lay_build2(s), op, on_view, seed),
    }
}
fn lay_chain(s: &LaySpec, op1: &Op, k: usize, op2: &Op, seed: u64) -> Option<(PhysDs, Canon, StepRes)> {
    match (s.lt, s.c.t1) {
        (LT::Usize, true) => chain1::<usize>(&|| lay_build1(s), op1, k, op2, seed),
        (LT::Usize, false) => chain2::<usize>(&|| lay_build2(s), op1, k, op2, seed),
        (LT::Bool, true) => chain1::<bool>(&|| lay_build1(s), op1, k, op2, seed),
        (LT::Bool, false) => chain2::<bool>(&|| lay_build2(s), op1, k, op2, seed),
        (LT::Str, true) => chain1::<&'static str>(&|| lay_build1(s), op1, k, op2, seed),
        (LT::Str, false) => chain2::<&'static str>(&|| lay_build2(s), op1, k, op2, seed),
        (LT::Strg, _) => None,
    }
}
fn lay_chain_owned(s: &LaySpec, op1: &Op, k: usize, op2: &Op, on_view2: bool, seed1: u64, seed2: u64) -> Option<(PhysDs, Canon, StepRes)> {
    match (s.lt, s.c.t1) {
        (LT::Usize, true) => chain_owned1::<usize>(&|| lay_build1(s), op1, k, op2, on_view2, seed1, seed2),
        (LT::Usize, false) => chain_owned2::<usize>(&|| lay_build2(s), op1, k, op2, on_view2, seed1, seed2),
        (LT::Bool, true) => chain_owned1::<bool>(&|| lay_build1(s), op1, k, op2, on_view2, seed1, seed2),
        (LT::Bool, false) => chain_owned2::<bool>(&|| lay_build2(s), op1, k, op2, on_view2, seed1, seed2),
        (LT::Str, true) => chain_owned1::<&'static str>(&|| lay_build1(s), op1, k, op2, on_view2, seed1, seed2),
        (LT::Str, false) => chain_owned2::<&'static str>(&|| lay_build2(s), op1, k, op2, on_view2, seed1, seed2),
        (LT::Strg, _) => None,
    }
}
fn lay_phys(s: &LaySpec) -> (PhysDs, Canon) {
    macro_rules! go {
        ($b:ident, $L:ty) => {{
            let d = $b::<$L>(s);
            (phys_ds(&d).0, canon!(d))
        }};
    }
    match (s.lt, s.c.t1) {
        (LT::Usize, true) => go!(lay_build1, usize),
        (LT::Usize, false) => go!(lay_build2, usize),
        (LT::Bool, true) => go!(lay_build1, bool),
        (LT::Bool, false) => go!(lay_build2, bool),
        (LT::Str, true) => go!(lay_build1, &'static str),
        (LT::Str, false) => go!(lay_build2, &'static str),
        (LT::Strg, true) => go!(lay_build1, String),
        (LT::Strg, false) => go!(lay_build2, String),
    }
}

fn czs(x: isize) -> String { format!("({})%Z", x) }
fn phys2_coq(p: &Phys) -> String {
    format!("(mkA2 {} {}%nat {}%nat {}%nat {} {})", cvecu(&p.buf), p.off, p.shape[0], p.shape[1], czs(p.strides[0]), czs(p.strides[1]))
}
fn phys1_coq(p: &Phys) -> String {
    format!("(mkA1 {} {}%nat {}%nat {})", cvecu(&p.buf), p.off, p.shape[0], czs(p.strides[0]))
}
fn physds_coq(p: &PhysDs) -> String {
    let t = if p.tgts.shape.len() == 1 { format!("(T1 {})", phys1_coq(&p.tgts)) } else { format!("(T2 {})", phys2_coq(&p.tgts)) };
    format!("(mkL {} {} {} {} {})", phys2_coq(&p.recs), t, phys1_coq(&p.ws), cvecu(&p.fnm), cvecu(&p.tnm))
}
/// the weight array is its own raw vector, in order (what `Array1::from(vec)` gives)
fn plain_weights(p: &Phys) -> bool {
    p.off == 0 && p.buf.len() == p.shape[0] && (p.strides[0] == 1 || p.shape[0] <= 1)
}
fn std2(p: &Phys) -> bool {
    let (n, w) = (p.shape[0], p.shape[1]);
    n == 0 || w == 0 || ((w == 1 || p.strides[1] == 1) && (n == 1 || p.strides[0] == if w == 1 { 1 } else { w as isize }))
}
fn phys_std(p: &Phys) -> bool {
    if p.shape.len() == 1 { p.strides[0] == 1 || p.shape[0] <= 1 } else { std2(p) }
}
fn phys_class(p: &Phys) -> &'static str {
    let size: usize = p.shape.iter().product();
    if !phys_std(p) { "nonstandard" } else if p.buf.len() != size { "standard_longer_buffer" } else { "standard_exact" }
}

/// one CLay case: the calls `plan` on the source `pd` (logical contents `cur`), every call on the source itself
fn emit_lay(out: &mut Out, em: &mut Emit, lt: LT, pd: &PhysDs, cur: &Canon, steps: &[(Op, bool, StepRes)], stream: &str, extra_tags: &[String], lay_desc: &str) {
    let id = em.id;
    em.id += 1;
    let mut names: Vec<String> = vec![];
    let mut coq_steps: Vec<String> = vec![];
    let mut salt: u64 = 0;
    for (op, on_view, res) in steps {
        coq_steps.push(step_coq(op, cur, res, STAY));
        names.push(format!("{}{}{}", op_name(op), if *on_view { "@view" } else { "" }, if res.panic.is_some() { "!panic" } else { "" }));
        out.bump(&format!("op_{}", op_name(op)));
        out.bump(&format!("layout_op_{}", op_name(op)));
        if res.panic.is_some() { out.bump("panics"); out.bump("layout_panics"); }
        salt = salt.wrapping_mul(31).wrapping_add(fnv(format!("{:?}{}", op, on_view).as_bytes()));
    }
    let n = cur.recs.len();
    out.bump(&format!("stream_{}", stream));
    out.bump(&format!("labels_{}", lt_name(lt)));
    out.bump(&format!("layout_records_{}", phys_class(&pd.recs)));
    out.bump(&format!("layout_targets_{}", phys_class(&pd.tgts)));
    out.bump(&format!("layout_weights_{}", if pd.ws.shape[0] == 0 { "none" } else if plain_weights(&pd.ws) { "plain" } else { "not_plain" }));
    let desc = format!(
        "{{\"stream\": {}, \"label_type\": {}, \"n\": {}, \"nfeatures\": {}, \"targets\": {}, \"layout\": {}, \"records\": {{\"offset\": {}, \"strides\": {:?}, \"raw_len\": {}}}, \"targets_array\": {{\"offset\": {}, \"strides\": {:?}, \"raw_len\": {}}}, \"weights\": {{\"len\": {}, \"offset\": {}, \"strides\": {:?}, \"raw_len\": {}}}, \"target_values\": {:?}, \"calls\": {}}}",
        jstr(stream), jstr(lt_name(lt)), n, cur.nf, jstr(&if cur.t1 { "1-D".to_string() } else { format!("2-D x{}", cur.nt) }), jstr(lay_desc),
        pd.recs.off, pd.recs.strides, pd.recs.buf.len(), pd.tgts.off, pd.tgts.strides, pd.tgts.buf.len(),
        pd.ws.shape[0], pd.ws.off, pd.ws.strides, pd.ws.buf.len(), cur.tgts, jstr(&names.join(" | "))
    );
    let coq = format!("(CLay {}%N {} [{}])", id, physds_coq(pd), coq_steps.join(";\n   "));
    let mut h: Vec<u64> = vec![pd.recs.off as u64, pd.tgts.off as u64, pd.ws.off as u64, pd.recs.buf.len() as u64, pd.tgts.buf.len() as u64, pd.ws.buf.len() as u64];
    h.extend(pd.recs.strides.iter().chain(pd.tgts.strides.iter()).chain(pd.ws.strides.iter()).map(|x| *x as u64));
    let hb: Vec<u8> = h.iter().flat_map(|x| x.to_le_bytes().to_vec()).collect();
    let key = if n >= 2 { Some(hash_canon(cur, salt) ^ fnv(&hb)) } else { None };
    let mut tags = vec![format!("stream_{}", stream), format!("labels_{}", lt_name(lt))];
    tags.extend(extra_tags.iter().cloned());
    let tagrefs: Vec<&str> = tags.iter().map(|s| s.as_str()).collect();
    out.case(id, &coq, &tagrefs, &desc, key);
}

/// the calls of the layout stream on one source: every operation, owned and view receivers, few split points
fn lay_ops(r: &mut Sm64, lt: LT, c: &Canon) -> Vec<(Op, bool)> {
    let n = c.recs.len();
    let mut v: Vec<(Op, bool)> = vec![];
    for _ in 0..2 {
        v.push((Op::SplitView(gen_ratio(r, n)), true));
    }
    v.push((Op::SplitOwned(gen_ratio(r, n)), false));
    v.push((Op::SplitOwned(if n == 0 { 0.5 } else { (1 + r.below(n as u64)) as f32 / n as f32 }), false));
    // the label filter (weights() as a slice) on both receivers, the other calls on one of them
    v.push((Op::WithLabels(gen_labels(r, c)), false));
    v.push((Op::WithLabels(gen_labels(r, c)), true));
    v.push((Op::IntoSingle, false));
    let singles = vec![
        Op::Shuffle,
        Op::Shuffle,
        Op::Bootstrap(r.below(4) as usize, r.below(4) as usize),
        Op::BootSamples(r.below(5) as usize),
        Op::BootFeatures(r.below(4) as usize),
        Op::OneVsAll,
        Op::MapTargets(1 + r.below(3), r.below(4), modulus(lt)),
        Op::View,
        Op::ToOwned,
        Op::SampleIter,
        Op::FeatureIter,
        Op::TargetIter,
        Op::Chunks(1 + r.below(3) as usize),
    ];
    for op in singles {
        let w = r.chance(0.5);
        v.push((op, w));
    }
    v.into_iter()
        .filter(|(op, w)| expressible(lt, c, op, *w))
        .filter(|(op, _)| match op {
            Op::Bootstrap(a, b) => (*a == 0 || n > 0) && (*b == 0 || c.nf > 0),
            Op::BootSamples(k) => *k == 0 || n > 0,
            Op::BootFeatures(k) => *k == 0 || c.nf > 0,
            Op::IntoSingle => c.nt == 1 || n == 0,
            Op::TargetIter => !c.t1,
            Op::MapTargets(..) => c.tgts.iter().flatten().all(|v| *v < 64),
            _ => true,
        })
        .collect()
}

fn layout_stream(out: &mut Out, em: &mut Emit, rng: &mut Sm64, thorough: bool) {
    let nsrc = if thorough { 500 } else { 260 };
    let lts = [LT::Usize, LT::Bool, LT::Str, LT::Usize];
    for i in 0..nsrc {
        let mut r = rng.fork();
        let lt = lts[i % 4];
        let n = if r.chance(0.12) { r.below(2) as usize } else { 2 + r.below(if thorough { 9 } else { 6 }) as usize };
        let nf = if r.chance(0.06) { 0 } else { 1 + r.below(3) as usize };
        let tk = *r.pick(&[0usize, 0, 0, 2, 2, 3, 3, 1]);
        let (w, nm) = (r.chance(0.75), r.chance(0.6));
        let tg = r.chance(0.3);
        let c = gen_ds(&mut r, lt, n, nf, tk, w, nm, tg);
        // at least one of the three arrays is not in the plain layout
        let mut spec = LaySpec { c, lt, lr: gen_l2(&mut r), lt2: gen_l2(&mut r), lt1: gen_l1(&mut r), lw: gen_l1(&mut r) };
        match i % 5 {
            0 => { spec.lt2 = L2_STD; spec.lt1 = L1_STD; spec.lw = L1_STD; }      // records alone
            1 => { spec.lr = L2_STD; spec.lw = L1_STD; }                           // targets alone
            2 => { spec.lr = L2_STD; spec.lt2 = L2_STD; spec.lt1 = L1_STD; }       // weights alone
            _ => {}
        }
        let (pd, cur) = lay_phys(&spec);
        assert_eq!(cur, spec.c, "harness: the layout construction does not show the intended logical contents");
        let lay_desc = format!("records {} / targets {} / weights {}", spec.lr.name, if spec.c.t1 { spec.lt1.name } else { spec.lt2.name }, if spec.c.ws.is_empty() { "none" } else { spec.lw.name });
        let base_tags = vec![format!("recs_{}", phys_class(&pd.recs)), format!("tgts_{}", phys_class(&pd.tgts))];

        // (1) every operation on the source as it lies in memory
        let ops = lay_ops(&mut r, lt, &cur);
        let weights_raw_class = !cur.ws.is_empty() && !plain_weights(&pd.ws);
        let mut main_steps: Vec<(Op, bool, StepRes)> = vec![];
        let mut raw_steps: Vec<(Op, bool, StepRes)> = vec![];
        for (op, on_view) in ops {
            let seed = r.below(1 << 30);
            let res = lay_step(&spec, &op, on_view, seed);
            // the owned split hands the RAW weight vector on: calls of that class form cases of their own
            if weights_raw_class && matches!(op, Op::SplitOwned(_)) { raw_steps.push((op, on_view, res)); } else { main_steps.push((op, on_view, res)); }
        }
        emit_lay(out, em, lt, &pd, &cur, &main_steps, "layout", &base_tags, &lay_desc);
        for st in raw_steps {
            let mut tags = base_tags.clone();
            tags.push("owned_split_weights_not_plain".to_string());
            emit_lay(out, em, lt, &pd, &cur, &[st], "layout", &tags, &lay_desc);
        }

        // (2) a call on the very object a view-producing call returned
        let nchain = if thorough { 4 } else { 3 };
        let mut first_steps: Vec<(Op, bool, StepRes)> = vec![];
        for _ in 0..nchain {
            let op1 = match r.below(6) {
                0 => Op::View,
                1 | 2 => Op::SplitView(gen_ratio(&mut r, n)),
                3 => Op::Chunks(1 + r.below(3) as usize),
                4 => Op::FeatureIter,
                _ => if cur.t1 { Op::Chunks(2) } else { Op::TargetIter },
            };
            let k = r.below(4) as usize;
            let seed = r.below(1 << 30);
            // the second call is planned on the logical result of the first (read from a dry run)
            let dry = lay_step(&spec, &op1, true, seed);
            if dry.panic.is_some() || dry.outs.is_empty() { continue; }
            let mid = dry.outs[k % dry.outs.len()].ds.clone();
            let mut op2 = None;
            for _ in 0..50 {
                let (o, _) = gen_op(&mut r, lt, &mid);
                if expressible(lt, &mid, &o, true) && !matches!(o, Op::SplitOwned(_) | Op::IntoSingle) { op2 = Some(o); break; }
            }
            let op2 = match op2 { Some(o) => o, None => continue };
            let op2 = if let Op::SplitView(_) = op2 { Op::SplitView(gen_ratio(&mut r, mid.recs.len())) } else { op2 };
            if let Some((pw, before, res)) = lay_chain(&spec, &op1, k, &op2, seed) {
                assert_eq!(before, mid, "harness: the chained receiver is not the result of the dry run");
                let tags = vec![format!("recs_{}", phys_class(&pw.recs)), format!("tgts_{}", phys_class(&pw.tgts)), "chained".to_string()];
                let d2 = format!("{} ; receiver = result {} of {}@view", lay_desc, k % dry.outs.len(), op_name(&op1));
                out.bump(&format!("chained_after_{}", op_name(&op1)));
                emit_lay(out, em, lt, &pw, &before, &[(op2, true, res)], "layout_chained", &tags, &d2);
                first_steps.push((op1, true, dry));
            }
        }
        // (3) a call on the very object a call returning OWNED datasets produced
        for _ in 0..(if thorough { 3 } else { 2 }) {
            let op1 = match r.below(8) {
                0 => Op::Shuffle,
                1 => Op::Bootstrap(1 + r.below(3) as usize, 1 + r.below(3) as usize),
                2 => Op::BootSamples(1 + r.below(4) as usize),
                3 | 4 => Op::BootFeatures(1 + r.below(3) as usize),
                5 => Op::ToOwned,
                6 => Op::MapTargets(1 + r.below(3), r.below(4), modulus(lt)),
                _ => Op::SplitOwned(gen_ratio(&mut r, n)),
            };
            let ok1 = match &op1 {
                Op::Bootstrap(..) => n > 0 && cur.nf > 0,
                Op::BootSamples(_) => n > 0,
                Op::BootFeatures(_) => cur.nf > 0,
                Op::MapTargets(..) => cur.tgts.iter().flatten().all(|v| *v < 64),
                // the raw-vector weight split (F-C02-1) stays in the cases of its own
                Op::SplitOwned(_) => !weights_raw_class,
                _ => true,
            };
            if !ok1 { continue; }
            let k = r.below(4) as usize;
            let (seed1, seed2) = (r.below(1 << 30), r.below(1 << 30));
            let dry = lay_step(&spec, &op1, false, seed1);
            if dry.panic.is_some() || dry.outs.is_empty() { continue; }
            let mid = dry.outs[k % dry.outs.len()].ds.clone();
            // the owned split first (its layout asserts are what an odd result layout would trip), then anything
            let (op2, on_view2) = if r.chance(0.5) {
                (Op::SplitOwned(gen_ratio(&mut r, mid.recs.len())), false)
            } else {
                let mut pick = None;
                for _ in 0..50 {
                    let (o, w) = gen_op(&mut r, lt, &mid);
                    if expressible(lt, &mid, &o, w) { pick = Some((o, w)); break; }
                }
                match pick { Some(p) => p, None => continue }
            };
            if let Some((pw, before, res)) = lay_chain_owned(&spec, &op1, k, &op2, on_view2, seed1, seed2) {
                assert_eq!(before, mid, "harness: the chained receiver is not the result of the dry run");
                let mut tags = vec![format!("recs_{}", phys_class(&pw.recs)), format!("tgts_{}", phys_class(&pw.tgts)), "chained_owned".to_string()];
                // the class of F-C02-1: owned split of a dataset whose (one per sample) weights are not their own raw vector
                if matches!(op2, Op::SplitOwned(_)) && !before.ws.is_empty() && !plain_weights(&pw.ws) {
                    tags.push("owned_split_weights_not_plain".to_string());
                }
                let d2 = format!("{} ; receiver = owned result {} of {}", lay_desc, k % dry.outs.len(), op_name(&op1));
                out.bump(&format!("chained_after_{}", op_name(&op1)));
                out.bump(&format!("chained_owned_receiver_records_{}", phys_class(&pw.recs)));
                emit_lay(out, em, lt, &pw, &before, &[(op2, on_view2, res)], "layout_chained", &tags, &d2);
                first_steps.push((op1, false, dry));
            }
        }
        // the first calls of the chains are judged as calls on the source
        if !first_steps.is_empty() {
            emit_lay(out, em, lt, &pd, &cur, &first_steps, "layout", &base_tags, &lay_desc);
        }
    }
}

fn main() {
    let args = parse_args();
    let mut rng = Sm64::new(args.seed);
    let thorough = args.tier == "thorough";
    let mut out = Out::new(&args.out, args.shards, "C02.Corr", "case", args.only);
    let mut em = Emit { id: 0 };
    let lts = [LT::Usize, LT::Bool, LT::Str, LT::Strg];

    // (a) exhaustive-small: every operation once on every small shape
    let maxn = if thorough { 8 } else { 5 };
    let mut combo = 0usize;
    for n in 0..=maxn {
        for nf in 0..=3usize {
            for tk in 0..=3usize {
                for wn in 0..4u32 {
                    let lt = lts[combo % 4];
                    combo += 1;
                    let mut r = rng.fork();
                    let src = gen_ds(&mut r, lt, n, nf, tk, wn & 1 == 1, wn & 2 == 2, combo % 5 == 0);
                    let ops = all_single_ops(&mut r, lt, &src);
                    let mut it = ops.into_iter();
                    let mut r2 = r.fork();
                    emit_seq(&mut out, &mut em, lt, &src, &mut |_c, _k| it.next().map(|(o, w)| (o, w, true)), "exhaustive", &mut r2);
                }
            }
        }
    }

    // (b) random histories of 1..4 (thorough: ..6) calls
    let nseq = if thorough { 12000 } else { 1400 };
    let maxlen = if thorough { 6 } else { 4 };
    let maxn = if thorough { 24 } else { 12 };
    for _ in 0..nseq {
        let mut r = rng.fork();
        let lt = *r.pick(&lts);
        let n = if r.chance(0.1) { r.below(2) as usize } else { 2 + r.below(maxn - 1) as usize };
        let nf = if r.chance(0.08) { 0 } else { 1 + r.below(4) as usize };
        let tk = *r.pick(&[0usize, 0, 0, 2, 2, 3, 3, 4, 1]);
        let (w, nm, tg) = (r.chance(0.7), r.chance(0.7), r.chance(0.25));
        let src = gen_ds(&mut r, lt, n, nf, tk, w, nm, tg);
        let len = 1 + r.below(maxlen) as usize;
        let mut r1 = r.fork();
        let mut r2 = r.fork();
        emit_seq(&mut out, &mut em, lt, &src, &mut |c, k| if k < len { let (o, w) = gen_op(&mut r1, lt, c); Some((o, w, false)) } else { None }, "random", &mut r2);
    }

    // (c) malformed: calls outside the documented domain, weights of the wrong length
    let nbad = if thorough { 1500 } else { 240 };
    for _ in 0..nbad {
        let mut r = rng.fork();
        let lt = *r.pick(&lts);
        let n = r.below(7) as usize;
        let nf = r.below(4) as usize;
        let tk = *r.pick(&[0usize, 0, 2, 3, 1]);
        let (w, nm) = (r.chance(0.6), r.chance(0.6));
        let mut src = gen_ds(&mut r, lt, n, nf, tk, w, nm, false);
        let bad_weights = r.chance(0.4);
        if bad_weights {
            // ill-formed on purpose: a weight vector that is neither empty nor one per sample
            let m = if n > 1 && r.chance(0.5) { n - 1 } else { n + 1 + r.below(2) as usize };
            src.ws = (0..m).map(|i| 2 * i as u64 + 1).collect();
        }
        let len = 1 + r.below(3) as usize;
        let mut r1 = r.fork();
        let mut r2 = r.fork();
        emit_seq(
            &mut out, &mut em, lt, &src,
            &mut |c, k| {
                if k >= len { return None; }
                let (o, w) = if bad_weights && r1.chance(0.6) { gen_op(&mut r1, lt, c) } else { gen_bad_op(&mut r1, lt, c) };
                // ill-formed weights stay with the source only: every call is made on the source
                Some((o, w, bad_weights))
            },
            if bad_weights { "malformed_weights" } else { "malformed_calls" }, &mut r2,
        );
    }

    // (d) the split point alone, on zero-feature datasets without targets (any n is cheap)
    let nratio = if thorough { 6000 } else { 600 };
    let big: [u64; 12] = [16777215, 16777216, 16777217, 16777219, 33554433, 50000001, 100000007, 1000000007, 4294967297, 1099511640121, 999999937, 16777218];
    for i in 0..nratio {
        let mut r = rng.fork();
        let n: u64 = match i % 4 {
            0 => *r.pick(&big),
            1 => 1 + r.below(64),
            2 => 1 + r.below(5000),
            _ => 1 + r.below(1 << 26),
        };
        let ratio = match r.below(10) {
            0 => bad_ratio(&mut r),
            1 => *r.pick(&[0.0f32, 1.0, 0.5, 0.1, 0.9, 0.25, 0.75, 1.0 / 3.0, 0.7, 0.3, 0.2, 0.8, 0.6]),
            2 => r.unit() as f32,
            _ => {
                let k = r.below(n + 1);
                nudge((k as f64 / n as f64) as f32, r.range(-2, 2))
            }
        };
        let id = em.id;
        em.id += 1;
        let res = guarded(move || {
            let ds: Dataset<f64, (), Ix1> = DatasetBase::from(Array2::<f64>::zeros((n as usize, 0)));
            let (a, b) = ds.split_with_ratio(ratio);
            (a.nsamples() as u64, a.targets().len() as u64, b.nsamples() as u64, b.targets().len() as u64)
        });
        let (p, n1, n2, consistent) = match res {
            Ok((a, at, b, bt)) => (false, a, b, a == at && b == bt),
            Err(_) => (true, 0, 0, true),
        };
        let desc = format!("{{\"stream\": \"ratio\", \"n\": {}, \"ratio_bits\": {}, \"ratio\": {}, \"first\": {}, \"second\": {}, \"panicked\": {}}}", n, ratio.to_bits(), jstr(&format!("{:e}", ratio)), n1, n2, p);
        out.bump("stream_ratio");
        out.bump(if n > (1 << 24) { "ratio_n_above_2^24" } else { "ratio_n_upto_2^24" });
        if p { out.bump("panics"); }
        if !consistent {
            out.rust_fail(id, 4096, &["stream_ratio"], "records and targets of a split part have different lengths", &desc);
            out.rust_eval(&desc, None);
            continue;
        }
        let coq = format!("(CRatio {}%N {}%N {}%Z {} {}%N {}%N)", id, n, ratio.to_bits(), cbool(p), n1, n2);
        let key = Some(fnv(format!("{}:{}", n, ratio.to_bits()).as_bytes()));
        out.case(id, &coq, &["stream_ratio"], &desc, key);
    }

    // (e) memory layouts: the same operations on Fortran-ordered / strided / reversed / offset / transposed arrays
    layout_stream(&mut out, &mut em, &mut rng, thorough);

    out.finish("identity-tagged datasets (cell = 64*sample + column, weight = sample + 1/2, names f<c>/t<c>); streams: exhaustive (every operation once on every shape n<=5 x features 0..3 x targets {1-D, 2-D with 0,1,2 columns} x weights x names, label types rotating), random histories of 1..4 calls (owned and view receivers), malformed (calls outside the documented domain, weight vectors of the wrong length), ratio (split point alone, n up to 2^40 on zero-feature datasets), layout (260 sources whose records / targets / weights are Fortran-ordered, strided, reversed, offset or slack slices of larger allocations or transposed - poison cells in the gaps - with every operation on owned and view receivers; raw vectors, offsets and strides read from the live objects) and layout_chained (a second call on the very object - view or owned - that a first call returned, in the layout ndarray gave it); every RNG-driven call is made with a recording generator and replayed in Coq from its words; a history is non-trivial when the source has >= 2 samples; distinct = distinct (shape, target values, calls, layout) hashes");
}
