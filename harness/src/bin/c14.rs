//! C14 harness: decision trees fitted on generated labelled datasets; dumps the fitted tree through
//! the public API (root_node / children / split / prediction / depth / iter_nodes / importances /
//! predict) and emits Coq cases for C14/Corr.v (bit-exact fit model for Gini and entropy trees of
//! 2..6 classes - entropy with the run time's `f32::log2` values passed as a checked table -,
//! prediction / importance / iteration models for all trees, exact checker `chk_tree` as oracle).
//! Sample weights: none, dyadic (all f32 sums exact: exact oracle), full-mantissa and decimal-palette
//! weights (streams F, G: the oracle compares exact rational weights with the f32 decisions of the code
//! up to the stated allowance n * 2^-23 of the node's weight and requires finite decreases / importances).
use linfa::prelude::*;
use linfa::{Dataset, Label};
use linfa_trees::{DecisionTree, SplitQuality, TreeNode};
use ndarray::{Array1, Array2};
use vh::*;

#[derive(Clone, Debug)]
struct Params { entropy: bool, max_depth: Option<usize>, mws: f32, mwl: f32, mid: f64 }

#[derive(Clone, Debug)]
enum Tr {
    Leaf { d: usize, p: usize },
    Node { d: usize, f: usize, thr: f64, dec: f64, l: Box<Tr>, r: Box<Tr> },
}

#[derive(Clone, Debug)]
struct Dump {
    tree: Tr,
    dangling: usize,
    malformed: Option<String>,
    iter: Vec<(usize, bool)>,
    maxd: usize,
    nleaves: usize,
    mean: Vec<f64>,
    imp: Vec<f64>,
    pred: Vec<usize>,
}

const UNKNOWN: usize = 9999;
/// allowance for the reported impurity decrease when the f32 weight sums round: 2^-18 + this * n * 2^-23
/// (the same constant as [dec_slack_factor] of C14/Corr.v)
const DEC_SLACK_FACTOR: f64 = 2.0;

fn count_nodes<F: linfa::Float, L: Label + std::fmt::Debug>(n: &TreeNode<F, L>) -> usize {
    1 + n.children().into_iter().map(|c| c.as_ref().map_or(0, |b| count_nodes(b))).sum::<usize>()
}

fn walk<F: linfa::Float, L: Label + std::fmt::Debug>(n: &TreeNode<F, L>, back: &dyn Fn(&L) -> usize, dangling: &mut usize, bad: &mut Option<String>) -> Tr {
    let ch = n.children();
    let (l, r) = (ch[0], ch[1]);
    if n.is_leaf() {
        for c in [l, r] {
            if let Some(b) = c { *dangling += count_nodes(b); }
        }
        match n.prediction() {
            Some(p) => Tr::Leaf { d: n.depth(), p: back(&p) },
            None => { *bad = Some("leaf node without prediction".into()); Tr::Leaf { d: n.depth(), p: UNKNOWN } }
        }
    } else {
        if n.prediction().is_some() { *bad = Some("split node reports a prediction".into()); }
        match (l, r) {
            (Some(a), Some(b)) => {
                let (f, thr, dec) = n.split();
                Tr::Node { d: n.depth(), f, thr: thr.to_f64().unwrap(), dec: dec.to_f64().unwrap(), l: Box::new(walk(a, back, dangling, bad)), r: Box::new(walk(b, back, dangling, bad)) }
            }
            _ => { *bad = Some("split node without two children".into()); Tr::Leaf { d: n.depth(), p: UNKNOWN } }
        }
    }
}

fn arr<F: linfa::Float>(rows: &[Vec<f64>], d: usize) -> Array2<F> {
    Array2::from_shape_vec((rows.len(), d), rows.iter().flatten().map(|v| F::cast(*v)).collect()).unwrap()
}

/// fit + dump for one label type; `to_l` is any injective map from 0..ncls to labels. The class
/// index used everywhere else (y, Coq cases, predictions) is the rank of the label in the `Ord` of
/// the label type: class c carries the c-th smallest of the ncls labels.
fn run_typed<F: linfa::Float, L: Label + std::fmt::Debug + Default + 'static>(
    x: &[Vec<f64>], d: usize, y: &[usize], w: &Option<Vec<f32>>, p: &Params, q: &[Vec<f64>], ncls: usize, to_l: fn(usize) -> L,
) -> Result<Dump, String> {
    let mut classes: Vec<L> = (0..ncls).map(to_l).collect();
    classes.sort();
    let targets: Array1<L> = y.iter().map(|&c| classes[c].clone()).collect();
    let mut ds = Dataset::new(arr::<F>(x, d), targets);
    if let Some(w) = w { ds = ds.with_weights(Array1::from(w.clone())); }
    let params = DecisionTree::<F, L>::params()
        .split_quality(if p.entropy { SplitQuality::Entropy } else { SplitQuality::Gini })
        .max_depth(p.max_depth)
        .min_weight_split(p.mws)
        .min_weight_leaf(p.mwl)
        .min_impurity_decrease(F::cast(p.mid));
    let tree = params.fit(&ds).map_err(|e| format!("fit error: {}", e))?;
    let back = move |l: &L| classes.iter().position(|c| c == l).unwrap_or(UNKNOWN);
    let mut dangling = 0;
    let mut bad = None;
    let tr = walk(tree.root_node(), &back, &mut dangling, &mut bad);
    let iter: Vec<(usize, bool)> = tree.iter_nodes().map(|n| (n.depth(), n.is_leaf())).collect();
    let mut all = x.to_vec();
    all.extend(q.iter().cloned());
    let pred = tree.predict(&arr::<F>(&all, d));
    Ok(Dump {
        tree: tr,
        dangling,
        malformed: bad,
        iter,
        maxd: tree.max_depth(),
        nleaves: tree.num_leaves(),
        mean: tree.mean_impurity_decrease().iter().map(|v| v.to_f64().unwrap()).collect(),
        imp: tree.feature_importance().iter().map(|v| v.to_f64().unwrap()).collect(),
        pred: pred.iter().map(|l| back(l)).collect(),
    })
}

fn l_usize(c: usize) -> usize { c }
fn l_usize_off(c: usize) -> usize { 10 * c + 3 }
fn l_bool(c: usize) -> bool { c != 0 }
fn l_string(c: usize) -> String { ["ant", "bee", "cat", "dog", "eel", "fox", "gnu", "hen"][c].to_string() }
// decimal strings: the Ord of String is lexicographic ("10" < "100" < "11" < "12" < "8" < "9"), not numeric
fn l_numstring(c: usize) -> String { ["8", "9", "10", "11", "12", "100", "7", "70"][c].to_string() }
// Option<usize>: None is the smallest label, the others in decreasing numeric order of construction
fn l_option(c: usize) -> Option<usize> { if c == 2 { None } else { Some(100 - 7 * c) } }

fn run(lt: u64, x: &[Vec<f64>], d: usize, y: &[usize], w: &Option<Vec<f32>>, p: &Params, q: &[Vec<f64>], ncls: usize) -> Result<Dump, String> {
    let (x2, y2, w2, p2, q2) = (x.to_vec(), y.to_vec(), w.clone(), p.clone(), q.to_vec());
    match guarded(move || match lt {
        0 => run_typed::<f64, usize>(&x2, d, &y2, &w2, &p2, &q2, ncls, l_usize),
        1 => run_typed::<f64, usize>(&x2, d, &y2, &w2, &p2, &q2, ncls, l_usize_off),
        2 => run_typed::<f64, bool>(&x2, d, &y2, &w2, &p2, &q2, ncls, l_bool),
        3 => run_typed::<f64, String>(&x2, d, &y2, &w2, &p2, &q2, ncls, l_string),
        5 => run_typed::<f64, String>(&x2, d, &y2, &w2, &p2, &q2, ncls, l_numstring),
        6 => run_typed::<f64, Option<usize>>(&x2, d, &y2, &w2, &p2, &q2, ncls, l_option),
        // 4: f32 features (label type usize)
        _ => run_typed::<f32, usize>(&x2, d, &y2, &w2, &p2, &q2, ncls, l_usize),
    }) {
        Ok(r) => r,
        Err(m) => Err(format!("PANIC: {}", m)),
    }
}

fn tree_term(t: &Tr) -> String {
    match t {
        Tr::Leaf { d, p } => format!("(Leaf {}%nat {}%nat)", d, p),
        Tr::Node { d, f, thr, dec, l, r } => format!("(Node {}%nat {}%nat {} {} {} {})", d, f, sf64(*thr), sf64(*dec), tree_term(l), tree_term(r)),
    }
}
fn shape_term(t: &Tr) -> String {
    match t {
        Tr::Leaf { d, p } => format!("(L {} {})", d, p),
        Tr::Node { d, f, thr, l, r, .. } => format!("(N {} {} {:?} {} {})", d, f, thr, shape_term(l), shape_term(r)),
    }
}
fn tree_json(t: &Tr) -> String {
    match t {
        Tr::Leaf { d, p } => format!("{{\"leaf\": {}, \"depth\": {}}}", p, d),
        Tr::Node { d, f, thr, dec, l, r } => format!("{{\"depth\": {}, \"feature\": {}, \"thr\": {:?}, \"dec\": {:?}, \"l\": {}, \"r\": {}}}", d, f, thr, dec, tree_json(l), tree_json(r)),
    }
}
fn thresholds(t: &Tr, out: &mut Vec<(usize, f64)>) {
    if let Tr::Node { f, thr, l, r, .. } = t {
        out.push((*f, *thr));
        thresholds(l, out);
        thresholds(r, out);
    }
}
fn nsplits(t: &Tr) -> usize {
    match t { Tr::Leaf { .. } => 0, Tr::Node { l, r, .. } => 1 + nsplits(l) + nsplits(r) }
}

/// Rust-side recomputation of the criterion's decrease (f64) for every split node, samples routed with `<=`
/// (`<` for the code before 472304f)
fn decrease_check(t: &Tr, le: bool, rows: &[usize], x: &[Vec<f64>], y: &[usize], w: &[f32], ncls: usize, entropy: bool, worst: &mut f64) {
    if let Tr::Node { f, thr, dec, l, r, .. } = t {
        let (sl, sr): (Vec<usize>, Vec<usize>) = rows.iter().partition(|&&i| if le { x[i][*f] <= *thr } else { x[i][*f] < *thr });
        let ent = |s: &[usize]| -> (f64, f64) {
            let mut fr = vec![0.0f64; ncls];
            for &i in s { fr[y[i]] += w[i] as f64; }
            let n: f64 = fr.iter().sum();
            if entropy { (fr.iter().map(|&v| { let p = v / n; if p > 0.0 { -p * p.log2() } else { 0.0 } }).sum::<f64>(), n) }
            else { (1.0 - fr.iter().map(|&v| { let p = v / n; p * p }).sum::<f64>(), n) }
        };
        let (ep, np) = ent(rows);
        let (el, _) = ent(&sl);
        let (er, nr) = ent(&sr);
        let wf = nr / np;
        let exact = ep - (wf * er + (1.0 - wf) * el);
        let e = (exact - dec).abs();
        if !(e <= *worst) { *worst = e; }
        decrease_check(l, le, &sl, x, y, w, ncls, entropy, worst);
        decrease_check(r, le, &sr, x, y, w, ncls, entropy, worst);
    }
}

/// Statistics only (not part of the check): does the returned tree satisfy the weight limits / the leaf
/// majority in EXACT weights (f64 sums of a few f32 values are exact), or only up to the rounding allowance?
/// Returns (some split side below min_weight_leaf in exact weights, some leaf predicts a label that is not an exact majority).
fn allowance_stats(t: &Tr, le: bool, rows: &[usize], x: &[Vec<f64>], y: &[usize], w: &[f32], ncls: usize, mwl: f32, out: &mut (bool, bool)) {
    match t {
        Tr::Leaf { p, .. } => {
            let mut fr = vec![0.0f64; ncls];
            for &i in rows { fr[y[i]] += w[i] as f64; }
            if *p < ncls && fr.iter().any(|v| *v > fr[*p]) { out.1 = true; }
        }
        Tr::Node { f, thr, l, r, .. } => {
            let (sl, sr): (Vec<usize>, Vec<usize>) = rows.iter().partition(|&&i| if le { x[i][*f] <= *thr } else { x[i][*f] < *thr });
            let wsum = |s: &[usize]| s.iter().map(|&i| w[i] as f64).sum::<f64>();
            if wsum(&sl) < mwl as f64 || wsum(&sr) < mwl as f64 { out.0 = true; }
            allowance_stats(l, le, &sl, x, y, w, ncls, mwl, out);
            allowance_stats(r, le, &sr, x, y, w, ncls, mwl, out);
        }
    }
}

/// Shadow implementation of `TreeNode::fit` + `prune` (f32 scores; the class weights summed in
/// ascending class order, or in descending order when `desc` is set). It is NOT part of the check
/// and not trusted. It serves two purposes: (a) it collects the arguments on which the fit calls
/// `f32::log2`, together with the values the run time returns (the oracle table of the Coq model of
/// the entropy criterion: a missing argument poisons the model's score and shows up as a tree
/// difference, every entry is checked in Coq against a verified enclosure of the logarithm);
/// (b) it tells for how many cases another summation order would have changed the fitted tree.
struct Shadow<'a, F: linfa::Float> {
    x: &'a [Vec<F>], y: &'a [usize], w: &'a [f32], ncls: usize,
    entropy: bool, max_depth: Option<usize>, mws: f32, mwl: f32, mid: F,
    desc: bool,
    sorted: Vec<Vec<(usize, F)>>,
    log2: std::collections::BTreeMap<u32, u32>,
    /// candidates scored while some class weight of the right table was a negative rounding residue;
    /// `neg_first`: that candidate was the first one scored in its node (an `x != 0` guard in entropy()
    /// would then leave a NaN score that no later candidate beats)
    neg_scored: u32,
    neg_first: u32,
}

enum Sh<F> { Leaf { d: usize, p: usize }, Node { d: usize, f: usize, thr: F, dec: F, l: Box<Sh<F>>, r: Box<Sh<F>> } }

impl<'a, F: linfa::Float> Shadow<'a, F> {
    fn vals(&self, tab: &[Option<f32>]) -> Vec<f32> {
        let mut v: Vec<f32> = tab.iter().filter_map(|e| *e).collect();
        if self.desc { v.reverse(); }
        v
    }
    fn impurity(&mut self, tab: &[Option<f32>]) -> f32 {
        let v = self.vals(tab);
        let n = v.iter().sum::<f32>();
        if self.entropy {
            let mut terms = Vec::new();
            for x in v.iter().map(|x| x / n) {
                terms.push(if x > 0.0 { let l = x.log2(); self.log2.insert(x.to_bits(), l.to_bits()); -x * l } else { 0.0 });
            }
            terms.into_iter().sum()
        } else {
            1.0 - v.iter().map(|x| x / n).map(|x| x * x).sum::<f32>()
        }
    }
    fn node(&mut self, mask: &[bool], depth: usize) -> Sh<F> {
        let n = mask.len();
        let mut parent: Vec<Option<f32>> = vec![None; self.ncls];
        for i in 0..n { if mask[i] { let e = parent[self.y[i]].get_or_insert(0.0); *e += self.w[i]; } }
        // modal class: largest frequency, smallest class among equals
        let mut pred = 0usize;
        let mut bestf: Option<f32> = None;
        for c in 0..self.ncls { if let Some(fr) = parent[c] { if bestf.map_or(true, |b| fr > b) { bestf = Some(fr); pred = c; } } }
        let ns = mask.iter().filter(|m| **m).count();
        if (ns as f32) < self.mws || self.max_depth.map_or(false, |m| depth >= m) { return Sh::Leaf { d: depth, p: pred }; }
        let mut best: Option<(usize, F, f32)> = None;
        for f in 0..self.sorted.len() {
            let mut right = parent.clone();
            let mut left: Vec<Option<f32>> = vec![None; self.ncls];
            let total = self.vals(&parent).iter().sum::<f32>();
            let mut wr = total;
            let mut wl = 0.0f32;
            for i in 0..n.saturating_sub(1) {
                let (idx, mut sv) = self.sorted[f][i];
                if !mask[idx] { continue; }
                let (c, w) = (self.y[idx], self.w[idx]);
                *right[c].as_mut().unwrap() -= w;
                wr -= w;
                *left[c].get_or_insert(0.0) += w;
                wl += w;
                let next = self.sorted[f][i + 1].1;
                if (sv - next).abs() < F::cast(1e-5) { continue; }
                if wr < self.mwl || wl < self.mwl { continue; }
                if right.iter().any(|e| e.map_or(false, |v| v < 0.0)) {
                    self.neg_scored += 1;
                    if best.is_none() { self.neg_first += 1; }
                }
                let (ls, rs) = (self.impurity(&right), self.impurity(&left));
                let wf = wr / total;
                let score = wf * ls + (1.0 - wf) * rs;
                let mid = (sv + next) / F::cast(2.0);
                if mid < next { sv = mid; }
                best = match best.take() {
                    None => Some((f, sv, score)),
                    Some((_, _, bs)) if score < bs => Some((f, sv, score)),
                    b => b,
                };
            }
        }
        let dec = if let Some((_, _, bs)) = best { F::cast(self.impurity(&parent)) - F::cast(bs) } else { F::zero() };
        if dec < self.mid { return Sh::Leaf { d: depth, p: pred }; }
        let (bf, thr, _) = best.unwrap();
        let lm: Vec<bool> = (0..n).map(|i| mask[i] && self.x[i][bf] <= thr).collect();
        let rm: Vec<bool> = (0..n).map(|i| mask[i] && !(self.x[i][bf] <= thr)).collect();
        if !lm.iter().any(|m| *m) || !rm.iter().any(|m| *m) { return Sh::Leaf { d: depth, p: pred }; }
        let l = self.node(&lm, depth + 1);
        let r = self.node(&rm, depth + 1);
        Sh::Node { d: depth, f: bf, thr, dec, l: Box::new(l), r: Box::new(r) }
    }
}

fn sh_prune<F: linfa::Float>(t: Sh<F>) -> (Tr, Option<usize>) {
    match t {
        Sh::Leaf { d, p } => (Tr::Leaf { d, p }, Some(p)),
        Sh::Node { d, f, thr, dec, l, r } => {
            let (l2, pl) = sh_prune(*l);
            let (r2, pr) = sh_prune(*r);
            match (pl, pr) {
                (Some(a), Some(b)) if a == b => (Tr::Leaf { d, p: a }, Some(a)),
                _ => (Tr::Node { d, f, thr: thr.to_f64().unwrap(), dec: dec.to_f64().unwrap(), l: Box::new(l2), r: Box::new(r2) }, None),
            }
        }
    }
}

/// (shadow tree, log2 table, (neg_scored, neg_first)); `None` when the shadow itself panics
fn shadow_fit<F: linfa::Float>(x: &[Vec<f64>], y: &[usize], w: &[f32], ncls: usize, p: &Params, desc: bool) -> Option<(Tr, Vec<(u32, u32)>, (u32, u32))> {
    let xf: Vec<Vec<F>> = x.iter().map(|r| r.iter().map(|v| F::cast(*v)).collect()).collect();
    let (y2, w2, p2) = (y.to_vec(), w.to_vec(), p.clone());
    guarded(std::panic::AssertUnwindSafe(move || {
        let d = xf.first().map_or(0, |r| r.len());
        let sorted: Vec<Vec<(usize, F)>> = (0..d).map(|j| {
            let mut pairs: Vec<(usize, F)> = xf.iter().map(|r| r[j]).enumerate().collect();
            pairs.sort_by(|a, b| a.1.partial_cmp(&b.1).unwrap_or(std::cmp::Ordering::Greater));
            pairs
        }).collect();
        let mut sh = Shadow { x: &xf, y: &y2, w: &w2, ncls, entropy: p2.entropy, max_depth: p2.max_depth, mws: p2.mws, mwl: p2.mwl, mid: F::cast(p2.mid), desc, sorted, log2: Default::default(), neg_scored: 0, neg_first: 0 };
        let t = sh.node(&vec![true; xf.len()], 0);
        (sh_prune(t).0, sh.log2.iter().map(|(a, b)| (*a, *b)).collect::<Vec<_>>(), (sh.neg_scored, sh.neg_first))
    })).ok()
}

struct Spec { x: Vec<Vec<f64>>, d: usize, y: Vec<usize>, ncls: usize, w: Option<Vec<f32>>, p: Params, lt: u64, stream: &'static str, kind: String, extra_tags: Vec<String>,
              /// weight-scale twin: index of the spec whose weights (and min_weight_leaf) were multiplied by 2^scale
              twin_of: Option<usize>, scale: i32 }

/// Same predicate as [exact_sums] of C14/Corr.v: all weights are non-negative integer multiples of one power of
/// two 2^e (e >= -126) and sum to at most 2^24 * 2^e, so that every f32 partial sum of the fit is exact.
fn exact_sums(w: &[f32]) -> bool {
    if !w.iter().all(|v| v.is_finite() && *v >= 0.0) { return false; }
    let mut emin: Option<i32> = None;
    for v in w.iter().filter(|v| **v > 0.0) {
        let b = v.to_bits();
        let (ex, man) = (((b >> 23) & 0xff) as i32, b & 0x7f_ffff);
        let (m, e) = if ex == 0 { (man, -149) } else { (man | 0x80_0000, ex - 150) };
        let val = e + m.trailing_zeros() as i32;
        emin = Some(emin.map_or(val, |a| a.min(val)));
    }
    match emin {
        None => true,
        Some(e) => e >= -126 && w.iter().map(|v| *v as f64).sum::<f64>() <= 16777216.0 * 2f64.powi(e),
    }
}

fn pick_params(r: &mut Sm64, n: usize, entropy: bool) -> Params {
    let max_depth = *r.pick(&[None, None, Some(0), Some(1), Some(2), Some(3), Some(5)]);
    let mws = *r.pick(&[2.0f32, 2.0, 1.0, 3.5, 5.0, n as f32, (n as f32) / 2.0]);
    let mwl = *r.pick(&[1.0f32, 1.0, 0.5, 1.5, 2.0, 3.0]);
    let mid = *r.pick(&[1e-5f64, 1e-5, f64::EPSILON, 1e-3, 0.02, 0.1, 0.3]);
    Params { entropy, max_depth, mws, mwl, mid }
}

fn pick_weights(r: &mut Sm64, n: usize) -> (Option<Vec<f32>>, &'static str) {
    match r.below(10) {
        0..=4 => (None, "weights_none"),
        5..=8 => (Some((0..n).map(|_| 0.25 * (1 + r.below(16)) as f32).collect()), "weights_dyadic"),
        _ => (Some((0..n).map(|_| if r.chance(0.3) { 0.0 } else { 0.5 * (1 + r.below(6)) as f32 }).collect()), "weights_with_zeros"),
    }
}

fn gen_data(r: &mut Sm64, n: usize, d: usize, ncls: usize, kind: u64) -> (Vec<Vec<f64>>, Vec<usize>) {
    let mut x = Vec::new();
    let mut y = Vec::new();
    let centers: Vec<Vec<f64>> = (0..ncls).map(|_| (0..d).map(|_| r.range(-4, 4) as f64 * 1.5).collect()).collect();
    let informative = r.below(d as u64) as usize;
    for _ in 0..n {
        let c = r.below(ncls as u64) as usize;
        let row: Vec<f64> = match kind {
            // integer lattice: duplicates, conflicting labels, score ties between candidate splits
            0 => (0..d).map(|_| r.range(0, 3) as f64).collect(),
            // one blob per class (mostly separable)
            1 => centers[c].iter().map(|v| v + 0.8 * r.gauss()).collect(),
            // pure noise
            2 => (0..d).map(|_| 4.0 * r.unit() - 2.0).collect(),
            // constant features except one informative one (with label noise)
            3 => (0..d).map(|j| if j == informative { c as f64 + 0.6 * r.gauss() } else { 7.25 }).collect(),
            // values closer than 1e-5 to each other mixed with separated ones
            4 => (0..d).map(|_| r.range(0, 2) as f64 + 4e-6 * r.below(4) as f64).collect(),
            // half-integer lattice correlated with the class (ties + signal)
            _ => (0..d).map(|j| if j == informative { (c as i64 + r.range(-1, 1)) as f64 * 0.5 } else { r.range(0, 2) as f64 }).collect(),
        };
        x.push(row);
        y.push(c);
    }
    (x, y)
}

/// run the whole case list in child processes; returns the ids at which a child died (signal, abort,
/// stack overflow) or hung for more than 60 s
fn find_crashers(args: &Args, ncases: u64) -> std::collections::BTreeMap<u64, String> {
    use std::io::{BufRead, BufReader};
    use std::process::{Command, Stdio};
    let mut crashed = std::collections::BTreeMap::new();
    let exe = match std::env::current_exe() { Ok(e) => e, Err(_) => return crashed };
    let mut from: u64 = 0;
    while from < ncases {
        let mut cmd = Command::new(&exe);
        cmd.arg("gen").arg("--seed").arg(args.seed.to_string()).arg("--tier").arg(&args.tier)
            .arg("--out").arg(&args.out).arg("--shards").arg(args.shards.to_string());
        if let Some(o) = args.only { cmd.arg("--only").arg(o.to_string()); }
        for e in &args.extra { cmd.arg(e); }
        cmd.arg("--dry").arg("--from").arg(from.to_string());
        let mut child = match cmd.stdout(Stdio::piped()).stderr(Stdio::null()).spawn() { Ok(c) => c, Err(_) => return crashed };
        let stdout = child.stdout.take().unwrap();
        let (tx, rx) = std::sync::mpsc::channel::<String>();
        std::thread::spawn(move || {
            for line in BufReader::new(stdout).lines() {
                if let Ok(l) = line { if tx.send(l).is_err() { break; } } else { break; }
            }
        });
        let mut current: Option<u64> = None;
        let mut hung = false;
        loop {
            match rx.recv_timeout(std::time::Duration::from_secs(60)) {
                Ok(l) => {
                    if let Some(v) = l.strip_prefix("start ") { current = v.trim().parse().ok(); }
                    else if l.starts_with("ok ") { current = None; }
                }
                Err(std::sync::mpsc::RecvTimeoutError::Timeout) => { hung = true; let _ = child.kill(); break; }
                Err(_) => break,
            }
        }
        let status = child.wait();
        match current {
            Some(id) => {
                let why = if hung { "no progress for 60 s".to_string() } else { format!("child {:?}", status.map(|s| s.to_string())) };
                crashed.insert(id, why);
                from = id + 1;
            }
            None => break,
        }
    }
    crashed
}

fn main() {
    let args = parse_args();
    let mut rng = Sm64::new(args.seed);
    let thorough = args.tier == "thorough";
    // The tree under test is expected to implement the threshold / prediction rule of commit 472304f
    // (finding F27: the midpoint never lands on the next value, prediction compares with `<=`).
    // `--before-472304f` (or C14_REPAIRED=0) selects the model of the code before that commit, for
    // runs against a checkout in which it is reverted.
    let repaired = !(args.extra.iter().any(|a| a == "--before-472304f") || std::env::var("C14_REPAIRED").map_or(false, |v| v == "0"));
    let mut specs: Vec<Spec> = Vec::new();
    let default_p = Params { entropy: false, max_depth: None, mws: 2.0, mwl: 1.0, mid: 1e-5 };

    // ---- stream A: exhaustive small (one feature, values {0,1,2}, two classes, default parameters)
    let amax = if thorough { 5 } else { 4 };
    for n in 1..=amax {
        let total = 6u64.pow(n as u32);
        for code in 0..total {
            // the quick tier keeps every dataset up to n = 3 and every 5th of n = 4
            if !thorough && n == 4 && code % 5 != 0 { continue; }
            if thorough && n == 5 && code % 7 != 0 { continue; }
            let mut c = code;
            let mut x = Vec::new();
            let mut y = Vec::new();
            for _ in 0..n {
                let v = c % 6;
                c /= 6;
                x.push(vec![(v % 3) as f64]);
                y.push((v / 3) as usize);
            }
            let mut p = default_p.clone();
            // alternate the criterion-independent limits so that small trees also meet them
            match code % 4 { 1 => p.max_depth = Some(1), 2 => p.mwl = 2.0, 3 => p.mws = 3.0, _ => {} }
            specs.push(Spec { x, d: 1, y, ncls: 2, w: None, p, lt: code % 3, stream: "A_exhaustive_small", kind: "lattice1d".into(), extra_tags: vec![], twin_of: None, scale: 0 });
        }
    }

    // ---- stream B: structured random, two classes, Gini
    let nb = if thorough { 1500 } else { 260 };
    for _ in 0..nb {
        let mut r = rng.fork();
        let n = 2 + r.below(if thorough { 30 } else { 21 }) as usize;
        let d = 1 + r.below(3) as usize;
        let kind = r.below(6);
        let (x, y) = gen_data(&mut r, n, d, 2, kind);
        let (w, wt) = pick_weights(&mut r, n);
        let p = pick_params(&mut r, n, false);
        let lt = r.below(4);
        specs.push(Spec { x, d, y, ncls: 2, w, p, lt, stream: "B_two_class_gini", kind: format!("kind_{}", kind), extra_tags: vec![wt.into()], twin_of: None, scale: 0 });
    }

    // ---- stream C: 2..6 classes, both criteria, all label types
    let nc = if thorough { 1500 } else { 260 };
    for _ in 0..nc {
        let mut r = rng.fork();
        let n = 2 + r.below(if thorough { 59 } else { 39 }) as usize;
        let d = 1 + r.below(4) as usize;
        let ncls = 2 + r.below(5) as usize;
        let kind = r.below(6);
        let (x, y) = gen_data(&mut r, n, d, ncls, kind);
        let (w, wt) = pick_weights(&mut r, n);
        let ent = r.chance(0.5);
        let p = pick_params(&mut r, n, ent);
        let lt = if ncls == 2 { *r.pick(&[0u64, 1, 2, 3, 5, 6]) } else { *r.pick(&[0u64, 1, 3, 3, 5, 6]) };
        specs.push(Spec { x, d, y, ncls, w, p, lt, stream: "C_multi_class", kind: format!("kind_{}", kind), extra_tags: vec![wt.into()], twin_of: None, scale: 0 });
    }

    // ---- stream D: extreme magnitudes: neighbouring doubles whose spacing exceeds 1e-5 (the midpoint
    //      threshold then coincides with a training value). max_depth is always finite here.
    let nd = if thorough { 120 } else { 30 };
    for _ in 0..nd {
        let mut r = rng.fork();
        let n = 2 + r.below(6) as usize;
        let e = 37 + r.below(20) as i32;
        let base = (1.0 + r.unit()) * 2f64.powi(e);
        let sign = if r.chance(0.3) { -1.0 } else { 1.0 };
        let mut x = Vec::new();
        let mut y = Vec::new();
        let mut v = base;
        for i in 0..n {
            x.push(vec![sign * v]);
            y.push(if r.chance(0.8) { i % 2 } else { r.below(2) as usize });
            // next representable double (sometimes repeat the value, sometimes jump two steps)
            let steps = *r.pick(&[0u64, 1, 1, 1, 2]);
            v = f64::from_bits(v.to_bits() + steps);
        }
        let ent = r.chance(0.3);
        let mut p = pick_params(&mut r, n, ent);
        p.max_depth = Some(1 + r.below(4) as usize);
        p.mid = 1e-5;
        specs.push(Spec { x, d: 1, y, ncls: 2, w: None, p, lt: 0, stream: "D_adjacent_doubles", kind: "adjacent".into(), extra_tags: vec!["adjacent_float_midpoint".into()], twin_of: None, scale: 0 });
    }

    // ---- stream E: f32 features (F = f32): neighbouring f32 values at ordinary magnitude (>= 128 their
    //      spacing exceeds 1e-5) and the families of stream B rounded to f32
    let ne = if thorough { 400 } else { 90 };
    for k in 0..ne {
        let mut r = rng.fork();
        let adjacent = k % 3 == 0;
        let ncls = if r.chance(0.8) { 2 } else { 3 };
        let (x, y, d, kind, tags): (Vec<Vec<f64>>, Vec<usize>, usize, String, Vec<String>) = if adjacent {
            let n = 2 + r.below(6) as usize;
            let mut v = (128.0 + 3000.0 * r.unit()) as f32;
            let sign = if r.chance(0.3) { -1.0f32 } else { 1.0 };
            let mut x = Vec::new();
            let mut y = Vec::new();
            for i in 0..n {
                x.push(vec![(sign * v) as f64]);
                y.push(if r.chance(0.8) { i % 2 } else { r.below(ncls as u64) as usize });
                v = f32::from_bits(v.to_bits() + *r.pick(&[0u32, 1, 1, 1, 2]));
            }
            (x, y, 1, "adjacent_f32".into(), vec!["adjacent_float_midpoint".into()])
        } else {
            let n = 2 + r.below(21) as usize;
            let d = 1 + r.below(3) as usize;
            let kind = r.below(6);
            let (x, y) = gen_data(&mut r, n, d, ncls, kind);
            let x = x.iter().map(|row| row.iter().map(|v| (*v as f32) as f64).collect()).collect();
            (x, y, d, format!("kind_{}", kind), vec![])
        };
        let n = x.len();
        let (w, wt) = pick_weights(&mut r, n);
        let ent = r.chance(if ncls > 2 { 0.5 } else { 0.35 });
        let mut p = pick_params(&mut r, n, ent);
        p.mid = (p.mid.max(2e-7) as f32) as f64;   // representable in f32 and above f32::EPSILON (parameter guard)
        if adjacent { p.max_depth = Some(1 + r.below(4) as usize); }
        let mut extra = tags;
        extra.push(wt.into());
        specs.push(Spec { x, d, y, ncls, w, p, lt: 4, stream: "E_f32_features", kind, extra_tags: extra, twin_of: None, scale: 0 });
    }

    // ---- stream F: 3..6 classes with sample weights that are NOT dyadic (random 24-bit mantissas in
    //      [0.5, 2)): the f32 sums of class weights round, so the fitted tree depends on the order in
    //      which the classes are summed and on the order of the running sums. min_weight_leaf is far
    //      below every weight, so the exact checker and the f32 code agree on the weight limits.
    let nf = if thorough { 400 } else { 80 };
    for _ in 0..nf {
        let mut r = rng.fork();
        let n = 4 + r.below(if thorough { 36 } else { 22 }) as usize;
        let d = 1 + r.below(3) as usize;
        let ncls = 3 + r.below(4) as usize;
        let kind = r.below(6);
        let (x, y) = gen_data(&mut r, n, d, ncls, kind);
        let w: Vec<f32> = (0..n).map(|_| f32::from_bits(0x3f00_0000 + (r.below(1 << 24) as u32))).collect();
        let ent = r.chance(0.4);
        let mut p = pick_params(&mut r, n, ent);
        p.mwl = 0.001;
        let lt = *r.pick(&[0u64, 1, 3, 5, 6, 4]);
        if lt == 4 { p.mid = (p.mid.max(2e-7) as f32) as f64; }
        let x = if lt == 4 { x.iter().map(|row| row.iter().map(|v| (*v as f32) as f64).collect()).collect() } else { x };
        specs.push(Spec { x, d, y, ncls, w: Some(w), p, lt, stream: "F_rounding_weights", kind: format!("kind_{}", kind), extra_tags: vec!["weights_full_mantissa".into()], twin_of: None, scale: 0 });
    }

    // ---- stream G: sample weights from a decimal palette (0.3, 1.0, 0.1, 0.7, ...). They are not dyadic,
    //      so the f32 running class weights of the sweep cancel to tiny residues of EITHER sign when the
    //      last observation of a class moves to the left ((0.3 + 1.0) - 0.3 - 1.0 = -6e-8), and the f32
    //      running weights differ from the exact sums around min_weight_leaf values that are themselves
    //      sums of palette weights. Rows lie in class blocks along feature 0 (with ties and light first
    //      rows, so that the first candidate scored in a node is often the one at which a class has just
    //      left the right side). The oracle compares with exact rational weights up to the allowance
    //      n * 2^-23 of the node's weight and requires every reported decrease / importance to be finite.
    let ng = if thorough { 400 } else { 90 };
    for k in 0..ng {
        let mut r = rng.fork();
        let palette = [0.3f32, 1.0, 0.1, 0.7, 0.2, 0.6, 1.3, 0.9];
        let tie_mode = k % 4 == 1;
        let (x, y, w, ncls, d): (Vec<Vec<f64>>, Vec<usize>, Vec<f32>, usize, usize) = if k == 0 {
            // the smallest instance: class 0 = {0.3, 1.0} leaves the right side at the first admissible candidate
            ((1..=5).map(|v| vec![v as f64]).collect(), vec![0, 0, 1, 1, 1], vec![0.3, 1.0, 1.0, 1.0, 1.0], 2, 1)
        } else if tie_mode {
            // two classes at the same place whose f32 weight sums are EQUAL while the exact sums differ
            // (0.1 + 0.2 rounds up to f32 0.3; 0.7 + 0.6 and 0.3 + 1.0 round down to f32 1.3; 3 * 0.3 + 0.1
            // rounds down to 1.0): the modal class of that leaf is decided by a tie of rounded sums
            let templates: [(&[f32], &[f32]); 5] = [(&[0.1, 0.2], &[0.3]), (&[0.7, 0.6], &[1.3]), (&[0.3, 0.3, 0.3, 0.1], &[1.0]), (&[0.3, 1.0], &[1.3]), (&[0.2, 0.1], &[0.3])];
            let (ga, gb) = *r.pick(&templates);
            let ncls = 2 + r.below(2) as usize;
            let (a, b) = if r.chance(0.5) { (0usize, 1usize) } else { (1, 0) };
            let (mut x, mut y, mut w) = (Vec::new(), Vec::new(), Vec::new());
            let rows_a: Vec<(usize, f32)> = ga.iter().map(|v| (a, *v)).collect();
            let rows_b: Vec<(usize, f32)> = gb.iter().map(|v| (b, *v)).collect();
            let mut rows = if r.chance(0.5) { [rows_a, rows_b].concat() } else { [rows_b, rows_a].concat() };
            if r.chance(0.3) { let i = r.below(rows.len() as u64) as usize; let j = r.below(rows.len() as u64) as usize; rows.swap(i, j); }
            for (c, v) in rows { x.push(vec![1.0]); y.push(c); w.push(v); }
            // a separable block of another (or the same) class further right
            let far = if ncls == 3 { 2 } else { r.below(2) as usize };
            for j in 0..(1 + r.below(3)) { x.push(vec![4.0 + j as f64]); y.push(far); w.push(*r.pick(&[1.0f32, 0.7, 2.0])); }
            (x, y, w, ncls, 1)
        } else {
            let ncls = 2 + r.below(3) as usize;
            let d = 1 + r.below(2) as usize;
            let mut order: Vec<usize> = (0..ncls).collect();
            for i in (1..ncls).rev() { order.swap(i, r.below(i as u64 + 1) as usize); }
            if r.chance(0.3) { let c0 = order[0]; order.push(c0); }          // a class may come back later
            let (mut x, mut y, mut w) = (Vec::new(), Vec::new(), Vec::new());
            let mut pos = 0.0f64;
            for c in order.iter() {
                let m = 1 + r.below(4) as usize;
                for j in 0..m {
                    if !(j > 0 && r.chance(0.3)) { pos += *r.pick(&[1.0f64, 1.0, 0.5, 2.0]); }
                    let mut row = vec![pos];
                    for _ in 1..d { row.push(r.range(0, 2) as f64); }
                    x.push(row);
                    y.push(if r.chance(0.08) { r.below(ncls as u64) as usize } else { *c });
                    w.push(if j == 0 { *r.pick(&[0.3f32, 0.3, 0.1, 0.7, 0.2, 0.6]) } else if r.chance(0.6) { 1.0 } else { *r.pick(&palette) });
                }
            }
            // half of the cases: rows in random order (the class sums of label_frequencies_with_mask add in row order)
            if r.chance(0.5) {
                for i in (1..x.len()).rev() { let j = r.below(i as u64 + 1) as usize; x.swap(i, j); y.swap(i, j); w.swap(i, j); }
            }
            // every class index below ncls that is absent is fine (class tables have absent keys)
            (x, y, w, ncls, d)
        };
        let n = x.len();
        let ent = k == 0 || r.chance(0.7);
        let p = Params {
            entropy: ent,
            max_depth: if k == 0 { None } else { *r.pick(&[None, None, Some(1), Some(2), Some(3)]) },
            mws: if k == 0 { 2.0 } else { *r.pick(&[2.0f32, 2.0, 1.0, 3.5]) },
            mwl: if k == 0 { 1.0 } else if tie_mode { *r.pick(&[0.001f32, 0.3, 0.5, 1.0]) } else if r.chance(0.5) {
                // the f32 running weight of the left side after j moves along feature 0 (the value the sweep
                // compares with min_weight_leaf; its exact counterpart may lie on the other side), or the
                // f32 value of total - that
                let mut idx: Vec<usize> = (0..n).collect();
                idx.sort_by(|a, b| x[*a][0].partial_cmp(&x[*b][0]).unwrap());
                let j = 1 + r.below((n - 1).max(1) as u64) as usize;
                let total: f32 = w.iter().sum();
                let mut wl = 0.0f32;
                let mut wr = total;
                for &i in idx.iter().take(j) { wl += w[i]; wr -= w[i]; }
                if r.chance(0.5) { wl } else { wr.max(0.001) }
            } else { *r.pick(&[1.0f32, 1.0, 0.5, 1.3, 0.6, 2.0, 2.3, 0.001]) },
            mid: if k == 0 { 1e-5 } else { *r.pick(&[1e-5f64, 1e-5, 1e-3, 0.02]) },
        };
        let lt = if k == 0 { 0 } else if ncls == 2 { *r.pick(&[0u64, 1, 2, 3, 5, 6, 4]) } else { *r.pick(&[0u64, 1, 3, 5, 6, 4]) };
        let mut p = p;
        if lt == 4 { p.mid = (p.mid.max(2e-7) as f32) as f64; }
        specs.push(Spec { x, d, y, ncls, w: Some(w), p, lt, stream: "G_cancelling_weights", kind: if tie_mode { "rounded_sum_ties".into() } else { "class_blocks".into() }, extra_tags: vec!["weights_decimal_palette".into()], twin_of: None, scale: 0 });
    }

    // ---- stream H: tiny sample weights that are NOT dyadic (normalised importance weights of the order of
    //      1e-8 .. 1e-11: decimal scales times small integers / palette values). The class weights reaching
    //      a node then differ by far less than any absolute epsilon of ordinary size although their ratios
    //      are 1 : 2 : 4. The heaviest class is mostly NOT the smallest label; constant features (a single
    //      leaf), duplicated records with conflicting labels (impure leaves) and separable blocks occur.
    //      Oracle: exact rational weights up to the relative allowance n * 2^-23 of the node's weight.
    let nh = if thorough { 200 } else { 40 };
    for k in 0..nh {
        let mut r = rng.fork();
        let ncls = 2 + r.below(3) as usize;
        let scale = *r.pick(&[2e-8f32, 1e-8, 3e-9, 7e-10, 5e-11, 1.4901161e-8, 2.5e-7]);
        let mult = [1.0f32, 2.0, 4.0, 3.0, 0.3, 0.7];
        // class c gets a weight multiplier that grows with c in most cases (heaviest = largest label)
        let heavy_last = r.chance(0.75);
        let shape = k % 4;
        let d = if shape == 0 { 1 } else { 1 + r.below(2) as usize };
        let n = 4 + r.below(9) as usize;
        let (mut x, mut y, mut w) = (Vec::new(), Vec::new(), Vec::new());
        for i in 0..n {
            let c = if i < ncls { i } else { r.below(ncls as u64) as usize };
            let row: Vec<f64> = match shape {
                0 => vec![1.0; d],                                                    // constant feature: one leaf
                1 => (0..d).map(|_| r.range(0, 1) as f64).collect(),                  // duplicated records, conflicting labels
                2 => (0..d).map(|j| if j == 0 { c as f64 + 0.25 * r.range(-1, 1) as f64 } else { r.range(0, 2) as f64 }).collect(),
                _ => (0..d).map(|_| r.range(0, 3) as f64).collect(),
            };
            let rank = if heavy_last { c } else { ncls - 1 - c };
            let m = if r.chance(0.8) { mult[rank.min(3)] } else { *r.pick(&mult) };
            x.push(row); y.push(c); w.push(m * scale);
        }
        let ent = r.chance(0.4);
        let p = Params {
            entropy: ent,
            max_depth: *r.pick(&[None, None, Some(0), Some(1), Some(2)]),
            mws: *r.pick(&[2.0f32, 2.0, 1.0, 3.5]),
            mwl: *r.pick(&[1.0f32, 0.5, 2.0, 1e-3]) * scale,
            mid: *r.pick(&[1e-5f64, 1e-5, 1e-3, 0.02]),
        };
        let lt = if ncls == 2 { *r.pick(&[0u64, 1, 2, 3, 5, 6]) } else { *r.pick(&[0u64, 1, 3, 5, 6]) };
        specs.push(Spec { x, d, y, ncls, w: Some(w), p, lt, stream: "H_tiny_weights", kind: format!("tiny_shape_{}", shape), extra_tags: vec!["weights_tiny_not_dyadic".into()], twin_of: None, scale: 0 });
    }

    // ---- weight-scale twins: every second weighted case of streams B..G (and every sixth unweighted one of
    //      streams B and C, as constant weights 2^k) is run again with ALL sample weights and min_weight_leaf
    //      multiplied by 2^k, k from {-30, -26, -20, -10, 10, 20}. Multiplying by a power of two commutes with
    //      every f32 operation of the fit (no overflow / underflow at these sizes) and the impurities only see
    //      weight ratios, so the expected tree is the tree of the unscaled case bit for bit (min_weight_split is
    //      compared with the NUMBER of samples by the code and stays as it is). Dyadic weights stay exactly
    //      summable at every scale, so the exact checker applies unchanged.
    {
        let scales = [-30i32, -26, -20, -10, 10, 20];
        let (mut nw, mut nu, mut ns) = (0usize, 0usize, 0usize);
        let base = specs.len();
        for i in 0..base {
            let (weighted, stream) = (specs[i].w.is_some(), specs[i].stream);
            if stream == "A_exhaustive_small" || stream == "D_adjacent_doubles" || stream == "H_tiny_weights" { continue; }
            let take = if weighted { nw += 1; nw % 2 == 1 } else if stream == "B_two_class_gini" || stream == "C_multi_class" { nu += 1; nu % 6 == 1 } else { false };
            if !take { continue; }
            let k = scales[ns % scales.len()];
            ns += 1;
            let f = 2f32.powi(k);
            let o = &specs[i];
            let w: Vec<f32> = o.w.clone().unwrap_or_else(|| vec![1.0; o.x.len()]).iter().map(|v| v * f).collect();
            let mut p = o.p.clone();
            p.mwl *= f;
            let mut tags = o.extra_tags.clone();
            tags.push(format!("weight_scale_2p{}", k));
            tags.push(format!("twin_of_stream_{}", o.stream));
            let twin = Spec { x: o.x.clone(), d: o.d, y: o.y.clone(), ncls: o.ncls, w: Some(w), p, lt: o.lt, stream: "S_weight_scale_twins", kind: o.kind.clone(), extra_tags: tags, twin_of: Some(i), scale: k };
            specs.push(twin);
        }
    }

    // ---- crash isolation: a stack overflow or abort inside the library cannot be caught in-process.
    //      A child process (`--dry`) runs every fit first; the ids at which it dies are observations.
    if args.extra.iter().any(|a| a == "--dry") {
        let from: u64 = args.extra.iter().position(|a| a == "--from").map_or(0, |i| args.extra[i + 1].parse().unwrap());
        use std::io::Write;
        let so = std::io::stdout();
        for (id, s) in specs.iter().enumerate() {
            let id = id as u64;
            if id < from || args.only.map_or(false, |o| o != id) { continue; }
            writeln!(so.lock(), "start {}", id).unwrap();
            so.lock().flush().unwrap();
            let _ = run(s.lt, &s.x, s.d, &s.y, &s.w, &s.p, &[], s.ncls);
            // a weight-scale twin refits its unscaled case in the main process (metamorphic oracle)
            if let (Some(oi), Some(_)) = (s.twin_of, args.only) { let o = &specs[oi]; let _ = run(o.lt, &o.x, o.d, &o.y, &o.w, &o.p, &[], o.ncls); }
            writeln!(so.lock(), "ok {}", id).unwrap();
            so.lock().flush().unwrap();
        }
        return;
    }
    let crashed = find_crashers(&args, specs.len() as u64);
    let mut out = Out::new(&args.out, args.shards, "C14.Corr", "case", args.only);
    let mut worst_entropy = 0.0f64;
    let mut worst_rounded = 0.0f64;
    let mut worst_rounded_ratio = 0.0f64;
    for (id, s) in specs.iter().enumerate() {
        let id = id as u64;
        if !out.wanted(id) { continue; }
        let n = s.x.len();
        if let Some(why) = crashed.get(&id) {
            let desc = format!("{{\"n\": {}, \"d\": {}, \"ncls\": {}, \"stream\": {}, \"entropy\": {}, \"max_depth\": {}, \"min_weight_split\": {}, \"min_weight_leaf\": {}, \"min_impurity_decrease\": {:e}, \"X\": {:?}, \"y\": {:?}, \"weights\": {}, \"result\": {}}}",
                n, s.d, s.ncls, jstr(s.stream), s.p.entropy, s.p.max_depth.map_or("null".to_string(), |m| m.to_string()), s.p.mws, s.p.mwl, s.p.mid, s.x, s.y,
                s.w.as_ref().map_or("null".to_string(), |w| format!("{:?}", w)), jstr(why));
            let st = format!("stream_{}", s.stream);
            let mut tg: Vec<&str> = vec![st.as_str()];
            for t in &s.extra_tags { tg.push(t.as_str()); }
            out.rust_fail(id, 1024, &tg, &format!("fit killed the process ({}) on a valid dataset", why), &desc);
            out.rust_eval(&desc, None);
            out.bump("process_killed_by_fit");
            continue;
        }
        let mut r = Sm64::new(args.seed ^ (id.wrapping_mul(0x9E37_79B9)));
        // first fit without queries to learn the thresholds, then build queries on / next to them
        let first = run(s.lt, &s.x, s.d, &s.y, &s.w, &s.p, &[], s.ncls);
        let mut q: Vec<Vec<f64>> = Vec::new();
        if let Ok(f) = &first {
            let mut th = Vec::new();
            thresholds(&f.tree, &mut th);
            for (f_idx, t) in th.iter().take(6) {
                for delta in [0i64, -1, 1] {
                    let mut row = s.x[r.below(n as u64) as usize].clone();
                    if s.lt == 4 {
                        let tf = *t as f32;
                        row[*f_idx] = f32::from_bits((tf.to_bits() as i64 + if tf >= 0.0 { delta } else { -delta }) as u32) as f64;
                        if tf == 0.0 { row[*f_idx] = delta as f64 * 1e-30; }
                    } else {
                        row[*f_idx] = f64::from_bits((t.to_bits() as i64 + if *t >= 0.0 { delta } else { -delta }) as u64);
                        if *t == 0.0 { row[*f_idx] = delta as f64 * 1e-300; }
                    }
                    q.push(row);
                }
            }
        }
        for _ in 0..3 {
            q.push((0..s.d).map(|_| r.range(-12, 12) as f64 * 0.5).collect());
        }
        let res = run(s.lt, &s.x, s.d, &s.y, &s.w, &s.p, &q, s.ncls);
        let wts: Vec<f32> = s.w.clone().unwrap_or_else(|| vec![1.0; n]);
        let crit = if s.p.entropy { "crit_entropy" } else { "crit_gini" };
        let ltname = ["label_usize", "label_usize_offset", "label_bool", "label_string", "label_usize_features_f32", "label_numeric_string", "label_option_usize"][s.lt as usize];
        let mut tags: Vec<String> = vec![format!("stream_{}", s.stream), crit.into(), ltname.into(), format!("ncls_{}", s.ncls), s.kind.clone()];
        tags.extend(s.extra_tags.iter().cloned());
        let tagrefs: Vec<&str> = tags.iter().map(|t| t.as_str()).collect();
        let desc_base = format!(
            "\"n\": {}, \"d\": {}, \"ncls\": {}, \"stream\": {}, \"kind\": {}, \"label_type\": {}, \"entropy\": {}, \"max_depth\": {}, \"min_weight_split\": {}, \"min_weight_leaf\": {}, \"min_impurity_decrease\": {:e}, \"X\": {:?}, \"y\": {:?}, \"weights\": {}",
            n, s.d, s.ncls, jstr(s.stream), jstr(&s.kind), jstr(ltname), s.p.entropy,
            s.p.max_depth.map_or("null".to_string(), |m| m.to_string()), s.p.mws, s.p.mwl, s.p.mid, s.x, s.y,
            s.w.as_ref().map_or("null".to_string(), |w| format!("{:?}", w))
        );
        out.bump(&format!("stream_{}", s.stream));
        out.bump(crit);
        out.bump(ltname);
        out.bump(&format!("ncls_{}", s.ncls));
        out.bump(&format!("data_{}", s.kind));
        out.bump(&format!("max_depth_{}", s.p.max_depth.map_or("none".to_string(), |m| m.to_string())));
        for t in &s.extra_tags { out.bump(t); }
        match res {
            Err(e) => {
                let desc = format!("{{{}, \"result\": {}}}", desc_base, jstr(&e));
                out.rust_fail(id, 1024, &tagrefs, &format!("fit failed on a valid dataset: {}", e), &desc);
                out.rust_eval(&desc, None);
            }
            Ok(f) => {
                let desc = format!("{{{}, \"tree\": {}, \"importance\": {:?}}}", desc_base, tree_json(&f.tree), f.imp);
                if let Some(m) = &f.malformed {
                    out.rust_fail(id, 4096, &tagrefs, m, &desc);
                    out.rust_eval(&desc, None);
                    continue;
                }
                // the two fits of the same data must agree (queries do not influence the fit)
                if let Ok(f0) = &first {
                    if tree_term(&f0.tree) != tree_term(&f.tree) {
                        // since commit 46699a6 no f32 sum runs in hash-map order any more: every refit must agree
                        out.bump(if shape_term(&f0.tree) != shape_term(&f.tree) { "refit_differs_in_structure" } else { "refit_differs_in_decrease_bits" });
                        out.rust_fail(id, 32768, &tagrefs, "two fits of the same dataset with the same parameters returned different trees", &desc);
                    }
                }
                // metamorphic oracle for the weight-scale twins: the tree of the unscaled case, bit for bit
                if let Some(oi) = s.twin_of.filter(|oi| {
                    // an unscaled case that killed the child process is reported under its own id; never refit it here
                    let dead = crashed.contains_key(&(*oi as u64));
                    if dead { out.bump("scale_twin_of_a_case_that_killed_the_process"); }
                    !dead
                }) {
                    let o = &specs[oi];
                    match run(o.lt, &o.x, o.d, &o.y, &o.w, &o.p, &q, o.ncls) {
                        Ok(fo) => {
                            if tree_term(&fo.tree) != tree_term(&f.tree) || fo.pred != f.pred {
                                out.bump(if shape_term(&fo.tree) != shape_term(&f.tree) || fo.pred != f.pred { "scale_twin_differs_in_structure_or_predictions" } else { "scale_twin_differs_in_decrease_bits" });
                                let d2 = format!("{{{}, \"weight_scale_exponent\": {}, \"tree\": {}, \"tree_of_unscaled_case\": {}, \"predictions\": {:?}, \"predictions_of_unscaled_case\": {:?}}}", desc_base, s.scale, tree_json(&f.tree), tree_json(&fo.tree), f.pred, fo.pred);
                                out.rust_fail(id, 65536, &tagrefs, &format!("multiplying all sample weights and min_weight_leaf by 2^{} changed the fitted tree or its predictions", s.scale), &d2);
                            }
                        }
                        Err(e) => { out.rust_fail(id, 65536, &tagrefs, &format!("the unscaled twin of this case failed to fit: {}", e), &desc); }
                    }
                }
                let splits = nsplits(&f.tree);
                out.bump(&format!("splits_{}", if splits == 0 { "0" } else if splits < 3 { "1to2" } else if splits < 8 { "3to7" } else { "ge8" }));
                // sample weights whose f32 sums are exact (integer multiples of one power of two, total at most 2^24
                // units; [exact_sums] of C14/Corr.v) get no rounding allowance; otherwise n * 2^-23 of the node's weight
                let exact_sums = exact_sums(&wts);
                let slack = if exact_sums { 0.0 } else { n as f64 / 8388608.0 };
                let dec_tol = 3.814697265625e-6 + DEC_SLACK_FACTOR * slack;
                if splits > 0 {
                    let mut worst = 0.0;
                    let rows: Vec<usize> = (0..n).collect();
                    decrease_check(&f.tree, repaired, &rows, &s.x, &s.y, &wts, s.ncls, s.p.entropy, &mut worst);
                    if s.p.entropy && !(worst <= dec_tol) {
                        out.rust_fail(id, 32, &tagrefs, &format!("reported entropy decrease differs from the recomputed one by {:e}", worst), &desc);
                    }
                    if s.p.entropy && worst > worst_entropy && worst <= dec_tol { worst_entropy = worst; }
                    if !exact_sums && worst.is_finite() {
                        // calibration of the allowance: error of the reported decrease in units of n * 2^-23
                        if worst > worst_rounded { worst_rounded = worst; }
                        let ratio = (worst - 3.814697265625e-6).max(0.0) / slack;
                        if ratio > worst_rounded_ratio { worst_rounded_ratio = ratio; }
                    }
                }
                if !exact_sums {
                    out.bump("weights_with_rounding_allowance");
                    let mut need = (false, false);
                    let rows: Vec<usize> = (0..n).collect();
                    allowance_stats(&f.tree, repaired, &rows, &s.x, &s.y, &wts, s.ncls, s.p.mwl, &mut need);
                    if need.0 { out.bump("allowance_needed_for_min_weight_leaf"); }
                    if need.1 { out.bump("allowance_needed_for_leaf_majority"); }
                }
                // the model of fit runs for every tree; for the entropy criterion it needs the values of
                // f32::log2 (collected by the shadow implementation, checked in Coq)
                let no_entropy_model = args.extra.iter().any(|a| a == "--no-entropy-model");
                let model = !(s.p.entropy && no_entropy_model);
                let sh = |desc: bool| if s.lt == 4 { shadow_fit::<f32>(&s.x, &s.y, &wts, s.ncls, &s.p, desc) } else { shadow_fit::<f64>(&s.x, &s.y, &wts, s.ncls, &s.p, desc) };
                let asc = sh(false);
                let mut log2tab: Vec<(u32, u32)> = Vec::new();
                match &asc {
                    Some((t, tab, (neg_scored, neg_first))) => {
                        if *neg_scored > 0 { out.bump("negative_residue_scored_cases"); out.bump(if s.p.entropy { "negative_residue_scored_entropy_cases" } else { "negative_residue_scored_gini_cases" }); }
                        if *neg_first > 0 { out.bump("negative_residue_first_candidate_cases"); if s.p.entropy { out.bump("negative_residue_first_candidate_entropy_cases"); } }
                        if tree_term(t) != tree_term(&f.tree) { out.bump("shadow_differs_from_library"); }
                        if model && s.p.entropy { log2tab = tab.clone(); }
                        if s.ncls > 2 && splits > 0 {
                            if let Some((t2, _, _)) = sh(true) {
                                if tree_term(&t2) != tree_term(t) {
                                    out.bump(if shape_term(&t2) != shape_term(t) { "class_order_sensitive_structure" } else { "class_order_sensitive_bits" });
                                    out.bump(&format!("class_order_sensitive_{}", ltname));
                                }
                            }
                        }
                    }
                    None => out.bump("shadow_panicked"),
                }
                if model { out.bump(if s.p.entropy { "fit_model_entropy" } else { "fit_model_gini" }); }
                if model && s.ncls > 2 { out.bump(&format!("fit_model_multiclass_{}", ltname)); }
                if model && s.ncls > 2 && splits > 0 { out.bump(if s.p.entropy { "fit_model_multiclass_entropy_with_split" } else { "fit_model_multiclass_gini_with_split" }); }
                out.bump_by("log2_table_entries", log2tab.len() as u64);
                {
                    // first-seen order of the classes (= insertion order of the hash map) vs their Ord
                    let mut seen: Vec<usize> = Vec::new();
                    for c in &s.y { if !seen.contains(c) { seen.push(*c); } }
                    if seen.windows(2).any(|p| p[0] > p[1]) { out.bump("first_seen_class_order_differs_from_ord"); }
                }
                let coq = format!(
                    "{{| c_id := {}%N; c_X := {}; c_y := {}; c_w := {}; c_ncls := {}%N; c_nfeat := {}%N; c_entropy := {}; c_maxdepth := {}; c_mws := {}; c_mwl := {}; c_mid := {}; c_eps := {}; c_f32 := {}; c_le := {}; c_model := {}; c_log2 := {}; c_tree := {}; c_dangling := {}%N; c_iter := {}; c_maxd := {}%N; c_nleaves := {}%N; c_mean := {}; c_importance := {}; c_query := {}; c_pred := {} |}}",
                    id, cmat64(&s.x), cvecn(&s.y), cvec64(&wts.iter().map(|v| *v as f64).collect::<Vec<f64>>()), s.ncls, s.d,
                    cbool(s.p.entropy), s.p.max_depth.map_or("None".to_string(), |m| format!("(Some {}%N)", m)),
                    sf64(s.p.mws as f64), sf64(s.p.mwl as f64), sf64(s.p.mid), sf64(if s.lt == 4 { 1e-5f32 as f64 } else { 1e-5f64 }), cbool(s.lt == 4), cbool(repaired), cbool(model),
                    clist(&log2tab, |(a, b)| format!("({}%Z, {}%Z)", a, b)),
                    tree_term(&f.tree), f.dangling,
                    clist(&f.iter, |(d, l)| format!("({}%N, {})", d, cbool(*l))), f.maxd, f.nleaves,
                    cvec64(&f.mean), cvec64(&f.imp), cmat64(&q), cvecn(&f.pred)
                );
                let key = if splits > 0 {
                    let mut flat: Vec<f64> = s.x.concat();
                    flat.extend(s.y.iter().map(|v| *v as f64));
                    flat.extend(wts.iter().map(|v| *v as f64));
                    flat.extend([s.p.mws as f64, s.p.mwl as f64, s.p.mid, s.p.max_depth.map_or(-1.0, |m| m as f64), s.p.entropy as u8 as f64, s.lt as f64]);
                    Some(fnv_f64s(&flat, s.ncls as u64))
                } else { None };
                out.case(id, &coq, &tagrefs, &desc, key);
            }
        }
    }
    out.bump_by("worst_accepted_entropy_decrease_error_1e9", (worst_entropy * 1e9) as u64);
    out.bump_by("worst_decrease_error_with_rounding_weights_1e9", (worst_rounded * 1e9) as u64);
    out.bump_by("worst_decrease_error_beyond_2p-18_in_permille_of_n_2p-23", (worst_rounded_ratio * 1e3) as u64);
    out.finish("streams: A exhaustive 1-D datasets over values {0,1,2} x two classes (n<=3 all, n=4 every 5th); B random two-class Gini datasets from 6 families (lattice with duplicates/conflicts, blobs, noise, constant features, values closer than 1e-5, half-integer lattice) x weights (none/dyadic/with zeros) x parameter grid; C the same families with 2..6 classes, both criteria, usize/offset usize/bool/String/decimal String/Option<usize> labels; D neighbouring doubles at large magnitude; E f32 features; F 3..6 classes with full-mantissa sample weights (f32 weight sums round); G class blocks with decimal-palette weights (0.3, 1.0, 0.1, ...: running class weights cancel to residues of either sign, min_weight_leaf on sums of palette weights; exact-weight oracle with the allowance n * 2^-23 of the node's weight); H tiny non-dyadic weights (1e-8 .. 1e-11 times small multipliers, heaviest class mostly not the smallest label); S weight-scale twins: every second weighted case of B..G and some unweighted ones again with all weights and min_weight_leaf times 2^k, k in {-30,-26,-20,-10,10,20} (exact checker at every scale + Rust-side metamorphic oracle: same tree bit for bit as the unscaled case). For every case: full fit compared bit for bit with the Gallina model (entropy: f32::log2 values passed as a table checked against interval enclosures) + exact checker + prediction/importance/iteration models. A case is non-trivial when the fitted tree has at least one split; distinct = distinct (data, labels, weights, parameters) hashes");
}
