//! C04 harness: every public parameter builder, driven through its setters over the boundary grid
//! of its documented ranges (in combination), observed through check_ref / check / the entry
//! points on the unchecked builder; emits Coq cases for C04/Corr.v.
#![allow(clippy::type_complexity)]
use linfa::composing::platt_scaling::{Platt, PlattParams};
use linfa::param_guard::TransformGuard;
use linfa::prelude::*;
use linfa::ParamGuard;
use linfa_bayes::{GaussianNb, MultinomialNb};
use linfa_clustering::{Dbscan, GaussianMixtureModel, IncrKMeansError, KMeans, KMeansError, Optics};
use linfa_elasticnet::{ElasticNet, ElasticNetError, MultiTaskElasticNet};
use linfa_ftrl::Ftrl;
use linfa_hierarchical::HierarchicalCluster;
use linfa_ica::fast_ica::{FastIca, GFunc};
use linfa_kernel::{Kernel, KernelMethod};
use linfa_linear::{LinearRegression, TweedieRegressor};
use linfa_logistic::{LogisticRegression, MultiLogisticRegression};
use linfa_nn::distance::L2Dist;
use linfa_pls::{PlsCanonical, PlsCca, PlsRegression};
use linfa_preprocessing::{CountVectorizer, Tokenizer};
use linfa_reduction::random_projection::GaussianRandomProjection;
use linfa_reduction::DiffusionMap;
use linfa_svm::Svm;
use linfa_trees::DecisionTree;
use linfa_tsne::TSneParams;
use ndarray::{array, Array1, Array2};
use rand::SeedableRng;
use rand_xoshiro::Xoshiro256Plus;
use std::fmt::Debug;
use std::panic::AssertUnwindSafe;
use vh::*;

// ------------------------------------------------------------------------------------------------
// parameter values in transport form

#[derive(Clone, Debug)]
enum PV {
    F(f64),
    F32(f32),
    N(u64),
    B(bool),
    Non,
    Som(Box<PV>),
    Tup(Vec<PV>),
    Ctor(&'static str, Vec<PV>),
    Rec(Vec<(&'static str, PV)>),
}

impl PV {
    fn coq(&self) -> String {
        match self {
            PV::F(x) => format!("VF (Prim2SF ({})%float)", cf64(*x)),
            PV::F32(x) => format!("VF (b32_of_bits {}%Z)", x.to_bits()),
            PV::N(n) => format!("VN {}%N", n),
            PV::B(b) => format!("VB {}", cbool(*b)),
            PV::Non => "VNone".into(),
            PV::Som(v) => format!("VSome ({})", v.coq()),
            PV::Tup(l) => format!("VTup {}", clist(l, |v| v.coq())),
            PV::Ctor(c, l) => format!("VCtor {} {}", cstr(c), clist(l, |v| v.coq())),
            PV::Rec(l) => format!("VRec {}", clist(l, |(k, v)| format!("({}, {})", cstr(k), v.coq()))),
        }
    }
    fn show(&self) -> String {
        match self {
            PV::F(x) => format!("{:?}", x),
            PV::F32(x) => format!("{:?}f32", x),
            PV::N(n) => format!("{}", n),
            PV::B(b) => format!("{}", b),
            PV::Non => "None".into(),
            PV::Som(v) => format!("Some({})", v.show()),
            PV::Tup(l) => format!("({})", l.iter().map(|v| v.show()).collect::<Vec<_>>().join(", ")),
            PV::Ctor(c, l) => format!("{}({})", c, l.iter().map(|v| v.show()).collect::<Vec<_>>().join(", ")),
            PV::Rec(l) => format!("{{{}}}", l.iter().map(|(k, v)| format!("{}: {}", k, v.show())).collect::<Vec<_>>().join(", ")),
        }
    }
    fn walk(&self, f: &mut dyn FnMut(&PV)) {
        f(self);
        match self {
            PV::Som(v) => v.walk(f),
            PV::Tup(l) | PV::Ctor(_, l) => l.iter().for_each(|v| v.walk(f)),
            PV::Rec(l) => l.iter().for_each(|(_, v)| v.walk(f)),
            _ => {}
        }
    }
    fn map_f(&self, g: &dyn Fn(f64) -> f64, g32: &dyn Fn(f32) -> f32) -> PV {
        match self {
            PV::F(x) => PV::F(g(*x)),
            PV::F32(x) => PV::F32(g32(*x)),
            PV::Som(v) => PV::Som(Box::new(v.map_f(g, g32))),
            PV::Tup(l) => PV::Tup(l.iter().map(|v| v.map_f(g, g32)).collect()),
            PV::Ctor(c, l) => PV::Ctor(c, l.iter().map(|v| v.map_f(g, g32)).collect()),
            PV::Rec(l) => PV::Rec(l.iter().map(|(k, v)| (*k, v.map_f(g, g32))).collect()),
            v => v.clone(),
        }
    }
    fn all_finite(&self) -> bool {
        let mut ok = true;
        self.walk(&mut |v| match v {
            PV::F(x) => ok &= x.is_finite(),
            PV::F32(x) => ok &= x.is_finite(),
            _ => {}
        });
        ok
    }
    fn has_negzero(&self) -> bool {
        let mut any = false;
        self.walk(&mut |v| match v {
            PV::F(x) => any |= *x == 0.0 && x.is_sign_negative(),
            PV::F32(x) => any |= *x == 0.0 && x.is_sign_negative(),
            _ => {}
        });
        any
    }
    fn norm(&self) -> PV {
        self.map_f(&|x| if x == 0.0 { 0.0 } else { x }, &|x| if x == 0.0 { 0.0 } else { x })
    }
    /// bit-level identity (NaN equals NaN, -0.0 differs from 0.0)
    fn same(&self, o: &PV) -> bool {
        match (self, o) {
            (PV::F(a), PV::F(b)) => a.to_bits() == b.to_bits(),
            (PV::F32(a), PV::F32(b)) => a.to_bits() == b.to_bits(),
            (PV::N(a), PV::N(b)) => a == b,
            (PV::B(a), PV::B(b)) => a == b,
            (PV::Non, PV::Non) => true,
            (PV::Som(a), PV::Som(b)) => a.same(b),
            (PV::Tup(a), PV::Tup(b)) => a.len() == b.len() && a.iter().zip(b).all(|(x, y)| x.same(y)),
            (PV::Ctor(c, a), PV::Ctor(d, b)) => c == d && a.len() == b.len() && a.iter().zip(b).all(|(x, y)| x.same(y)),
            (PV::Rec(a), PV::Rec(b)) => a.len() == b.len() && a.iter().zip(b).all(|((k, x), (l, y))| k == l && x.same(y)),
            _ => false,
        }
    }
    fn f64(&self) -> f64 {
        match self { PV::F(x) => *x, PV::F32(x) => *x as f64, _ => panic!("not a float") }
    }
    fn n(&self) -> u64 {
        match self { PV::N(n) => *n, _ => panic!("not a count") }
    }
}
fn same_all(a: &[PV], b: &[PV]) -> bool {
    a.len() == b.len() && a.iter().zip(b).all(|(x, y)| x.same(y))
}

/// the two float types a builder can be instantiated at
trait Fl: linfa::Float + Debug {
    const IS32: bool;
    fn of(x: f64) -> Self;
    fn pv(self) -> PV;
    fn get(v: &PV) -> Self;
    fn up(self) -> Self;
    fn down(self) -> Self;
    fn tiny() -> Self;
    fn eps_() -> Self;
}
impl Fl for f64 {
    const IS32: bool = false;
    fn of(x: f64) -> f64 { x }
    fn pv(self) -> PV { PV::F(self) }
    fn get(v: &PV) -> f64 { match v { PV::F(x) => *x, _ => panic!("f64 expected") } }
    fn up(self) -> f64 { f64::from_bits(self.to_bits() + 1) }
    fn down(self) -> f64 { f64::from_bits(self.to_bits() - 1) }
    fn tiny() -> f64 { f64::from_bits(1) }
    fn eps_() -> f64 { f64::EPSILON }
}
impl Fl for f32 {
    const IS32: bool = true;
    fn of(x: f64) -> f32 { x as f32 }
    fn pv(self) -> PV { PV::F32(self) }
    fn get(v: &PV) -> f32 { match v { PV::F32(x) => *x, _ => panic!("f32 expected") } }
    fn up(self) -> f32 { f32::from_bits(self.to_bits() + 1) }
    fn down(self) -> f32 { f32::from_bits(self.to_bits() - 1) }
    fn tiny() -> f32 { f32::from_bits(1) }
    fn eps_() -> f32 { f32::EPSILON }
}

// candidate values: below, at, just inside, far inside each documented bound; -0.0
fn fam0<T: Fl>(thorough: bool) -> Vec<PV> {
    let mut v = vec![T::of(-1.0), -T::tiny(), T::of(-0.0), T::of(0.0), T::tiny(), T::of(1e-3), T::of(1.0), T::of(1e6)];
    if thorough {
        v.extend([T::of(-1e30), T::eps_(), T::of(0.5), T::of(3.0)]);
    }
    v.into_iter().map(|x| x.pv()).collect()
}
fn fam01<T: Fl>(thorough: bool) -> Vec<PV> {
    let mut v = vec![T::of(-1.0), -T::tiny(), T::of(-0.0), T::of(0.0), T::tiny(), T::of(0.5), T::of(1.0).down(), T::of(1.0), T::of(1.0).up(), T::of(2.0)];
    if thorough {
        v.extend([T::of(-1e30), T::of(1e30), T::eps_()]);
    }
    v.into_iter().map(|x| x.pv()).collect()
}
fn fam_eps<T: Fl>(thorough: bool) -> Vec<PV> {
    let e = T::eps_();
    let mut v = vec![T::of(-1.0), T::of(-0.0), T::of(0.0), T::tiny(), e / T::of(2.0), e.down(), e, e.up(), T::of(1e-5), T::of(0.1)];
    if thorough {
        v.extend([-T::tiny(), -e, e * T::of(2.0), T::of(1.0), T::of(1e6)]);
    }
    v.into_iter().map(|x| x.pv()).collect()
}
fn malformed<T: Fl>() -> Vec<PV> {
    vec![T::nan().pv(), T::infinity().pv(), T::neg_infinity().pv()]
}
fn counts(xs: &[u64]) -> Vec<PV> {
    xs.iter().map(|n| PV::N(*n)).collect()
}

// ------------------------------------------------------------------------------------------------
// observations

#[derive(Clone, Debug, PartialEq)]
enum Item { S(String), Num(f64, f32), Nat(u64) }

#[derive(Clone, Debug, PartialEq)]
struct Verdict { ok: bool, names: Vec<String>, items: Vec<Item>, raw: String }

impl Verdict {
    fn accepted() -> Verdict { Verdict { ok: true, names: vec![], items: vec![], raw: "Ok".into() } }
    /// identifiers and literals of the `Debug` rendering of an error, in order of appearance
    fn of_error(dbg: &str) -> Verdict {
        let cs: Vec<char> = dbg.chars().collect();
        let (mut names, mut items) = (vec![], vec![]);
        let mut i = 0;
        while i < cs.len() {
            let c = cs[i];
            if c == '"' {
                let mut s = String::new();
                i += 1;
                while i < cs.len() && cs[i] != '"' {
                    if cs[i] == '\\' && i + 1 < cs.len() {
                        i += 1;
                        s.push(match cs[i] { 'n' => '\n', 't' => '\t', o => o });
                    } else {
                        s.push(cs[i]);
                    }
                    i += 1;
                }
                i += 1;
                items.push(Item::S(s));
            } else if c.is_ascii_alphabetic() || c == '_' {
                let st = i;
                while i < cs.len() && (cs[i].is_ascii_alphanumeric() || cs[i] == '_') { i += 1; }
                let w: String = cs[st..i].iter().collect();
                match w.as_str() {
                    "NaN" => items.push(Item::Num(f64::NAN, f32::NAN)),
                    "inf" => items.push(Item::Num(f64::INFINITY, f32::INFINITY)),
                    _ => names.push(w),
                }
            } else if c.is_ascii_digit() || (c == '-' && i + 1 < cs.len() && (cs[i + 1].is_ascii_digit() || cs[i + 1] == 'i' || cs[i + 1] == 'N')) {
                let st = i;
                i += 1;
                if cs[st] == '-' && (cs[i] == 'i' || cs[i] == 'N') {
                    while i < cs.len() && cs[i].is_ascii_alphabetic() { i += 1; }
                    let w: String = cs[st + 1..i].iter().collect();
                    if w == "inf" { items.push(Item::Num(f64::NEG_INFINITY, f32::NEG_INFINITY)); } else { items.push(Item::Num(f64::NAN, f32::NAN)); }
                    continue;
                }
                while i < cs.len() && (cs[i].is_ascii_digit() || cs[i] == '.' || cs[i] == 'e' || cs[i] == 'E' || ((cs[i] == '-' || cs[i] == '+') && (cs[i - 1] == 'e' || cs[i - 1] == 'E'))) { i += 1; }
                let w: String = cs[st..i].iter().collect();
                if w.contains('.') || w.contains('e') || w.contains('E') {
                    items.push(Item::Num(w.parse::<f64>().unwrap_or(f64::NAN), w.parse::<f32>().unwrap_or(f32::NAN)));
                } else if let Ok(n) = w.parse::<u64>() {
                    items.push(Item::Nat(n));
                } else {
                    items.push(Item::Num(w.parse::<f64>().unwrap_or(f64::NAN), w.parse::<f32>().unwrap_or(f32::NAN)));
                }
            } else {
                i += 1;
            }
        }
        Verdict { ok: false, names, items, raw: dbg.to_string() }
    }
    fn coq(&self) -> String {
        format!(
            "{{| v_ok := {}; v_names := {}; v_items := {} |}}",
            cbool(self.ok),
            clist(&self.names, |s| cstr(s)),
            clist(&self.items, |it| match it {
                Item::S(s) => format!("OStr {}", cstr(s)),
                Item::Num(a, b) => format!("ONum (Prim2SF ({})%float) (Prim2SF ({})%float)", cf64(*a), cf64(*b as f64)),
                Item::Nat(n) => format!("ONat {}%N", n),
            })
        )
    }
}

#[derive(Clone, Debug)]
struct CallObs { kind: &'static str, outcome: u8, eq: bool, what: String }

struct Obs { vref: Verdict, again: bool, vval: Verdict, readback: bool, calls: Vec<CallObs> }

type Rs = Result<String, String>;

/// one entry point on the unchecked builder against the guard's error / the checked parameters
fn call_obs(kind: &'static str, guard_err: Option<String>, unchecked: &dyn Fn() -> Rs, checked: &dyn Fn() -> Option<Rs>) -> CallObs {
    let u = guarded(AssertUnwindSafe(unchecked));
    match guard_err {
        Some(ge) => {
            let (outcome, what) = match &u {
                Ok(Ok(m)) => (0, format!("returned Ok({:.60})", m)),
                Ok(Err(e)) if *e == ge => (1, String::new()),
                Ok(Err(e)) => (2, format!("returned Err({}) instead of Err({})", e, ge)),
                Err(p) => (3, format!("panicked: {:.80}", p)),
            };
            CallObs { kind, outcome, eq: false, what }
        }
        None => {
            let c = guarded(AssertUnwindSafe(checked));
            let eq = match (&u, &c) {
                (Ok(a), Ok(Some(b))) => a == b,
                (Err(_), Err(_)) => true,
                _ => false,
            };
            let outcome = match &u { Ok(Ok(_)) => 0, Ok(Err(_)) => 2, Err(_) => 3 };
            let what = if eq { String::new() } else { format!("unchecked {:.80?} vs checked {:.80?}", u, c) };
            CallObs { kind, outcome, eq, what }
        }
    }
}

fn es<E: Debug>(e: E) -> String { format!("{:?}", e) }

fn fit_call<P, R, T, E>(kind: &'static str, p: &P, ds: &DatasetBase<R, T>, render: &dyn Fn(&<P::Checked as Fit<R, T, E>>::Object) -> String) -> CallObs
where
    R: Records,
    P: ParamGuard,
    P::Checked: Fit<R, T, E>,
    P::Error: Debug,
    E: std::error::Error + From<linfa::Error> + From<P::Error>,
{
    let ge = p.check_ref().err().map(|e| es(E::from(e)));
    call_obs(
        kind,
        ge,
        &|| Fit::<R, T, E>::fit(p, ds).map(|m| render(&m)).map_err(es),
        &|| p.check_ref().ok().map(|c| c.fit(ds).map(|m| render(&m)).map_err(es)),
    )
}

fn fit_with_call<'a, P, R, T, E>(
    kind: &'static str, p: &P, mk_in: &dyn Fn() -> <P::Checked as FitWith<'a, R, T, E>>::ObjectIn, ds: &'a DatasetBase<R, T>,
    render: &dyn Fn(&<P::Checked as FitWith<'a, R, T, E>>::ObjectOut) -> String,
) -> CallObs
where
    R: Records,
    P: ParamGuard,
    P::Checked: FitWith<'a, R, T, E>,
    P::Error: Debug,
    E: std::error::Error + From<linfa::Error> + From<P::Error>,
{
    let ge = p.check_ref().err().map(|e| es(E::from(e)));
    call_obs(
        kind,
        ge,
        &|| FitWith::<'a, R, T, E>::fit_with(p, mk_in(), ds).map(|m| render(&m)).map_err(es),
        &|| p.check_ref().ok().map(|c| c.fit_with(mk_in(), ds).map(|m| render(&m)).map_err(es)),
    )
}

fn transform_call<P, R, T>(kind: &'static str, p: &P, mk_x: &dyn Fn() -> R, render: &dyn Fn(&T) -> String) -> CallObs
where
    R: Records,
    P: TransformGuard,
    P::Checked: Transformer<R, T>,
    P::Error: Debug,
{
    let ge = p.check_ref().err().map(es);
    call_obs(
        kind,
        ge,
        &|| Transformer::<R, Result<T, P::Error>>::transform(p, mk_x()).map(|m| render(&m)).map_err(es),
        &|| p.check_ref().ok().map(|c| Ok(render(&c.transform(mk_x())))),
    )
}

/// check_ref twice, check by value on an identical builder, parameters read back
fn guard_obs<P: ParamGuard>(
    mk: &dyn Fn() -> P, rb: &dyn Fn(&P::Checked) -> Vec<PV>, want: &[PV], dbg_p: &dyn Fn(&P) -> String, dbg_c: &dyn Fn(&P::Checked) -> String,
) -> (Verdict, bool, Verdict, bool)
where
    P::Error: Debug,
{
    let p = mk();
    let before = dbg_p(&p);
    let (v1, r1, d1) = match p.check_ref() {
        Ok(c) => (Verdict::accepted(), Some(rb(c)), Some(dbg_c(c))),
        Err(e) => (Verdict::of_error(&es(e)), None, None),
    };
    let v1b = match p.check_ref() {
        Ok(_) => Verdict::accepted(),
        Err(e) => Verdict::of_error(&es(e)),
    };
    let after = dbg_p(&p);
    let (v2, r2, d2) = match mk().check() {
        Ok(c) => (Verdict::accepted(), Some(rb(&c)), Some(dbg_c(&c))),
        Err(e) => (Verdict::of_error(&es(e)), None, None),
    };
    let readback = before == after
        && r1.as_ref().map_or(true, |r| same_all(r, want))
        && r2.as_ref().map_or(true, |r| same_all(r, want))
        && (d1.is_none() || d2.is_none() || d1 == d2);
    // (compared through the renderings: a NaN payload is not equal to itself)
    let again = v1.raw == v1b.raw && v1.ok == v1b.ok;
    (v1, again, v2, readback)
}

// ------------------------------------------------------------------------------------------------
// builders

#[allow(dead_code)]
struct Field { name: &'static str, cands: Vec<PV>, bad: Vec<PV> }

struct Builder {
    name: &'static str,                                   // the translator's name of the impl
    label: String,                                        // the instantiation exercised
    f32_: bool,
    fields: Vec<Field>,
    defaults: Vec<Option<PV>>,                            // documented defaults (None: a constructor argument)
    env: Box<dyn Fn(&[PV]) -> Vec<(&'static str, PV)>>,
    run: std::sync::Arc<dyn Fn(&[PV], bool, bool) -> Obs + Send + Sync>, // (values, use the default builder, make the calls)
    safe: Box<dyn Fn(&[PV]) -> bool>,                     // cheap enough to train when valid
}

fn fld(name: &'static str, cands: Vec<PV>, bad: Vec<PV>) -> Field { Field { name, cands, bad } }

fn zip_env(names: &'static [&'static str]) -> Box<dyn Fn(&[PV]) -> Vec<(&'static str, PV)>> {
    Box::new(move |v: &[PV]| names.iter().cloned().zip(v.iter().cloned()).collect())
}

struct Data {
    x: Array2<f64>,        // 12 x 3, two blobs
    y_bool: Array1<bool>,
    y_cls: Array1<usize>,
    y3: Array1<usize>,
    y_reg: Array1<f64>,
    y_pos: Array1<f64>,
    y2: Array2<f64>,
    x_cnt: Array2<f64>,
    kernel: Kernel<f64>,
    docs: Array1<String>,
    files: Vec<std::path::PathBuf>,
    xwide: Array2<f64>,
}

fn data() -> Data {
    let x = array![
        [0.0, 0.2, 1.0], [0.3, -0.1, 0.8], [-0.2, 0.1, 1.2], [0.1, 0.4, 0.9], [0.4, 0.0, 1.1], [-0.1, -0.3, 1.0],
        [5.0, 5.2, -1.0], [5.3, 4.9, -0.8], [4.8, 5.1, -1.2], [5.1, 5.4, -0.9], [5.4, 5.0, -1.1], [4.9, 4.7, -1.0]
    ];
    let y_cls: Array1<usize> = (0..12).map(|i| if i < 6 { 0 } else { 1 }).collect();
    let y3: Array1<usize> = (0..12).map(|i| i % 3).collect();
    let y_bool = y_cls.mapv(|c| c == 1);
    let y_reg: Array1<f64> = (0..12).map(|i| x[[i, 0]] * 0.5 - x[[i, 2]] + 0.1 * (i as f64 % 3.0)).collect();
    let y_pos = y_reg.mapv(|v| v.abs() + 0.5);
    let y2 = Array2::from_shape_fn((12, 2), |(i, j)| if j == 0 { y_reg[i] } else { x[[i, 1]] - 0.3 * x[[i, 2]] });
    let x_cnt = x.mapv(|v| (v.abs() * 2.0).round());
    let kernel = Kernel::params().method(KernelMethod::Gaussian(3.0)).transform(x.view());
    let docs: Array1<String> = array![
        "one two three four".to_string(), "one two three".to_string(), "one two".to_string(), "one five six".to_string(), "seven one two".to_string()
    ];
    let xwide = Array2::from_shape_fn((6, 40), |(i, j)| ((i * 7 + j * 3) % 11) as f64 * 0.25 - 1.0);
    // the same documents as files, for CountVectorizerParams::fit_files
    let dir = std::env::temp_dir().join(format!("verif_c04_{}", std::process::id()));
    std::fs::create_dir_all(&dir).expect("temp dir for the count vectoriser files");
    let files: Vec<std::path::PathBuf> = docs.iter().enumerate().map(|(i, t)| {
        let f = dir.join(format!("doc{}.txt", i));
        std::fs::write(&f, t).expect("write document file");
        f
    }).collect();
    Data { x, y_bool, y_cls, y3, y_reg, y_pos, y2, x_cnt, kernel, docs, files, xwide }
}

fn xf<T: Fl>(a: &Array2<f64>) -> Array2<T> { a.mapv(T::of) }
fn yf<T: Fl>(a: &Array1<f64>) -> Array1<T> { a.mapv(T::of) }
fn dbg<D: Debug>(d: &D) -> String { format!("{:?}", d) }
fn rng() -> Xoshiro256Plus { Xoshiro256Plus::seed_from_u64(7) }

fn builders(thorough: bool) -> Vec<Builder> {
    let mut bs: Vec<Builder> = vec![];
    let d = std::sync::Arc::new(data());
    let t = thorough;

    // ---- k-means (f64 and f32)
    macro_rules! kmeans { ($F:ty) => {{
        let dd = d.clone();
        bs.push(Builder {
            name: "KMeansParams", label: format!("KMeansParams<{},Xoshiro256Plus,L2Dist>", stringify!($F)), f32_: <$F>::IS32,
            fields: vec![fld("n_clusters", counts(&[0, 1, 2]), vec![]), fld("n_runs", counts(&[0, 1, 2]), vec![]),
                         fld("tolerance", fam0::<$F>(t), malformed::<$F>()), fld("max_n_iterations", counts(&[0, 1, 3]), vec![])],
            defaults: vec![None, Some(PV::N(10)), Some(<$F>::of(1e-4).pv()), Some(PV::N(300))],
            env: zip_env(&["n_clusters", "n_runs", "tolerance", "max_n_iterations"]),
            safe: Box::new(|_| true),
            run: std::sync::Arc::new(move |v: &[PV], dflt: bool, calls: bool| {
                let (k, nr, tol, mi) = (v[0].n() as usize, v[1].n() as usize, <$F>::get(&v[2]), v[3].n());
                let mk = || { let p = KMeans::<$F, _>::params_with(k, rng(), L2Dist); if dflt { p } else { p.n_runs(nr).tolerance(tol).max_n_iterations(mi) } };
                let (vref, again, vval, readback) = guard_obs(&mk, &|c| vec![PV::N(c.n_clusters() as u64), PV::N(c.n_runs() as u64), c.tolerance().pv(), PV::N(c.max_n_iterations())], v, &|p| dbg(p), &|c| dbg(c));
                let mut cs = vec![];
                if calls {
                    let p = mk();
                    let ds = DatasetBase::from(xf::<$F>(&dd.x));
                    cs.push(fit_call::<_, _, _, KMeansError>("fit", &p, &ds, &|m| dbg(m)));
                    cs.push(fit_with_call::<_, _, _, IncrKMeansError<KMeans<$F, L2Dist>>>("fit_with", &p, &|| None, &ds, &|m| dbg(m)));
                }
                Obs { vref, again, vval, readback, calls: cs }
            }),
        });
    }}}
    kmeans!(f64);
    kmeans!(f32);

    // ---- DBSCAN / OPTICS (AppxDbscan is a public alias of Dbscan; src/appx_dbscan is not compiled)
    {
        let dd = d.clone();
        bs.push(Builder {
            name: "DbscanParams", label: "DbscanParams<f64,L2Dist,CommonNearestNeighbour>".into(), f32_: false,
            fields: vec![fld("min_points", counts(&[0, 1, 2, 3]), vec![]), fld("tolerance", fam0::<f64>(t), malformed::<f64>())],
            defaults: vec![None, Some(PV::F(1e-4))],
            env: zip_env(&["min_points", "tolerance"]),
            safe: Box::new(|_| true),
            run: std::sync::Arc::new(move |v: &[PV], dflt: bool, calls: bool| {
                let (mp, tol) = (v[0].n() as usize, v[1].f64());
                let mk = || { let p = Dbscan::params::<f64>(mp); if dflt { p } else { p.tolerance(tol) } };
                let (vref, again, vval, readback) = guard_obs(&mk, &|c| vec![PV::N(c.minimum_points() as u64), PV::F(c.tolerance())], v, &|p| dbg(p), &|c| dbg(c));
                let mut cs = vec![];
                if calls {
                    let p = mk();
                    cs.push(transform_call("transform", &p, &|| &dd.x, &|m: &Array1<Option<usize>>| dbg(m)));
                }
                Obs { vref, again, vval, readback, calls: cs }
            }),
        });
        let dd = d.clone();
        bs.push(Builder {
            name: "OpticsParams", label: "OpticsParams<f64,L2Dist,CommonNearestNeighbour>".into(), f32_: false,
            fields: vec![fld("min_points", counts(&[0, 1, 2, 3]), vec![]), fld("tolerance", fam0::<f64>(t), malformed::<f64>())],
            defaults: vec![None, Some(PV::F(f64::INFINITY))],
            env: zip_env(&["min_points", "tolerance"]),
            safe: Box::new(|_| true),
            run: std::sync::Arc::new(move |v: &[PV], dflt: bool, calls: bool| {
                let (mp, tol) = (v[0].n() as usize, v[1].f64());
                let mk = || { let p = Optics::params::<f64>(mp); if dflt { p } else { p.tolerance(tol) } };
                let (vref, again, vval, readback) = guard_obs(&mk, &|c| vec![PV::N(c.minimum_points() as u64), PV::F(c.tolerance())], v, &|p| dbg(p), &|c| dbg(c));
                let mut cs = vec![];
                if calls {
                    let p = mk();
                    cs.push(transform_call("transform", &p, &|| dd.x.view(), &|m: &linfa_clustering::OpticsAnalysis<f64>| dbg(m)));
                }
                Obs { vref, again, vval, readback, calls: cs }
            }),
        });
    }

    // ---- Gaussian mixture
    {
        let dd = d.clone();
        bs.push(Builder {
            name: "GmmParams", label: "GmmParams<f64,Xoshiro256Plus>".into(), f32_: false,
            fields: vec![fld("n_clusters", counts(&[0, 1, 2]), vec![]), fld("tolerance", fam0::<f64>(t), malformed::<f64>()),
                         fld("reg_covar", fam0::<f64>(t), malformed::<f64>()), fld("n_runs", counts(&[0, 1, 2]), vec![]), fld("max_n_iter", counts(&[0, 1, 5]), vec![])],
            defaults: vec![None, Some(PV::F(1e-3)), Some(PV::F(1e-6)), Some(PV::N(1)), Some(PV::N(100))],
            env: zip_env(&["n_clusters", "tolerance", "reg_covar", "n_runs", "max_n_iter"]),
            safe: Box::new(|_| true),
            run: std::sync::Arc::new(move |v: &[PV], dflt: bool, calls: bool| {
                let (k, tol, rc, nr, mi) = (v[0].n() as usize, v[1].f64(), v[2].f64(), v[3].n(), v[4].n());
                let mk = || { let p = GaussianMixtureModel::<f64>::params_with_rng(k, rng()); if dflt { p } else { p.tolerance(tol).reg_covariance(rc).n_runs(nr).max_n_iterations(mi) } };
                let (vref, again, vval, readback) = guard_obs(&mk, &|c| vec![PV::N(c.n_clusters() as u64), PV::F(c.tolerance()), PV::F(c.reg_covariance()), PV::N(c.n_runs()), PV::N(c.max_n_iterations())], v, &|p| dbg(p), &|c| dbg(c));
                let mut cs = vec![];
                if calls {
                    let p = mk();
                    let ds = DatasetBase::from(dd.x.clone());
                    cs.push(fit_call::<_, _, _, linfa_clustering::GmmError>("fit", &p, &ds, &|m| dbg(m)));
                }
                Obs { vref, again, vval, readback, calls: cs }
            }),
        });
    }

    // ---- elastic net: single task (f64, f32) and multi task
    macro_rules! enet { ($F:ty, $multi:expr) => {{
        let dd = d.clone();
        bs.push(Builder {
            name: "ElasticNetParamsBase", label: format!("{}ElasticNetParams<{}>", if $multi { "MultiTask" } else { "" }, stringify!($F)), f32_: <$F>::IS32,
            fields: vec![fld("penalty", fam0::<$F>(t), malformed::<$F>()), fld("l1_ratio", fam01::<$F>(t), malformed::<$F>()),
                         fld("tolerance", fam0::<$F>(t), malformed::<$F>()), fld("max_iterations", counts(&[0, 1, 20]), vec![])],
            defaults: vec![Some(<$F>::of(1.0).pv()), Some(<$F>::of(0.5).pv()), Some(<$F>::of(1e-4).pv()), Some(PV::N(1000))],
            env: zip_env(&["penalty", "l1_ratio", "tolerance", "max_iterations"]),
            safe: Box::new(|_| true),
            run: std::sync::Arc::new(move |v: &[PV], dflt: bool, calls: bool| {
                let (pen, l1, tol, mi) = (<$F>::get(&v[0]), <$F>::get(&v[1]), <$F>::get(&v[2]), v[3].n() as u32);
                let mut cs = vec![];
                let rbf = |pe: $F, l: $F, to: $F, m: u32| vec![pe.pv(), l.pv(), to.pv(), PV::N(m as u64)];
                let g;
                if $multi {
                    let mk = || { let p = MultiTaskElasticNet::<$F>::params(); if dflt { p } else { p.penalty(pen).l1_ratio(l1).tolerance(tol).max_iterations(mi) } };
                    g = guard_obs(&mk, &|c| rbf(c.penalty(), c.l1_ratio(), c.tolerance(), c.max_iterations()), v, &|p| dbg(p), &|c| dbg(c));
                    if calls {
                        let p = mk();
                        let ds = Dataset::new(xf::<$F>(&dd.x), dd.y2.mapv(<$F>::of));
                        cs.push(fit_call::<_, _, _, ElasticNetError>("fit", &p, &ds, &|m| dbg(m)));
                    }
                } else {
                    let mk = || { let p = ElasticNet::<$F>::params(); if dflt { p } else { p.penalty(pen).l1_ratio(l1).tolerance(tol).max_iterations(mi) } };
                    g = guard_obs(&mk, &|c| rbf(c.penalty(), c.l1_ratio(), c.tolerance(), c.max_iterations()), v, &|p| dbg(p), &|c| dbg(c));
                    if calls {
                        let p = mk();
                        let ds = Dataset::new(xf::<$F>(&dd.x), yf::<$F>(&dd.y_reg));
                        cs.push(fit_call::<_, _, _, ElasticNetError>("fit", &p, &ds, &|m| dbg(m)));
                    }
                }
                Obs { vref: g.0, again: g.1, vval: g.2, readback: g.3, calls: cs }
            }),
        });
    }}}
    enet!(f64, false);
    enet!(f32, false);
    enet!(f64, true);

    // ---- logistic regression (binary and multinomial): alpha, gradient_tolerance, initial parameters
    {
        let ip = |vals: &[f64]| PV::Som(Box::new(PV::Tup(vals.iter().map(|x| PV::F(*x)).collect())));
        let ipc = vec![PV::Non, ip(&[0.0, 0.0, 0.0, 0.0]), ip(&[0.1, -0.0, 0.2, 0.0])];
        let ipbad = vec![ip(&[0.0, f64::NAN, 0.0, 0.0]), ip(&[0.0, 0.0, 0.0, f64::INFINITY])];
        for multi in [false, true] {
            let dd = d.clone();
            bs.push(Builder {
                name: "LogisticRegressionParams", label: format!("LogisticRegressionParams<f64,{}>", if multi { "Ix2" } else { "Ix1" }), f32_: false,
                fields: vec![fld("alpha", fam0::<f64>(t), malformed::<f64>()), fld("gradient_tolerance", fam0::<f64>(t), malformed::<f64>()),
                             fld("initial_params", if multi { vec![PV::Non] } else { ipc.clone() }, if multi { vec![] } else { ipbad.clone() })],
                defaults: vec![Some(PV::F(1.0)), Some(PV::F(1e-4)), Some(PV::Non)],
                env: zip_env(&["alpha", "gradient_tolerance", "initial_params"]),
                safe: Box::new(|_| true),
                run: std::sync::Arc::new(move |v: &[PV], dflt: bool, calls: bool| {
                    let (a, g) = (v[0].f64(), v[1].f64());
                    let init: Option<Array1<f64>> = match &v[2] { PV::Som(b) => match &**b { PV::Tup(l) => Some(l.iter().map(|x| x.f64()).collect()), _ => None }, _ => None };
                    let mut cs = vec![];
                    let go;
                    // the checked struct has no public getters: the read-back is its Debug rendering
                    let want = [PV::Non];
                    if multi {
                        let mk = || { let p = MultiLogisticRegression::<f64>::default(); if dflt { p } else { p.alpha(a).gradient_tolerance(g).max_iterations(15) } };
                        let exp = format!("alpha: {:?}, fit_intercept: true, max_iterations: {}, gradient_tolerance: {:?}, initial_params: None", if dflt { 1.0 } else { a }, if dflt { 100 } else { 15 }, if dflt { 1e-4 } else { g });
                        go = guard_obs(&mk, &|c| vec![if dbg(c).contains(&exp) { PV::Non } else { PV::B(false) }], &want, &|p| dbg(p), &|c| dbg(c));
                        if calls {
                            let p = mk();
                            let ds = Dataset::new(dd.x.clone(), dd.y3.clone());
                            cs.push(fit_call::<_, _, _, linfa_logistic::error::Error>("fit", &p, &ds, &|m| dbg(m)));
                        }
                    } else {
                        let i2 = init.clone();
                        let mk = move || {
                            let p = LogisticRegression::<f64>::default();
                            if dflt { p } else { let p = p.alpha(a).gradient_tolerance(g).max_iterations(15); match &i2 { Some(arr) => p.initial_params(arr.clone()), None => p } }
                        };
                        let exp = format!("alpha: {:?}, fit_intercept: true, max_iterations: {}, gradient_tolerance: {:?}, initial_params: {}", if dflt { 1.0 } else { a }, if dflt { 100 } else { 15 }, if dflt { 1e-4 } else { g },
                                          if init.is_some() && !dflt { "Some" } else { "None" });
                        go = guard_obs(&mk, &|c| vec![if dbg(c).contains(&exp) { PV::Non } else { PV::B(false) }], &want, &|p| dbg(p), &|c| dbg(c));
                        if calls {
                            let p = mk();
                            let ds = Dataset::new(dd.x.clone(), dd.y_cls.clone());
                            cs.push(fit_call::<_, _, _, linfa_logistic::error::Error>("fit", &p, &ds, &|m| dbg(m)));
                        }
                    }
                    Obs { vref: go.0, again: go.1, vval: go.2, readback: go.3, calls: cs }
                }),
            });
        }
    }

    // ---- Tweedie GLM
    macro_rules! tweedie { ($F:ty) => {{
        let dd = d.clone();
        bs.push(Builder {
            name: "TweedieRegressorParams", label: format!("TweedieRegressorParams<{}>", stringify!($F)), f32_: <$F>::IS32,
            fields: vec![fld("alpha", fam0::<$F>(t), malformed::<$F>()),
                         fld("power", { let mut c = fam01::<$F>(t); c.push(<$F>::of(3.0).pv()); c }, malformed::<$F>()),
                         // `tol` has no documented range and the guard does not look at it: only its non-finite values are exercised
                         fld("tol", vec![<$F>::of(1e-4).pv()], malformed::<$F>())],
            defaults: vec![Some(<$F>::of(1.0).pv()), Some(<$F>::of(1.0).pv()), Some(<$F>::of(1e-4).pv())],
            env: zip_env(&["alpha", "power", "tol"]),
            // (the f32 instantiation with power 1 does not come back from the L-BFGS line search - unrelated to C04 - so it is never trained)
            safe: Box::new(|v| { let p = v[1].f64(); p == 0.0 || (p == 1.0 && !<$F>::IS32) || p == 2.0 || p == 3.0 }),
            run: std::sync::Arc::new(move |v: &[PV], dflt: bool, calls: bool| {
                let (a, pw, tol) = (<$F>::get(&v[0]), <$F>::get(&v[1]), <$F>::get(&v[2]));
                let mk = || { let p = TweedieRegressor::<$F>::params(); if dflt { p } else { p.alpha(a).power(pw).tol(tol).max_iter(15) } };
                let (vref, again, vval, readback) = guard_obs(&mk, &|c| vec![c.alpha().pv(), c.power().pv(), c.tol().pv()], v, &|p| dbg(p), &|c| dbg(c));
                let mut cs = vec![];
                if calls {
                    let p = mk();
                    let ds = Dataset::new(xf::<$F>(&dd.x), yf::<$F>(&dd.y_pos));
                    cs.push(fit_call::<_, _, _, linfa_linear::LinearError<$F>>("fit", &p, &ds, &|m| dbg(m)));
                }
                Obs { vref, again, vval, readback, calls: cs }
            }),
        });
    }}}
    tweedie!(f64);
    tweedie!(f32);

    // ---- Platt scaling
    {
        let dd = d.clone();
        let lin = LinearRegression::default().fit(&Dataset::new(d.x.clone(), d.y_reg.clone())).expect("linear regression for Platt");
        bs.push(Builder {
            name: "PlattParams", label: "PlattParams<f64,FittedLinearRegression<f64>>".into(), f32_: false,
            fields: vec![fld("maxiter", counts(&[0, 1, 30]), vec![]), fld("minstep", fam0::<f64>(t), malformed::<f64>()), fld("sigma", fam0::<f64>(t), malformed::<f64>())],
            defaults: vec![Some(PV::N(100)), Some(PV::F(1e-10)), Some(PV::F(1e-12))],
            env: zip_env(&["maxiter", "minstep", "sigma"]),
            safe: Box::new(|v| v[1].f64() >= 1e-12),
            run: std::sync::Arc::new(move |v: &[PV], dflt: bool, calls: bool| {
                let (mi, ms, sg) = (v[0].n() as usize, v[1].f64(), v[2].f64());
                let mk = || { let p: PlattParams<f64, linfa_linear::FittedLinearRegression<f64>> = Platt::params(); if dflt { p } else { p.maxiter(mi).minstep(ms).sigma(sg) } };
                let exp = format!("maxiter: {}, minstep: {:?}, sigma: {:?}", if dflt { 100 } else { mi }, if dflt { 1e-10 } else { ms }, if dflt { 1e-12 } else { sg });
                let (vref, again, vval, readback) = guard_obs(&mk, &|c| vec![if dbg(c).contains(&exp) { PV::Non } else { PV::B(false) }], &[PV::Non], &|p| dbg(p), &|c| dbg(c));
                let mut cs = vec![];
                if calls {
                    let p = mk();
                    let ds = DatasetBase::new(dd.x.clone(), dd.y_bool.clone());
                    let l2 = lin.clone();
                    cs.push(fit_with_call::<_, _, _, linfa::composing::platt_scaling::PlattError>("fit_with", &p, &move || l2.clone(), &ds, &|m| dbg(m)));
                }
                Obs { vref, again, vval, readback, calls: cs }
            }),
        });
    }

    // ---- SVM: the four ways of setting C / nu, the solver eps, the nested Platt parameters
    {
        let dd = d.clone();
        let mut avals = fam01::<f64>(t);
        avals.push(PV::F(3.0));
        bs.push(Builder {
            name: "SvmParams", label: "SvmParams<f64,bool|Pr|f64>".into(), f32_: false,
            fields: vec![fld("mode", counts(&[0, 1, 2, 3, 4]), vec![]), fld("a", avals, malformed::<f64>()),
                         fld("b", vec![PV::F(-1.0), PV::F(-0.0), PV::F(0.0), PV::F(f64::from_bits(1)), PV::F(1.0)], malformed::<f64>()),
                         fld("eps", fam0::<f64>(t), malformed::<f64>()),
                         fld("platt_maxiter", counts(&[0, 100]), vec![]), fld("platt_minstep", vec![PV::F(-1.0), PV::F(-0.0), PV::F(1e-10)], malformed::<f64>()),
                         fld("platt_sigma", vec![PV::F(-1.0), PV::F(0.0), PV::F(1e-12)], malformed::<f64>())],
            // mode 0: pos_neg_weights(a, b) on Svm<_, bool>; 1: nu_weight(a) on Svm<_, bool>; 2: c_svr(a, Some(b)); 3: nu_svr(a, Some(b)); 4: pos_neg_weights on Svm<_, Pr>
            defaults: vec![Some(PV::N(0)), Some(PV::F(1.0)), Some(PV::F(1.0)), Some(PV::F(1e-7)), Some(PV::N(100)), Some(PV::F(1e-10)), Some(PV::F(1e-12))],
            env: Box::new(|v: &[PV]| {
                let (a, b) = (v[1].clone(), v[2].clone());
                let pair = |x: PV, y: PV| PV::Som(Box::new(PV::Tup(vec![x, y])));
                let (c, nu) = match v[0].n() { 0 | 2 | 4 => (pair(a, b), PV::Non), 1 => (PV::Non, pair(a.clone(), a)), _ => (PV::Non, pair(a, b)) };
                vec![("c", c), ("nu", nu), ("solver_params", PV::Rec(vec![("eps", v[3].clone())])),
                     ("platt", PV::Rec(vec![("maxiter", v[4].clone()), ("minstep", v[5].clone()), ("sigma", v[6].clone())]))]
            }),
            safe: Box::new(|v| v[3].f64() >= 1e-3 && v[5].f64() >= 1e-12),
            run: std::sync::Arc::new(move |v: &[PV], dflt: bool, calls: bool| {
                let (mode, a, b, eps) = (v[0].n(), v[1].f64(), v[2].f64(), v[3].f64());
                let platt = || { let p: PlattParams<f64, ()> = Platt::params(); p.maxiter(v[4].n() as usize).minstep(v[5].f64()).sigma(v[6].f64()) };
                let want: Vec<PV> = {
                    let pair = |x: f64, y: f64| PV::Som(Box::new(PV::Tup(vec![PV::F(x), PV::F(y)])));
                    let (c, nu) = if dflt { (pair(1.0, 1.0), PV::Non) } else { match mode { 0 | 2 | 4 => (pair(a, b), PV::Non), 1 => (PV::Non, pair(a, a)), _ => (PV::Non, pair(a, b)) } };
                    vec![c, nu, PV::F(if dflt { 1e-7 } else { eps })]
                };
                let opt = |o: Option<(f64, f64)>| match o { Some((x, y)) => PV::Som(Box::new(PV::Tup(vec![PV::F(x), PV::F(y)]))), None => PV::Non };
                let mut cs = vec![];
                macro_rules! go { ($L:ty, $mk:expr, $ds:expr) => {{
                    let mk = $mk;
                    let pd = dbg(&platt());
                    let g = guard_obs(&mk, &|c: &linfa_svm::SvmValidParams<f64, $L>| {
                        let mut r = vec![opt(c.c()), opt(c.nu()), PV::F(c.solver_params().eps)];
                        if !dflt && dbg(c.platt_params()) != pd { r.push(PV::B(false)); }
                        r
                    }, &want, &|p| dbg(p), &|c| dbg(c));
                    if calls {
                        let p = mk();
                        let ds = $ds;
                        cs.push(fit_call::<_, _, _, linfa_svm::SvmError>("fit", &p, &ds, &|m: &Svm<f64, $L>| format!("{}", m)));
                    }
                    g
                }}}
                let g = match mode {
                    0 | 1 => go!(bool, || { let p = Svm::<f64, bool>::params(); if dflt { p } else { let p = p.eps(eps).with_platt_params(platt()); if mode == 0 { p.pos_neg_weights(a, b) } else { p.nu_weight(a) } } },
                                 Dataset::new(dd.x.clone(), dd.y_bool.clone())),
                    4 => go!(Pr, || { let p = Svm::<f64, Pr>::params(); if dflt { p } else { p.eps(eps).with_platt_params(platt()).pos_neg_weights(a, b) } },
                             Dataset::new(dd.x.clone(), dd.y_bool.clone())),
                    _ => go!(f64, || { let p = Svm::<f64, f64>::params(); if dflt { p } else { let p = p.eps(eps).with_platt_params(platt()); if mode == 2 { p.c_svr(a, Some(b)) } else { p.nu_svr(a, Some(b)) } } },
                             Dataset::new(dd.x.clone(), dd.y_reg.clone())),
                };
                Obs { vref: g.0, again: g.1, vval: g.2, readback: g.3, calls: cs }
            }),
        });
    }

    // ---- decision tree (f64, f32: F::epsilon() differs)
    macro_rules! tree { ($F:ty) => {{
        let dd = d.clone();
        bs.push(Builder {
            name: "DecisionTreeParams", label: format!("DecisionTreeParams<{},usize>", stringify!($F)), f32_: <$F>::IS32,
            fields: vec![fld("min_impurity_decrease", fam_eps::<$F>(t), malformed::<$F>()), fld("max_depth", vec![PV::Non, PV::Som(Box::new(PV::N(0))), PV::Som(Box::new(PV::N(2)))], vec![]),
                         // no documented range and not looked at by the guard: only their non-finite values are exercised
                         fld("min_weight_split", vec![PV::F32(2.0)], malformed::<f32>()), fld("min_weight_leaf", vec![PV::F32(1.0)], malformed::<f32>())],
            defaults: vec![Some(<$F>::of(0.00001).pv()), Some(PV::Non), Some(PV::F32(2.0)), Some(PV::F32(1.0))],
            env: zip_env(&["min_impurity_decrease", "max_depth", "min_weight_split", "min_weight_leaf"]),
            safe: Box::new(|_| true),
            run: std::sync::Arc::new(move |v: &[PV], dflt: bool, calls: bool| {
                let mid = <$F>::get(&v[0]);
                let md = match &v[1] { PV::Som(b) => Some(b.n() as usize), _ => None };
                let (mws, mwl) = (f32::get(&v[2]), f32::get(&v[3]));
                let mk = || { let p = DecisionTree::<$F, usize>::params(); if dflt { p } else { p.min_impurity_decrease(mid).max_depth(md).min_weight_split(mws).min_weight_leaf(mwl) } };
                let (vref, again, vval, readback) = guard_obs(&mk, &|c| vec![c.min_impurity_decrease().pv(), match c.max_depth() { Some(n) => PV::Som(Box::new(PV::N(n as u64))), None => PV::Non }, PV::F32(c.min_weight_split()), PV::F32(c.min_weight_leaf())], v, &|p| dbg(p), &|c| dbg(c));
                let mut cs = vec![];
                if calls {
                    let p = mk();
                    let ds = Dataset::new(xf::<$F>(&dd.x), dd.y_cls.clone());
                    cs.push(fit_call::<_, _, _, linfa::Error>("fit", &p, &ds, &|m| dbg(m)));
                }
                Obs { vref, again, vval, readback, calls: cs }
            }),
        });
    }}}
    tree!(f64);
    tree!(f32);

    // ---- naive Bayes
    macro_rules! gnb { ($F:ty) => {{
        let dd = d.clone();
        bs.push(Builder {
            name: "GaussianNbParams", label: format!("GaussianNbParams<{},usize>", stringify!($F)), f32_: <$F>::IS32,
            fields: vec![fld("var_smoothing", fam0::<$F>(t), malformed::<$F>())],
            defaults: vec![Some(<$F>::of(1e-9).pv())],
            env: zip_env(&["var_smoothing"]),
            safe: Box::new(|_| true),
            run: std::sync::Arc::new(move |v: &[PV], dflt: bool, calls: bool| {
                let vs = <$F>::get(&v[0]);
                let mk = || { let p = GaussianNb::<$F, usize>::params(); if dflt { p } else { p.var_smoothing(vs) } };
                let (vref, again, vval, readback) = guard_obs(&mk, &|c| vec![c.var_smoothing().pv()], v, &|p| dbg(p), &|c| dbg(c));
                let mut cs = vec![];
                if calls {
                    let p = mk();
                    let x = xf::<$F>(&dd.x);
                    let ds = Dataset::new(x.clone(), dd.y_cls.clone());
                    let x2 = x.clone();
                    cs.push(fit_call::<_, _, _, linfa_bayes::NaiveBayesError>("fit", &p, &ds, &|m| dbg(&m.predict(&x))));
                    cs.push(fit_with_call::<_, _, _, linfa_bayes::NaiveBayesError>("fit_with", &p, &|| None, &ds, &move |m: &Option<GaussianNb<$F, usize>>| dbg(&m.as_ref().map(|m| m.predict(&x2)))));
                }
                Obs { vref, again, vval, readback, calls: cs }
            }),
        });
    }}}
    gnb!(f64);
    gnb!(f32);
    {
        let dd = d.clone();
        bs.push(Builder {
            name: "MultinomialNbParams", label: "MultinomialNbParams<f64,usize>".into(), f32_: false,
            fields: vec![fld("alpha", fam0::<f64>(t), malformed::<f64>())],
            defaults: vec![Some(PV::F(1.0))],
            env: zip_env(&["alpha"]),
            safe: Box::new(|_| true),
            run: std::sync::Arc::new(move |v: &[PV], dflt: bool, calls: bool| {
                let a = v[0].f64();
                let mk = || { let p = MultinomialNb::<f64, usize>::params(); if dflt { p } else { p.alpha(a) } };
                let (vref, again, vval, readback) = guard_obs(&mk, &|c| vec![PV::F(c.alpha())], v, &|p| dbg(p), &|c| dbg(c));
                let mut cs = vec![];
                if calls {
                    let p = mk();
                    let ds = Dataset::new(dd.x_cnt.clone(), dd.y_cls.clone());
                    let (x1, x2) = (dd.x_cnt.clone(), dd.x_cnt.clone());
                    cs.push(fit_call::<_, _, _, linfa_bayes::NaiveBayesError>("fit", &p, &ds, &move |m| dbg(&m.predict(&x1))));
                    cs.push(fit_with_call::<_, _, _, linfa_bayes::NaiveBayesError>("fit_with", &p, &|| None, &ds, &move |m: &Option<MultinomialNb<f64, usize>>| dbg(&m.as_ref().map(|m| m.predict(&x2)))));
                }
                Obs { vref, again, vval, readback, calls: cs }
            }),
        });
    }

    // ---- FTRL
    {
        let dd = d.clone();
        bs.push(Builder {
            name: "FtrlParams", label: "FtrlParams<f64,Xoshiro256Plus>".into(), f32_: false,
            fields: vec![fld("alpha", fam0::<f64>(t), malformed::<f64>()), fld("beta", fam0::<f64>(t), malformed::<f64>()),
                         fld("l1_ratio", fam01::<f64>(t), malformed::<f64>()), fld("l2_ratio", fam01::<f64>(t), malformed::<f64>())],
            defaults: vec![Some(PV::F(0.005)), Some(PV::F(0.0)), Some(PV::F(0.5)), Some(PV::F(0.5))],
            env: zip_env(&["alpha", "beta", "l1_ratio", "l2_ratio"]),
            safe: Box::new(|_| true),
            run: std::sync::Arc::new(move |v: &[PV], dflt: bool, calls: bool| {
                let (a, b, l1, l2) = (v[0].f64(), v[1].f64(), v[2].f64(), v[3].f64());
                let mk = || { let p = Ftrl::<f64>::params_with_rng(rng()); if dflt { p } else { p.alpha(a).beta(b).l1_ratio(l1).l2_ratio(l2) } };
                let (vref, again, vval, readback) = guard_obs(&mk, &|c| vec![PV::F(c.alpha()), PV::F(c.beta()), PV::F(c.l1_ratio()), PV::F(c.l2_ratio())], v, &|p| dbg(p), &|c| dbg(c));
                let mut cs = vec![];
                if calls {
                    let p = mk();
                    let ds = Dataset::new(dd.x.clone(), dd.y_bool.clone());
                    cs.push(fit_with_call::<_, _, _, linfa_ftrl::FtrlError>("fit_with", &p, &|| None, &ds, &|m| dbg(m)));
                }
                Obs { vref, again, vval, readback, calls: cs }
            }),
        });
    }

    // ---- PLS (the three public builders generated by one macro)
    macro_rules! pls { ($T:ident, $lab:expr) => {{
        let dd = d.clone();
        bs.push(Builder {
            name: "PlsXParams", label: $lab.into(), f32_: false,
            fields: vec![fld("tolerance", fam0::<f64>(t), malformed::<f64>()), fld("max_iter", counts(&[0, 1, 200]), vec![])],
            defaults: vec![Some(PV::F(1e-6)), Some(PV::N(500))],
            env: zip_env(&["tolerance", "max_iter"]),
            safe: Box::new(|_| true),
            run: std::sync::Arc::new(move |v: &[PV], dflt: bool, calls: bool| {
                let (tol, mi) = (v[0].f64(), v[1].n() as usize);
                let mk = || { let p = $T::<f64>::params(2); if dflt { p } else { p.tolerance(tol).max_iterations(mi) } };
                // neither the builder nor the checked wrapper is Debug or has getters: no read-back possible
                let (vref, again, vval, readback) = guard_obs(&mk, &|_| vec![], &[], &|_| String::new(), &|_| String::new());
                let mut cs = vec![];
                if calls {
                    let p = mk();
                    let ds = Dataset::new(dd.x.clone(), dd.y2.clone());
                    cs.push(fit_call::<_, _, _, linfa_pls::PlsError>("fit", &p, &ds, &|m| dbg(m)));
                }
                Obs { vref, again, vval, readback, calls: cs }
            }),
        });
    }}}
    pls!(PlsRegression, "PlsRegressionParams<f64>");
    pls!(PlsCanonical, "PlsCanonicalParams<f64>");
    pls!(PlsCca, "PlsCcaParams<f64>");

    // ---- t-SNE (hand-written `transform` on the unchecked builder)
    {
        let dd = d.clone();
        bs.push(Builder {
            name: "TSneParams", label: "TSneParams<f64,SmallRng>".into(), f32_: false,
            fields: vec![fld("perplexity", fam0::<f64>(t), malformed::<f64>()), fld("approx_threshold", fam0::<f64>(t), malformed::<f64>())],
            defaults: vec![Some(PV::F(5.0)), Some(PV::F(0.5))],
            env: zip_env(&["perplexity", "approx_threshold"]),
            safe: Box::new(|v| v[0].f64() <= 10.0 && v[1].f64() <= 10.0),
            run: std::sync::Arc::new(move |v: &[PV], dflt: bool, calls: bool| {
                let (px, th) = (v[0].f64(), v[1].f64());
                let mk = || { let p = TSneParams::<f64, _>::embedding_size(2); if dflt { p } else { p.perplexity(px).approx_threshold(th).max_iter(20) } };
                let (vref, again, vval, readback) = guard_obs(&mk, &|c| vec![PV::F(c.perplexity()), PV::F(c.approx_threshold())], v, &|p| dbg(p), &|c| dbg(c));
                let mut cs = vec![];
                if calls {
                    let p = mk();
                    let ge = p.check_ref().err().map(es);
                    // the two hand-written `impl Transformer ... for TSneParams` (keys: method:first type argument of the trait)
                    cs.push(call_obs("transform:Array2<F>", ge.clone(),
                        &|| Transformer::<Array2<f64>, Result<Array2<f64>, linfa_tsne::TSneError>>::transform(&p, dd.x.clone()).map(|m| dbg(&m)).map_err(es),
                        &|| p.check_ref().ok().map(|c| Transformer::<Array2<f64>, Result<Array2<f64>, linfa_tsne::TSneError>>::transform(c, dd.x.clone()).map(|m| dbg(&m)).map_err(es))));
                    type Ds = DatasetBase<Array2<f64>, Array1<usize>>;
                    let mkds = || DatasetBase::new(dd.x.clone(), dd.y_cls.clone());
                    cs.push(call_obs("transform:DatasetBase<Array2<F>,T>", ge,
                        &|| Transformer::<Ds, Result<Ds, linfa_tsne::TSneError>>::transform(&p, mkds()).map(|m| dbg(m.records())).map_err(es),
                        &|| p.check_ref().ok().map(|c| Transformer::<Ds, Result<Ds, linfa_tsne::TSneError>>::transform(c, mkds()).map(|m| dbg(m.records())).map_err(es))));
                }
                Obs { vref, again, vval, readback, calls: cs }
            }),
        });
    }

    // ---- FastICA: tolerance and the G function (the alpha of Logcosh is documented as [1, 2]; guarded since the repair of F-C04-1)
    {
        let dd = d.clone();
        let lc = |a: f64| PV::Ctor("Logcosh", vec![PV::F(a)]);
        let gcands = vec![lc(-1.0), lc(0.5), lc(1.0f64.down()), lc(1.0), lc(1.5), lc(2.0), lc(2.0f64.up()), lc(10.0), PV::Ctor("Exp", vec![]), PV::Ctor("Cube", vec![])];
        bs.push(Builder {
            name: "FastIcaParams", label: "FastIcaParams<f64>".into(), f32_: false,
            fields: vec![fld("tol", fam0::<f64>(t), malformed::<f64>()), fld("gfunc", gcands, malformed::<f64>().into_iter().map(|x| PV::Ctor("Logcosh", vec![x])).collect())],
            defaults: vec![Some(PV::F(1e-4)), Some(lc(1.0))],
            env: zip_env(&["tol", "gfunc"]),
            safe: Box::new(|_| true),
            run: std::sync::Arc::new(move |v: &[PV], dflt: bool, calls: bool| {
                let tol = v[0].f64();
                let g = match &v[1] { PV::Ctor("Logcosh", a) => GFunc::Logcosh(a[0].f64()), PV::Ctor("Exp", _) => GFunc::Exp, _ => GFunc::Cube };
                let mk = || { let p = FastIca::<f64>::params(); if dflt { p } else { p.tol(tol).gfunc(g).max_iter(20).random_state(3) } };
                let gpv = |g: &GFunc| match g { GFunc::Logcosh(a) => PV::Ctor("Logcosh", vec![PV::F(*a)]), GFunc::Exp => PV::Ctor("Exp", vec![]), GFunc::Cube => PV::Ctor("Cube", vec![]) };
                let (vref, again, vval, readback) = guard_obs(&mk, &|c| vec![PV::F(c.tol()), gpv(c.gfunc())], v, &|p| dbg(p), &|c| dbg(c));
                let mut cs = vec![];
                // (the default builder has no random_state: two fits differ legitimately, so it is not trained)
                if calls && !dflt {
                    let p = mk();
                    let ds = DatasetBase::from(dd.x.clone());
                    cs.push(fit_call::<_, _, _, linfa_ica::error::FastIcaError>("fit", &p, &ds, &|m| dbg(m)));
                }
                Obs { vref, again, vval, readback, calls: cs }
            }),
        });
    }

    // ---- diffusion map
    {
        let dd = d.clone();
        bs.push(Builder {
            name: "DiffusionMapParams", label: "DiffusionMapParams".into(), f32_: false,
            fields: vec![fld("steps", counts(&[0, 1, 2]), vec![]), fld("embedding_size", counts(&[0, 1, 2]), vec![])],
            defaults: vec![Some(PV::N(1)), None],
            env: zip_env(&["steps", "embedding_size"]),
            safe: Box::new(|_| true),
            run: std::sync::Arc::new(move |v: &[PV], dflt: bool, calls: bool| {
                let (st, em) = (v[0].n() as usize, v[1].n() as usize);
                let mk = || { let p = DiffusionMap::<f64>::params(em); if dflt { p } else { p.steps(st) } };
                let (vref, again, vval, readback) = guard_obs(&mk, &|c| vec![PV::N(c.steps() as u64), PV::N(c.embedding_size() as u64)], v, &|p| dbg(p), &|c| dbg(c));
                let mut cs = vec![];
                if calls {
                    let p = mk();
                    cs.push(transform_call("transform", &p, &|| &dd.kernel, &|m: &DiffusionMap<f64>| dbg(m)));
                }
                Obs { vref, again, vval, readback, calls: cs }
            }),
        });
    }

    // ---- random projection: target dimension or precision
    {
        let dd = d.clone();
        let mut cands: Vec<PV> = [0u64, 1, 5].iter().map(|n| PV::Ctor("Dimension", vec![PV::N(*n)])).collect();
        for x in [-1.0, -0.0, 0.0, f64::from_bits(1), 0.5, 0.9, 1.0f64.down(), 1.0, 1.0f64.up(), 2.0] {
            cands.push(PV::Ctor("Epsilon", vec![PV::F(x)]));
        }
        bs.push(Builder {
            name: "RandomProjectionParams", label: "RandomProjectionParams<Gaussian,Xoshiro256Plus>".into(), f32_: false,
            fields: vec![fld("params", cands, malformed::<f64>().into_iter().map(|x| PV::Ctor("Epsilon", vec![x])).collect())],
            defaults: vec![Some(PV::Ctor("Epsilon", vec![PV::F(0.1)]))],
            env: zip_env(&["params"]),
            safe: Box::new(|_| true),
            run: std::sync::Arc::new(move |v: &[PV], dflt: bool, calls: bool| {
                let sel = v[0].clone();
                let mk = || {
                    let p = GaussianRandomProjection::<f64>::params();
                    if dflt { p } else { match &sel { PV::Ctor("Dimension", a) => p.target_dim(a[0].n() as usize), PV::Ctor(_, a) => p.eps(a[0].f64()), _ => p } }
                };
                let (vref, again, vval, readback) = guard_obs(&mk, &|c| vec![match (c.target_dim(), c.eps()) { (Some(dm), _) => PV::Ctor("Dimension", vec![PV::N(dm as u64)]), (_, Some(e)) => PV::Ctor("Epsilon", vec![PV::F(e)]), _ => PV::Non }], v, &|_| String::new(), &|_| String::new());
                let mut cs = vec![];
                if calls {
                    let p = mk();
                    let ds = DatasetBase::from(dd.xwide.clone());
                    let xw = dd.xwide.clone();
                    cs.push(fit_call::<_, _, _, linfa_reduction::ReductionError>("fit", &p, &ds, &move |m: &GaussianRandomProjection<f64>| dbg(&m.transform(&xw))));
                }
                Obs { vref, again, vval, readback, calls: cs }
            }),
        });
    }

    // ---- hierarchical clustering: number of clusters or distance
    {
        let dd = d.clone();
        let mut cands: Vec<PV> = [0u64, 1, 3].iter().map(|n| PV::Ctor("NumClusters", vec![PV::N(*n)])).collect();
        for x in fam0::<f64>(t) {
            cands.push(PV::Ctor("Distance", vec![x]));
        }
        bs.push(Builder {
            name: "HierarchicalCluster", label: "HierarchicalCluster<f64>".into(), f32_: false,
            fields: vec![fld("stopping", cands, malformed::<f64>().into_iter().map(|x| PV::Ctor("Distance", vec![x])).collect())],
            defaults: vec![Some(PV::Ctor("NumClusters", vec![PV::N(2)]))],
            env: zip_env(&["stopping"]),
            safe: Box::new(|_| true),
            run: std::sync::Arc::new(move |v: &[PV], dflt: bool, calls: bool| {
                let sel = v[0].clone();
                let mk = || {
                    let p = HierarchicalCluster::<f64>::default();
                    if dflt { p } else { match &sel { PV::Ctor("NumClusters", a) => p.num_clusters(a[0].n() as usize), PV::Ctor(_, a) => p.max_distance(a[0].f64()), _ => p } }
                };
                let exp = match &sel { _ if dflt => "stopping: NumClusters(2)".to_string(), PV::Ctor("NumClusters", a) => format!("stopping: NumClusters({})", a[0].n()), PV::Ctor(_, a) => format!("stopping: Distance({:?})", a[0].f64()), _ => String::new() };
                let (vref, again, vval, readback) = guard_obs(&mk, &|c| vec![if dbg(c).contains(&exp) { PV::Non } else { PV::B(false) }], &[PV::Non], &|p| dbg(p), &|c| dbg(c));
                let mut cs = vec![];
                if calls {
                    let p = mk();
                    cs.push(transform_call("transform", &p, &|| dd.kernel.clone(), &|m: &DatasetBase<Kernel<f64>, Vec<usize>>| dbg(m.targets())));
                }
                Obs { vref, again, vval, readback, calls: cs }
            }),
        });
    }

    // ---- count vectoriser (hand-written `fit` on the unchecked builder; f32 frequencies)
    {
        let dd = d.clone();
        let fr: Vec<f32> = vec![-1.0, -f32::from_bits(1), -0.0, 0.0, 0.25, 1.0f32.down(), 1.0, 1.0f32.up(), 2.0];
        bs.push(Builder {
            name: "CountVectorizerParams", label: "CountVectorizerParams".into(), f32_: false,
            fields: vec![fld("n_gram_min", counts(&[0, 1, 2]), vec![]), fld("n_gram_max", counts(&[0, 1, 2]), vec![]),
                         fld("min_freq", fr.iter().map(|x| PV::F32(*x)).collect(), malformed::<f32>()), fld("max_freq", fr.iter().map(|x| PV::F32(*x)).collect(), malformed::<f32>()),
                         fld("regex_ok", vec![PV::B(true), PV::B(false)], vec![])],
            defaults: vec![Some(PV::N(1)), Some(PV::N(1)), Some(PV::F32(0.0)), Some(PV::F32(1.0)), Some(PV::B(true))],
            env: Box::new(|v: &[PV]| vec![("n_gram_range", PV::Tup(vec![v[0].clone(), v[1].clone()])), ("document_frequency", PV::Tup(vec![v[2].clone(), v[3].clone()])),
                                          ("split_regex_expr_compiles", v[4].clone())]),
            safe: Box::new(|_| true),
            run: std::sync::Arc::new(move |v: &[PV], dflt: bool, calls: bool| {
                let (n1, n2, f1, f2) = (v[0].n() as usize, v[1].n() as usize, f32::get(&v[2]), f32::get(&v[3]));
                let ok = matches!(v[4], PV::B(true));
                let expr = if ok { r"\b\w\w+\b" } else { r"(\w+" };
                assert_eq!(regex::Regex::new(expr).is_ok(), ok);
                let mk = || { let p = CountVectorizer::params(); if dflt { p } else { p.n_gram_range(n1, n2).document_frequency(f1, f2).tokenizer(Tokenizer::Regex(expr.to_string())) } };
                let want = vec![v[0].clone(), v[1].clone(), v[2].clone(), v[3].clone()];
                // the builder caches the compiled regex in a RefCell: its Debug rendering legitimately changes
                let (vref, again, vval, readback) = guard_obs(&mk, &|c| vec![PV::N(c.n_gram_range().0 as u64), PV::N(c.n_gram_range().1 as u64), PV::F32(c.document_frequency().0), PV::F32(c.document_frequency().1)],
                                                              &want, &|_| String::new(), &|c| format!("{:?} {:?} {:?} {:?} {:?}", c.n_gram_range(), c.document_frequency(), c.convert_to_lowercase(), c.normalize(), c.max_features()));
                let mut cs = vec![];
                if calls {
                    let p = mk();
                    let ge = p.check_ref().err().map(es);
                    let voc = |m: &CountVectorizer| { let mut w = m.vocabulary().clone(); w.sort(); dbg(&w) };
                    // the three hand-written methods of CountVectorizerParams (keys: method:type of the first parameter)
                    cs.push(call_obs("fit:&ArrayBase<D,Ix1>", ge.clone(), &|| p.fit(&dd.docs).map(|m| voc(&m)).map_err(es), &|| p.check_ref().ok().map(|c| c.fit(&dd.docs).map(|m| voc(&m)).map_err(es))));
                    cs.push(call_obs("fit_files:&[P]", ge.clone(),
                        &|| p.fit_files(&dd.files, encoding::all::UTF_8, encoding::DecoderTrap::Strict).map(|m| voc(&m)).map_err(es),
                        &|| p.check_ref().ok().map(|c| c.fit_files(&dd.files, encoding::all::UTF_8, encoding::DecoderTrap::Strict).map(|m| voc(&m)).map_err(es))));
                    let words = ["one", "two"];
                    cs.push(call_obs("fit_vocabulary:&[T]", ge, &|| p.fit_vocabulary(&words).map(|m| voc(&m)).map_err(es), &|| p.check_ref().ok().map(|c| c.fit_vocabulary(&words).map(|m| voc(&m)).map_err(es))));
                }
                Obs { vref, again, vval, readback, calls: cs }
            }),
        });
    }
    bs
}


// ------------------------------------------------------------------------------------------------
// setter independence: the same intended parameter set built through different setter chain orders

struct ChainSpec {
    names: Vec<&'static str>,
    want: Vec<(&'static str, String)>,
    /// (rendering of the unchecked builder, fields read back from the checked form when check_ref accepts)
    eval: Box<dyn Fn(&[usize]) -> (String, Option<Vec<(&'static str, String)>>)>,
}

type Setter<P> = (&'static str, Box<dyn Fn(P) -> P>);
fn st<P>(n: &'static str, f: impl Fn(P) -> P + 'static) -> Setter<P> { (n, Box::new(f)) }
fn dv<T: Debug>(x: T) -> String { format!("{:?}", x) }

fn mk_chain<P: ParamGuard + 'static>(
    start: impl Fn() -> P + 'static, setters: Vec<Setter<P>>, render: impl Fn(&P) -> String + 'static,
    getters: impl Fn(&P::Checked) -> Vec<(&'static str, String)> + 'static, want: Vec<(&'static str, String)>,
) -> ChainSpec {
    let names = setters.iter().map(|t| t.0).collect();
    ChainSpec {
        names, want,
        eval: Box::new(move |order: &[usize]| {
            let mut p = start();
            for &i in order { p = (setters[i].1)(p); }
            let r = render(&p);
            let rb = p.check_ref().ok().map(|c| getters(c));
            (r, rb)
        }),
    }
}

struct ChainBuilder {
    name: &'static str,                       // the translator's name of the builder
    label: &'static str,                      // label of the Builder (instantiation) whose grid supplies the intended values
    spec: Box<dyn Fn(&[PV]) -> ChainSpec>,
    /// public setters that are deliberately not chained, with the reason
    skipped: Vec<(&'static str, &'static str)>,
}

fn chain_builders(d: &std::sync::Arc<Data>) -> Vec<ChainBuilder> {
    use linfa_clustering::{GmmCovarType, GmmInitMethod, KMeansInit};
    use linfa_nn::CommonNearestNeighbour;
    let mut cb: Vec<ChainBuilder> = vec![];

    cb.push(ChainBuilder { name: "KMeansParams", label: "KMeansParams<f64,Xoshiro256Plus,L2Dist>", skipped: vec![], spec: Box::new(|v| {
        type P = linfa_clustering::KMeansParams<f64, Xoshiro256Plus, L2Dist>;
        let (k, nr, tol, mi) = (v[0].n() as usize, v[1].n() as usize, v[2].f64(), v[3].n());
        mk_chain(move || KMeans::<f64, _>::params_with(k, rng(), L2Dist),
            vec![st::<P>("n_runs", move |p| p.n_runs(nr)), st::<P>("tolerance", move |p| p.tolerance(tol)), st::<P>("max_n_iterations", move |p| p.max_n_iterations(mi)),
                 st::<P>("init_method", |p| p.init_method(KMeansInit::Random))],
            |p| dv(p),
            |c| vec![("n_clusters", dv(c.n_clusters())), ("n_runs", dv(c.n_runs())), ("tolerance", dv(c.tolerance())), ("max_n_iterations", dv(c.max_n_iterations())), ("init_method", dv(c.init_method()))],
            vec![("n_clusters", dv(k)), ("n_runs", dv(nr)), ("tolerance", dv(tol)), ("max_n_iterations", dv(mi)), ("init_method", dv(KMeansInit::<f64>::Random))])
    }) });

    cb.push(ChainBuilder { name: "DbscanParams", label: "DbscanParams<f64,L2Dist,CommonNearestNeighbour>", skipped: vec![], spec: Box::new(|v| {
        type P = linfa_clustering::DbscanParams<f64, L2Dist, CommonNearestNeighbour>;
        let (mp, tol) = (v[0].n() as usize, v[1].f64());
        mk_chain(move || Dbscan::params::<f64>(mp),
            vec![st::<P>("tolerance", move |p| p.tolerance(tol)), st::<P>("nn_algo", |p| p.nn_algo(CommonNearestNeighbour::BallTree)), st::<P>("dist_fn", |p| p.dist_fn(L2Dist))],
            |p| dv(p),
            |c| vec![("min_points", dv(c.minimum_points())), ("tolerance", dv(c.tolerance())), ("nn_algo", dv(c.nn_algo())), ("dist_fn", dv(c.dist_fn()))],
            vec![("min_points", dv(mp)), ("tolerance", dv(tol)), ("nn_algo", dv(CommonNearestNeighbour::BallTree)), ("dist_fn", dv(L2Dist))])
    }) });

    cb.push(ChainBuilder { name: "OpticsParams", label: "OpticsParams<f64,L2Dist,CommonNearestNeighbour>", skipped: vec![], spec: Box::new(|v| {
        type P = linfa_clustering::OpticsParams<f64, L2Dist, CommonNearestNeighbour>;
        let (mp, tol) = (v[0].n() as usize, v[1].f64());
        mk_chain(move || Optics::params::<f64>(mp),
            vec![st::<P>("tolerance", move |p| p.tolerance(tol)), st::<P>("dist_fn", |p| p.dist_fn(L2Dist)), st::<P>("nn_algo", |p| p.nn_algo(CommonNearestNeighbour::BallTree))],
            |p| dv(p),
            |c| vec![("min_points", dv(c.minimum_points())), ("tolerance", dv(c.tolerance())), ("nn_algo", dv(c.nn_algo())), ("dist_fn", dv(c.dist_fn()))],
            vec![("min_points", dv(mp)), ("tolerance", dv(tol)), ("nn_algo", dv(CommonNearestNeighbour::BallTree)), ("dist_fn", dv(L2Dist))])
    }) });

    cb.push(ChainBuilder { name: "GmmParams", label: "GmmParams<f64,Xoshiro256Plus>", skipped: vec![], spec: Box::new(|v| {
        type P = linfa_clustering::GmmParams<f64, Xoshiro256Plus>;
        let (k, tol, rc, nr, mi) = (v[0].n() as usize, v[1].f64(), v[2].f64(), v[3].n(), v[4].n());
        mk_chain(move || GaussianMixtureModel::<f64>::params_with_rng(k, rng()),
            vec![st::<P>("covariance_type", |p| p.covariance_type(GmmCovarType::Full)), st::<P>("tolerance", move |p| p.tolerance(tol)), st::<P>("reg_covariance", move |p| p.reg_covariance(rc)),
                 st::<P>("n_runs", move |p| p.n_runs(nr)), st::<P>("max_n_iterations", move |p| p.max_n_iterations(mi)), st::<P>("init_method", |p| p.init_method(GmmInitMethod::Random)),
                 st::<P>("with_rng", |p| p.with_rng(rng()))],
            |p| dv(p),
            |c| vec![("n_clusters", dv(c.n_clusters())), ("covariance_type", dv(c.covariance_type())), ("tolerance", dv(c.tolerance())), ("reg_covariance", dv(c.reg_covariance())),
                     ("n_runs", dv(c.n_runs())), ("max_n_iterations", dv(c.max_n_iterations())), ("init_method", dv(c.init_method())), ("rng", dv(c.rng()))],
            vec![("n_clusters", dv(k)), ("covariance_type", dv(GmmCovarType::Full)), ("tolerance", dv(tol)), ("reg_covariance", dv(rc)), ("n_runs", dv(nr)), ("max_n_iterations", dv(mi)),
                 ("init_method", dv(GmmInitMethod::Random)), ("rng", dv(rng()))])
    }) });

    cb.push(ChainBuilder { name: "ElasticNetParamsBase", label: "ElasticNetParams<f64>", skipped: vec![], spec: Box::new(|v| {
        type P = linfa_elasticnet::ElasticNetParams<f64>;
        let (pen, l1, tol, mi) = (v[0].f64(), v[1].f64(), v[2].f64(), v[3].n() as u32);
        mk_chain(|| ElasticNet::<f64>::params(),
            vec![st::<P>("penalty", move |p| p.penalty(pen)), st::<P>("l1_ratio", move |p| p.l1_ratio(l1)), st::<P>("with_intercept", |p| p.with_intercept(false)),
                 st::<P>("tolerance", move |p| p.tolerance(tol)), st::<P>("max_iterations", move |p| p.max_iterations(mi))],
            |p| dv(p),
            |c| vec![("penalty", dv(c.penalty())), ("l1_ratio", dv(c.l1_ratio())), ("with_intercept", dv(c.with_intercept())), ("tolerance", dv(c.tolerance())), ("max_iterations", dv(c.max_iterations()))],
            vec![("penalty", dv(pen)), ("l1_ratio", dv(l1)), ("with_intercept", dv(false)), ("tolerance", dv(tol)), ("max_iterations", dv(mi))])
    }) });

    cb.push(ChainBuilder { name: "FtrlParams", label: "FtrlParams<f64,Xoshiro256Plus>", skipped: vec![], spec: Box::new(|v| {
        type P = linfa_ftrl::FtrlParams<f64, Xoshiro256Plus>;
        let (a, b, l1, l2) = (v[0].f64(), v[1].f64(), v[2].f64(), v[3].f64());
        mk_chain(|| Ftrl::<f64>::params_with_rng(rng()),
            vec![st::<P>("alpha", move |p| p.alpha(a)), st::<P>("beta", move |p| p.beta(b)), st::<P>("l1_ratio", move |p| p.l1_ratio(l1)), st::<P>("l2_ratio", move |p| p.l2_ratio(l2)),
                 st::<P>("rng", |p| p.rng(Xoshiro256Plus::seed_from_u64(11)))],
            |p| dv(p),
            |c| vec![("alpha", dv(c.alpha())), ("beta", dv(c.beta())), ("l1_ratio", dv(c.l1_ratio())), ("l2_ratio", dv(c.l2_ratio())), ("rng", dv(c.rng()))],
            vec![("alpha", dv(a)), ("beta", dv(b)), ("l1_ratio", dv(l1)), ("l2_ratio", dv(l2)), ("rng", dv(Xoshiro256Plus::seed_from_u64(11)))])
    }) });

    cb.push(ChainBuilder { name: "HierarchicalCluster", label: "HierarchicalCluster<f64>",
        skipped: vec![], spec: Box::new(|v| {
        type P = HierarchicalCluster<f64>;
        // num_clusters and max_distance both set the stopping criterion: the intended set uses one of them
        let sel = v[0].clone();
        let (nm, stop): (&'static str, String) = match &sel { PV::Ctor("NumClusters", a) => ("num_clusters", format!("NumClusters({})", a[0].n())), PV::Ctor(_, a) => ("max_distance", format!("Distance({:?})", a[0].f64())), _ => ("num_clusters", String::new()) };
        let s2 = sel.clone();
        mk_chain(|| HierarchicalCluster::<f64>::default(),
            vec![st::<P>("with_method", |p| p.with_method(linfa_hierarchical::Method::Complete)),
                 st::<P>(nm, move |p| match &s2 { PV::Ctor("NumClusters", a) => p.num_clusters(a[0].n() as usize), PV::Ctor(_, a) => p.max_distance(a[0].f64()), _ => p })],
            |p| dv(p),
            |c| { let t = dv(c); vec![("method", if t.contains("method: Complete") { "Complete".to_string() } else { t.clone() }), ("stopping", t[t.find("stopping: ").map(|i| i + 10).unwrap_or(0)..].trim_end_matches(|ch| ch == ' ' || ch == '}').to_string())] },
            vec![("method", "Complete".to_string()), ("stopping", stop)])
    }) });

    cb.push(ChainBuilder { name: "FastIcaParams", label: "FastIcaParams<f64>", skipped: vec![], spec: Box::new(|v| {
        type P = linfa_ica::hyperparams::FastIcaParams<f64>;
        let tol = v[0].f64();
        let g = match &v[1] { PV::Ctor("Logcosh", a) => GFunc::Logcosh(a[0].f64()), PV::Ctor("Exp", _) => GFunc::Exp, _ => GFunc::Cube };
        mk_chain(|| FastIca::<f64>::params(),
            vec![st::<P>("ncomponents", |p| p.ncomponents(2)), st::<P>("gfunc", move |p| p.gfunc(g)), st::<P>("max_iter", |p| p.max_iter(33)), st::<P>("tol", move |p| p.tol(tol)),
                 st::<P>("random_state", |p| p.random_state(5))],
            |p| dv(p),
            |c| vec![("ncomponents", dv(c.ncomponents())), ("gfunc", dv(c.gfunc())), ("max_iter", dv(c.max_iter())), ("tol", dv(c.tol())), ("random_state", dv(c.random_state()))],
            vec![("ncomponents", dv(Some(2usize))), ("gfunc", dv(g)), ("max_iter", dv(33usize)), ("tol", dv(tol)), ("random_state", dv(Some(5usize)))])
    }) });

    cb.push(ChainBuilder { name: "TweedieRegressorParams", label: "TweedieRegressorParams<f64>", skipped: vec![], spec: Box::new(|v| {
        type P = linfa_linear::TweedieRegressorParams<f64>;
        let (a, pw, tol) = (v[0].f64(), v[1].f64(), v[2].f64());
        mk_chain(|| TweedieRegressor::<f64>::params(),
            vec![st::<P>("alpha", move |p| p.alpha(a)), st::<P>("fit_intercept", |p| p.fit_intercept(false)), st::<P>("power", move |p| p.power(pw)), st::<P>("link", |p| p.link(linfa_linear::Link::Log)),
                 st::<P>("max_iter", |p| p.max_iter(17)), st::<P>("tol", move |p| p.tol(tol))],
            |p| dv(p),
            |c| vec![("alpha", dv(c.alpha())), ("fit_intercept", dv(c.fit_intercept())), ("power", dv(c.power())), ("link", dv(c.link())), ("max_iter", dv(c.max_iter())), ("tol", dv(c.tol()))],
            vec![("alpha", dv(a)), ("fit_intercept", dv(false)), ("power", dv(pw)), ("link", dv(linfa_linear::Link::Log)), ("max_iter", dv(17usize)), ("tol", dv(tol))])
    }) });

    cb.push(ChainBuilder { name: "LogisticRegressionParams", label: "LogisticRegressionParams<f64,Ix1>", skipped: vec![], spec: Box::new(|v| {
        type P = LogisticRegression<f64>;
        let (a, g) = (v[0].f64(), v[1].f64());
        let init: Array1<f64> = match &v[2] { PV::Som(b) => match &**b { PV::Tup(l) => l.iter().map(|x| x.f64()).collect(), _ => array![0.0, 0.0, 0.0] }, _ => array![0.5, 0.25, -1.0] };
        let i2 = init.clone();
        // the checked struct has no getters: the fields are read from its Debug rendering
        let exp = format!("alpha: {:?}, fit_intercept: false, max_iterations: 17, gradient_tolerance: {:?}, initial_params: Some({:?})", a, g, init);
        mk_chain(|| LogisticRegression::<f64>::default(),
            vec![st::<P>("alpha", move |p| p.alpha(a)), st::<P>("with_intercept", |p| p.with_intercept(false)), st::<P>("max_iterations", |p| p.max_iterations(17)),
                 st::<P>("gradient_tolerance", move |p| p.gradient_tolerance(g)), st::<P>("initial_params", move |p| p.initial_params(i2.clone()))],
            |p| dv(p),
            |c| { let t = dv(c); vec![("all fields", t[t.find("alpha: ").unwrap_or(0)..].trim_end_matches(|ch| ch == ' ' || ch == '}').to_string())] },
            vec![("all fields", exp)])
    }) });

    {
        let dd = d.clone();
        cb.push(ChainBuilder { name: "PlsXParams", label: "PlsRegressionParams<f64>", skipped: vec![], spec: Box::new(move |v| {
            type P = linfa_pls::PlsRegressionParams<f64>;
            let (tol, mi) = (v[0].f64(), v[1].n() as usize);
            let ds = Dataset::new(dd.x.clone(), dd.y2.clone());
            // neither the builder nor the checked wrapper is Debug or has getters: the builder is observed through what fit returns
            mk_chain(|| PlsRegression::<f64>::params(2),
                vec![st::<P>("max_iterations", move |p| p.max_iterations(mi)), st::<P>("tolerance", move |p| p.tolerance(tol)), st::<P>("scale", |p| p.scale(false)),
                     st::<P>("algorithm", |p| p.algorithm(linfa_pls::Algorithm::Svd))],
                move |p| match guarded(AssertUnwindSafe(|| p.fit(&ds).map(|m| dv(&m)).map_err(es))) { Ok(r) => format!("{:.400?}", r), Err(e) => format!("panic {:.80}", e) },
                |_| vec![], vec![])
        }) });
    }

    cb.push(ChainBuilder { name: "CountVectorizerParams", label: "CountVectorizerParams", skipped: vec![], spec: Box::new(|v| {
        type P = linfa_preprocessing::CountVectorizerParams;
        let (n1, n2, f1, f2) = (v[0].n() as usize, v[1].n() as usize, f32::get(&v[2]), f32::get(&v[3]));
        mk_chain(|| CountVectorizer::params(),
            vec![st::<P>("tokenizer", |p| p.tokenizer(Tokenizer::Regex(r"\w+".to_string()))), st::<P>("max_features", |p| p.max_features(Some(3))), st::<P>("convert_to_lowercase", |p| p.convert_to_lowercase(false)),
                 st::<P>("n_gram_range", move |p| p.n_gram_range(n1, n2)), st::<P>("normalize", |p| p.normalize(false)), st::<P>("document_frequency", move |p| p.document_frequency(f1, f2)),
                 st::<P>("stopwords", |p| p.stopwords(&["one"]))],
            |p| dv(p),
            |c| vec![("max_features", dv(c.max_features())), ("convert_to_lowercase", dv(c.convert_to_lowercase())), ("n_gram_range", dv(c.n_gram_range())), ("normalize", dv(c.normalize())),
                     ("document_frequency", dv(c.document_frequency())), ("stopwords", dv(c.stopwords())), ("split_regex", c.split_regex().as_str().to_string())],
            vec![("max_features", dv(Some(3usize))), ("convert_to_lowercase", dv(false)), ("n_gram_range", dv((n1, n2))), ("normalize", dv(false)), ("document_frequency", dv((f1, f2))),
                 ("stopwords", dv(Some(["one".to_string()].iter().cloned().collect::<std::collections::HashSet<String>>()))), ("split_regex", r"\w+".to_string())])
    }) });

    cb.push(ChainBuilder { name: "DiffusionMapParams", label: "DiffusionMapParams", skipped: vec![], spec: Box::new(|v| {
        type P = linfa_reduction::DiffusionMapParams;
        let (stp, em) = (v[0].n() as usize, v[1].n() as usize);
        mk_chain(move || DiffusionMap::<f64>::params(7),
            vec![st::<P>("steps", move |p| p.steps(stp)), st::<P>("embedding_size", move |p| p.embedding_size(em))],
            |p| dv(p),
            |c| vec![("steps", dv(c.steps())), ("embedding_size", dv(c.embedding_size()))],
            vec![("steps", dv(stp)), ("embedding_size", dv(em))])
    }) });

    cb.push(ChainBuilder { name: "RandomProjectionParams", label: "RandomProjectionParams<Gaussian,Xoshiro256Plus>", skipped: vec![], spec: Box::new(|v| {
        use linfa_reduction::random_projection::RandomProjectionParams as Rp;
        // target_dim and eps both set the one `params` field: the intended set uses one of them
        let sel = v[0].clone();
        let s2 = sel.clone();
        let (nm, want): (&'static str, (Option<usize>, Option<f64>)) = match &sel { PV::Ctor("Dimension", a) => ("target_dim", (Some(a[0].n() as usize), None)), PV::Ctor(_, a) => ("eps", (None, Some(a[0].f64()))), _ => ("eps", (None, None)) };
        // (the projection marker type is private and not Debug: the builder is rendered through the checked getters)
        mk_chain(|| GaussianRandomProjection::<f64>::params(),
            vec![st(nm, move |p: Rp<_, Xoshiro256Plus>| match &s2 { PV::Ctor("Dimension", a) => p.target_dim(a[0].n() as usize), PV::Ctor(_, a) => p.eps(a[0].f64()), _ => p }),
                 st("with_rng", |p: Rp<_, Xoshiro256Plus>| p.with_rng(rng()))],
            |p| match p.check_ref() { Ok(c) => format!("{:?} {:?} {:?}", c.target_dim(), c.eps(), c.rng()), Err(e) => dv(e) },
            |c| vec![("target_dim", dv(c.target_dim())), ("eps", dv(c.eps())), ("rng", dv(c.rng()))],
            vec![("target_dim", dv(want.0)), ("eps", dv(want.1)), ("rng", dv(rng()))])
    }) });

    cb.push(ChainBuilder { name: "PlattParams", label: "PlattParams<f64,FittedLinearRegression<f64>>", skipped: vec![], spec: Box::new(|v| {
        type P = PlattParams<f64, linfa_linear::FittedLinearRegression<f64>>;
        let (mi, ms, sg) = (v[0].n() as usize, v[1].f64(), v[2].f64());
        mk_chain(|| { let p: P = Platt::params(); p },
            vec![st::<P>("maxiter", move |p| p.maxiter(mi)), st::<P>("minstep", move |p| p.minstep(ms)), st::<P>("sigma", move |p| p.sigma(sg))],
            |p| dv(p),
            |c| { let t = dv(c); vec![("all fields", t[t.find("maxiter: ").unwrap_or(0)..].to_string())] },
            vec![("all fields", format!("maxiter: {}, minstep: {:?}, sigma: {:?}, phantom: PhantomData<{}> }}", mi, ms, sg, "linfa_linear::ols::FittedLinearRegression<f64>"))])
    }) });

    cb.push(ChainBuilder { name: "SvmParams", label: "SvmParams<f64,bool|Pr|f64>",
        skipped: vec![("c_eps", "deprecated; sets C and the solver eps at once, overlapping with `eps` by design"), ("nu_eps", "deprecated; sets nu and the solver eps at once, overlapping with `eps` by design")],
        spec: Box::new(|v| {
        let (mode, a, b, eps) = (v[0].n(), v[1].f64(), v[2].f64(), v[3].f64());
        let (pmi, pms, psg) = (v[4].n() as usize, v[5].f64(), v[6].f64());
        let platt = move || { let p: PlattParams<f64, ()> = Platt::params(); p.maxiter(pmi).minstep(pms).sigma(psg) };
        let opt = |o: Option<(f64, f64)>| dv(o);
        // one setter of each group that writes the same field: C / nu (pos_neg_weights | nu_weight | c_svr | nu_svr), kernel (four setters)
        macro_rules! svm { ($L:ty, $cn:expr, $cset:expr, $kn:expr, $kset:expr, $want_c:expr, $want_nu:expr, $want_k:expr) => {{
            type P = linfa_svm::SvmParams<f64, $L>;
            mk_chain(|| Svm::<f64, $L>::params(),
                vec![st::<P>("eps", move |p| p.eps(eps)), st::<P>("shrinking", |p| p.shrinking(true)), st::<P>("with_platt_params", move |p| p.with_platt_params(platt())),
                     st::<P>($cn, $cset), st::<P>($kn, $kset)],
                |p| dv(p),
                move |c| vec![("c", opt(c.c())), ("nu", opt(c.nu())), ("eps", dv(c.solver_params().eps)), ("shrinking", dv(c.solver_params().shrinking)), ("kernel", dv(c.kernel_params())), ("platt", dv(c.platt_params()))],
                vec![("c", dv($want_c)), ("nu", dv($want_nu)), ("eps", dv(eps)), ("shrinking", dv(true)), ("kernel", dv($want_k)), ("platt", dv(platt()))])
        }}}
        let none: Option<(f64, f64)> = None;
        match mode {
            0 => svm!(bool, "pos_neg_weights", move |p| p.pos_neg_weights(a, b), "gaussian_kernel", |p| p.gaussian_kernel(2.0), Some((a, b)), none, Kernel::<f64>::params().method(KernelMethod::Gaussian(2.0))),
            1 => svm!(bool, "nu_weight", move |p| p.nu_weight(a), "polynomial_kernel", |p| p.polynomial_kernel(1.0, 3.0), none, Some((a, a)), Kernel::<f64>::params().method(KernelMethod::Polynomial(1.0, 3.0))),
            2 => svm!(f64, "c_svr", move |p| p.c_svr(a, Some(b)), "linear_kernel", |p| p.gaussian_kernel(9.0).linear_kernel(), Some((a, b)), none, Kernel::<f64>::params().method(KernelMethod::Linear)),
            3 => svm!(f64, "nu_svr", move |p| p.nu_svr(a, Some(b)), "with_kernel_params", |p| p.with_kernel_params(Kernel::params().method(KernelMethod::Gaussian(4.0))), none, Some((a, b)), Kernel::<f64>::params().method(KernelMethod::Gaussian(4.0))),
            _ => svm!(Pr, "pos_neg_weights", move |p| p.pos_neg_weights(a, b), "gaussian_kernel", |p| p.gaussian_kernel(2.0), Some((a, b)), none, Kernel::<f64>::params().method(KernelMethod::Gaussian(2.0))),
        }
    }) });

    cb.push(ChainBuilder { name: "DecisionTreeParams", label: "DecisionTreeParams<f64,usize>", skipped: vec![], spec: Box::new(|v| {
        type P = linfa_trees::DecisionTreeParams<f64, usize>;
        let mid = v[0].f64();
        let md = match &v[1] { PV::Som(b) => Some(b.n() as usize), _ => None };
        mk_chain(|| DecisionTree::<f64, usize>::params(),
            vec![st::<P>("split_quality", |p| p.split_quality(linfa_trees::SplitQuality::Entropy)), st::<P>("max_depth", move |p| p.max_depth(md)), st::<P>("min_weight_split", |p| p.min_weight_split(3.0)),
                 st::<P>("min_weight_leaf", |p| p.min_weight_leaf(1.5)), st::<P>("min_impurity_decrease", move |p| p.min_impurity_decrease(mid))],
            |p| dv(p),
            |c| vec![("split_quality", dv(c.split_quality())), ("max_depth", dv(c.max_depth())), ("min_weight_split", dv(c.min_weight_split())), ("min_weight_leaf", dv(c.min_weight_leaf())),
                     ("min_impurity_decrease", dv(c.min_impurity_decrease()))],
            vec![("split_quality", dv(linfa_trees::SplitQuality::Entropy)), ("max_depth", dv(md)), ("min_weight_split", dv(3.0f32)), ("min_weight_leaf", dv(1.5f32)), ("min_impurity_decrease", dv(mid))])
    }) });

    cb.push(ChainBuilder { name: "GaussianNbParams", label: "GaussianNbParams<f64,usize>", skipped: vec![], spec: Box::new(|v| {
        type P = linfa_bayes::GaussianNbParams<f64, usize>;
        let vs = v[0].f64();
        mk_chain(|| GaussianNb::<f64, usize>::params(), vec![st::<P>("var_smoothing", move |p| p.var_smoothing(vs))], |p| dv(p),
            |c| vec![("var_smoothing", dv(c.var_smoothing()))], vec![("var_smoothing", dv(vs))])
    }) });
    cb.push(ChainBuilder { name: "MultinomialNbParams", label: "MultinomialNbParams<f64,usize>", skipped: vec![], spec: Box::new(|v| {
        type P = linfa_bayes::MultinomialNbParams<f64, usize>;
        let a = v[0].f64();
        mk_chain(|| MultinomialNb::<f64, usize>::params(), vec![st::<P>("alpha", move |p| p.alpha(a))], |p| dv(p),
            |c| vec![("alpha", dv(c.alpha()))], vec![("alpha", dv(a))])
    }) });

    cb.push(ChainBuilder { name: "TSneParams", label: "TSneParams<f64,SmallRng>", skipped: vec![], spec: Box::new(|v| {
        let (px, th) = (v[0].f64(), v[1].f64());
        let start = || TSneParams::<f64, _>::embedding_size(2);
        fn go<P: ParamGuard + 'static>(start: impl Fn() -> P + 'static, setters: Vec<Setter<P>>, render: impl Fn(&P) -> String + 'static, getters: impl Fn(&P::Checked) -> Vec<(&'static str, String)> + 'static, want: Vec<(&'static str, String)>) -> ChainSpec { mk_chain(start, setters, render, getters, want) }
        go(start,
            vec![st("approx_threshold", move |p: TSneParams<f64, _>| p.approx_threshold(th)), st("perplexity", move |p: TSneParams<f64, _>| p.perplexity(px)),
                 st("max_iter", |p: TSneParams<f64, _>| p.max_iter(33)), st("preliminary_iter", |p: TSneParams<f64, _>| p.preliminary_iter(7))],
            |p| dv(p),
            |c| vec![("embedding_size", dv(c.embedding_size())), ("approx_threshold", dv(c.approx_threshold())), ("perplexity", dv(c.perplexity())), ("max_iter", dv(c.max_iter())), ("preliminary_iter", dv(c.preliminary_iter()))],
            vec![("embedding_size", dv(2usize)), ("approx_threshold", dv(th)), ("perplexity", dv(px)), ("max_iter", dv(33usize)), ("preliminary_iter", dv(Some(7usize)))])
    }) });
    cb
}


/// the hand-written entry points on unchecked builders of coq/gen/C04_guards.v [entry_points]:
/// (file, trait, receiver, first argument type, method, shape of the body as emitted)
fn source_direct_entry_points() -> Option<Vec<(String, String, String, String, String, String)>> {
    let root = std::env::var("VERIF_ROOT").unwrap_or_else(|_| ".".into());
    let txt = std::fs::read_to_string(std::path::Path::new(&root).join("coq/gen/C04_guards.v")).ok()?;
    let a = txt.find("Definition entry_points")?;
    let b = a + txt[a..].find("\n\n")?;
    let re = regex::Regex::new(r#"(?s)ep_file := "([^"]*)"; ep_trait := "([^"]*)"; ep_recv := "([^"]*)"; ep_cls := EpUnchecked; ep_builder := "[^"]*"; ep_records := "([^"]*)";\s*ep_fns := \[(.*?)\] \|\}"#).unwrap();
    let fre = regex::Regex::new(r#"\("(\w+)", (\(Ep\w+ "(?:[^"]|"")*"(?: \w+)?\)|EpGetter)\)"#).unwrap();
    let mut v = vec![];
    for c in re.captures_iter(&txt[a..b]) {
        for f in fre.captures_iter(&c[5]) {
            if &f[2] != "EpGetter" {
                v.push((c[1].to_string(), c[2].to_string(), c[3].to_string(), c[4].to_string(), f[1].to_string(), f[2].to_string()));
            }
        }
    }
    Some(v)
}

/// the hand-written entry points the harness calls (builder, key = method:first argument type)
const DIRECT_CALLS: &[(&str, &str)] = &[
    ("TSneParams", "transform:Array2<F>"), ("TSneParams", "transform:DatasetBase<Array2<F>,T>"),
    ("CountVectorizerParams", "fit:&ArrayBase<D,Ix1>"), ("CountVectorizerParams", "fit_files:&[P]"), ("CountVectorizerParams", "fit_vocabulary:&[T]"),
];

/// `builder_setters` of coq/gen/C04_guards.v (what the translator found in the sources on this run)
fn source_setters() -> Option<std::collections::HashMap<String, Vec<String>>> {
    let root = std::env::var("VERIF_ROOT").unwrap_or_else(|_| ".".into());
    let txt = std::fs::read_to_string(std::path::Path::new(&root).join("coq/gen/C04_guards.v")).ok()?;
    let a = txt.find("Definition builder_setters")?;
    let b = txt.find("(* END builder_setters *)")?;
    let re = regex::Regex::new(r#"\("(\w+)",\s*\[([^\]]*)\]\)"#).unwrap();
    let mut m = std::collections::HashMap::new();
    for c in re.captures_iter(&txt[a..b]) {
        m.insert(c[1].to_string(), c[2].split(';').map(|t| t.trim().trim_matches('"').to_string()).filter(|t| !t.is_empty()).collect());
    }
    Some(m)
}

// ------------------------------------------------------------------------------------------------
// combinations

/// full product when small, otherwise every pair of values of every two fields (others random) plus random rows
fn combos(fields: &[Field], base: &[usize], limit: usize, extra_random: usize, rng: &mut Sm64) -> Vec<Vec<usize>> {
    let sizes: Vec<usize> = fields.iter().map(|f| f.cands.len()).collect();
    let total: usize = sizes.iter().product();
    let mut out: Vec<Vec<usize>> = vec![];
    if total <= limit {
        let mut idx = vec![0usize; sizes.len()];
        loop {
            out.push(idx.clone());
            let mut k = sizes.len();
            loop {
                if k == 0 { return out; }
                k -= 1;
                idx[k] += 1;
                if idx[k] < sizes[k] { break; }
                idx[k] = 0;
            }
        }
    }
    for i in 0..sizes.len() {
        for j in i + 1..sizes.len() {
            for a in 0..sizes[i] {
                for b in 0..sizes[j] {
                    // every pair of values once with the other parameters random, once with them at their defaults
                    let mut row: Vec<usize> = sizes.iter().map(|s| rng.below(*s as u64) as usize).collect();
                    row[i] = a;
                    row[j] = b;
                    out.push(row);
                    let mut row = base.to_vec();
                    row[i] = a;
                    row[j] = b;
                    out.push(row);
                }
            }
        }
    }
    for _ in 0..extra_random {
        out.push(sizes.iter().map(|s| rng.below(*s as u64) as usize).collect());
    }
    out.sort();
    out.dedup();
    out
}


// ------------------------------------------------------------------------------------------------
// non-finite values: the boundary of the property, documented in coq/C04/Fields.v (nonfinite_table)

/// every float of a parameter set with its path (record field / tuple index / enum variant), as in gen/C04_fields.v
fn float_leaves(v: &PV, path: &str, out: &mut Vec<(String, f64)>) {
    match v {
        PV::F(x) => out.push((path.to_string(), *x)),
        PV::F32(x) => out.push((path.to_string(), *x as f64)),
        PV::Som(w) => float_leaves(w, path, out),
        PV::Tup(l) => l.iter().enumerate().for_each(|(i, w)| float_leaves(w, &format!("{}.{}", path, i), out)),
        PV::Ctor(c, l) => l.iter().for_each(|w| float_leaves(w, &format!("{}.{}", path, c), out)),
        PV::Rec(l) => l.iter().for_each(|(k, w)| float_leaves(w, &(if path.is_empty() { k.to_string() } else { format!("{}.{}", path, k) }), out)),
        _ => {}
    }
}

fn special_name(x: f64) -> Option<&'static str> {
    if x.is_nan() { Some("SNaN") } else if x == f64::INFINITY { Some("SPInf") } else if x == f64::NEG_INFINITY { Some("SNInf") } else { None }
}

/// (builder, leaf) -> the special values Fields.nonfinite_table lists as accepted; None when the table cannot be read
fn nonfinite_listing() -> Option<std::collections::HashMap<(String, String), Vec<String>>> {
    let root = std::env::var("VERIF_ROOT").unwrap_or_else(|_| ".".into());
    let txt = std::fs::read_to_string(std::path::Path::new(&root).join("coq/C04/Fields.v")).ok()?;
    let a = txt.find("(* BEGIN nonfinite_table *)")?;
    let b = txt.find("(* END nonfinite_table *)")?;
    let re = regex::Regex::new(r#"\(\s*"(\w+)"\s*,\s*"([^"]+)"\s*,\s*\[([^\]]*)\]"#).unwrap();
    let mut m = std::collections::HashMap::new();
    for c in re.captures_iter(&txt[a..b]) {
        let acc: Vec<String> = c[3].split(';').map(|t| t.trim().to_string()).filter(|t| !t.is_empty()).collect();
        m.insert((c[1].to_string(), c[2].to_string()), acc);
    }
    if m.is_empty() { None } else { Some(m) }
}

/// the table's name of a leaf path: the elements of a float array are one leaf `name.*`
fn listed_leaf<'a>(listing: &'a std::collections::HashMap<(String, String), Vec<String>>, b: &str, path: &str) -> Option<(&'a String, &'a Vec<String>)> {
    if let Some((k, v)) = listing.get_key_value(&(b.to_string(), path.to_string())) {
        return Some((&k.1, v));
    }
    if let Some(i) = path.rfind('.') {
        let star = format!("{}.*", &path[..i]);
        if let Some((k, v)) = listing.get_key_value(&(b.to_string(), star)) {
            return Some((&k.1, v));
        }
    }
    None
}

fn main() {
    let args = parse_args();
    let listing = nonfinite_listing();
    if listing.is_none() { eprintln!("c04: coq/C04/Fields.v nonfinite_table could not be read"); std::process::exit(3); }
    let listing = listing.unwrap();
    let mut rng = Sm64::new(args.seed);
    let thorough = args.tier == "thorough";
    let mut out = Out::new(&args.out, args.shards, "C04.Corr", "case", args.only);
    let bs = builders(thorough);
    let limit = if thorough { 30000 } else { 420 };
    let mut id: u64 = 0;
    for b in &bs {
        // rows: the default builder, the boundary grid, the malformed stream
        let mut rows: Vec<(Vec<PV>, &'static str)> = vec![];
        let base: Vec<PV> = b.fields.iter().zip(&b.defaults).map(|(f, dv)| dv.clone().unwrap_or_else(|| f.cands[f.cands.len() - 1].clone())).collect();
        rows.push((base.clone(), "default"));
        // (OPTICS' default tolerance is +inf: the one-at-a-time and malformed rows start from a finite set)
        let base: Vec<PV> = base.iter().zip(&b.fields).map(|(v, f)| if v.all_finite() { v.clone() } else { f.cands.iter().find(|c| matches!(c, PV::F(x) if *x == 1.0)).cloned().unwrap_or_else(|| v.clone()) }).collect();
        let mut r = rng.fork();
        // index of the (finite) default of each field in its candidate list (appended when absent)
        let mut fields_ix: Vec<usize> = vec![];
        let mut cand_lists: Vec<Vec<PV>> = b.fields.iter().map(|f| f.cands.clone()).collect();
        for (k, v) in base.iter().enumerate() {
            match cand_lists[k].iter().position(|c| c.same(v)) {
                Some(i) => fields_ix.push(i),
                None => { cand_lists[k].push(v.clone()); fields_ix.push(cand_lists[k].len() - 1); }
            }
        }
        let grid_fields: Vec<Field> = b.fields.iter().zip(&cand_lists).map(|(f, c)| Field { name: f.name, cands: c.clone(), bad: vec![] }).collect();
        for ix in combos(&grid_fields, &fields_ix, limit, if thorough { 400 } else { 60 }, &mut r) {
            rows.push((ix.iter().zip(&grid_fields).map(|(i, f)| f.cands[*i].clone()).collect(), "grid"));
        }
        // one parameter at a time over its whole candidate list, the others at their (valid) defaults:
        // a single wrong bound is then exposed whatever the combination sampling does
        for (k, f) in b.fields.iter().enumerate() {
            for c in &f.cands {
                let mut v = base.clone();
                v[k] = c.clone();
                rows.push((v, "single"));
            }
        }
        for (k, f) in b.fields.iter().enumerate() {
            for bad in &f.bad {
                let mut v = base.clone();
                v[k] = bad.clone();
                rows.push((v, "malformed_base"));
                for _ in 0..(if thorough { 6 } else { 2 }) {
                    let mut v: Vec<PV> = b.fields.iter().map(|g| g.cands[r.below(g.cands.len() as u64) as usize].clone()).collect();
                    v[k] = bad.clone();
                    rows.push((v, "malformed"));
                }
            }
        }
        if b.name == "SvmParams" {
            // nu is only set by modes 1 and 3: a non-finite nu (a) or second component (b) next to otherwise valid values
            for bad in malformed::<f64>() {
                let mut v = base.clone();
                v[0] = PV::N(3); v[1] = bad.clone(); v[2] = PV::F(1.0);
                rows.push((v, "malformed_base"));
                let mut v = base.clone();
                v[0] = PV::N(3); v[1] = PV::F(0.5); v[2] = bad.clone();
                rows.push((v, "malformed_base"));
            }
        }
        // valid builders are trained (unchecked against checked form) on about `budget` rows per builder
        let budget = if thorough { 400 } else { 60 };
        let stride = std::cmp::max(1, rows.len() / (5 * budget)) as u64;   // roughly one row in five is valid
        for (vals, stream) in rows {
            let my = id;
            id += 1;
            if !out.wanted(my) {
                continue;
            }
            let dflt = stream == "default";
            let envv = PV::Rec((b.env)(&vals));
            // probe the verdict first: every invalid builder gets its entry points called; valid ones when training is cheap
            let probe = (b.run)(&vals, dflt, false);
            let valid = probe.vref.ok;
            let finite = envv.all_finite();
            // non-finite values that the guard lets through are outside the property: never train on them
            // (the choice depends on the case alone, so that `--only <id>` replays exactly the same observation)
            let train = !valid || (finite && (b.safe)(&vals) && (dflt || my % stride == 0));
            let obs = if train {
                // a call that does not come back (an invalid builder that trains for ever) must not stall the run
                let (tx, rx) = std::sync::mpsc::channel();
                let (run, v2) = (b.run.clone(), vals.clone());
                std::thread::spawn(move || { let _ = tx.send(run(&v2, dflt, true)); });
                match rx.recv_timeout(std::time::Duration::from_secs(if thorough { 60 } else { 20 })) {
                    Ok(o) => o,
                    Err(_) => {
                        out.bump("call_timeout");
                        let mut o = probe;
                        o.calls = vec![CallObs { kind: "any", outcome: 4, eq: true, what: "no result within the time limit".into() }];
                        o
                    }
                }
            } else { probe };
            if train && valid {
                out.bump("valid_builders_trained_both_ways");
            }
            let norm_ok = if envv.has_negzero() && !dflt {
                let nv: Vec<PV> = vals.iter().map(|v| v.norm()).collect();
                (b.run)(&nv, false, false).vref.ok
            } else {
                obs.vref.ok
            };
            let mut tags: Vec<String> = vec![b.name.to_string(), b.label.clone(), format!("stream_{}", stream)];
            tags.push(if obs.vref.ok { "accepted".into() } else { "rejected".into() });
            if !finite { tags.push("nonfinite".into()); }
            if envv.has_negzero() { tags.push("has_negzero".into()); }
            // decidable input classes of the known findings
            let envl = (b.env)(&vals);
            let get = |k: &str| envl.iter().find(|(n, _)| *n == k).map(|(_, v)| v.clone());
            match b.name {
                "DecisionTreeParams" => {
                    let x = get("min_impurity_decrease").unwrap().f64();
                    let e = if b.f32_ { f32::EPSILON as f64 } else { f64::EPSILON };
                    if x > 0.0 && x < e { tags.push("min_impurity_decrease_in_0_eps".into()); }
                }
                "ElasticNetParamsBase" => { if get("max_iterations").unwrap().n() == 0 { tags.push("max_iterations_0".into()); } }
                "SvmParams" => { if let Some(PV::Som(p)) = get("nu") { if let PV::Tup(l) = &*p { if l[0].f64() == 0.0 { tags.push("nu_zero".into()); } } } }
                "CountVectorizerParams" => { if let Some(PV::Tup(l)) = get("document_frequency") { if l[1].f64() > 1.0 { tags.push("max_freq_gt_1".into()); } } }
                _ => {}
            }
            if b.name == "FastIcaParams" {
                if let Some(PV::Ctor("Logcosh", a)) = get("gfunc") { let x = a[0].f64(); if x.is_finite() && !(1.0..=2.0).contains(&x) { tags.push("logcosh_alpha_outside_1_2".into()); } }
            }
            // exactly one non-finite value, everything else finite: compare with Fields.nonfinite_table
            let mut leaves = vec![];
            float_leaves(&envv, "", &mut leaves);
            let nonfin: Vec<&(String, f64)> = leaves.iter().filter(|(_, x)| !x.is_finite()).collect();
            let mut nf_fail: Option<String> = None;
            if nonfin.len() == 1 {
                let (path, x) = nonfin[0];
                let sp = special_name(*x).unwrap();
                match listed_leaf(&listing, b.name, path) {
                    None => nf_fail = Some(format!("float leaf `{}` of {} is not in Fields.nonfinite_table", path, b.name)),
                    Some((leaf, acc)) => {
                        let listed = acc.iter().any(|t| t == sp);
                        let key = format!("{}.{}:{}", b.name, leaf, sp);
                        out.bump(&format!("nonfinite_{}:{}", if obs.vref.ok { "accepted" } else { "rejected" }, key));
                        if obs.vref.ok && !listed {
                            nf_fail = Some(format!("check_ref accepts {} at `{}` of {} (every other value finite) but Fields.nonfinite_table lists it as rejected", sp, leaf, b.name));
                        } else if !obs.vref.ok && listed && stream == "malformed_base" {
                            nf_fail = Some(format!("check_ref rejects {} at `{}` of {} with every other parameter at its default, but Fields.nonfinite_table lists it as accepted", sp, leaf, b.name));
                        }
                    }
                }
                tags.push("single_nonfinite".into());
            }
            let calls_desc: Vec<String> = obs.calls.iter().map(|c| format!("{}:{}{}", c.kind, ["ok", "guard_error", "other_error", "panic", "timeout"][c.outcome as usize], if c.what.is_empty() { String::new() } else { format!(" [{}]", c.what) })).collect();
            let desc = format!(
                "{{\"builder\": {}, \"params\": {}, \"check_ref\": {}, \"check\": {}, \"check_ref_with_pos_zero_accepts\": {}, \"readback_ok\": {}, \"calls\": {}}}",
                jstr(&b.label), jstr(&envv.show()), jstr(&obs.vref.raw), jstr(&obs.vval.raw), norm_ok, obs.readback, jstr(&calls_desc.join("; "))
            );
            let coq = format!(
                "{{| c_id := {}%N; c_builder := {}; c_f32 := {}; c_env := {}; c_ref := {}; c_ref_again := {}; c_val := {}; c_norm_ok := {}; c_readback := {}; c_calls := {} |}}",
                my, cstr(b.name), cbool(b.f32_),
                clist(&(b.env)(&vals), |(k, v)| format!("({}, {})", cstr(k), v.coq())),
                obs.vref.coq(), cbool(obs.again), obs.vval.coq(), cbool(norm_ok), cbool(obs.readback),
                clist(&obs.calls, |c| format!("{{| k_kind := {}; k_outcome := {}%N; k_eq := {} |}}", cstr(c.kind), c.outcome, cbool(c.eq)))
            );
            out.bump(&format!("builder_{}", b.label));
            out.bump(&format!("stream_{}", stream));
            out.bump(if obs.vref.ok { "verdict_accepted" } else { "verdict_rejected" });
            if !finite { out.bump("nonfinite"); }
            if envv.has_negzero() { out.bump("has_negzero"); }
            for c in &obs.calls {
                out.bump(&format!("call_{}_{}", c.kind, ["ok", "guard_error", "other_error", "panic", "timeout"][c.outcome as usize]));
            }
            let tagrefs: Vec<&str> = tags.iter().map(|s| s.as_str()).collect();
            let key = if dflt { None } else { Some(fnv(format!("{}|{}", b.label, envv.coq()).as_bytes())) };
            out.case(my, &coq, &tagrefs, &desc, key);
            if let Some(what) = nf_fail {
                out.rust_fail(my, 8192, &tagrefs, &what, &desc);
            }
        }
    }
    // ---- setter independence: the same intended parameter set through different setter chain orders
    let dchain = std::sync::Arc::new(data());
    let src_setters = source_setters();
    let mut chained: std::collections::BTreeMap<&'static str, std::collections::BTreeSet<&'static str>> = Default::default();
    let chains = chain_builders(&dchain);
    for cbd in &chains {
        let b = bs.iter().find(|b| b.label == cbd.label).expect("chain builder without a grid");
        let mut r = rng.fork();
        let base: Vec<PV> = b.fields.iter().zip(&b.defaults).map(|(f, dv)| dv.clone().unwrap_or_else(|| f.cands[f.cands.len() - 1].clone())).collect();
        let valid = |v: &[PV]| (b.run)(v, false, false).vref.ok;
        // intended sets: the defaults, one parameter at a time away from them, random rows of the grid - the valid ones
        let mut sets: Vec<Vec<PV>> = vec![base.clone()];
        let mut singles: Vec<Vec<PV>> = vec![];
        for (k, f) in b.fields.iter().enumerate() {
            for c in &f.cands {
                let mut v = base.clone();
                v[k] = c.clone();
                if !v[k].same(&base[k]) && valid(&v) { singles.push(v); }
            }
        }
        r.shuffle(&mut singles);
        let cap = if thorough { 60 } else { 12 };
        // (every value of the first field is kept: it selects the variant for builders with alternative setters)
        let (firsts, rest): (Vec<Vec<PV>>, Vec<Vec<PV>>) = singles.into_iter().partition(|v| !v[0].same(&base[0]) && !matches!(v[0], PV::F(_) | PV::F32(_)));
        sets.extend(firsts);
        sets.extend(rest.into_iter().take(cap));
        let mut tries = 0;
        let want_random = if thorough { 12 } else { 3 };
        let mut got = 0;
        while got < want_random && tries < 300 {
            tries += 1;
            let v: Vec<PV> = b.fields.iter().map(|f| f.cands[r.below(f.cands.len() as u64) as usize].clone()).collect();
            if valid(&v) { sets.push(v); got += 1; }
        }
        for vals in &sets {
            let spec = (cbd.spec)(vals);
            let n = spec.names.len();
            chained.entry(cbd.name).or_default().extend(spec.names.iter().cloned());
            let canon: Vec<usize> = (0..n).collect();
            let mut orders: Vec<(String, String, Vec<usize>)> = vec![("canonical".into(), String::new(), canon.clone()), ("reverse".into(), String::new(), canon.iter().rev().cloned().collect())];
            for k in 0..n {
                let mut o: Vec<usize> = canon.iter().cloned().filter(|i| *i != k).collect();
                o.push(k);
                orders.push(("last".into(), spec.names[k].to_string(), o));
                let mut o = canon.clone();
                o.push(k);
                orders.push(("twice".into(), spec.names[k].to_string(), o));
                let mut o = vec![k];
                o.extend(canon.iter().cloned());
                orders.push(("first_and_again".into(), spec.names[k].to_string(), o));
            }
            for _ in 0..(if thorough { 6 } else { 2 }) {
                let mut o = canon.clone();
                r.shuffle(&mut o);
                orders.push(("permutation".into(), String::new(), o.clone()));
                if n > 0 { o.push(r.below(n as u64) as usize); r.shuffle(&mut o); orders.push(("permutation_with_repeat".into(), String::new(), o)); }
            }
            let envv = PV::Rec((b.env)(vals));
            for (kind, which, order) in orders {
                let my = id;
                id += 1;
                if !out.wanted(my) { continue; }
                let (ref_render, _) = (spec.eval)(&canon);
                let (render, rb) = (spec.eval)(&order);
                let chain_txt: Vec<&str> = order.iter().map(|i| spec.names[*i]).collect();
                let mut problems: Vec<String> = vec![];
                if render != ref_render {
                    problems.push(format!("the unchecked builder differs from the one built in source order: {:.300} vs {:.300}", render, ref_render));
                }
                match &rb {
                    Some(got) => {
                        for ((f, g), (_, w)) in got.iter().zip(&spec.want) {
                            if g != w { problems.push(format!("field `{}` read back from the checked parameters is {:.120}, intended {:.120}", f, g, w)); }
                        }
                        if got.len() != spec.want.len() { problems.push("read-back list and intended list differ in length".into()); }
                    }
                    None => problems.push("check_ref rejects the chained builder although the same values set in the usual order are accepted".into()),
                }
                let tags: Vec<String> = vec![b.name.to_string(), b.label.clone(), "stream_chain".into(), format!("chain_order_{}", kind),
                                             if which.is_empty() { format!("chain_order_{}", kind) } else { format!("chain_order_{}:{}", kind, which) }];
                let tagrefs: Vec<&str> = tags.iter().map(|t| t.as_str()).collect();
                let desc = format!("{{\"builder\": {}, \"intended\": {}, \"setter_chain\": {}, \"chain_kind\": {}}}", jstr(&b.label), jstr(&envv.show()), jstr(&chain_txt.join(" . ")), jstr(&format!("{} {}", kind, which)));
                out.bump("stream_chain");
                out.bump(&format!("chain_order_{}", kind));
                out.bump(&format!("chain_builder_{}", b.name));
                out.rust_eval(&desc, Some(fnv(format!("chain|{}|{}|{:?}", b.label, envv.coq(), order).as_bytes())));
                if !problems.is_empty() {
                    out.rust_fail(my, 16384, &tagrefs, &format!("setter independence: {} with the chain [{}]: {}", b.label, chain_txt.join(" . "), problems.join("; ")), &desc);
                }
            }
        }
    }
    // every public setter found in the sources is part of some chain (or deliberately left out, with a reason)
    if args.only.is_none() {
        let exempt: &[(&str, &str)] = &[("PlsParams", "crate-private builder: cannot be constructed from outside the crate")];
        match &src_setters {
            None => { let my = id; out.rust_fail(my, 32768, &["stream_chain"], "coq/gen/C04_guards.v builder_setters could not be read", "{}"); }
            Some(tbl) => {
                let mut names: Vec<&String> = tbl.keys().collect();
                names.sort();
                for bn in names {
                    if exempt.iter().any(|(e, _)| e == bn) { out.bump(&format!("chain_not_applicable_{}", bn)); continue; }
                    let cbd = chains.iter().find(|c| c.name == bn.as_str());
                    let used = chained.get(bn.as_str());
                    for sname in &tbl[bn] {
                        let ok = used.map_or(false, |u| u.contains(sname.as_str())) || cbd.map_or(false, |c| c.skipped.iter().any(|(k, _)| k == sname));
                        if !ok {
                            let my = id;
                            id += 1;
                            let tags = [bn.as_str(), "stream_chain", "setter_not_chained"];
                            out.rust_fail(my, 32768, &tags, &format!("the public setter `{}` of {} found in the sources is not part of the harness's setter chains", sname, bn), "{}");
                        }
                    }
                    if let Some(c) = cbd { for (k, why) in &c.skipped { out.bump(&format!("chain_setter_left_out_{}.{} ({})", bn, k, why)); } }
                }
            }
        }
    }
    // every hand-written entry point on an unchecked builder found in the sources is one the harness calls
    if args.only.is_none() {
        match source_direct_entry_points() {
            None => { out.rust_fail(id, 65536, &["entry_points"], "coq/gen/C04_guards.v entry_points could not be read", "{}"); }
            Some(eps) => {
                out.bump_by("direct_entry_points_in_sources", eps.len() as u64);
                for (file, tr, recv, records, fname, shape) in eps {
                    let key = format!("{}:{}", fname, records);
                    if !DIRECT_CALLS.iter().any(|(b, k)| *b == recv && *k == key) {
                        let my = id;
                        id += 1;
                        let what = format!("{}: `impl {} for {}`, method `{}` (first argument {}) reaches the unchecked builder and the harness has no call for it; translated body: {}. Failing input when the body is not `check_ref` first: any {} the guard rejects, then `.{}(..)`",
                                           file, if tr.is_empty() { "(inherent)" } else { &tr }, recv, fname, records, shape, recv, fname);
                        out.rust_fail(my, 65536, &[recv.as_str(), "entry_point_not_exercised"], &what, "{}");
                    }
                }
            }
        }
    }
    let _ = id;
    out.finish("every public parameter builder x the boundary grid of each parameter (below / at / just inside / far inside each documented bound, -0.0) in combination (full product up to the tier's limit, else all pairs of values of any two parameters + random rows), a malformed stream (NaN, +-inf) and the default builder; a case is non-trivial unless it is the default builder; distinct = distinct (instantiation, parameter set) hashes; plus the setter-chain stream: for every builder, valid intended parameter sets (defaults, one parameter away from them, random grid rows) built through the setter chain in source order, reversed, with each setter moved last / repeated at the end / called first and again, and PRNG permutations with and without a repeat - the unchecked builders must be identical and the checked form must read back the intended values");
    // the document files written for CountVectorizerParams::fit_files
    let _ = std::fs::remove_dir_all(std::env::temp_dir().join(format!("verif_c04_{}", std::process::id())));
}
