//! C05 harness: evaluation metrics of linfa (confusion matrix and its scores, ROC / AUC / log-loss,
//! regression scores, silhouette, Pearson coefficients) on generated inputs; emits Coq cases for
//! C05/Corr.v and evaluates the permutation-invariance oracle on the Rust side.
use linfa::prelude::*;
use ndarray::{s, Array1, Array2, ArrayView1, ArrayView2, ShapeBuilder};
use std::collections::BTreeMap;
use std::fmt::Display;
use vh::*;

// ---- oracle bits that are raised on the Rust side ----
const O_ERR: u64 = 512; // confusion matrix: Err / panic on equal-length input (or Ok on mismatching lengths)
const O_PERM: u64 = 33554432; // a score changed under one permutation applied to both arguments
const O_FAIL: u64 = 67108864; // Err / panic on valid input (other metrics)

fn zbits32(xs: &[f32]) -> String {
    format!("({})%Z", clist(xs, |x| format!("{}", x.to_bits())))
}
fn zbit32(x: f32) -> String {
    format!("({})%Z", x.to_bits())
}
fn nlist(xs: &[u64]) -> String {
    format!("({})%N", clist(xs, |x| format!("{}", x)))
}
fn blist(xs: &[bool]) -> String {
    clist(xs, |b| cbool(*b).to_string())
}
fn jf64s(xs: &[f64]) -> String {
    let k = xs.len().min(48);
    let mut s = clist(&xs[..k], |x| if x.is_finite() { format!("{:e}", x) } else { format!("\"{}\"", x) }).replace("; ", ", ");
    if xs.len() > k {
        s = format!("{{\"n\": {}, \"first\": {}}}", xs.len(), s);
    }
    s
}
fn jf32s(xs: &[f32]) -> String {
    jf64s(&xs.iter().map(|x| *x as f64).collect::<Vec<_>>())
}
fn ju64s(xs: &[u64]) -> String {
    let k = xs.len().min(64);
    let mut s = clist(&xs[..k], |x| format!("{}", x)).replace("; ", ", ");
    if xs.len() > k {
        s = format!("{{\"n\": {}, \"first\": {}}}", xs.len(), s);
    }
    s
}
fn jbools(xs: &[bool]) -> String {
    let k = xs.len().min(64);
    let mut s = clist(&xs[..k], |x| format!("{}", x)).replace("; ", ", ");
    if xs.len() > k {
        s = format!("{{\"n\": {}, \"first\": {}}}", xs.len(), s);
    }
    s
}

// =====================================================================================
// confusion matrix
// =====================================================================================
#[derive(Clone, Debug, PartialEq)]
struct CmOut {
    members: Vec<String>,
    matrix: Vec<Vec<f32>>,
    precision: f32,
    recall: f32,
    accuracy: f32,
    f1: f32,
    fbeta: Vec<f32>,
    mcc: f32,
    ova: Vec<Vec<f32>>,
    ovo: Vec<Vec<f32>>,
}

/// the fields of ConfusionMatrix are private: the Debug rendering is the public observation point
fn parse_cm(s: &str) -> (Vec<String>, Vec<Vec<f32>>) {
    let lines: Vec<&str> = s.lines().filter(|l| !l.trim().is_empty()).collect();
    let header: Vec<String> = lines[0].split(" | ").skip(1).map(|x| x.trim().to_string()).collect();
    let mut mat = vec![];
    for l in &lines[1..] {
        let cells: Vec<f32> = l.split(" | ").skip(1).map(|x| x.trim().parse::<f32>().unwrap()).collect();
        mat.push(cells);
    }
    (header, mat)
}

const BETAS: [f32; 3] = [0.5, 2.0, 1.25];

fn run_cm<L: linfa::Label + Display + 'static>(pred: &[L], truth: &[L]) -> Result<Result<CmOut, String>, String> {
    let p = Array1::from(pred.to_vec());
    let t = Array1::from(truth.to_vec());
    guarded(std::panic::AssertUnwindSafe(move || {
        let cm = match p.confusion_matrix(&t) {
            Ok(cm) => cm,
            Err(e) => return Err(format!("{}", e)),
        };
        let (members, matrix) = parse_cm(&format!("{:?}", cm));
        let k = members.len();
        let flat = |c: &ConfusionMatrix<bool>| -> Vec<f32> { parse_cm(&format!("{:?}", c)).1.concat() };
        let ova: Vec<Vec<f32>> = cm.split_one_vs_all().iter().map(|c| flat(c)).collect();
        // n * (n - 1) / 2 underflows for an empty label set (only visible with overflow checks)
        let ovo: Vec<Vec<f32>> = if k == 0 { vec![] } else { cm.split_one_vs_one().iter().map(|c| flat(c)).collect() };
        Ok(CmOut {
            members,
            matrix,
            precision: cm.precision(),
            recall: cm.recall(),
            accuracy: cm.accuracy(),
            f1: cm.f1_score(),
            fbeta: BETAS.iter().map(|b| cm.f_score(*b)).collect(),
            mcc: cm.mcc(),
            ova,
            ovo,
        })
    }))
}

fn bits_eq(a: &[f32], b: &[f32]) -> bool {
    a.len() == b.len() && a.iter().zip(b).all(|(x, y)| x.to_bits() == y.to_bits() || (x.is_nan() && y.is_nan()))
}
fn cm_same(a: &CmOut, b: &CmOut) -> bool {
    a.members == b.members
        && a.matrix.len() == b.matrix.len()
        && a.matrix.iter().zip(&b.matrix).all(|(x, y)| bits_eq(x, y))
        && bits_eq(&[a.precision, a.recall, a.accuracy, a.f1, a.mcc], &[b.precision, b.recall, b.accuracy, b.f1, b.mcc])
        && bits_eq(&a.fbeta, &b.fbeta)
        && a.ova.len() == b.ova.len()
        && a.ova.iter().zip(&b.ova).all(|(x, y)| bits_eq(x, y))
        && a.ovo.len() == b.ovo.len()
        && a.ovo.iter().zip(&b.ovo).all(|(x, y)| bits_eq(x, y))
}

struct Ctx {
    out: Out,
    id: u64,
    rng: Sm64,
}

impl Ctx {
    fn next_id(&mut self) -> u64 {
        let i = self.id;
        self.id += 1;
        i
    }

    /// one confusion-matrix case; `code` maps a label to its order-preserving numeric code
    fn cm_case<L: linfa::Label + Display + 'static, C: Fn(&L) -> u64>(&mut self, pred: &[L], truth: &[L], code: C, lty: &str, stream: &str, perm: bool) {
        let id = self.next_id();
        if !self.out.wanted(id) && !perm {
            return;
        }
        let pc: Vec<u64> = pred.iter().map(&code).collect();
        let tc: Vec<u64> = truth.iter().map(&code).collect();
        let names: BTreeMap<String, u64> = pred.iter().chain(truth.iter()).map(|l| (format!("{}", l), code(l))).collect();
        let desc = format!(
            "{{\"metric\": \"confusion_matrix\", \"labels\": {}, \"stream\": {}, \"pred\": {}, \"truth\": {}}}",
            jstr(lty), jstr(stream), ju64s(&pc), ju64s(&tc)
        );
        let tags = ["cm", lty, stream];
        self.out.bump(&format!("cm_{}", stream));
        self.out.bump(&format!("cm_labels_{}", lty));
        let mut distinct: Vec<u64> = pc.iter().chain(tc.iter()).cloned().collect();
        distinct.sort();
        distinct.dedup();
        self.out.bump(&format!("cm_classes_{}", distinct.len().min(6)));
        let r = run_cm(pred, truth);
        let res = match r {
            Err(p) => {
                self.out.rust_fail(id, O_ERR, &tags, &format!("confusion_matrix panicked: {}", p), &desc);
                self.out.rust_eval(&desc, None);
                return;
            }
            Ok(r) => r,
        };
        let z = CmOut { members: vec![], matrix: vec![], precision: 0.0, recall: 0.0, accuracy: 0.0, f1: 0.0, fbeta: vec![], mcc: 0.0, ova: vec![], ovo: vec![] };
        let (ok, o) = match &res {
            Ok(o) => (true, o.clone()),
            Err(_) => (false, z),
        };
        let members: Vec<u64> = o.members.iter().map(|m| *names.get(m).unwrap_or(&u64::MAX)).collect();
        let coq = format!(
            "CCm {{| cm_id := {}%N; cm_pred := {}; cm_truth := {}; cm_betas := {}; cm_ok := {}; cm_members := {}; cm_matrix := ({})%Z; cm_precision := {}; cm_recall := {}; cm_accuracy := {}; cm_f1 := {}; cm_fbeta := {}; cm_mcc := {}; cm_ova := ({})%Z; cm_ovo := ({})%Z |}}",
            id, nlist(&pc), nlist(&tc), zbits32(&BETAS), cbool(ok), nlist(&members),
            clist(&o.matrix, |r| clist(r, |x| format!("{}", x.to_bits()))),
            zbit32(o.precision), zbit32(o.recall), zbit32(o.accuracy), zbit32(o.f1), zbits32(&o.fbeta), zbit32(o.mcc),
            clist(&o.ova, |r| clist(r, |x| format!("{}", x.to_bits()))),
            clist(&o.ovo, |r| clist(r, |x| format!("{}", x.to_bits())))
        );
        let key = if distinct.len() >= 2 && pc.len() >= 2 && pc.len() == tc.len() {
            let mut b: Vec<u8> = vec![1];
            for v in pc.iter().chain(tc.iter()) {
                b.extend_from_slice(&v.to_le_bytes());
            }
            Some(fnv(&b))
        } else {
            None
        };
        self.out.case(id, &coq, &tags, &desc, key);
        // permutation invariance: one permutation applied to both vectors leaves every output unchanged
        if perm && ok && pred.len() == truth.len() && pred.len() >= 2 {
            let pid = self.next_id();
            let mut idx: Vec<usize> = (0..pred.len()).collect();
            self.rng.shuffle(&mut idx);
            let p2: Vec<L> = idx.iter().map(|&i| pred[i].clone()).collect();
            let t2: Vec<L> = idx.iter().map(|&i| truth[i].clone()).collect();
            let same = match run_cm(&p2, &t2) {
                Ok(Ok(o2)) => cm_same(&o, &o2),
                _ => false,
            };
            let d2 = format!("{{\"metric\": \"confusion_matrix permuted\", \"of_case\": {}, \"perm\": {:?}, \"input\": {}}}", id, idx, desc);
            if !same {
                self.out.rust_fail(pid, O_PERM, &["cm", "perm"], "confusion matrix or a derived score changed under a joint permutation", &d2);
            }
            self.out.rust_eval(&d2, None);
            self.out.bump("perm_checks");
        }
    }
}

fn all_vectors(alpha: usize, n: usize) -> Vec<Vec<usize>> {
    let mut res = vec![vec![]];
    for _ in 0..n {
        let mut nx = vec![];
        for v in &res {
            for a in 0..alpha {
                let mut w = v.clone();
                w.push(a);
                nx.push(w);
            }
        }
        res = nx;
    }
    res
}

fn gen_cm(cx: &mut Ctx, thorough: bool) {
    // (a) exhaustive small: every pair of label vectors over three usize labels / two bools / three strings
    let ualpha: [usize; 3] = [3, 7, 12];
    let salpha: [&str; 3] = ["B", "ab", "b"]; // Rust's Ord on strings: "B" < "ab" < "b"
    let (nu, nb, ns) = if thorough { (4, 5, 3) } else { (3, 4, 2) };
    let mut cnt4 = 0u64;
    for n in 0..=nu {
        let vs = all_vectors(3, n);
        for p in &vs {
            for t in &vs {
                // thorough tier: lengths up to 3 completely, every third pair of length 4
                if n == 4 {
                    cnt4 += 1;
                    if cnt4 % 3 != 0 {
                        continue;
                    }
                }
                let pv: Vec<usize> = p.iter().map(|&i| ualpha[i]).collect();
                let tv: Vec<usize> = t.iter().map(|&i| ualpha[i]).collect();
                cx.cm_case(&pv, &tv, |l| *l as u64, "labels_usize", "exhaustive", false);
            }
        }
    }
    for n in 1..=nb {
        let vs = all_vectors(2, n);
        for p in &vs {
            for t in &vs {
                let pv: Vec<bool> = p.iter().map(|&i| i == 1).collect();
                let tv: Vec<bool> = t.iter().map(|&i| i == 1).collect();
                cx.cm_case(&pv, &tv, |l| *l as u64, "labels_bool", "exhaustive", false);
            }
        }
    }
    for n in 1..=ns {
        let vs = all_vectors(3, n);
        for p in &vs {
            for t in &vs {
                let pv: Vec<String> = p.iter().map(|&i| salpha[i].to_string()).collect();
                let tv: Vec<String> = t.iter().map(|&i| salpha[i].to_string()).collect();
                cx.cm_case(&pv, &tv, |l| salpha.iter().position(|s| s == l).unwrap() as u64, "labels_string", "exhaustive", false);
            }
        }
    }
    // (b) random longer vectors: skewed class frequencies, label sets that differ between the two sides
    let nrand = if thorough { 800 } else { 320 };
    for it in 0..nrand {
        let mut r = cx.rng.fork();
        let n = if r.chance(0.1) { 100 + r.below(201) as usize } else { 4 + r.below(60) as usize };
        let k = 1 + r.below(6) as usize;
        // strictly increasing, non-contiguous codes
        let mut codes: Vec<usize> = vec![];
        let mut c = r.below(4) as usize;
        for _ in 0..k {
            codes.push(c);
            c += 1 + r.below(9) as usize;
        }
        let kind = r.below(5);
        let pa: Vec<usize> = (0..k).filter(|_| kind != 1 || r.chance(0.6)).collect();
        let ta: Vec<usize> = (0..k).filter(|_| kind != 2 || r.chance(0.6)).collect();
        let pa = if pa.is_empty() { vec![0] } else { pa };
        let ta = if ta.is_empty() { vec![k - 1] } else { ta };
        let acc = r.unit();
        let mut truth: Vec<usize> = vec![];
        let mut pred: Vec<usize> = vec![];
        for _ in 0..n {
            // skewed: earlier classes more frequent
            let ti = ta[(r.unit() * r.unit() * ta.len() as f64) as usize % ta.len()];
            let pi = if kind != 3 && r.chance(acc) && pa.contains(&ti) { ti } else { pa[r.below(pa.len() as u64) as usize] };
            truth.push(ti);
            pred.push(pi);
        }
        if kind == 4 {
            // a perfect prediction
            pred = truth.clone();
        }
        match it % 3 {
            0 => {
                let pv: Vec<usize> = pred.iter().map(|&i| codes[i]).collect();
                let tv: Vec<usize> = truth.iter().map(|&i| codes[i]).collect();
                cx.cm_case(&pv, &tv, |l| *l as u64, "labels_usize", "random", true);
            }
            1 => {
                // strings whose lexicographic order differs from their numeric / length order
                let names = ["10", "9", "Zeta", "alpha", "alpha2", "b"];
                let pv: Vec<String> = pred.iter().map(|&i| names[i].to_string()).collect();
                let tv: Vec<String> = truth.iter().map(|&i| names[i].to_string()).collect();
                cx.cm_case(&pv, &tv, |l| names.iter().position(|s| s == l).unwrap() as u64, "labels_string", "random", true);
            }
            _ => {
                let pv: Vec<bool> = pred.iter().map(|&i| i % 2 == 1).collect();
                let tv: Vec<bool> = truth.iter().map(|&i| i % 2 == 1).collect();
                cx.cm_case(&pv, &tv, |l| *l as u64, "labels_bool", "random", true);
            }
        }
    }
    // (c) malformed: lengths differ -> Err(MismatchedShapes)
    for (a, b) in [(0usize, 1usize), (1, 0), (2, 3), (5, 4), (7, 1)] {
        let pv: Vec<usize> = (0..a).map(|i| i % 3).collect();
        let tv: Vec<usize> = (0..b).map(|i| (i + 1) % 3).collect();
        cx.cm_case(&pv, &tv, |l| *l as u64, "labels_usize", "mismatched_lengths", false);
    }
}

// =====================================================================================
// ROC / AUC / log-loss
// =====================================================================================
struct RocOut {
    curve: Vec<(f32, f32)>,
    thresholds: Vec<f32>,
    auc: f32,
    ll: Option<f32>,
}

fn run_roc(scores: &[f32], labels: &[bool]) -> Result<RocOut, String> {
    let s: Array1<Pr> = scores.iter().map(|x| Pr::new_unchecked(*x)).collect();
    let l = labels.to_vec();
    guarded(move || {
        let roc = s.roc(&l[..]).map_err(|e| format!("{}", e))?;
        let ll = s.log_loss(&l[..]).ok();
        Ok(RocOut { curve: roc.get_curve(), thresholds: roc.get_thresholds(), auc: roc.area_under_curve(), ll })
    })
    .and_then(|x| x)
}

impl Ctx {
    fn roc_case(&mut self, scores: &[f32], labels: &[bool], stream: &str, oracle_ll: bool, perm: bool) {
        let id = self.next_id();
        if !self.out.wanted(id) && !perm {
            return;
        }
        let np = labels.iter().filter(|b| **b).count();
        let nn = labels.len() - np;
        let desc = format!("{{\"metric\": \"roc/auc/log_loss\", \"stream\": {}, \"scores\": {}, \"labels\": {}}}", jstr(stream), jf32s(scores), jbools(labels));
        let tags = ["roc", stream];
        self.out.bump(&format!("roc_{}", stream));
        let mut sorted: Vec<u32> = scores.iter().map(|x| x.to_bits()).collect();
        sorted.sort();
        let nd = { let mut d = sorted.clone(); d.dedup(); d.len() };
        if nd < scores.len() { self.out.bump("roc_with_tied_scores"); }
        if scores.iter().any(|x| *x == 0.0) { self.out.bump("roc_with_score_0"); }
        if scores.iter().any(|x| *x == 1.0) { self.out.bump("roc_with_score_1"); }
        if np == 0 || nn == 0 { self.out.bump("roc_single_class"); }
        let o = match run_roc(scores, labels) {
            Ok(o) => o,
            Err(e) => {
                self.out.rust_fail(id, O_FAIL, &tags, &format!("roc failed: {}", e), &desc);
                self.out.rust_eval(&desc, None);
                return;
            }
        };
        let coq = format!(
            "CRoc {{| rc_id := {}%N; rc_scores := {}; rc_labels := {}; rc_oracle_ll := {}; rc_curve := ({})%Z; rc_thresholds := {}; rc_auc := {}; rc_ll_ok := {}; rc_ll := {} |}}",
            id, zbits32(scores), blist(labels), cbool(oracle_ll),
            clist(&o.curve, |p| format!("({}, {})", p.0.to_bits(), p.1.to_bits())),
            zbits32(&o.thresholds), zbit32(o.auc), cbool(o.ll.is_some()), zbit32(o.ll.unwrap_or(0.0))
        );
        let key = if np > 0 && nn > 0 {
            let mut b: Vec<u8> = vec![2];
            for (s, l) in scores.iter().zip(labels) {
                b.extend_from_slice(&s.to_bits().to_le_bytes());
                b.push(*l as u8);
            }
            Some(fnv(&b))
        } else {
            None
        };
        self.out.case(id, &coq, &tags, &desc, key);
        if perm && scores.len() >= 2 {
            let pid = self.next_id();
            let mut idx: Vec<usize> = (0..scores.len()).collect();
            self.rng.shuffle(&mut idx);
            let s2: Vec<f32> = idx.iter().map(|&i| scores[i]).collect();
            let l2: Vec<bool> = idx.iter().map(|&i| labels[i]).collect();
            let d2 = format!("{{\"metric\": \"roc permuted\", \"of_case\": {}, \"perm\": {:?}, \"input\": {}}}", id, idx, desc);
            let same = match run_roc(&s2, &l2) {
                Ok(o2) => {
                    let c1: Vec<f32> = o.curve.iter().flat_map(|p| [p.0, p.1]).collect();
                    let c2: Vec<f32> = o2.curve.iter().flat_map(|p| [p.0, p.1]).collect();
                    let llok = match (o.ll, o2.ll) {
                        (Some(a), Some(b)) => (a - b).abs() <= 1e-5 * (1.0 + a.abs()) || (a.is_nan() && b.is_nan()) || a == b,
                        (None, None) => true,
                        _ => false,
                    };
                    bits_eq(&c1, &c2) && bits_eq(&o.thresholds, &o2.thresholds) && bits_eq(&[o.auc], &[o2.auc]) && llok
                }
                Err(_) => false,
            };
            if !same {
                self.out.rust_fail(pid, O_PERM, &["roc", "perm"], "ROC curve / AUC / log-loss changed under a joint permutation", &d2);
            }
            self.out.rust_eval(&d2, None);
            self.out.bump("perm_checks");
        }
    }
}

fn gen_roc(cx: &mut Ctx, thorough: bool) {
    // (a) exhaustive: all score vectors over the grid {0, 1/4, 1/2, 3/4, 1} with every labelling having both classes
    let grid = [0.0f32, 0.25, 0.5, 0.75, 1.0];
    let nmax = if thorough { 5 } else { 4 };
    let mut cnt = 0u64;
    for n in 2..=nmax {
        for sv in all_vectors(5, n) {
            let scores: Vec<f32> = sv.iter().map(|&i| grid[i]).collect();
            for lab in 1..((1u32 << n) - 1) {
                let labels: Vec<bool> = (0..n).map(|i| (lab >> i) & 1 == 1).collect();
                cnt += 1;
                // quick tier: lengths 2 and 3 completely, every third case of length 4
                if !thorough && n == 4 && cnt % 3 != 0 {
                    continue;
                }
                // thorough tier: lengths 2..4 completely, every 24th case of length 5
                if n == 5 && cnt % 24 != 0 {
                    continue;
                }
                let oll = n <= 3 || cnt % 16 == 0;
                cx.roc_case(&scores, &labels, "exhaustive_grid", oll, false);
            }
        }
    }
    // (b) structured random: ties, boundary scores, scores closer than the 1e-10 grouping threshold, single-class
    //     vectors, negative scores (dropped by roc)
    let nrand = if thorough { 1000 } else { 420 };
    let eps = 1e-10f32;
    for it in 0..nrand {
        let mut r = cx.rng.fork();
        let n = if r.chance(0.06) { 100 + r.below(201) as usize } else { 2 + r.below(48) as usize };
        let kind = r.below(7);
        let mut scores: Vec<f32> = (0..n)
            .map(|_| match kind {
                0 => r.unit() as f32,                                   // generic
                1 => (r.below(9) as f32) / 8.0,                         // heavy ties incl. 0 and 1
                2 => (r.below(5) as f32) * (eps * 0.5),                 // multiples of eps/2: groups merge/split at the threshold
                3 => { let b = (r.below(4) as f32) / 4.0; b + (r.below(3) as f32) * eps } // base + k*eps (absorbed unless base = 0)
                4 => if r.chance(0.3) { 0.0 } else if r.chance(0.3) { 1.0 } else { r.unit() as f32 },
                5 => (r.below(4) as f32) * eps,                         // 0, eps, 2eps, 3eps: differences exactly eps or more
                _ => { let x = r.unit() as f32; if r.chance(0.15) { -x } else { x } } // some negative scores
            })
            .collect();
        if kind == 0 && n > 4 && r.chance(0.5) {
            // duplicate some entries so that ties carry both labels
            for _ in 0..n / 3 {
                let (i, j) = (r.below(n as u64) as usize, r.below(n as u64) as usize);
                scores[i] = scores[j];
            }
        }
        let q = r.unit();
        let mut labels: Vec<bool> = scores.iter().map(|s| r.chance((0.15 + 0.7 * (*s as f64).abs().min(1.0)) * 0.7 + 0.3 * q)).collect();
        let single = it % 37 == 0;
        if single {
            let v = r.chance(0.5);
            labels.iter_mut().for_each(|l| *l = v);
        } else if labels.iter().all(|l| *l) || labels.iter().all(|l| !*l) {
            labels[0] = !labels[0];
        }
        let name = match kind { 0 => "random_generic", 1 => "random_ties", 2 | 5 => "random_near_eps", 3 => "random_base_plus_eps", 4 => "random_boundary", _ => "random_negative" };
        cx.roc_case(&scores, &labels, name, n <= 40, it % 2 == 0);
    }
    // the empty input: roc returns a one-point curve, log_loss is Err(NotEnoughSamples)
    cx.roc_case(&[], &[], "empty", true, false);
}

// =====================================================================================
// regression scores
// =====================================================================================
fn reg_single(a: &[f64], b: &[f64]) -> Result<Vec<f64>, String> {
    let (a, b) = (Array1::from(a.to_vec()), Array1::from(b.to_vec()));
    reg_single_v(a.view(), b.view())
}
/// the eight single-target scores on two views of any layout
fn reg_single_v(a: ArrayView1<f64>, b: ArrayView1<f64>) -> Result<Vec<f64>, String> {
    guarded(std::panic::AssertUnwindSafe(move || -> Result<Vec<f64>, String> {
        let e = |r: linfa::error::Result<f64>| r.map_err(|e| format!("{}", e));
        Ok(vec![
            e(a.max_error(&b))?,
            e(a.mean_absolute_error(&b))?,
            e(a.mean_squared_error(&b))?,
            e(a.median_absolute_error(&b))?,
            e(a.mean_absolute_percentage_error(&b))?,
            e(a.r2(&b))?,
            e(a.explained_variance(&b))?,
            e(a.mean_squared_log_error(&b))?,
        ])
    }))
    .and_then(|x| x)
}
/// the same through `impl SingleTargetRegression for DatasetBase`: the receiver is a dataset whose targets are `a`
fn reg_single_ds(a: ArrayView1<f64>, b: ArrayView1<f64>) -> Result<Vec<f64>, String> {
    guarded(std::panic::AssertUnwindSafe(move || -> Result<Vec<f64>, String> {
        let ds = DatasetBase::new(Array2::<f64>::zeros((a.len(), 1)), a);
        let e = |r: linfa::error::Result<f64>| r.map_err(|e| format!("{}", e));
        Ok(vec![
            e(ds.max_error(&b))?,
            e(ds.mean_absolute_error(&b))?,
            e(ds.mean_squared_error(&b))?,
            e(ds.median_absolute_error(&b))?,
            e(ds.mean_absolute_percentage_error(&b))?,
            e(ds.r2(&b))?,
            e(ds.explained_variance(&b))?,
            e(ds.mean_squared_log_error(&b))?,
        ])
    }))
    .and_then(|x| x)
}
/// the eight multi-target scores on two matrix views: per score Ok(vector) or Err(message); Err outside = panic
fn reg_multi_v(a: ArrayView2<f64>, b: ArrayView2<f64>, through_dataset: bool) -> Result<Vec<Result<Vec<f64>, String>>, String> {
    guarded(std::panic::AssertUnwindSafe(move || {
        let e = |r: linfa::error::Result<Array1<f64>>| r.map(|v| v.to_vec()).map_err(|e| format!("{}", e));
        if through_dataset {
            let ds = DatasetBase::new(Array2::<f64>::zeros((a.nrows(), 1)), a);
            vec![
                e(ds.max_error(&b)),
                e(ds.mean_absolute_error(&b)),
                e(ds.mean_squared_error(&b)),
                e(ds.median_absolute_error(&b)),
                e(ds.mean_absolute_percentage_error(&b)),
                e(ds.r2(&b)),
                e(ds.explained_variance(&b)),
                e(ds.mean_squared_log_error(&b)),
            ]
        } else {
            vec![
                e(a.max_error(&b)),
                e(a.mean_absolute_error(&b)),
                e(a.mean_squared_error(&b)),
                e(a.median_absolute_error(&b)),
                e(a.mean_absolute_percentage_error(&b)),
                e(a.r2(&b)),
                e(a.explained_variance(&b)),
                e(a.mean_squared_log_error(&b)),
            ]
        }
    }))
}

// ---- views with a prescribed memory layout; the storage outside the view is NaN, so that any access
//      outside the view poisons the result ----
struct Strided1 {
    store: Array1<f64>,
    step: isize,
}
impl Strided1 {
    fn new(v: &[f64], step: isize) -> Self {
        let n = v.len();
        let k = step.unsigned_abs();
        let len = if n == 0 { 0 } else { (n - 1) * k + 1 };
        let mut store = Array1::from_elem(len, f64::NAN);
        for i in 0..n {
            let pos = if step > 0 { i * k } else { (n - 1 - i) * k };
            store[pos] = v[i];
        }
        Strided1 { store, step }
    }
    fn view(&self) -> ArrayView1<'_, f64> {
        self.store.slice(s![..;self.step])
    }
}
/// the layout ndarray's `.sum()` / `mapv` see: 0 = stride 1 (or empty), 2 = stride -1, 1 = any other stride
fn lay1(v: &ArrayView1<f64>) -> u64 {
    let st = v.strides()[0];
    if v.len() == 0 || st == 1 { 0 } else if st == -1 { 2 } else { 1 }
}
const MAT_KINDS: u64 = 7;
const MAT_KIND_NAMES: [&str; 7] = ["c_order", "f_order", "row_step_2", "f_order_rows_reversed", "col_step_2", "transposed", "c_order_rows_reversed"];
/// storage for an n x q matrix (given by its rows) in one of seven layouts; `mat_view` gives the n x q view
fn mat_store(rows: &[Vec<f64>], q: usize, kind: u64) -> Array2<f64> {
    let n = rows.len();
    match kind {
        0 => Array2::from_shape_fn((n, q), |(i, j)| rows[i][j]),
        1 => Array2::from_shape_fn((n, q).f(), |(i, j)| rows[i][j]),
        2 => Array2::from_shape_fn((2 * n - 1, q), |(i, j)| if i % 2 == 0 { rows[i / 2][j] } else { f64::NAN }),
        3 => Array2::from_shape_fn((n, q).f(), |(i, j)| rows[n - 1 - i][j]),
        4 => Array2::from_shape_fn((n, 2 * q - 1), |(i, j)| if j % 2 == 0 { rows[i][j / 2] } else { f64::NAN }),
        5 => Array2::from_shape_fn((q, n), |(j, i)| rows[i][j]),
        _ => Array2::from_shape_fn((n, q), |(i, j)| rows[n - 1 - i][j]),
    }
}
fn mat_view(store: &Array2<f64>, kind: u64) -> ArrayView2<'_, f64> {
    match kind {
        0 | 1 => store.view(),
        2 => store.slice(s![..;2, ..]),
        3 => store.slice(s![..;-1, ..]),
        4 => store.slice(s![.., ..;2]),
        5 => store.t(),
        _ => store.slice(s![..;-1, ..]),
    }
}
fn reg_multi(a: &Array2<f64>, b: &Array2<f64>) -> Result<Vec<Vec<f64>>, String> {
    let (a, b) = (a.clone(), b.clone());
    guarded(move || -> Result<Vec<Vec<f64>>, String> {
        let e = |r: linfa::error::Result<Array1<f64>>| r.map(|v| v.to_vec()).map_err(|e| format!("{}", e));
        let cols = vec![
            e(a.max_error(&b))?,
            e(a.mean_absolute_error(&b))?,
            e(a.mean_squared_error(&b))?,
            e(a.median_absolute_error(&b))?,
            e(a.mean_absolute_percentage_error(&b))?,
            e(a.r2(&b))?,
            e(a.explained_variance(&b))?,
            e(a.mean_squared_log_error(&b))?,
        ];
        let q = a.ncols();
        Ok((0..q).map(|j| cols.iter().map(|c| c[j]).collect()).collect())
    })
    .and_then(|x| x)
}

fn dy(r: &mut Sm64, lo: i64, hi: i64, shift: u32) -> f64 {
    r.range(lo, hi) as f64 / (1u64 << shift) as f64
}

/// one column pair of a given family; returns (a, b, well_conditioned)
fn gen_reg_column(r: &mut Sm64, n: usize, fam: u64) -> (Vec<f64>, Vec<f64>, bool) {
    match fam {
        0 => {
            let scale = *r.pick(&[0.1, 1.0, 10.0]);
            let off = r.range(-10, 10) as f64;
            let noise = *r.pick(&[0.05, 0.5, 2.0]);
            let b: Vec<f64> = (0..n).map(|_| off + scale * r.gauss()).collect();
            let a: Vec<f64> = b.iter().map(|y| y + noise * scale * r.gauss()).collect();
            (a, b, true)
        }
        1 => {
            // small integers: ties among the absolute errors, zeros in the receiver
            let b: Vec<f64> = (0..n).map(|_| r.range(-5, 5) as f64).collect();
            let a: Vec<f64> = b.iter().map(|y| y + r.range(-2, 2) as f64).collect();
            (a, b, true)
        }
        2 => {
            // perfect prediction shifted by a constant (the class of finding F2)
            let c = dy(r, 1, 40, 3) * if r.chance(0.5) { -1.0 } else { 1.0 };
            let b: Vec<f64> = (0..n).map(|_| dy(r, -64, 64, 3)).collect();
            let a: Vec<f64> = b.iter().map(|y| y + c).collect();
            (a, b, true)
        }
        3 => {
            // residuals that cancel exactly (dyadic data): mean residual = 0 in exact and in float arithmetic
            let b: Vec<f64> = (0..n).map(|_| dy(r, -64, 64, 3)).collect();
            let mut e: Vec<f64> = vec![];
            while e.len() + 1 < n {
                let d = dy(r, 0, 24, 3);
                e.push(d);
                e.push(-d);
            }
            if e.len() < n {
                e.push(0.0);
            }
            r.shuffle(&mut e);
            let a: Vec<f64> = b.iter().zip(&e).map(|(y, d)| y + d).collect();
            (a, b, true)
        }
        4 => {
            // large offset, tiny spread: ill conditioned (bit-exact comparison only)
            let b: Vec<f64> = (0..n).map(|_| 1e6 + 1e-3 * r.gauss()).collect();
            let a: Vec<f64> = b.iter().map(|y| y + 1e-3 * r.gauss()).collect();
            (a, b, false)
        }
        5 => {
            // positive data, ratios well away from 1 (or equal): the msle family
            let b: Vec<f64> = (0..n).map(|_| 100.0 * r.unit()).collect();
            let a: Vec<f64> = b.iter().map(|y| if r.chance(0.2) { *y } else if r.chance(0.5) { y * (1.2 + r.unit()) } else { y * (0.2 + 0.6 * r.unit()) }).collect();
            (a, b, true)
        }
        6 => {
            // constant truth: SST = 0, only the 1e-10 regulariser remains in the denominator
            let c = r.range(-3, 3) as f64;
            let b: Vec<f64> = vec![c; n];
            let a: Vec<f64> = b.iter().map(|y| y + dy(r, -8, 8, 2)).collect();
            (a, b, true)
        }
        _ => {
            // wide dynamic range (bit-exact comparison only)
            let b: Vec<f64> = (0..n).map(|_| r.gauss() * 10f64.powi(r.range(-6, 6) as i32)).collect();
            let a: Vec<f64> = b.iter().map(|y| y * (1.0 + 0.1 * r.gauss())).collect();
            (a, b, false)
        }
    }
}

impl Ctx {
    fn reg_case(&mut self, a: &[f64], b: &[f64], lay: u64, wellcond: bool, out: &[f64], fam: u64, form: &str) {
        let id = self.next_id();
        if !self.out.wanted(id) {
            return;
        }
        let n = a.len();
        // the class of finding F2, decided as the code computes it: mean of the residual vector
        let diff: Array1<f64> = a.iter().zip(b).map(|(x, y)| x - y).collect();
        let me = diff.mean().unwrap_or(0.0);
        let evtag = if me != 0.0 { "ev_mean_error_nonzero" } else { "ev_mean_error_zero" };
        let msle_ok = a.iter().chain(b.iter()).all(|x| *x > -0.9 && x.is_finite());
        // msle is well conditioned when each pair is equal or its log-ratio is not tiny
        let msle_on = wellcond && msle_ok && n <= 24 && a.iter().zip(b).all(|(x, y)| x == y || ((1.0 + x) / (1.0 + y)).ln().abs() > 1e-3);
        let desc = format!(
            "{{\"metric\": \"regression\", \"family\": {}, \"form\": {}, \"layout_of_truth\": {}, \"a_prediction\": {}, \"b_truth\": {}}}",
            fam, jstr(form), lay, jf64s(a), jf64s(b)
        );
        let fams = format!("reg_family_{}", fam);
        let tags = ["reg", evtag, form, &fams[..]];
        self.out.bump(&fams);
        self.out.bump(&format!("reg_{}", form));
        self.out.bump(&format!("reg_n_mod8_{}", n % 8));
        self.out.bump(&format!("reg_truth_layout_{}", lay));
        if n > 16 && n % 2 == 0 && n <= 48 && wellcond {
            self.out.bump("reg_even_length_17_to_48_with_oracle");
        }
        self.out.bump(evtag);
        let coq = format!(
            "CReg {{| rg_id := {}%N; rg_a := {}; rg_b := {}; rg_lay := {}%N; rg_oracle := {}; rg_msle := {}; rg_out := {} |}}",
            id, cvec64(a), cvec64(b), lay, cbool(wellcond && n <= 48), cbool(msle_on), cvec64(out)
        );
        let nonconst = b.iter().any(|x| *x != b[0]);
        let key = if n >= 2 && nonconst { Some(fnv_f64s(&[a, b].concat(), 3 + lay)) } else { None };
        self.out.case(id, &coq, &tags, &desc, key);
    }
}

fn rel_close(x: f64, y: f64, tol: f64) -> bool {
    (x.is_nan() && y.is_nan()) || x == y || (x - y).abs() <= tol * (1.0 + x.abs().max(y.abs()))
}

fn gen_reg(cx: &mut Ctx, thorough: bool) {
    let nrand = if thorough { 1200 } else { 300 };
    for it in 0..nrand {
        let mut r = cx.rng.fork();
        let n = if r.chance(0.08) { 60 + r.below(241) as usize } else { 1 + r.below(40) as usize };
        let fam = r.below(8);
        let q = match r.below(4) { 0 => 0, 1 => 1, 2 => 2, _ => 3 }; // 0 = single-target call on Array1
        if q == 0 {
            let (a, b, wc) = gen_reg_column(&mut r, n, fam);
            match reg_single(&a, &b) {
                Ok(o) => {
                    cx.reg_case(&a, &b, 0, wc, &o, fam, "single_target");
                    // permutation invariance (Rust side)
                    if it % 2 == 0 && n >= 2 {
                        let pid = cx.next_id();
                        let mut idx: Vec<usize> = (0..n).collect();
                        cx.rng.shuffle(&mut idx);
                        let a2: Vec<f64> = idx.iter().map(|&i| a[i]).collect();
                        let b2: Vec<f64> = idx.iter().map(|&i| b[i]).collect();
                        let tol = if wc { 1e-9 } else { 1e-3 };
                        let d2 = format!("{{\"metric\": \"regression permuted\", \"perm\": {:?}, \"a\": {}, \"b\": {}}}", idx, jf64s(&a), jf64s(&b));
                        let same = match reg_single(&a2, &b2) {
                            Ok(o2) => {
                                // max and median are exact; the sums only up to rounding; r2/ev relative to the size of the ratio
                                o.iter().zip(&o2).enumerate().all(|(k, (x, y))| match k {
                                    0 | 3 => x.to_bits() == y.to_bits(),
                                    5 | 6 => rel_close(1.0 - x, 1.0 - y, tol),
                                    _ => rel_close(*x, *y, tol),
                                })
                            }
                            Err(_) => false,
                        };
                        if !same {
                            cx.out.rust_fail(pid, O_PERM, &["reg", "perm"], "a regression score changed under a joint permutation", &d2);
                        }
                        cx.out.rust_eval(&d2, None);
                        cx.out.bump("perm_checks");
                    }
                }
                Err(e) => {
                    let id = cx.next_id();
                    let d = format!("{{\"metric\": \"regression\", \"a\": {}, \"b\": {}}}", jf64s(&a), jf64s(&b));
                    cx.out.rust_fail(id, O_FAIL, &["reg"], &format!("regression score failed on valid input: {}", e), &d);
                    cx.out.rust_eval(&d, None);
                }
            }
        } else {
            let cols: Vec<(Vec<f64>, Vec<f64>, bool)> = (0..q).map(|j| gen_reg_column(&mut r, n, (fam + j as u64) % 8)).collect();
            let am = Array2::from_shape_fn((n, q), |(i, j)| cols[j].0[i]);
            let bm = Array2::from_shape_fn((n, q), |(i, j)| cols[j].1[i]);
            match reg_multi(&am, &bm) {
                Ok(o) => {
                    for j in 0..q {
                        cx.reg_case(&cols[j].0, &cols[j].1, (q >= 2) as u64, cols[j].2, &o[j], (fam + j as u64) % 8, if q >= 2 { "multi_target_strided" } else { "multi_target_one_column" });
                    }
                }
                Err(e) => {
                    let id = cx.next_id();
                    let d = format!("{{\"metric\": \"regression multi\", \"n\": {}, \"q\": {}}}", n, q);
                    cx.out.rust_fail(id, O_FAIL, &["reg"], &format!("multi-target regression score failed on valid input: {}", e), &d);
                    cx.out.rust_eval(&d, None);
                }
            }
        }
    }
    // malformed: vectors of different lengths. The scores do not check shapes (confusion_matrix does): ndarray
    // broadcasts a length-1 operand and panics otherwise. Recorded as an observation (input distribution), no oracle.
    for (na, nb) in [(3usize, 1usize), (1, 3), (3, 2), (2, 3)] {
        let a: Array1<f64> = (0..na).map(|i| i as f64).collect();
        let b: Array1<f64> = (0..nb).map(|i| 1.0 + i as f64).collect();
        let res = guarded(std::panic::AssertUnwindSafe(|| a.mean_absolute_error(&b).map_err(|e| format!("{}", e))));
        let what = match res { Ok(Ok(_)) => "returns_a_number", Ok(Err(_)) => "returns_err", Err(_) => "panics" };
        cx.out.bump(&format!("reg_lengths_{}_vs_{}_{}", na, nb, what));
    }
    // malformed: empty vectors -> the mean-based scores return Err(NotEnoughSamples)
    {
        let id = cx.next_id();
        let (a, b): (Array1<f64>, Array1<f64>) = (Array1::zeros(0), Array1::zeros(0));
        let errs = [a.mean_absolute_error(&b).is_err(), a.mean_squared_error(&b).is_err(), a.mean_absolute_percentage_error(&b).is_err(), a.r2(&b).is_err(), a.explained_variance(&b).is_err(), a.mean_squared_log_error(&b).is_err()];
        let d = "{\"metric\": \"regression\", \"input\": \"empty vectors\"}".to_string();
        if !errs.iter().all(|e| *e) {
            cx.out.rust_fail(id, O_FAIL, &["reg"], "a mean-based score of empty vectors did not return Err(NotEnoughSamples)", &d);
        }
        cx.out.rust_eval(&d, None);
        cx.out.bump("reg_empty");
    }
}

/// every length 1..=48 (both parities) with pairwise distinct absolute errors in random order: the median must
/// be the middle of the *sorted* errors (a selection that leaves the lower half unsorted shows for even n > 16)
fn gen_reg_median(cx: &mut Ctx, thorough: bool) {
    let base = if thorough { 6 } else { 2 };
    for n in 1..=48usize {
        // even lengths above 16 get two more cases whose error vector is arranged so that a median-of-three pivot
        // taken at positions 0, 4(n/8), 7(n/8) is the upper median itself: a quickselect then stops at once and
        // leaves the lower half in partition order
        let reps = if n > 16 && n % 2 == 0 { base + 2 } else { base };
        for rep in 0..reps {
            let mut r = cx.rng.fork();
            let adversarial = rep >= base;
            let (a, b): (Vec<f64>, Vec<f64>) = if rep % 2 == 0 || adversarial {
                // dyadic data: errors +-(i+1)/8, all sums exact
                let b: Vec<f64> = (0..n).map(|_| dy(&mut r, -64, 64, 3)).collect();
                let mut mags: Vec<f64> = (0..n).map(|i| (i as f64 + 1.0) / 8.0).collect();
                r.shuffle(&mut mags);
                if adversarial {
                    let upper = (n / 2 + 1) as f64 / 8.0; // the element of rank n/2 (0-based) of the sorted errors
                    let (pb, pc) = (4 * (n / 8), 7 * (n / 8));
                    let swap_to = |m: &mut Vec<f64>, pos: usize, pred: &dyn Fn(f64) -> bool| {
                        if let Some(k) = (0..m.len()).find(|&k| k != 0 && pred(m[k])) {
                            m.swap(pos, k);
                        }
                    };
                    let k0 = mags.iter().position(|m| *m == upper).unwrap();
                    mags.swap(0, k0);
                    swap_to(&mut mags, pb, &|m| m < upper);
                    if !(mags[pc] > upper) {
                        if let Some(k) = (1..n).find(|&k| k != pb && mags[k] > upper) {
                            mags.swap(pc, k);
                        }
                    }
                }
                let a: Vec<f64> = b.iter().zip(&mags).map(|(y, m)| if r.chance(0.5) { y + m } else { y - m }).collect();
                (a, b)
            } else {
                let b: Vec<f64> = (0..n).map(|_| 3.0 * r.gauss()).collect();
                let a: Vec<f64> = b.iter().map(|y| y + r.gauss()).collect();
                (a, b)
            };
            // alternate the call forms: contiguous arrays / strided receiver and reversed truth
            let (res, lay, form) = if rep % 4 < 2 {
                (reg_single(&a, &b), 0, if adversarial { "median_lengths_pivot" } else { "median_lengths" })
            } else {
                let (sa, sb) = (Strided1::new(&a, 2), Strided1::new(&b, -1));
                let l = lay1(&sb.view());
                (reg_single_v(sa.view(), sb.view()), l, if adversarial { "median_lengths_pivot_views" } else { "median_lengths_views" })
            };
            match res {
                Ok(o) => cx.reg_case(&a, &b, lay, true, &o, 0, form),
                Err(e) => {
                    let id = cx.next_id();
                    let d = format!("{{\"metric\": \"regression\", \"form\": {}, \"a\": {}, \"b\": {}}}", jstr(form), jf64s(&a), jf64s(&b));
                    cx.out.rust_fail(id, O_FAIL, &["reg"], &format!("regression score failed on valid input: {}", e), &d);
                    cx.out.rust_eval(&d, None);
                }
            }
        }
    }
}

/// `SingleTargetRegression` on non-contiguous one-dimensional views (steps 2, 3, -1, -2, -3, matrix columns, matrix
/// rows of a column-major matrix) and through the `DatasetBase` implementation
fn gen_reg_layouts(cx: &mut Ctx, thorough: bool) {
    let nrand = if thorough { 480 } else { 144 };
    for it in 0..nrand {
        let mut r = cx.rng.fork();
        let n = 1 + r.below(44) as usize;
        let fam = r.below(8);
        let (a, b, wc) = gen_reg_column(&mut r, n, fam);
        let form = it % 9;
        let (res, lay, name) = match form {
            0..=5 => {
                let (sa, sb, name): (isize, isize, &str) = match form {
                    0 => (2, 1, "view_a_step2"),
                    1 => (1, 2, "view_b_step2"),
                    2 => (-1, -1, "view_both_reversed"),
                    3 => (3, -2, "view_a_step3_b_stepm2"),
                    4 => (1, -1, "view_b_reversed"),
                    _ => (-3, 3, "view_a_stepm3_b_step3"),
                };
                let (va, vb) = (Strided1::new(&a, sa), Strided1::new(&b, sb));
                let l = lay1(&vb.view());
                (reg_single_v(va.view(), vb.view()), l, name)
            }
            6 => {
                // columns of two row-major matrices with three columns
                let (ja, jb) = (r.below(3) as usize, r.below(3) as usize);
                let ma = Array2::from_shape_fn((n, 3), |(i, j)| if j == ja { a[i] } else { f64::NAN });
                let mb = Array2::from_shape_fn((n, 3), |(i, j)| if j == jb { b[i] } else { f64::NAN });
                let l = lay1(&mb.column(jb));
                (reg_single_v(ma.column(ja), mb.column(jb)), l, "matrix_columns")
            }
            7 => {
                // rows of a column-major matrix (strided) against a row of a row-major matrix (contiguous)
                let ma = Array2::from_shape_fn((2, n).f(), |(i, j)| if i == 1 { a[j] } else { f64::NAN });
                let mb = Array2::from_shape_fn((2, n), |(i, j)| if i == 0 { b[j] } else { f64::NAN });
                let l = lay1(&mb.row(0));
                (reg_single_v(ma.row(1), mb.row(0)), l, "matrix_rows")
            }
            _ => {
                // DatasetBase receiver (targets = a strided view), reversed or strided truth
                let sb = if it % 2 == 0 { -1 } else { 2 };
                let (va, vb) = (Strided1::new(&a, 2), Strided1::new(&b, sb));
                let l = lay1(&vb.view());
                (reg_single_ds(va.view(), vb.view()), l, "dataset_receiver")
            }
        };
        match res {
            Ok(o) => cx.reg_case(&a, &b, lay, wc, &o, fam, name),
            Err(e) => {
                let id = cx.next_id();
                let d = format!("{{\"metric\": \"regression\", \"form\": {}, \"a\": {}, \"b\": {}}}", jstr(name), jf64s(&a), jf64s(&b));
                cx.out.rust_fail(id, O_FAIL, &["reg"], &format!("regression score failed on a valid non-contiguous view: {}", e), &d);
                cx.out.rust_eval(&d, None);
            }
        }
    }
}

/// `MultiTargetRegression` as a whole: two n x q matrices in seven memory layouts (independently for the receiver
/// and the compared-to matrix), also through `DatasetBase`, also with different column counts (zip truncates)
fn gen_reg_matrix(cx: &mut Ctx, thorough: bool) {
    let nrand = if thorough { 360 } else { 112 };
    for it in 0..nrand {
        let mut r = cx.rng.fork();
        let n = if it % 5 == 0 { 18 + 2 * r.below(12) as usize } else { 1 + r.below(40) as usize };
        let q = 1 + r.below(3) as usize;
        let fam = r.below(8);
        let cols: Vec<(Vec<f64>, Vec<f64>, bool)> = (0..q).map(|j| gen_reg_column(&mut r, n, (fam + j as u64) % 8)).collect();
        // different column counts in one case out of twelve: the receiver or the truth gets an extra column
        let (qa, qb) = if it % 12 == 7 { if r.chance(0.5) { (q + 1, q) } else { (q, q + 1) } } else { (q, q) };
        let extra: Vec<f64> = (0..n).map(|_| r.gauss()).collect();
        let rows_a: Vec<Vec<f64>> = (0..n).map(|i| (0..qa).map(|j| if j < q { cols[j].0[i] } else { extra[i] }).collect()).collect();
        let rows_b: Vec<Vec<f64>> = (0..n).map(|i| (0..qb).map(|j| if j < q { cols[j].1[i] } else { extra[i] }).collect()).collect();
        let (ka, kb) = (r.below(MAT_KINDS), (it as u64) % MAT_KINDS);
        let (sa, sb) = (mat_store(&rows_a, qa, ka), mat_store(&rows_b, qb, kb));
        let (va, vb) = (mat_view(&sa, ka), mat_view(&sb, kb));
        assert_eq!(rows_of(&va), rows_a);
        assert_eq!(rows_of(&vb), rows_b);
        let lay = lay1(&vb.column(0));
        let through_ds = it % 6 == 5;
        let id = cx.next_id();
        let form = if qa != qb { "matrix_column_counts_differ" } else if through_ds { "matrix_dataset_receiver" } else { "matrix" };
        let desc = format!(
            "{{\"metric\": \"multi-target regression\", \"form\": {}, \"n\": {}, \"qa\": {}, \"qb\": {}, \"layout_a\": {}, \"layout_b\": {}, \"column_layout_of_truth\": {}, \"A_rows\": {}, \"B_rows\": {}}}",
            jstr(form), n, qa, qb, jstr(MAT_KIND_NAMES[ka as usize]), jstr(MAT_KIND_NAMES[kb as usize]), lay, jf64s(&rows_a.concat()), jf64s(&rows_b.concat())
        );
        let lname = format!("layout_b_{}", MAT_KIND_NAMES[kb as usize]);
        let tags = ["reg_multi", form, &lname[..]];
        cx.out.bump(&format!("regm_{}", form));
        cx.out.bump(&format!("regm_{}", lname));
        cx.out.bump(&format!("regm_layout_a_{}", MAT_KIND_NAMES[ka as usize]));
        cx.out.bump(&format!("regm_truth_column_layout_{}", lay));
        cx.out.bump(&format!("regm_q_{}", q));
        if n > 16 && n % 2 == 0 { cx.out.bump("regm_even_length_above_16"); }
        match reg_multi_v(va, vb, through_ds) {
            Ok(res) => {
                if !cx.out.wanted(id) { continue; }
                let oks: Vec<bool> = res.iter().map(|x| x.is_ok()).collect();
                let outs: Vec<Vec<f64>> = res.iter().map(|x| x.clone().unwrap_or_default()).collect();
                let orc: Vec<bool> = (0..q).map(|j| cols[j].2 && n <= 48).collect();
                let coq = format!(
                    "CMreg {{| mg_id := {}%N; mg_A := {}; mg_qa := {}%N; mg_B := {}; mg_qb := {}%N; mg_lay := {}%N; mg_oracle := {}; mg_ok := {}; mg_out := {} |}}",
                    id, cmat64(&rows_a), qa, cmat64(&rows_b), qb, lay, blist(&orc), blist(&oks), cmat64(&outs)
                );
                let key = if n >= 2 { Some(fnv_f64s(&[rows_a.concat(), rows_b.concat()].concat(), 11 + ka * 7 + kb + 64 * (qa as u64))) } else { None };
                cx.out.case(id, &coq, &tags, &desc, key);
            }
            Err(e) => {
                cx.out.rust_fail(id, O_FAIL, &tags, &format!("multi-target regression score panicked on valid input: {}", e), &desc);
                cx.out.rust_eval(&desc, None);
            }
        }
    }
    // malformed: no samples but two target columns -> every mean-based score is Err(NotEnoughSamples)
    {
        let id = cx.next_id();
        let (a, b): (Array2<f64>, Array2<f64>) = (Array2::zeros((0, 2)), Array2::zeros((0, 2)));
        let d = "{\"metric\": \"multi-target regression\", \"input\": \"0 x 2 matrices\"}".to_string();
        let errs = [a.mean_absolute_error(&b).is_err(), a.mean_squared_error(&b).is_err(), a.mean_absolute_percentage_error(&b).is_err(), a.r2(&b).is_err(), a.explained_variance(&b).is_err(), a.mean_squared_log_error(&b).is_err()];
        if !errs.iter().all(|e| *e) {
            cx.out.rust_fail(id, O_FAIL, &["reg_multi"], "a mean-based multi-target score of 0 x 2 matrices did not return Err(NotEnoughSamples)", &d);
        }
        cx.out.rust_eval(&d, None);
        cx.out.bump("regm_empty");
    }
}

// =====================================================================================
// silhouette
// =====================================================================================
fn run_sil(x: &[Vec<f64>], labels: &[usize]) -> Result<f64, String> {
    let d = x[0].len();
    let xa = Array2::from_shape_vec((x.len(), d), x.concat()).unwrap();
    let la = Array1::from(labels.to_vec());
    guarded(move || DatasetBase::new(xa, la).silhouette_score().map_err(|e| format!("{}", e))).and_then(|x| x)
}

fn gen_sil(cx: &mut Ctx, thorough: bool) {
    let nrand = if thorough { 500 } else { 220 };
    for it in 0..nrand {
        let mut r = cx.rng.fork();
        let d = 1 + r.below(3) as usize;
        let k = if it % 23 == 0 { 1 } else { 2 + r.below(3) as usize };
        let n = (2 * k + r.below(20) as usize).max(2);
        let kind = r.below(5);
        // non-contiguous label codes, in an arbitrary order of first appearance
        let mut codes: Vec<usize> = (0..k).map(|i| 2 + 7 * i + r.below(5) as usize).collect();
        r.shuffle(&mut codes);
        let centers: Vec<Vec<f64>> = (0..k).map(|_| (0..d).map(|_| r.range(-6, 6) as f64 * 2.0).collect()).collect();
        let mut x: Vec<Vec<f64>> = vec![];
        let mut lab: Vec<usize> = vec![];
        for i in 0..n {
            // every cluster gets two points first; kind 3 leaves singleton clusters
            let c = if i < 2 * k && kind != 3 { i % k } else if kind == 3 && i < k { i } else { r.below(k as u64) as usize };
            let p: Vec<f64> = match kind {
                0 => centers[c].iter().map(|v| v + 0.5 * r.gauss()).collect(),       // separated blobs
                1 => centers[c].iter().map(|v| 0.2 * v + 2.0 * r.gauss()).collect(), // overlapping
                2 | 3 => (0..d).map(|_| r.range(-3, 3) as f64).collect(),              // lattice: duplicates, ties, wrong clusters
                _ => centers[c].iter().map(|v| v * 100.0 + r.gauss()).collect(),
            };
            x.push(p);
            lab.push(codes[c]);
        }
        // shuffle the samples jointly
        let mut idx: Vec<usize> = (0..n).collect();
        r.shuffle(&mut idx);
        let x: Vec<Vec<f64>> = idx.iter().map(|&i| x[i].clone()).collect();
        let lab: Vec<usize> = idx.iter().map(|&i| lab[i]).collect();
        // oracle precondition: two or more clusters, each with two distinct points
        let mut groups: BTreeMap<usize, Vec<&Vec<f64>>> = BTreeMap::new();
        for (p, l) in x.iter().zip(&lab) {
            groups.entry(*l).or_default().push(p);
        }
        let pre = groups.len() >= 2 && groups.values().all(|g| g.iter().any(|p| *p != g[0]));
        let id = cx.next_id();
        let desc = format!("{{\"metric\": \"silhouette\", \"kind\": {}, \"d\": {}, \"labels\": {:?}, \"X\": {}}}", kind, d, lab, jf64s(&x.concat()));
        let tags = ["sil"];
        cx.out.bump(&format!("sil_kind_{}", kind));
        cx.out.bump(&format!("sil_clusters_{}", groups.len()));
        cx.out.bump(if pre { "sil_precondition_holds" } else { "sil_degenerate_cluster" });
        match run_sil(&x, &lab) {
            Ok(s) => {
                if cx.out.wanted(id) {
                    let coq = format!(
                        "CSil {{| sl_id := {}%N; sl_X := {}; sl_labels := {}; sl_oracle := {}; sl_score := {} |}}",
                        id, cmat64(&x), cvecn(&lab), cbool(pre), sf64(s)
                    );
                    let key = if groups.len() >= 2 { Some(fnv_f64s(&x.concat(), 5 + lab.iter().fold(0u64, |h, l| h.wrapping_mul(31).wrapping_add(*l as u64)))) } else { None };
                    cx.out.case(id, &coq, &tags, &desc, key);
                }
                if it % 2 == 0 {
                    let pid = cx.next_id();
                    let mut idx: Vec<usize> = (0..n).collect();
                    cx.rng.shuffle(&mut idx);
                    let x2: Vec<Vec<f64>> = idx.iter().map(|&i| x[i].clone()).collect();
                    let l2: Vec<usize> = idx.iter().map(|&i| lab[i]).collect();
                    let d2 = format!("{{\"metric\": \"silhouette permuted\", \"of_case\": {}, \"perm\": {:?}, \"input\": {}}}", id, idx, desc);
                    let same = match run_sil(&x2, &l2) { Ok(s2) => rel_close(s, s2, 1e-9), Err(_) => false };
                    if !same {
                        cx.out.rust_fail(pid, O_PERM, &["sil", "perm"], "silhouette score changed under a joint permutation of samples and labels", &d2);
                    }
                    cx.out.rust_eval(&d2, None);
                    cx.out.bump("perm_checks");
                }
            }
            Err(e) => {
                cx.out.rust_fail(id, O_FAIL, &tags, &format!("silhouette_score failed: {}", e), &desc);
                cx.out.rust_eval(&desc, None);
            }
        }
    }
}

// =====================================================================================
// Pearson
// =====================================================================================
/// coefficients of the data matrix (rows = observations) stored in memory layout `kind` (see mat_store)
fn run_pearson(x: &[Vec<f64>], kind: u64) -> Result<Vec<f64>, String> {
    let p = x[0].len();
    let store = mat_store(x, p, kind);
    guarded(std::panic::AssertUnwindSafe(move || {
        let v = mat_view(&store, kind);
        assert_eq!(rows_of(&v), x);
        DatasetBase::from(v).pearson_correlation().get_coeffs().to_vec()
    }))
}

fn gen_pearson(cx: &mut Ctx, thorough: bool) {
    let nrand = if thorough { 400 } else { 200 };
    for it in 0..nrand {
        let mut r = cx.rng.fork();
        let p = 2 + r.below(3) as usize;
        let exact = it % 2 == 0;
        let (x, wellcond): (Vec<Vec<f64>>, bool) = if exact {
            // n a power of two and small integers: means, centred data and every partial sum of the product are exact
            let n = *r.pick(&[2usize, 4, 8, 16]);
            let x: Vec<Vec<f64>> = (0..n).map(|_| (0..p).map(|_| r.range(-8, 8) as f64).collect()).collect();
            let nonconst = (0..p).all(|j| x.iter().any(|row| row[j] != x[0][j]));
            (x, nonconst)
        } else {
            let n = 3 + r.below(38) as usize;
            let kind = r.below(3);
            let base: Vec<Vec<f64>> = (0..n).map(|_| (0..p).map(|_| r.gauss()).collect()).collect();
            let mix: Vec<Vec<f64>> = (0..p).map(|_| (0..p).map(|_| r.gauss()).collect()).collect();
            let off: Vec<f64> = (0..p).map(|_| r.range(-5, 5) as f64).collect();
            let x: Vec<Vec<f64>> = base
                .iter()
                .map(|row| {
                    (0..p)
                        .map(|j| match kind {
                            0 => off[j] + row[j],                                                        // independent
                            1 => off[j] + (0..p).map(|l| mix[j][l] * row[l]).sum::<f64>(),                // correlated
                            _ => if j == p - 1 { -2.0 * row[0] + 3.0 } else { off[j] + row[j] },          // last = affine function of first
                        })
                        .collect()
                })
                .collect();
            (x, true)
        };
        // a column without spread in one case out of five (two of them now and then): its standard deviation is
        // exactly zero, every coefficient that involves it is undefined, the others must not be disturbed
        let mut x = x;
        let mut wellcond = wellcond;
        let nconst = if it % 5 == 3 { if p >= 3 && r.chance(0.3) { 2 } else { 1 } } else { 0 };
        let jc0 = r.below(p as u64) as usize;
        for c in 0..nconst {
            let jc = if c == 0 { jc0 } else { (jc0 + 1 + r.below(p as u64 - 1) as usize) % p };
            let v = if exact { r.range(-8, 8) as f64 } else { *r.pick(&[0.1, 3.7, -2.5, 1e6 + 0.3, 0.0, 1.0 / 3.0]) };
            for row in x.iter_mut() {
                row[jc] = v;
            }
        }
        let is_const: Vec<bool> = (0..p).map(|j| x.iter().all(|row| row[j] == x[0][j])).collect();
        if exact {
            // the oracle decides constant columns itself (exactly zero spread -> the coefficient must not be finite)
            wellcond = true;
        }
        let kind = r.below(MAT_KINDS);
        let id = cx.next_id();
        let desc = format!("{{\"metric\": \"pearson\", \"exact_stream\": {}, \"n\": {}, \"p\": {}, \"layout\": {}, \"constant_columns\": {:?}, \"X\": {}}}", exact, x.len(), p, jstr(MAT_KIND_NAMES[kind as usize]), is_const, jf64s(&x.concat()));
        let lname = format!("pearson_layout_{}", MAT_KIND_NAMES[kind as usize]);
        let ctag = if is_const.iter().any(|b| *b) { "pearson_constant_column" } else { "pearson_no_constant_column" };
        let tags = ["pearson", &lname[..], ctag];
        cx.out.bump(if exact { "pearson_exact_dyadic" } else { "pearson_general" });
        cx.out.bump(&format!("pearson_p_{}", p));
        cx.out.bump(&lname);
        cx.out.bump(ctag);
        match run_pearson(&x, kind) {
            Ok(c) => {
                if cx.out.wanted(id) {
                    let coq = format!(
                        "CPea {{| pe_id := {}%N; pe_X := {}; pe_exact := {}; pe_oracle := {}; pe_coeffs := {} |}}",
                        id, cmat64(&x), cbool(exact), cbool(wellcond), cvec64(&c)
                    );
                    cx.out.case(id, &coq, &tags, &desc, Some(fnv_f64s(&x.concat(), 7 + p as u64)));
                }
                if it % 4 == 1 {
                    let pid = cx.next_id();
                    let mut idx: Vec<usize> = (0..x.len()).collect();
                    cx.rng.shuffle(&mut idx);
                    let x2: Vec<Vec<f64>> = idx.iter().map(|&i| x[i].clone()).collect();
                    let d2 = format!("{{\"metric\": \"pearson rows permuted\", \"of_case\": {}, \"perm\": {:?}}}", id, idx);
                    let same = match run_pearson(&x2, (kind + 1) % MAT_KINDS) { Ok(c2) => c.len() == c2.len() && c.iter().zip(&c2).all(|(a, b)| rel_close(*a, *b, 1e-9) || (!a.is_finite() && !b.is_finite())), Err(_) => false };
                    if !same {
                        cx.out.rust_fail(pid, O_PERM, &["pearson", "perm"], "Pearson coefficients changed under a permutation of the observations", &d2);
                    }
                    cx.out.rust_eval(&d2, None);
                    cx.out.bump("perm_checks");
                }
            }
            Err(e) => {
                cx.out.rust_fail(id, O_FAIL, &tags, &format!("pearson_correlation panicked: {}", e), &desc);
                cx.out.rust_eval(&desc, None);
            }
        }
    }
}

fn main() {
    let args = parse_args();
    let thorough = args.tier == "thorough";
    let out = Out::new(&args.out, args.shards, "C05.Corr", "case", args.only);
    let mut cx = Ctx { out, id: 0, rng: Sm64::new(args.seed) };
    // interleave nothing: ids are assigned stream by stream, shards take id mod 16
    gen_cm(&mut cx, thorough);
    gen_roc(&mut cx, thorough);
    gen_reg(&mut cx, thorough);
    gen_reg_median(&mut cx, thorough);
    gen_reg_layouts(&mut cx, thorough);
    gen_reg_matrix(&mut cx, thorough);
    gen_sil(&mut cx, thorough);
    gen_pearson(&mut cx, thorough);
    cx.out.finish(
        "confusion matrices: every pair of label vectors up to the exhaustive bound (usize/bool/String) + random longer ones with differing label sets; \
         ROC/AUC/log-loss: every score vector over {0,1/4,1/2,3/4,1} with every two-class labelling + random vectors with ties, boundary scores and near-threshold gaps; \
         regression: 8 data families x single/multi-target (per column), every length 1..48 with distinct absolute errors (median; even lengths above 16 also in a \
         pivot-adversarial order), single-target calls on views with steps 2, 3, -1, -2, -3 / matrix columns / rows / DatasetBase receivers, whole multi-target calls on \
         matrices in seven memory layouts (also through DatasetBase, also with differing column counts); silhouette: 5 families; Pearson: exact dyadic and general data in \
         seven memory layouts, one case in five with one or two constant columns. \
         A case is non-trivial when it has >= 2 classes / both classes / non-constant truth / >= 2 clusters / >= 2 features; distinct = distinct input hashes",
    );
}
