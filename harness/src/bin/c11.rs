//! C11 harness: ordinary least squares, elastic net (single- and multi-task) fits on generated
//! regression data; emits Coq cases for C11/Corr.v (bit-exact replay of coordinate descent +
//! exact-rational optimality oracle) and evaluates a few metamorphic oracles on the Rust side.
use linfa::prelude::*;
use linfa::{Dataset, DatasetBase};
use linfa_elasticnet::{ElasticNet, ElasticNetParams, MultiTaskElasticNet, MultiTaskElasticNetParams};
use linfa_linear::LinearRegression;
use ndarray::{s, Array1, Array2, ArrayBase, ArrayView1, ArrayView2, Data as NdData, Ix1, Ix2, ShapeBuilder};
use vh::*;

// ---------------------------------------------------------------------------------------------
// data
// ---------------------------------------------------------------------------------------------
#[derive(Clone, Debug)]
struct Data {
    x: Vec<Vec<f64>>, // n rows of p features (logical data)
    y: Vec<Vec<f64>>, // n rows of t targets (logical data)
    fam: u64,
    lx: u8,   // memory layout of the records, see LAYOUTS
    ly: u8,   // memory layout of the targets
    lq: u8,   // memory layout of the query batch
    sk: i32,  // the problem was scaled by 2^sk
    sm: u8,   // 0 not scaled, 1 joint (records, targets by s, penalty by s^2), 2 targets only (targets by s, l1 penalty by s)
}
/// memory layouts, always of the SAME logical data
const LAYOUTS: [&str; 7] = ["c", "f", "revrows_view", "revrows_owned", "revcols_view", "revcols_owned", "step2_view"];
impl Data {
    fn new(x: Vec<Vec<f64>>, y: Vec<Vec<f64>>, fam: u64, forder: bool) -> Data {
        Data { x, y, fam, lx: if forder { 1 } else { 0 }, ly: 0, lq: 0, sk: 0, sm: 0 }
    }
    fn n(&self) -> usize { self.x.len() }
    fn p(&self) -> usize { if self.x.is_empty() { 0 } else { self.x[0].len() } }
    fn t(&self) -> usize { if self.y.is_empty() { 0 } else { self.y[0].len() } }
    fn xa(&self) -> Array2<f64> {
        Array2::from_shape_vec((self.n(), self.p()), self.x.iter().flatten().cloned().collect()).unwrap()
    }
    fn ya2(&self) -> Array2<f64> {
        Array2::from_shape_vec((self.n(), self.t()), self.y.iter().flatten().cloned().collect()).unwrap()
    }
    fn ya1(&self) -> Array1<f64> { Array1::from(self.y.iter().map(|r| r[0]).collect::<Vec<f64>>()) }
    /// every feature column sums to zero exactly (decided in exact integer arithmetic on the scaled mantissas)
    fn centred(&self) -> bool { (0..self.p()).all(|j| exact_sum_is_zero(&self.x.iter().map(|r| r[j]).collect::<Vec<_>>())) }
    /// a feature column `x.slice(s![.., j])` is a contiguous slice (ndarray's 1-D `dot` then takes the unrolled path)
    fn col_contig(&self) -> bool { Held2::<f64>::new(&self.x, self.p(), self.lx, |v| v).view().strides()[0] == 1 }
    /// a row of the query batch is a contiguous slice
    fn qrow_contig(&self, q: &[Vec<f64>]) -> bool { self.p() <= 1 || Held2::<f64>::new(q, self.p(), self.lq, |v| v).view().strides()[1] == 1 }
    /// multi-task fit on targets in a non-standard layout: are the columns of the residual matrix `r` contiguous slices?
    /// Decided by performing the operations of compute_intercept / block_coordinate_descent on the same layout with the
    /// same ndarray (`&y - &mean` resp. `y.to_owned()`; their output layout follows the input layout)
    fn rcol_contig(&self, icpt: bool) -> bool {
        let yh = Held2::<f64>::new(&self.y, self.t(), self.ly, |v| v);
        let yv = yh.view();
        let r: Array2<f64> = if icpt {
            let m = yv.mean_axis(ndarray::Axis(0)).unwrap();
            let yc = &yv - &m.view().insert_axis(ndarray::Axis(0));
            yc.view().to_owned()
        } else { yv.to_owned() };
        r.strides()[0] == 1
    }
    /// layout of the targets as the estimator sees it (1-D targets: only "c", reversed, step 2 exist)
    fn ly_eff(&self, kind: u64) -> u8 { if kind != K_MTL { match self.ly { 1 => 0, 4 => 2, 5 => 3, l => l } } else { self.ly } }
}

// ---------------------------------------------------------------------------------------------
// memory layouts
// ---------------------------------------------------------------------------------------------
/// a matrix with the given logical content in one of the LAYOUTS; `store` owns the memory, `view()` is the logical matrix
#[derive(Clone)]
struct Held2<T> { store: Array2<T>, lay: u8, wide: bool }
impl<T: Clone> Held2<T> {
    fn new(rows: &[Vec<f64>], p: usize, lay: u8, cast: fn(f64) -> T) -> Held2<T> {
        let n = rows.len();
        let at = |i: usize, j: usize| cast(rows[i][j]);
        let junk = cast(777.0);
        let wide = (n + p) % 2 == 0;
        let store = match lay {
            1 => Array2::from_shape_fn((n, p).f(), |(i, j)| at(i, j)),
            2 => Array2::from_shape_fn((n, p), |(i, j)| at(n - 1 - i, j)),
            3 => Array2::from_shape_fn((n, p), |(i, j)| at(n - 1 - i, j)).slice(s![..;-1, ..]).to_owned(),
            4 => Array2::from_shape_fn((n, p), |(i, j)| at(i, p - 1 - j)),
            5 => Array2::from_shape_fn((n, p), |(i, j)| at(i, p - 1 - j)).slice(s![.., ..;-1]).to_owned(),
            6 => if wide { Array2::from_shape_fn((n, 2 * p), |(i, j)| if j % 2 == 0 { at(i, j / 2) } else { junk.clone() }) }
                 else { Array2::from_shape_fn((2 * n, p), |(i, j)| if i % 2 == 0 { at(i / 2, j) } else { junk.clone() }) },
            _ => Array2::from_shape_fn((n, p), |(i, j)| at(i, j)),
        };
        Held2 { store, lay, wide }
    }
    /// the store itself is the logical matrix (an owned array, possibly with negative or column-major strides)
    fn owned(&self) -> bool { matches!(self.lay, 0 | 1 | 3 | 5) }
    fn view(&self) -> ArrayView2<T> {
        match self.lay {
            2 => self.store.slice(s![..;-1, ..]),
            4 => self.store.slice(s![.., ..;-1]),
            6 => if self.wide { self.store.slice(s![.., ..;2]) } else { self.store.slice(s![..;2, ..]) },
            _ => self.store.view(),
        }
    }
}
#[derive(Clone)]
struct Held1<T> { store: Array1<T>, lay: u8 }
impl<T: Clone> Held1<T> {
    fn new(v: &[f64], lay: u8, cast: fn(f64) -> T) -> Held1<T> {
        let n = v.len();
        let junk = cast(777.0);
        let lay = match lay { 1 => 0, 4 => 2, 5 => 3, l => l };
        let store = match lay {
            2 => Array1::from_shape_fn(n, |i| cast(v[n - 1 - i])),
            3 => Array1::from_shape_fn(n, |i| cast(v[n - 1 - i])).slice(s![..;-1]).to_owned(),
            6 => Array1::from_shape_fn(2 * n, |i| if i % 2 == 0 { cast(v[i / 2]) } else { junk.clone() }),
            _ => Array1::from_shape_fn(n, |i| cast(v[i])),
        };
        Held1 { store, lay }
    }
    fn owned(&self) -> bool { matches!(self.lay, 0 | 3) }
    fn view(&self) -> ArrayView1<T> {
        match self.lay { 2 => self.store.slice(s![..;-1]), 6 => self.store.slice(s![..;2]), _ => self.store.view() }
    }
}
/// call a generic runner with the records / targets either as the owned arrays or as views, according to the layout
macro_rules! with_layouts {
    ($f:ident, $xh:expr, $yh:expr, $($rest:expr),*) => {
        match ($xh.owned(), $yh.owned()) {
            (true, true) => $f($xh.store.clone(), $yh.store.clone(), $($rest),*),
            (true, false) => $f($xh.store.clone(), $yh.view(), $($rest),*),
            (false, true) => $f($xh.view(), $yh.store.clone(), $($rest),*),
            (false, false) => $f($xh.view(), $yh.view(), $($rest),*),
        }
    };
}
fn id64(v: f64) -> f64 { v }
fn to32(v: f64) -> f32 { v as f32 }

/// exact test sum(v) == 0 for finite doubles of moderate exponent range (falls back to false)
fn exact_sum_is_zero(v: &[f64]) -> bool {
    let mut emin = i64::MAX;
    let mut parts: Vec<(i128, i64)> = vec![];
    for &x in v {
        if !x.is_finite() { return false; }
        if x == 0.0 { continue; }
        let bits = x.to_bits();
        let e = ((bits >> 52) & 0x7ff) as i64;
        let frac = (bits & ((1u64 << 52) - 1)) as i128;
        let (m, ex) = if e == 0 { (frac, -1074) } else { (frac | (1i128 << 52), e - 1075) };
        let m = if bits >> 63 == 1 { -m } else { m };
        emin = emin.min(ex);
        parts.push((m, ex));
    }
    let mut s: i128 = 0;
    for (m, ex) in parts {
        let sh = ex - emin;
        if sh > 60 { return false; }
        s += m << sh;
    }
    s == 0
}

fn gen_x(r: &mut Sm64, n: usize, p: usize, fam: u64) -> Vec<Vec<f64>> {
    let mut cols: Vec<Vec<f64>> = Vec::new();
    for j in 0..p {
        let col: Vec<f64> = match fam {
            0 => {
                // exactly centred small dyadic columns
                loop {
                    let sc = (2.0f64).powi(r.range(-2, 2) as i32);
                    let mut c: Vec<i64> = (0..n - 1).map(|_| r.range(-6, 6)).collect();
                    let s: i64 = c.iter().sum();
                    c.push(-s);
                    if c.iter().any(|v| *v != 0) { break c.iter().map(|v| *v as f64 * sc).collect(); }
                }
            }
            1 => {
                // offset (un-centred) columns
                let off = *r.pick(&[3.0, 10.0, -7.0, 100.0]);
                let sd = 0.5 + 1.5 * r.unit();
                (0..n).map(|_| off + sd * r.gauss()).collect()
            }
            2 => {
                // badly scaled columns with small offsets
                let sc = (10.0f64).powi(r.range(-3, 3) as i32);
                let off = *r.pick(&[0.0, 0.5, -2.0]);
                (0..n).map(|_| sc * (off + r.gauss())).collect()
            }
            5 => {
                // "standardised" columns: float-centred, unit norm (the diabetes data look like this)
                let raw: Vec<f64> = (0..n).map(|_| r.gauss()).collect();
                let m = raw.iter().sum::<f64>() / n as f64;
                let c: Vec<f64> = raw.iter().map(|v| v - m).collect();
                let nr = c.iter().map(|v| v * v).sum::<f64>().sqrt();
                c.iter().map(|v| v / nr).collect()
            }
            _ => {
                let off = *r.pick(&[0.0, 1.0, 10.0]);
                (0..n).map(|_| off + r.gauss()).collect()
            }
        };
        let _ = j;
        cols.push(col);
    }
    match fam {
        3 => {
            // a zero column, sometimes also a non-zero constant column
            let j = r.below(p as u64) as usize;
            cols[j] = vec![0.0; n];
            if p >= 3 && r.chance(0.5) {
                let k = (j + 1) % p;
                cols[k] = vec![2.5; n];
            }
        }
        7 => {
            // one informative column of tiny scale: squared norm below f64::EPSILON
            let j = r.below(p as u64) as usize;
            for v in cols[j].iter_mut() { *v *= 1e-9; }
        }
        4 => {
            // collinear design: duplicate or sum of two columns (p >= 2 guaranteed by the caller)
            if p >= 3 && r.chance(0.5) {
                cols[p - 1] = (0..n).map(|i| cols[0][i] + cols[1][i]).collect();
            } else {
                cols[p - 1] = cols[0].clone();
            }
        }
        _ => {}
    }
    (0..n).map(|i| (0..p).map(|j| cols[j][i]).collect()).collect()
}

fn gen_y(r: &mut Sm64, x: &[Vec<f64>], t: usize) -> Vec<Vec<f64>> {
    let n = x.len();
    let p = x[0].len();
    let scale: Vec<f64> = (0..p)
        .map(|j| {
            let s = x.iter().map(|row| row[j] * row[j]).sum::<f64>().sqrt() / (n as f64).sqrt();
            if s > 0.0 { s } else { 1.0 }
        })
        .collect();
    let mut w = vec![vec![0.0; t]; p];
    for j in 0..p {
        let dead = r.chance(0.35);
        for k in 0..t {
            if !dead && !r.chance(0.15) { w[j][k] = (r.range(-8, 8) as f64) * 0.5 / scale[j]; }
        }
    }
    let b0: Vec<f64> = (0..t).map(|_| *r.pick(&[0.0, 5.0, -20.0, 0.75])).collect();
    let noise = *r.pick(&[0.0, 0.1, 1.0]);
    (0..n)
        .map(|i| (0..t).map(|k| b0[k] + (0..p).map(|j| x[i][j] * w[j][k]).sum::<f64>() + noise * r.gauss()).collect())
        .collect()
}

fn gen_data(r: &mut Sm64, fam: u64, t: usize, maxn: usize, force_p: Option<usize>) -> Data {
    let p = force_p.unwrap_or_else(|| {
        let lo = if fam == 4 { 2 } else { 1 };
        lo + r.below((7 - lo) as u64) as usize
    });
    // n > p; sizes on both sides of the 8-lane boundary of ndarray's unrolled sums
    let n = p + 1 + r.below((maxn - p) as u64) as usize;
    let mut x = gen_x(r, n, p, fam);
    // most datasets carry 24-bit significands (exactly representable in f32 as well): the solver still
    // rounds at every step, but the exact rational re-computation of the oracle handles much smaller numbers
    let short = fam != 5 && fam != 0 && r.chance(0.8);
    if short { for row in x.iter_mut() { for v in row.iter_mut() { *v = (*v as f32) as f64; } } }
    let mut y = gen_y(r, &x, t);
    if short { for row in y.iter_mut() { for v in row.iter_mut() { *v = (*v as f32) as f64; } } }
    let forder = r.chance(0.15);
    Data::new(x, y, fam, forder)
}

// ---------------------------------------------------------------------------------------------
// fits
// ---------------------------------------------------------------------------------------------
#[derive(Clone, Debug)]
struct Hp { pen: f64, l1r: f64, icpt: bool, tol: f64, maxit: u32, how: u64 }

#[derive(Clone, Debug)]
struct FitOut { w: Vec<Vec<f64>>, b: Vec<f64>, gap: f64, steps: u32, pred: Vec<Vec<f64>> }

const DEF_PEN: f64 = 1.0;
const DEF_L1R: f64 = 0.5;
const DEF_TOL: f64 = 1e-4;
const DEF_MAXIT: u32 = 1000;

/// build the parameter set through the public builder API in different ways (`how`), leaving
/// defaults untouched where the requested value is the documented default
fn enet_params(h: &Hp) -> ElasticNetParams<f64> {
    let mut p = if h.l1r == 1.0 && h.how % 2 == 0 { ElasticNet::lasso() }
        else if h.l1r == 0.0 && h.how % 2 == 0 { ElasticNet::ridge() }
        else { ElasticNet::params() };
    if !(h.l1r == DEF_L1R) && !((h.l1r == 1.0 || h.l1r == 0.0) && h.how % 2 == 0) { p = p.l1_ratio(h.l1r); }
    if h.how % 3 == 0 {
        if h.tol != DEF_TOL { p = p.tolerance(h.tol); }
        if h.pen != DEF_PEN { p = p.penalty(h.pen); }
        if h.maxit != DEF_MAXIT { p = p.max_iterations(h.maxit); }
        if !h.icpt { p = p.with_intercept(false); }
    } else {
        if !h.icpt || h.how % 3 == 1 { p = p.with_intercept(h.icpt); }
        if h.maxit != DEF_MAXIT { p = p.max_iterations(h.maxit); }
        if h.pen != DEF_PEN { p = p.penalty(h.pen); }
        if h.tol != DEF_TOL { p = p.tolerance(h.tol); }
    }
    p
}
fn mtl_params(h: &Hp) -> MultiTaskElasticNetParams<f64> {
    let mut p = if h.l1r == 1.0 && h.how % 2 == 0 { MultiTaskElasticNet::lasso() }
        else if h.l1r == 0.0 && h.how % 2 == 0 { MultiTaskElasticNet::ridge() }
        else { MultiTaskElasticNet::params() };
    if !(h.l1r == DEF_L1R) && !((h.l1r == 1.0 || h.l1r == 0.0) && h.how % 2 == 0) { p = p.l1_ratio(h.l1r); }
    if !h.icpt || h.how % 3 == 1 { p = p.with_intercept(h.icpt); }
    if h.pen != DEF_PEN { p = p.penalty(h.pen); }
    if h.tol != DEF_TOL { p = p.tolerance(h.tol); }
    if h.maxit != DEF_MAXIT { p = p.max_iterations(h.maxit); }
    p
}

fn rows2(a: &Array2<f64>) -> Vec<Vec<f64>> { a.rows().into_iter().map(|r| r.to_vec()).collect() }

fn enet_params32(h2: &Hp) -> ElasticNetParams<f32> {
    let mut p = if h2.l1r == 1.0 && h2.how % 2 == 0 { ElasticNet::<f32>::lasso() }
        else if h2.l1r == 0.0 && h2.how % 2 == 0 { ElasticNet::<f32>::ridge() }
        else { ElasticNet::<f32>::params() };
    if !(h2.l1r == DEF_L1R) && !((h2.l1r == 1.0 || h2.l1r == 0.0) && h2.how % 2 == 0) { p = p.l1_ratio(h2.l1r as f32); }
    if !h2.icpt || h2.how % 3 == 1 { p = p.with_intercept(h2.icpt); }
    if h2.maxit != DEF_MAXIT { p = p.max_iterations(h2.maxit); }
    if h2.pen != DEF_PEN { p = p.penalty(h2.pen as f32); }
    if h2.tol != DEF_TOL { p = p.tolerance(h2.tol as f32); }
    p
}
/// generic runners: records, targets and query batch in whatever storage / layout the caller chose
fn run_enet<SX: NdData<Elem = f64>, SY: NdData<Elem = f64>>(x: ArrayBase<SX, Ix2>, y: ArrayBase<SY, Ix1>, h: &Hp, qh: &Held2<f64>) -> Result<FitOut, String> {
    let ds = DatasetBase::new(x, y);
    let m = enet_params(h).fit(&ds).map_err(|e| format!("{}", e))?;
    let pred = if qh.owned() { m.predict(&qh.store) } else { m.predict(&qh.view()) };
    Ok(FitOut { w: m.hyperplane().iter().map(|v| vec![*v]).collect(), b: vec![m.intercept()], gap: m.duality_gap(), steps: m.n_steps(), pred: pred.iter().map(|v| vec![*v]).collect() })
}
fn run_enet32<SX: NdData<Elem = f32>, SY: NdData<Elem = f32>>(x: ArrayBase<SX, Ix2>, y: ArrayBase<SY, Ix1>, h: &Hp, qh: &Held2<f32>) -> Result<FitOut, String> {
    let ds = DatasetBase::new(x, y);
    let m = enet_params32(h).fit(&ds).map_err(|e| format!("{}", e))?;
    let pred = if qh.owned() { m.predict(&qh.store) } else { m.predict(&qh.view()) };
    Ok(FitOut { w: m.hyperplane().iter().map(|v| vec![*v as f64]).collect(), b: vec![m.intercept() as f64], gap: m.duality_gap() as f64, steps: m.n_steps(), pred: pred.iter().map(|v| vec![*v as f64]).collect() })
}
fn run_mtl<SX: NdData<Elem = f64>, SY: NdData<Elem = f64>>(x: ArrayBase<SX, Ix2>, y: ArrayBase<SY, Ix2>, h: &Hp, qh: &Held2<f64>) -> Result<FitOut, String> {
    let ds = DatasetBase::new(x, y);
    let m = mtl_params(h).fit(&ds).map_err(|e| format!("{}", e))?;
    let pred = if qh.owned() { m.predict(&qh.store) } else { m.predict(&qh.view()) };
    Ok(FitOut { w: rows2(m.hyperplane()), b: m.intercept().to_vec(), gap: m.duality_gap(), steps: m.n_steps(), pred: rows2(&pred) })
}
fn run_ols<SX: NdData<Elem = f64>, SY: NdData<Elem = f64>>(x: ArrayBase<SX, Ix2>, y: ArrayBase<SY, Ix1>, icpt: bool, qh: &Held2<f64>) -> Result<FitOut, String> {
    let ds = DatasetBase::new(x, y);
    let lr = if icpt { LinearRegression::new() } else { LinearRegression::new().with_intercept(false) };
    let m = lr.fit(&ds).map_err(|e| format!("{}", e))?;
    let pred = if qh.owned() { m.predict(&qh.store) } else { m.predict(&qh.view()) };
    Ok(FitOut { w: m.params().iter().map(|v| vec![*v]).collect(), b: vec![m.intercept()], gap: 0.0, steps: 0, pred: pred.iter().map(|v| vec![*v]).collect() })
}
fn run_ols32<SX: NdData<Elem = f32>, SY: NdData<Elem = f32>>(x: ArrayBase<SX, Ix2>, y: ArrayBase<SY, Ix1>, icpt: bool, qh: &Held2<f32>) -> Result<FitOut, String> {
    let ds = DatasetBase::new(x, y);
    let lr = if icpt { LinearRegression::new() } else { LinearRegression::new().with_intercept(false) };
    let m = lr.fit(&ds).map_err(|e| format!("{}", e))?;
    let pred = if qh.owned() { m.predict(&qh.store) } else { m.predict(&qh.view()) };
    Ok(FitOut { w: m.params().iter().map(|v| vec![*v as f64]).collect(), b: vec![m.intercept() as f64], gap: 0.0, steps: 0, pred: pred.iter().map(|v| vec![*v as f64]).collect() })
}
fn col1(y: &[Vec<f64>]) -> Vec<f64> { y.iter().map(|r| r[0]).collect() }
fn unpanic(r: Result<Result<FitOut, String>, String>) -> Result<FitOut, String> { match r { Ok(r) => r, Err(p) => Err(format!("PANIC: {}", p)) } }

fn fit_enet(d: &Data, h: &Hp, q: &[Vec<f64>]) -> Result<FitOut, String> {
    let (xh, yh, qh) = (Held2::new(&d.x, d.p(), d.lx, id64), Held1::new(&col1(&d.y), d.ly, id64), Held2::new(q, d.p(), d.lq, id64));
    unpanic(guarded(std::panic::AssertUnwindSafe(|| with_layouts!(run_enet, xh, yh, h, &qh))))
}
/// the same estimator instantiated at f32; data and hyper-parameters are f32 values (exactly widened to f64 for Coq)
fn fit_enet32(d: &Data, h: &Hp, q: &[Vec<f64>]) -> Result<FitOut, String> {
    let (xh, yh, qh) = (Held2::new(&d.x, d.p(), d.lx, to32), Held1::new(&col1(&d.y), d.ly, to32), Held2::new(q, d.p(), d.lq, to32));
    unpanic(guarded(std::panic::AssertUnwindSafe(|| with_layouts!(run_enet32, xh, yh, h, &qh))))
}
fn fit_mtl(d: &Data, h: &Hp, q: &[Vec<f64>]) -> Result<FitOut, String> {
    let (xh, yh, qh) = (Held2::new(&d.x, d.p(), d.lx, id64), Held2::new(&d.y, d.t(), d.ly, id64), Held2::new(q, d.p(), d.lq, id64));
    unpanic(guarded(std::panic::AssertUnwindSafe(|| with_layouts!(run_mtl, xh, yh, h, &qh))))
}
fn fit_ols(d: &Data, icpt: bool, q: &[Vec<f64>]) -> Result<FitOut, String> {
    let (xh, yh, qh) = (Held2::new(&d.x, d.p(), d.lx, id64), Held1::new(&col1(&d.y), d.ly, id64), Held2::new(q, d.p(), d.lq, id64));
    unpanic(guarded(std::panic::AssertUnwindSafe(|| with_layouts!(run_ols, xh, yh, icpt, &qh))))
}
/// LinearRegression on an explicitly given (owned) design, used by the augmented-design differential; the targets come
/// in the layout `ly` (an owned reversed target keeps its negative stride through `to_owned`, and the QR sums follow it)
fn fit_ols_raw(x: Array2<f64>, y: &[f64], ly: u8, icpt: bool, q: Array2<f64>) -> Result<FitOut, String> {
    let qh = Held2 { store: q, lay: 0, wide: false };
    let yh = Held1::new(y, ly, id64);
    unpanic(guarded(std::panic::AssertUnwindSafe(|| if yh.owned() { run_ols(x, yh.store.clone(), icpt, &qh) } else { run_ols(x, yh.view(), icpt, &qh) })))
}
/// LinearRegression instantiated at f32; data are f32 values (exactly widened to f64 for Coq)
fn fit_ols32(d: &Data, icpt: bool, q: &[Vec<f64>]) -> Result<FitOut, String> {
    let (xh, yh, qh) = (Held2::new(&d.x, d.p(), d.lx, to32), Held1::new(&col1(&d.y), d.ly, to32), Held2::new(q, d.p(), d.lq, to32));
    unpanic(guarded(std::panic::AssertUnwindSafe(|| with_layouts!(run_ols32, xh, yh, icpt, &qh))))
}

/// robustness sweep "layout x scale": the SAME logical problem in another memory layout and / or scaled by a power
/// of two.  `key` rotates through the combinations (no extra cases).  Scaling: joint = records and targets times s,
/// penalty times s^2 (coefficients unchanged, intercept and predictions times s, duality gap times s^2); targets-only
/// = targets times s and the penalty times s where that is covariant (pure l1, pure l2 or no penalty: coefficients,
/// intercept times s).  Tolerances of the solvers are relative (gap < tol * |y|^2) and are not changed.
fn vary(d: &Data, h: &Hp, q: &[Vec<f64>], key: u64, f32v: bool, allow_scale: bool) -> (Data, Hp, Vec<Vec<f64>>) {
    let (mut d, mut h, mut q) = (d.clone(), h.clone(), q.to_vec());
    if d.lx == 0 { d.lx = [0u8, 1, 2, 3, 4, 5, 6][(key % 7) as usize]; }
    d.ly = [0u8, 0, 0, 2, 0, 3, 0, 6, 0, 1, 0, 5][((key / 7) % 12) as usize];
    d.lq = [0u8, 1, 2, 4, 6][((key / 3) % 5) as usize];
    let ks: &[i32] = if f32v { &[0, 0, 0, 20, 0, -20] } else { &[0, 0, 0, 0, -40, -20, 20, 40] };
    let mut k = if allow_scale { ks[((key / 2) % ks.len() as u64) as usize] } else { 0 };
    let target_ok = h.pen == 0.0 || h.l1r == 0.0 || h.l1r == 1.0;
    let mut mode = if k == 0 { 0 } else if target_ok && (key / 16) % 2 == 0 { 2 } else { 1 };
    // binary32: a joint down-scaling by 2^-20 puts every squared column norm under f32::EPSILON (finding F50 on all columns)
    if f32v && k < 0 && mode == 1 { k = 0; mode = 0; }
    if mode != 0 {
        let s = (2.0f64).powi(k);
        for row in d.y.iter_mut() { for v in row.iter_mut() { *v *= s; } }
        if mode == 1 {
            for row in d.x.iter_mut() { for v in row.iter_mut() { *v *= s; } }
            for row in q.iter_mut() { for v in row.iter_mut() { *v *= s; } }
            h.pen *= s * s;
        } else if h.l1r == 1.0 {
            h.pen *= s;
        }
    }
    d.sk = k; d.sm = mode;
    (d, h, q)
}

fn gen_queries(r: &mut Sm64, d: &Data) -> Vec<Vec<f64>> {
    let mut q = vec![d.x[r.below(d.n() as u64) as usize].clone()];
    q.push((0..d.p()).map(|_| r.range(-12, 12) as f64 * 0.25).collect());
    // a long-enough batch is not needed: predict is a per-row dot product over the p features
    q
}
fn arr2(rows: &[Vec<f64>], p: usize) -> Array2<f64> {
    Array2::from_shape_vec((rows.len(), p), rows.iter().flatten().cloned().collect()).unwrap()
}

/// JSON rendering of floats that python's json module can read back (NaN / Infinity literals)
fn jnum(x: f64) -> String {
    if x.is_nan() { "NaN".into() } else if x.is_infinite() { if x > 0.0 { "Infinity".into() } else { "-Infinity".into() } } else { format!("{:e}", x) }
}
fn jvec(v: &[f64]) -> String { format!("[{}]", v.iter().map(|x| jnum(*x)).collect::<Vec<_>>().join(", ")) }
fn jmat(m: &[Vec<f64>]) -> String { format!("[{}]", m.iter().map(|r| jvec(r)).collect::<Vec<_>>().join(", ")) }

// ---------------------------------------------------------------------------------------------
// Coq terms
// ---------------------------------------------------------------------------------------------
const K_ENET: u64 = 0;
const K_MTL: u64 = 1;
const K_OLS: u64 = 2;
const K_ENET32: u64 = 3; // elastic net at f32 (shipped to Coq as kind 0 with flag bit 3)
const K_OLS32: u64 = 4; // LinearRegression at f32 (shipped to Coq as kind 2 with flag bit 3)
fn is_ols(kind: u64) -> bool { kind == K_OLS || kind == K_OLS32 }

fn case_term(id: u64, kind: u64, replay: bool, fixed_point: bool, d: &Data, h: &Hp, f: &FitOut, q: &[Vec<f64>]) -> String {
    let f32run = kind == K_ENET32 || kind == K_OLS32;
    let kind = if kind == K_ENET32 { K_ENET } else if kind == K_OLS32 { K_OLS } else { kind };
    let flags = (replay as u64) | ((d.col_contig() as u64) << 1) | ((fixed_point as u64) << 2) | ((f32run as u64) << 3)
        | ((!d.qrow_contig(q) as u64) << 4) | (((d.ly_eff(kind) != 0) as u64) << 5) | (((kind == K_MTL && d.ly_eff(kind) != 0 && d.rcol_contig(h.icpt)) as u64) << 6);
    // hyper-parameters as the f32 values the estimator sees
    let hh = if f32run { Hp { pen: h.pen as f32 as f64, l1r: h.l1r as f32 as f64, tol: h.tol as f32 as f64, ..h.clone() } } else { h.clone() };
    let h = &hh;
    format!(
        "{{| c_id := {}; c_kind := {}; c_flags := {}; c_X := {}; c_Y := {}; c_icpt := {}; c_pen := {}; c_l1r := {}; c_tol := {}; c_maxit := {}; c_W := {}; c_b := {}; c_gap := {}; c_steps := {}; c_Q := {}; c_pred := {} |}}",
        cn(id), cn(kind), cn(flags), cmat64(&d.x), cmat64(&d.y), cbool(h.icpt), sf64(h.pen), sf64(h.l1r), sf64(h.tol), cn(h.maxit as u64),
        cmat64(&f.w), cvec64(&f.b), sf64(f.gap), cn(f.steps as u64), cmat64(q), cmat64(&f.pred)
    )
}

fn all_finite(f: &FitOut) -> bool {
    f.w.iter().flatten().all(|v| v.is_finite()) && f.b.iter().all(|v| v.is_finite()) && f.gap.is_finite()
}

/// the objective the implementation minimises, times n (as the solver scales it), for the returned point
fn objective_n(d: &Data, h: &Hp, f: &FitOut) -> f64 {
    let (n, p, t) = (d.n(), d.p(), d.t());
    let mut sse = 0.0;
    for i in 0..n {
        for k in 0..t {
            let mut e = d.y[i][k] - f.b[k];
            for j in 0..p { e -= d.x[i][j] * f.w[j][k]; }
            sse += e * e;
        }
    }
    let l1 = h.l1r * h.pen * n as f64;
    let l2 = (1.0 - h.l1r) * h.pen * n as f64;
    let l21: f64 = f.w.iter().map(|r| r.iter().map(|v| v * v).sum::<f64>().sqrt()).sum();
    let fro: f64 = f.w.iter().flatten().map(|v| v * v).sum();
    0.5 * sse + l1 * l21 + 0.5 * l2 * fro
}

/// calibration aid (VERIF_C11_CALIB=1): first-order residuals of the returned point in units of the
/// two candidate tolerance scales, printed to stderr
fn calib(kind: u64, d: &Data, h: &Hp, f: &FitOut, converged: bool, stream: &str, id: u64) -> (f64, f64) {
    let (n, p, t) = (d.n(), d.p(), d.t());
    let l1 = h.l1r * h.pen * n as f64;
    let l2 = (1.0 - h.l1r) * h.pen * n as f64;
    let mut r = vec![vec![0.0; t]; n];
    let mut s = 0.0;
    for i in 0..n { for k in 0..t {
        let yc = d.y[i][k] - f.b[k];
        s += yc * yc;
        let mut e = yc;
        for j in 0..p { e -= d.x[i][j] * f.w[j][k]; }
        r[i][k] = e;
    }}
    let mut fs = 0.0;
    for k in 0..t {
        fs += d.y.iter().map(|row| row[k].abs()).sum::<f64>() + n as f64 * f.b[k].abs();
        for j in 0..p { fs += d.x.iter().map(|row| row[j].abs()).sum::<f64>() * f.w[j][k].abs(); }
    }
    let (mut worst_tol, mut worst_floor) = (0.0f64, 0.0f64);
    for j in 0..p {
        let x1: f64 = d.x.iter().map(|row| row[j].abs()).sum();
        let lj: f64 = d.x.iter().map(|row| row[j] * row[j]).sum::<f64>() + l2;
        let g: Vec<f64> = (0..t).map(|k| (0..n).map(|i| d.x[i][j] * r[i][k]).sum::<f64>() - l2 * f.w[j][k]).collect();
        let wn = f.w[j].iter().map(|v| v * v).sum::<f64>().sqrt();
        let res = if wn == 0.0 { (g.iter().map(|v| v * v).sum::<f64>().sqrt() - l1).max(0.0) }
            else { g.iter().zip(&f.w[j]).map(|(gv, wv)| (gv - l1 * wv / wn).powi(2)).sum::<f64>().sqrt() };
        if x1 == 0.0 { continue; }
        worst_tol = worst_tol.max(res * res / (h.tol * lj * s).max(1e-300));
        worst_floor = worst_floor.max(res / (x1 * fs).max(1e-300));
    }
    if std::env::var("VERIF_C11_CALIB").is_ok() {
        eprintln!("CALIB id={} kind={} stream={} conv={} tol={:e} pen={:e} l1r={} steps={} fam={} ratio_tol={:e} ratio_floor={:e}", id, kind, stream, converged, h.tol, h.pen, h.l1r, f.steps, d.fam, worst_tol, worst_floor);
    }
    (worst_tol, worst_floor)
}

/// input class of the "coefficient band" finding F52 (repaired in /repo 8010f90; the tag and the `tiny_target`
/// stream stay as a regression stream: the oracle must accept these cases and the bit-exact replay must match).
/// Decided from the input alone, in binary64: from the start
/// w = 0, r = y - intercept every non-skipped feature's coordinate minimiser (multi-task: the norm of its row)
/// is at most EPSILON and at least one is non-zero.  Before the repair `abs_diff_ne!(w_j, 0)` was false for every
/// value the solver ever stored, the residual stayed y for the whole run, and each coefficient was the minimiser
/// of its own one-feature problem (wrong on correlated features).
fn band_start(kind: u64, d: &Data, h: &Hp) -> bool {
    let (n, p, t) = (d.n(), d.p(), d.t());
    if n == 0 || p == 0 || t == 0 { return false; }
    let eps = if kind == K_ENET32 { f32::EPSILON as f64 } else { f64::EPSILON };
    let l1 = h.l1r * h.pen * n as f64;
    let l2 = (1.0 - h.l1r) * h.pen * n as f64;
    let mean: Vec<f64> = (0..t).map(|k| if h.icpt { d.y.iter().map(|r| r[k]).sum::<f64>() / n as f64 } else { 0.0 }).collect();
    let mut any = false;
    for j in 0..p {
        let nj: f64 = d.x.iter().map(|row| row[j] * row[j]).sum();
        if nj <= eps { continue; }
        let c: Vec<f64> = (0..t).map(|k| (0..n).map(|i| d.x[i][j] * (d.y[i][k] - mean[k])).sum::<f64>()).collect();
        let cn: f64 = c.iter().map(|v| v * v).sum::<f64>().sqrt();
        let wn = (cn - l1).max(0.0) / (nj + l2);
        if !(wn <= eps) { return false; }
        if wn > 0.0 { any = true; }
    }
    any
}

struct Ctx { out: Out, id: u64, replay_cap: u32, replay_cap32: usize }

impl Ctx {
    fn tags(&self, kind: u64, d: &Data, h: &Hp, extra: &[&str]) -> Vec<String> {
        let mut t: Vec<String> = vec![
            match kind { K_ENET => "kind_enet", K_ENET32 => "kind_enet", K_MTL => "kind_mtl", _ => "kind_ols" }.into(),
            if h.icpt { "fit_intercept" } else { "no_intercept" }.into(),
            if d.centred() { "centred" } else { "uncentred" }.into(),
            format!("fam_{}", d.fam),
            format!("lx_{}", LAYOUTS[d.lx as usize]),
            format!("ly_{}", LAYOUTS[d.ly_eff(kind) as usize]),
            format!("lq_{}", LAYOUTS[d.lq as usize]),
            format!("scale_{}_{}", d.sk, ["none", "joint", "targets"][d.sm as usize]),
        ];
        // a non-zero feature column whose squared norm is <= f64::EPSILON (the solvers skip it: approx::abs_diff_eq!(norm, 0))
        let eps_kind = if kind == K_ENET32 { f32::EPSILON as f64 } else { f64::EPSILON };
        if !is_ols(kind) && (0..d.p()).any(|j| { let q: f64 = d.x.iter().map(|row| row[j] * row[j]).sum(); q > 0.0 && q <= eps_kind }) {
            t.push("tiny_column".into());
        }
        // regression class of finding F52 (repaired): started from w = 0, r = y, the coordinate minimisers
        // soft(x_j.y, l1) / (|x_j|^2 + l2) of ALL non-skipped features are <= EPSILON in magnitude (and not all 0) -
        // coefficients the pre-repair guard `abs_diff_ne!(w[j], 0)` took for zero
        if !is_ols(kind) && band_start(kind, d, h) { t.push("coef_band".into()); }
        for e in extra { t.push(e.to_string()); }
        t
    }
    fn desc(&self, kind: u64, d: &Data, h: &Hp, f: Option<&FitOut>, stream: &str) -> String {
        let fo = match f {
            Some(f) => format!(", \"W\": {}, \"b\": {}, \"gap\": {}, \"n_steps\": {}", jmat(&f.w), jvec(&f.b), jnum(f.gap), f.steps),
            None => String::new(),
        };
        format!(
            "{{\"stream\": {}, \"kind\": {}, \"n\": {}, \"p\": {}, \"t\": {}, \"family\": {}, \"layout_x\": {}, \"layout_y\": {}, \"layout_q\": {}, \"scale_log2\": {}, \"scale_mode\": {}, \"penalty\": {}, \"l1_ratio\": {}, \"with_intercept\": {}, \"tolerance\": {}, \"max_iterations\": {}, \"X\": {}, \"Y\": {}{}}}",
            jstr(stream), kind, d.n(), d.p(), d.t(), d.fam, jstr(LAYOUTS[d.lx as usize]), jstr(LAYOUTS[d.ly_eff(kind) as usize]), jstr(LAYOUTS[d.lq as usize]), d.sk, jstr(["none", "joint", "targets"][d.sm as usize]), jnum(h.pen), jnum(h.l1r), h.icpt, jnum(h.tol), h.maxit, jmat(&d.x), jmat(&d.y), fo
        )
    }
    /// one elastic-net / multi-task fit -> one Coq case (or a Rust-side failure)
    fn emit_fit(&mut self, kind: u64, d: &Data, h: &Hp, q: &[Vec<f64>], stream: &str, expect_ok: bool) -> Option<FitOut> {
        let id = self.id;
        self.id += 1;
        let res = match kind { K_ENET => fit_enet(d, h, q), K_ENET32 => fit_enet32(d, h, q), K_MTL => fit_mtl(d, h, q), K_OLS32 => fit_ols32(d, h.icpt, q), _ => fit_ols(d, h.icpt, q) };
        let kname = match kind { K_ENET => "enet", K_ENET32 => "enet_f32", K_MTL => "mtl", K_OLS32 => "ols_f32", _ => "ols" };
        self.out.bump(&format!("stream_{}", stream));
        self.out.bump(&format!("layout_x_{}", LAYOUTS[d.lx as usize]));
        self.out.bump(&format!("layout_y_{}", LAYOUTS[d.ly_eff(kind) as usize]));
        self.out.bump(&format!("layout_q_{}", LAYOUTS[d.lq as usize]));
        self.out.bump(&format!("scale_2^{}_{}", d.sk, ["none", "joint", "targets"][d.sm as usize]));
        self.out.bump(&format!("kind_{}", kname));
        self.out.bump(&format!("family_{}", d.fam));
        self.out.bump(&format!("{}_{}", kname, if h.icpt { "intercept" } else { "nointercept" }));
        self.out.bump(&format!("n_{}", if d.n() < 8 { "lt8" } else if d.n() < 16 { "8to15" } else { "ge16" }));
        if !is_ols(kind) {
            self.out.bump(&format!("penalty_{:e}", h.pen));
            self.out.bump(&format!("l1ratio_{}", h.l1r));
        }
        match res {
            Err(e) => {
                let tags = self.tags(kind, d, h, &["fit_error"]);
                let tr: Vec<&str> = tags.iter().map(|s| s.as_str()).collect();
                let desc = self.desc(kind, d, h, None, stream);
                if expect_ok {
                    self.out.rust_fail(id, 64, &tr, &format!("fit failed on valid input: {}", e), &desc);
                }
                self.out.rust_eval(&desc, None);
                None
            }
            Ok(f) => {
                let converged = is_ols(kind) || f.steps < h.maxit;
                // binary32 arithmetic is emulated in Coq (SpecFloat, about 60 us per operation): the replay is bounded by
                // the number of coefficient updates times n (the stream keeps n <= 22, p <= 5, budget <= 1000 sweeps, so
                // the quick-tier bound already covers every run of the stream, the 1000-sweep ridge runs included)
                // targets in a non-standard layout: ndarray's `mean_axis` / `dot` legitimately sum in another order.  The single-task
                // solver with intercept is still replayed (from the implementation's intercept, which is compared with the exact
                // mean), so is the multi-task solver; single-task fits without intercept on such targets are judged by the
                // oracle only (the solver's vector dot products then run in another order)
                let modelled = d.ly_eff(kind) == 0 || kind == K_MTL || ((kind == K_ENET || kind == K_ENET32) && h.icpt);
                let replay = modelled && if kind == K_ENET32 { (f.steps as usize) * d.n() * d.p() <= self.replay_cap32 } else { !is_ols(kind) && f.steps <= self.replay_cap };
                // a run that used its whole budget may still sit on a fixed point of the sweep: two more sweeps
                // leave every coefficient bit-identical (this is how ridge and penalty-0 fits end: their duality
                // gap degenerates to the primal objective and never falls under the tolerance)
                let mut fixed_point = false;
                if !is_ols(kind) && !converged && h.maxit >= 100 && all_finite(&f) {
                    let mut h2 = h.clone();
                    h2.maxit = h.maxit + 2;
                    let again = if kind == K_ENET { fit_enet(d, &h2, q) } else if kind == K_ENET32 { fit_enet32(d, &h2, q) } else { fit_mtl(d, &h2, q) };
                    if let Ok(g) = again {
                        fixed_point = g.w.iter().flatten().zip(f.w.iter().flatten()).all(|(a, b)| a.to_bits() == b.to_bits());
                    }
                }
                let mut extra: Vec<&str> = vec![];
                extra.push(if converged { "converged" } else if fixed_point { "fixed_point" } else { "budget_exhausted" });
                if !is_ols(kind) && h.pen * h.l1r == 0.0 { extra.push("l1_zero"); }
                if !is_ols(kind) && kind != K_ENET32 && all_finite(&f) && (converged || fixed_point) {
                    // slack actually consumed (approximate, binary64): squared first-order residual in units of
                    // tol*L_j*|y|^2 (the checker allows kappa = 2) resp. residual in units of the rounding floor scale
                    // (the checker allows 2^-36 = 1.5e-11)
                    let (rt, rf) = calib(kind, d, h, &f, converged, stream, id);
                    if converged && h.tol > 0.0 {
                        self.out.bump(if rt <= 0.02 { "slack_tol_le_0.02" } else if rt <= 0.2 { "slack_tol_le_0.2" } else if rt <= 2.0 { "slack_tol_le_2" } else { "slack_tol_gt_2" });
                    } else {
                        self.out.bump(if rf <= 1e-15 { "slack_floor_le_1e-15" } else if rf <= 1e-13 { "slack_floor_le_1e-13" } else if rf <= 1.4e-11 { "slack_floor_le_1.4e-11" } else { "slack_floor_gt_1.4e-11" });
                    }
                }
                if !all_finite(&f) { extra.push("non_finite_output"); }
                if !is_ols(kind) {
                    self.out.bump(if converged { "solver_converged" } else if fixed_point { "solver_budget_exhausted_at_fixed_point" } else { "solver_budget_exhausted_not_converged" });
                    self.out.bump(if replay { "replayed_bit_exactly" } else if !modelled { "oracle_only_target_layout" } else { "oracle_only_too_many_sweeps" });
                    if kind == K_ENET32 {
                        self.out.bump(if replay { "f32_replayed_bit_exactly" } else { "f32_oracle_only" });
                        if replay && f.steps >= 100 { self.out.bump("f32_replayed_100_or_more_sweeps"); }
                    }
                    let nz = f.w.iter().filter(|r| r.iter().any(|v| *v != 0.0)).count();
                    self.out.bump(if nz == 0 { "coef_all_zero" } else if nz == d.p() { "coef_all_nonzero" } else { "coef_some_zero" });
                }
                let tags = self.tags(kind, d, h, &extra);
                let tr: Vec<&str> = tags.iter().map(|s| s.as_str()).collect();
                let desc = self.desc(kind, d, h, Some(&f), stream);
                let term = case_term(id, kind, replay, fixed_point, d, h, &f, q);
                let nontrivial = d.p() >= 1 && d.n() > d.p() && f.w.iter().flatten().any(|v| *v != 0.0);
                let key = if nontrivial {
                    let mut v: Vec<f64> = d.x.concat();
                    v.extend(d.y.concat());
                    v.extend_from_slice(&[h.pen, h.l1r, h.tol, h.maxit as f64, h.icpt as u64 as f64, kind as f64]);
                    Some(fnv_f64s(&v, kind))
                } else { None };
                self.out.case(id, &term, &tr, &desc, key);
                Some(f)
            }
        }
    }
}

fn pick_hp(r: &mut Sm64, fam: u64, converge: bool, thorough: bool) -> Hp {
    let mut pen = *r.pick(&[0.0, 1e-3, 0.1, 1.0, 10.0, 0.1, 1e-3]);
    if fam == 4 && pen == 0.0 { pen = 0.1; }          // collinear designs only with regularisation
    if fam == 3 && pen == 0.0 { pen = 1e-3; }
    let l1r = *r.pick(&[0.0, 0.3, 1.0, 0.5, 0.9]);
    let icpt = r.chance(0.5);
    let (tol, maxit) = if converge {
        (*r.pick(&[1e-4, 1e-6, 1e-8, 1e-10]), if thorough { *r.pick(&[1000u32, 20000, 100000]) } else { *r.pick(&[1000u32, 1000, 5000, 20000]) })
    } else {
        (*r.pick(&[1e-4, 1e-2, 1e-8, 0.0, 0.5]), r.below(8) as u32)
    };
    Hp { pen, l1r, icpt, tol, maxit, how: r.below(6) }
}

fn main() {
    let args = parse_args();
    let mut rng = Sm64::new(args.seed);
    let thorough = args.tier == "thorough";
    let out = Out::new(&args.out, args.shards, "C11.Corr", "case", args.only);
    let mut vk: u64 = 0; // rotates memory layouts and power-of-two scalings over the cases
    let mut cx = Ctx { out, id: 0, replay_cap: if thorough { 20000 } else { 1000 }, replay_cap32: 160000 };
    let maxn = if thorough { 40 } else { 26 };

    // ---- stream S: exhaustive small single-feature problems on an integer lattice (ties at the l1 threshold,
    //      zero columns, exact gaps) ----
    {
        let ys: [[f64; 3]; 3] = [[-1.0, 0.0, 1.0], [1.0, 1.0, 2.0], [0.0, 0.0, 0.0]];
        let hps: [(f64, f64); 5] = [(0.0, 0.5), (0.5, 1.0), (0.5, 0.0), (0.25, 0.5), (1.0, 1.0)];
        let vals: &[f64] = if thorough { &[-1.0, 0.0, 1.0, 2.0] } else { &[-1.0, 0.0, 1.0] };
        let mut cnt = 0u64;
        for a in vals { for b in vals { for c in vals {
            for y in ys.iter() {
                for (pen, l1r) in hps.iter() {
                    for icpt in [false, true] {
                        cnt += 1;
                        let d = Data::new(vec![vec![*a], vec![*b], vec![*c]], y.iter().map(|v| vec![*v]).collect(), 9, false);
                        let h = Hp { pen: *pen, l1r: *l1r, icpt, tol: if cnt % 3 == 0 { 0.0 } else { 1e-4 }, maxit: if cnt % 3 == 0 { 30 } else { 1000 }, how: cnt % 6 };
                        let q = vec![vec![2.0], vec![-0.5]];
                        let (d, h, q) = vary(&d, &h, &q, cnt, false, true);
                        cx.emit_fit(K_ENET, &d, &h, &q, "small_exhaustive", true);
                    }
                }
            }
        }}}
        // two-feature / two-task lattice problems for the multi-task solver
        let cols: [[f64; 4]; 4] = [[1.0, -1.0, 0.0, 0.0], [1.0, 1.0, -1.0, -1.0], [0.0, 0.0, 0.0, 0.0], [2.0, 1.0, 0.0, -1.0]];
        let tys: [[f64; 4]; 3] = [[1.0, 1.0, 5.0, 5.0], [1.0, -1.0, 2.0, 0.0], [0.0, 0.0, 0.0, 0.0]];
        for c1 in cols.iter() { for c2 in cols.iter() {
            for y1 in tys.iter() { for y2 in tys.iter() {
                for (pen, l1r) in [(0.25, 0.5), (0.5, 1.0), (0.125, 0.0)].iter() {
                    cnt += 1;
                    let d = Data::new((0..4).map(|i| vec![c1[i], c2[i]]).collect(), (0..4).map(|i| vec![y1[i], y2[i]]).collect(), 9, false);
                    let h = Hp { pen: *pen, l1r: *l1r, icpt: cnt % 2 == 0, tol: 1e-4, maxit: 1000, how: cnt % 6 };
                    let q = vec![vec![2.0, 1.0]];
                    let (d, h, q) = vary(&d, &h, &q, cnt, false, true);
                    cx.emit_fit(K_MTL, &d, &h, &q, "small_exhaustive", true);
                }
            }}
        }}
    }

    // ---- stream A: elastic net, budgets large enough to converge ----
    let na = if thorough { 1600 } else { 300 };
    for _ in 0..na {
        let mut r = rng.fork();
        let fam = *r.pick(&[0u64, 0, 1, 2, 2, 3, 4, 5, 6]);
        let d = gen_data(&mut r, fam, 1, maxn, None);
        let h = pick_hp(&mut r, fam, true, thorough);
        let q = gen_queries(&mut r, &d);
        vk += 1;
        let (d, h, q) = vary(&d, &h, &q, vk, false, true);
        cx.emit_fit(K_ENET, &d, &h, &q, "enet_converge", true);
    }

    // ---- stream B: elastic net, growing small iteration budgets on one problem (stopping-rule corner
    //      `n_steps == max_steps - 1`, stale gaps) + metamorphic check: the objective never increases ----
    let nb = if thorough { 220 } else { 40 };
    for _ in 0..nb {
        let mut r = rng.fork();
        let fam = *r.pick(&[0u64, 1, 2, 3, 5, 6]);
        let d = gen_data(&mut r, fam, 1, maxn, None);
        let h = pick_hp(&mut r, fam, false, thorough);
        let q = gen_queries(&mut r, &d);
        vk += 1;
        let (d, mut h, q) = vary(&d, &h, &q, vk, false, true);
        let mut prev: Option<f64> = None;
        for b in 0..=6u32 {
            h.maxit = b;
            let first_id = cx.id;
            if let Some(f) = cx.emit_fit(K_ENET, &d, &h, &q, "enet_budget", true) {
                if all_finite(&f) {
                    let o = objective_n(&d, &h, &f);
                    if let Some(po) = prev {
                        if o > po + 1e-9 * po.abs().max(1e-300) {
                            let tags = cx.tags(K_ENET, &d, &h, &["budget_series"]);
                            let tr: Vec<&str> = tags.iter().map(|s| s.as_str()).collect();
                            let desc = cx.desc(K_ENET, &d, &h, Some(&f), "enet_budget");
                            cx.out.rust_fail(first_id, 4096, &tr, &format!("objective rose from {:e} to {:e} when max_iterations grew to {}", po, o, b), &desc);
                        }
                    }
                    prev = Some(o);
                }
            }
        }
    }

    // ---- stream C: multi-task elastic net, converging and budget-limited ----
    let nc = if thorough { 900 } else { 180 };
    for i in 0..nc {
        let mut r = rng.fork();
        let fam = *r.pick(&[0u64, 0, 1, 2, 3, 4, 5, 6]);
        let t = 1 + r.below(3) as usize;
        let d = gen_data(&mut r, fam, t, maxn, None);
        let converge = i % 4 != 0;
        let h = pick_hp(&mut r, fam, converge, thorough);
        let q = gen_queries(&mut r, &d);
        vk += 1;
        let (d, h, q) = vary(&d, &h, &q, vk, false, true);
        cx.emit_fit(K_MTL, &d, &h, &q, if converge { "mtl_converge" } else { "mtl_budget" }, true);
    }

    // ---- stream F: elastic net at f32 (same generic code, binary32 arithmetic replayed through SpecFloat) ----
    let nf = if thorough { 400 } else { 96 };
    for _ in 0..nf {
        let mut r = rng.fork();
        let fam = *r.pick(&[0u64, 1, 2, 3, 6]);
        let p = 1 + r.below(5) as usize;
        let mut d = gen_data(&mut r, fam, 1, 22, Some(p));
        // every value must be an f32 value
        for row in d.x.iter_mut() { for v in row.iter_mut() { *v = (*v as f32) as f64; } }
        for row in d.y.iter_mut() { for v in row.iter_mut() { *v = (*v as f32) as f64; } }
        let conv = r.chance(0.7);
        let mut h = pick_hp(&mut r, fam, conv, thorough);
        if h.maxit > 1000 { h.maxit = 1000; }
        if h.tol != 0.0 && h.tol < 1e-6 { h.tol = 1e-6; }     // below the resolution of f32 nothing converges
        let mut q = gen_queries(&mut r, &d);
        for row in q.iter_mut() { for v in row.iter_mut() { *v = (*v as f32) as f64; } }
        vk += 1;
        let (d, h, q) = vary(&d, &h, &q, vk, true, true);
        cx.emit_fit(K_ENET32, &d, &h, &q, "enet_f32", true);
    }

    // ---- stream G: a feature column of scale 1e-9 (squared norm below f64::EPSILON) that carries signal ----
    let ng = if thorough { 60 } else { 8 };
    for i in 0..ng {
        let mut r = rng.fork();
        let t = if i % 2 == 0 { 1 } else { 2 };
        let d = gen_data(&mut r, 7, t, maxn, None);
        let mut h = pick_hp(&mut r, 7, true, thorough);
        h.pen = *r.pick(&[0.0, 1e-3]);
        h.l1r = *r.pick(&[0.0, 0.5]);
        let q = gen_queries(&mut r, &d);
        vk += 1;
        let (d, h, q) = vary(&d, &h, &q, vk, false, false);
        cx.emit_fit(if t == 1 { K_ENET } else { K_MTL }, &d, &h, &q, "tiny_column", true);
    }

    // ---- stream H (regression stream of finding F52): targets of scale 1e-17 on correlated (offset) features:
    //      every coefficient is below f64::EPSILON in magnitude, which the pre-repair guard
    //      `abs_diff_ne!(w[j], 0)` took for zero ----
    let nh = if thorough { 40 } else { 6 };
    for i in 0..nh {
        let mut r = rng.fork();
        let t = if i % 3 == 2 { 2 } else { 1 };
        let mut d = gen_data(&mut r, 1, t, maxn, Some(2 + (i % 2) as usize));
        for row in d.y.iter_mut() { for v in row.iter_mut() { *v *= 1e-17; } }
        let mut h = pick_hp(&mut r, 1, true, thorough);
        h.pen = *r.pick(&[0.0, 1e-3]);
        h.l1r = 0.0;
        h.icpt = false;
        let q = gen_queries(&mut r, &d);
        vk += 1;
        let (d, h, q) = vary(&d, &h, &q, vk, false, false);
        cx.emit_fit(if t == 1 { K_ENET } else { K_MTL }, &d, &h, &q, "tiny_target", true);
    }

    // ---- stream D: ordinary least squares (full column rank), with the augmented-design differential ----
    let nd = if thorough { 700 } else { 140 };
    for _ in 0..nd {
        let mut r = rng.fork();
        let fam = *r.pick(&[0u64, 1, 2, 5, 6, 6]);
        let d = gen_data(&mut r, fam, 1, maxn, None);
        let icpt = r.chance(0.6);
        // with an intercept the design [X 1] needs n > p + 1 for a proper least-squares problem
        if icpt && d.n() <= d.p() + 1 { continue; }
        let h = Hp { pen: 0.0, l1r: 0.0, icpt, tol: 0.0, maxit: 0, how: 0 };
        let q = gen_queries(&mut r, &d);
        vk += 1;
        let (d, h, q) = vary(&d, &h, &q, vk, false, true);
        let first_id = cx.id;
        if let Some(f) = cx.emit_fit(K_OLS, &d, &h, &q, "ols", true) {
            if icpt {
                // LinearRegression with intercept must be the no-intercept fit of the design [X 1], bit for bit
                let (n, p) = (d.n(), d.p());
                // (`concatenate` along axis 1 builds a column-major array, and the QR sums depend on the layout)
                let mut aug = Array2::<f64>::ones((n, p + 1).f());
                for i in 0..n { for j in 0..p { aug[[i, j]] = d.x[i][j]; } }
                let qa = Array2::<f64>::zeros((1, p + 1));
                match fit_ols_raw(aug, &col1(&d.y), d.ly, false, qa) {
                    Ok(g) => {
                        let same = (0..p).all(|j| g.w[j][0].to_bits() == f.w[j][0].to_bits()) && g.w[p][0].to_bits() == f.b[0].to_bits() && g.b[0] == 0.0;
                        if !same {
                            let tags = cx.tags(K_OLS, &d, &h, &["augmented_differential"]);
                            let tr: Vec<&str> = tags.iter().map(|s| s.as_str()).collect();
                            let desc = cx.desc(K_OLS, &d, &h, Some(&f), "ols");
                            cx.out.rust_fail(first_id, 1024, &tr, &format!("fit with intercept {:?}/{:?} differs from the no-intercept fit of [X 1] {:?}", f.w, f.b, g.w), &desc);
                        }
                    }
                    Err(e) => {
                        let tags = cx.tags(K_OLS, &d, &h, &["augmented_differential"]);
                        let tr: Vec<&str> = tags.iter().map(|s| s.as_str()).collect();
                        let desc = cx.desc(K_OLS, &d, &h, Some(&f), "ols");
                        cx.out.rust_fail(first_id, 1024, &tr, &format!("no-intercept fit of [X 1] failed: {}", e), &desc);
                    }
                }
                cx.out.bump("ols_augmented_differential");
            }
        }
    }

    // ---- stream I: ordinary least squares on ill-conditioned but full-column-rank designs ("whatever the offsets
    //      and scales of the features").  Columns are independent gaussian / uniform samples, so the design
    //      [X 1] has full column rank; the condition number of the column-equilibrated design is about
    //      offset/spread (stream a, at most 1e9) resp. that of a random unit-scale matrix (stream b: the scales
    //      10^-6..10^6 only enter the un-equilibrated condition number, up to 1e12) ----
    let ni = if thorough { 360 } else { 72 };
    for i in 0..ni {
        let mut r = rng.fork();
        let p = 1 + r.below(4) as usize;
        let n = p + 3 + r.below((maxn - p - 3) as u64) as usize;
        let variant = i % 3; // 0: offsets (f64), 1: scales (f64), 2: offsets (f32)
        let f32v = variant == 2;
        let mut cols: Vec<Vec<f64>> = vec![];
        let mut scale = vec![1.0f64; p];
        let common = *r.pick(&[1e3, 1e4, 1e5, 1e6, 1e7, 1e8, 1e9]);
        for j in 0..p {
            let unif = r.chance(0.5);
            let (off, sc) = match variant {
                0 => (if r.chance(0.5) { common } else { *r.pick(&[1e3, 1e4, 1e5, 1e6, 1e7, 1e8, 1e9, -1e6, -1e9]) }, 0.5 + 1.5 * r.unit()),
                1 => (*r.pick(&[0.0, 0.0, 0.5, -2.0]), (10.0f64).powi(r.range(-6, 6) as i32)),
                _ => (*r.pick(&[1e2, 1e3, 3e3, -2e3, 1013.0, 1990.0]), 0.5 + 1.5 * r.unit()),
            };
            scale[j] = sc;
            cols.push((0..n).map(|_| { let u = if unif { 2.0 * r.unit() - 1.0 } else { r.gauss() }; let v = sc * (off + u); if f32v { (v as f32) as f64 } else { v } }).collect());
        }
        let w: Vec<f64> = (0..p).map(|j| (r.range(-8, 8) as f64) * 0.5 / scale[j]).collect();
        let b0 = *r.pick(&[0.0, 5.0, -20.0, 0.75]);
        let noise = *r.pick(&[0.0, 0.1, 1.0, 1.0]);
        let y: Vec<Vec<f64>> = (0..n).map(|k| { let v = b0 + (0..p).map(|j| cols[j][k] * w[j]).sum::<f64>() + noise * r.gauss(); vec![if f32v { (v as f32) as f64 } else { v }] }).collect();
        let x: Vec<Vec<f64>> = (0..n).map(|k| (0..p).map(|j| cols[j][k]).collect()).collect();
        let d = Data::new(x, y, 10 + variant as u64, r.chance(0.15));
        // offsets make the design ill-conditioned only together with the constant column
        let icpt = if variant == 1 { r.chance(0.6) } else { r.chance(0.9) };
        let h = Hp { pen: 0.0, l1r: 0.0, icpt, tol: 0.0, maxit: 0, how: 0 };
        let mut q = gen_queries(&mut r, &d);
        if f32v { for row in q.iter_mut() { for v in row.iter_mut() { *v = (*v as f32) as f64; } } }
        vk += 1;
        let (d, h, q) = vary(&d, &h, &q, vk, f32v, true);
        cx.emit_fit(if f32v { K_OLS32 } else { K_OLS }, &d, &h, &q, ["ols_offset", "ols_scales", "ols_offset_f32"][variant], true);
    }

    // ---- stream E: hyper-parameter guard of the elastic-net builders (error paths) ----
    {
        let d = Data::new(vec![vec![1.0], vec![2.0], vec![4.0]], vec![vec![1.0], vec![0.0], vec![2.0]], 9, false);
        let bad: [(f64, f64, f64, bool); 10] = [
            (-1.0, 0.5, 1e-4, false), (-1e-300, 0.5, 1e-4, false), (1.0, -0.1, 1e-4, false), (1.0, 1.5, 1e-4, false), (1.0, 0.5, -1e-9, false),
            (0.0, 0.0, 0.0, true), (1.0, 1.0, 1e-4, true), (1e3, 0.5, 1.0, true), (1.0, f64::NAN, 1e-4, false), (f64::NEG_INFINITY, 0.5, 1e-4, false),
        ];
        for (i, (pen, l1r, tol, ok)) in bad.iter().enumerate() {
            for kind in [K_ENET, K_MTL] {
                let id = cx.id;
                cx.id += 1;
                let h = Hp { pen: *pen, l1r: *l1r, icpt: true, tol: *tol, maxit: 50, how: 3 };
                // `how = 3`: every setter is called explicitly (values differ from the defaults or equal them harmlessly)
                let got = {
                    let (x, h2) = (d.xa(), h.clone());
                    let (y1, y2) = (d.ya1(), d.ya2());
                    guarded(move || {
                        if kind == K_ENET {
                            ElasticNet::<f64>::params().penalty(h2.pen).l1_ratio(h2.l1r).tolerance(h2.tol).max_iterations(h2.maxit).fit(&Dataset::new(x, y1)).is_ok()
                        } else {
                            MultiTaskElasticNet::<f64>::params().penalty(h2.pen).l1_ratio(h2.l1r).tolerance(h2.tol).max_iterations(h2.maxit).fit(&Dataset::new(x, y2)).is_ok()
                        }
                    })
                };
                let desc = cx.desc(kind, &d, &h, None, "guard");
                cx.out.bump("stream_guard");
                match got {
                    Ok(v) if v == *ok => {}
                    other => {
                        let tags = cx.tags(kind, &d, &h, &["guard"]);
                        let tr: Vec<&str> = tags.iter().map(|s| s.as_str()).collect();
                        cx.out.rust_fail(id, 2048, &tr, &format!("guard case {}: expected accepted={}, got {:?}", i, ok, other), &desc);
                    }
                }
                cx.out.rust_eval(&desc, None);
            }
        }
    }

    cx.out.finish("regression data n > p from 10 families (0 exactly centred dyadic, 1 offset, 2 badly scaled 1e-3..1e3, 3 zero/constant column, 4 collinear with regularisation, 5 float-standardised, 6 plain gaussian, 9 integer lattice; OLS only: 10 offsets 1e3..1e9 on unit spread, 11 column scales 1e-6..1e6, 12 f32 offsets 1e2..3e3 - full column rank, n >= p + 3) x {elastic net, multi-task 1..3 targets, OLS (f64 and f32)} x penalty {0,1e-3,0.1,1,10} x l1_ratio {0,0.3,0.5,0.9,1} x intercept x tolerance/budget; C and F memory order; a case is non-trivial when some fitted coefficient is non-zero; distinct = distinct (data, hyper-parameters, estimator) hashes");
}
