//! C06 harness: kernel matrices (dense / k-neighbour sparse, all views) and agglomerative clustering
//! on them; emits Coq cases for C06/Corr.v and evaluates the Rust-side differential oracles.
use linfa::dataset::DatasetBase;
use linfa::traits::Transformer;
use linfa_hierarchical::{HierarchicalCluster, Method};
use linfa_kernel::{Kernel, KernelInner, KernelMethod, KernelType};
use linfa_nn::{distance::L2Dist, CommonNearestNeighbour, NearestNeighbour};
use ndarray::{Array1, Array2};
use std::ops::Mul;
use vh::*;

#[derive(Clone, Copy, Debug, PartialEq)]
enum KM {
    Lin,
    Gauss(f64),
    Poly(f64, f64),
}

fn km_of(k: KM) -> KernelMethod<f64> {
    match k {
        KM::Lin => KernelMethod::Linear,
        KM::Gauss(e) => KernelMethod::Gaussian(e),
        KM::Poly(c, d) => KernelMethod::Polynomial(c, d),
    }
}
fn km_coq(k: KM) -> String {
    match k {
        KM::Lin => "KLinear".into(),
        KM::Gauss(e) => format!("(KGauss {})", sf64(e)),
        KM::Poly(c, d) => format!("(KPoly {} {})", sf64(c), sf64(d)),
    }
}
fn km_name(k: KM) -> String {
    match k {
        KM::Lin => "linear".into(),
        KM::Gauss(e) => format!("gaussian({})", e),
        KM::Poly(c, d) => format!("polynomial({},{})", c, d),
    }
}

fn arr(rows: &[Vec<f64>]) -> Array2<f64> {
    let d = if rows.is_empty() { 0 } else { rows[0].len() };
    Array2::from_shape_vec((rows.len(), d), rows.iter().flatten().cloned().collect()).unwrap()
}

const NNS: [(CommonNearestNeighbour, &str); 3] = [
    (CommonNearestNeighbour::LinearSearch, "linear"),
    (CommonNearestNeighbour::KdTree, "kdtree"),
    (CommonNearestNeighbour::BallTree, "balltree"),
];
const METHODS: [(Method, &str); 7] = [
    (Method::Single, "single"),
    (Method::Complete, "complete"),
    (Method::Average, "average"),
    (Method::Weighted, "weighted"),
    (Method::Ward, "ward"),
    (Method::Centroid, "centroid"),
    (Method::Median, "median"),
];

/// the argument of the transcendental function (exp / powf) of one entry, computed with the same
/// expressions as KernelMethod::distance, and the value Rust's libm gives for it
fn tr_pair(k: KM, a: &Array1<f64>, b: &Array1<f64>) -> Option<(f64, f64)> {
    match k {
        KM::Lin => None,
        KM::Gauss(eps) => {
            let q = a.iter().zip(b.iter()).map(|(x, y)| (*x - *y) * (*x - *y)).sum::<f64>();
            let arg = -q / eps;
            Some((arg, arg.exp()))
        }
        KM::Poly(c, d) => {
            let arg = a.mul(b).sum() + c;
            Some((arg, arg.powf(d)))
        }
    }
}

fn pairs_coq(t: &[(f64, f64)]) -> String {
    format!("({})%float", clist(t, |p| format!("({}, {})", cf64(p.0), cf64(p.1))))
}
fn dedup_pairs(mut t: Vec<(f64, f64)>) -> Vec<(f64, f64)> {
    t.sort_by_key(|p| p.0.to_bits());
    t.dedup_by_key(|p| p.0.to_bits());
    t
}

struct Views {
    dense: Vec<Vec<f64>>,
    indptr: Vec<usize>,
    indices: Vec<usize>,
    data: Vec<f64>,
    size: usize,
    sum: Vec<f64>,
    cols: Vec<Vec<f64>>,
    upper: Vec<f64>,
    diag: Vec<f64>,
    dot: Vec<Vec<f64>>,
}

fn bits_of_views(v: &Views) -> Vec<u64> {
    let mut b: Vec<u64> = Vec::new();
    for r in &v.dense { b.extend(r.iter().map(|x| x.to_bits())); }
    b.extend(v.indptr.iter().map(|x| *x as u64));
    b.extend(v.indices.iter().map(|x| *x as u64));
    b.extend(v.data.iter().map(|x| x.to_bits()));
    b.push(v.size as u64);
    b.extend(v.sum.iter().map(|x| x.to_bits()));
    for r in &v.cols { b.extend(r.iter().map(|x| x.to_bits())); }
    b.extend(v.upper.iter().map(|x| x.to_bits()));
    b.extend(v.diag.iter().map(|x| x.to_bits()));
    for r in &v.dot { b.extend(r.iter().map(|x| x.to_bits())); }
    b
}

macro_rules! views_of {
    ($k:expr, $rhs:expr, $n:expr) => {{
        let k = $k;
        let (dense, indptr, indices, data) = match &k.inner {
            KernelInner::Dense(m) => (rows_of(&m.view()), vec![], vec![], vec![]),
            KernelInner::Sparse(s) => {
                assert!(s.is_csr(), "sparse kernel is not CSR");
                (vec![], s.indptr().raw_storage().to_vec(), s.indices().to_vec(), s.data().to_vec())
            }
        };
        Views {
            dense, indptr, indices, data,
            size: k.size(),
            sum: k.sum().to_vec(),
            cols: (0..$n).map(|i| k.column(i)).collect(),
            upper: k.to_upper_triangle(),
            diag: k.diagonal().to_vec(),
            dot: rows_of(&k.dot(&$rhs.view()).view()),
        }
    }};
}

fn build(x: &Array2<f64>, km: KM, kind: &KernelType, nn: &CommonNearestNeighbour) -> Kernel<f64> {
    Kernel::<f64>::params_with_nn(nn.clone()).kind(kind.clone()).method(km_of(km)).transform(x.view())
}

/// floating-point Cholesky factor of K + (delta/2) I, delta = n^2 2^-48: only a hint for the exact
/// certificate check done in Coq (any matrix L may be sent; a poor one just fails the check)
fn cholesky_hint(k: &[Vec<f64>]) -> Vec<Vec<f64>> {
    let n = k.len();
    let half_delta = (n * n) as f64 * (2.0f64).powi(-49);
    let mut l = vec![vec![0.0f64; n]; n];
    for i in 0..n {
        for j in 0..=i {
            let mut s = k[i][j] + if i == j { half_delta } else { 0.0 };
            for t in 0..j { s -= l[i][t] * l[j][t]; }
            if i == j {
                if !(s > 0.0) { return vec![]; }
                l[i][j] = s.sqrt();
            } else {
                l[i][j] = s / l[j][j];
            }
        }
    }
    l
}

/// -ln transform of linfa-hierarchical (same expressions)
fn to_distance(upper: &[f64]) -> Vec<f64> {
    let threshold = 1e-6f64;
    upper.iter().map(|&x| if x > threshold { -x.ln() } else { -threshold.ln() }).collect()
}

fn gen_data(rng: &mut Sm64, n: usize, d: usize, fam: u64) -> Vec<Vec<f64>> {
    let nb = 1 + rng.below(3) as usize;
    let centers: Vec<Vec<f64>> = (0..nb).map(|_| (0..d).map(|_| rng.range(-6, 6) as f64).collect()).collect();
    (0..n)
        .map(|i| {
            let c = &centers[i % nb];
            match fam {
                0 => (0..d).map(|_| rng.range(-2, 2) as f64).collect(),                       // integer lattice: ties + duplicates
                1 => c.iter().map(|v| v + rng.range(-6, 6) as f64 * 0.25).collect(),          // dyadic blobs
                2 => c.iter().map(|v| 0.4 * v + rng.gauss()).collect(),                       // arbitrary doubles
                3 => (0..d).map(|j| if j == 0 { i as f64 * 0.5 } else { 1.0 }).collect(),     // equally spaced on a line: k-NN ties
                4 => c.clone(),                                                               // few distinct points
                _ => {                                                                        // two groups and an outlier: asymmetric k-NN
                    if i == n - 1 { (0..d).map(|_| 9.5).collect() } else { c.iter().map(|v| v + rng.range(-3, 3) as f64 * 0.125).collect() }
                }
            }
        })
        .collect()
}

/// number of linkage calls that did not return under the watchdog in this run (their threads keep spinning until exit)
static WATCHDOG_TIMEOUTS: std::sync::atomic::AtomicUsize = std::sync::atomic::AtomicUsize::new(0);

struct HRun { crit: String, labels: Vec<usize> }
struct HCase { mid: usize, dist: Vec<f64>, steps: Vec<(usize, usize, f64, usize)>, prim: Option<Vec<(usize, usize, f64, usize)>>, runs: Vec<HRun> }

fn hier_labels(kernel: Kernel<f64>, m: Method, num: Option<usize>, dis: Option<f64>) -> (Kernel<f64>, Result<Vec<usize>, String>) {
    let hc = HierarchicalCluster::<f64>::default().with_method(m);
    let hc = match (num, dis) {
        (Some(k), _) => hc.num_clusters(k),
        (_, Some(d)) => hc.max_distance(d),
        _ => hc,
    };
    let r: Result<DatasetBase<Kernel<f64>, Vec<usize>>, _> = hc.transform(kernel);
    match r {
        Ok(ds) => {
            let l = ds.targets.clone();
            (ds.records, Ok(l))
        }
        Err(e) => panic!("guard rejected valid criterion: {}", e),
    }
}

/// memory layouts in which the same logical matrix is presented (all as owned arrays with unusual strides, so that the
/// `&Array2`, `ArrayView2` and dataset entry points all see them; junk cells of the strided variants hold NaN)
const LAYOUTS: [&str; 8] = ["standard", "fortran", "rows_reversed", "cols_reversed", "both_reversed", "rows_strided", "cols_strided", "fortran_rows_reversed"];
fn laid_out(rows: &[Vec<f64>], layout: usize) -> Array2<f64> {
    use ndarray::{s, ShapeBuilder};
    let a = arr(rows);
    let (n, p) = a.dim();
    let r = match layout {
        0 => a.clone(),
        1 => { let mut f = Array2::<f64>::zeros((n, p).f()); f.assign(&a); f }
        2 => Array2::from_shape_fn((n, p), |(i, j)| a[(n - 1 - i, j)]).slice_move(s![..;-1, ..]),
        3 => Array2::from_shape_fn((n, p), |(i, j)| a[(i, p - 1 - j)]).slice_move(s![.., ..;-1]),
        4 => Array2::from_shape_fn((n, p), |(i, j)| a[(n - 1 - i, p - 1 - j)]).slice_move(s![..;-1, ..;-1]),
        5 => Array2::from_shape_fn((2 * n, p), |(i, j)| if i % 2 == 0 { a[(i / 2, j)] } else { f64::NAN }).slice_move(s![..;2, ..]),
        6 => Array2::from_shape_fn((n, 2 * p), |(i, j)| if j % 2 == 0 { a[(i, j / 2)] } else { f64::NAN }).slice_move(s![.., ..;2]),
        _ => { let mut f = Array2::<f64>::zeros((n, p).f()); f.assign(&Array2::from_shape_fn((n, p), |(i, j)| a[(n - 1 - i, j)])); f.slice_move(s![..;-1, ..]) }
    };
    assert!(r == a, "layout construction changed the logical data");
    r
}
/// do all rows lie contiguously in memory (what the k-d tree index of linfa-nn requires)?
fn rows_contiguous(a: &Array2<f64>) -> bool { a.rows().into_iter().all(|r| r.to_slice().is_some()) }

const SCALES: [i32; 5] = [0, -40, 20, -20, 40];
fn scale_tag(k: i32) -> String { if k == 0 { "scale_0".into() } else if k < 0 { format!("scale_2pm{}", -k) } else { format!("scale_2p{}", k) } }
/// the parameters that carry units follow the records: Gaussian eps and the polynomial constant scale with the squared
/// record scale (the Gaussian kernel matrix is then unchanged, the polynomial one is multiplied by 2^(2k*degree)); the
/// linear kernel has no parameter (its matrix is multiplied by 2^(2k))
fn km_scaled(km: KM, k: i32) -> KM {
    let f = (2.0f64).powi(2 * k);
    match km { KM::Lin => KM::Lin, KM::Gauss(e) => KM::Gauss(e * f), KM::Poly(c, d) => KM::Poly(c * f, d) }
}

/// rotation of layouts and scales over the case ids (no multiplication of the case count)
#[allow(clippy::too_many_arguments)]
fn one_case(
    out: &mut Out, id: u64, rng: &mut Sm64, x: &[Vec<f64>], fam: &str, km: KM, sparse: Option<(usize, usize)>,
    hier_methods: &[usize], max_crit: usize, exhaustive: bool,
) {
    let h = fnv(&id.to_le_bytes());
    let layout = (h % 8) as usize;
    let rhs_layout = ((h >> 8) % 8) as usize;
    let k = SCALES[((h >> 16) % 5) as usize];
    let f = (2.0f64).powi(k);
    let xs: Vec<Vec<f64>> = x.iter().map(|r| r.iter().map(|v| v * f).collect()).collect();
    one_case_ls(out, id, rng, &xs, fam, km_scaled(km, k), sparse, hier_methods, max_crit, exhaustive, layout, rhs_layout, k);
}

#[allow(clippy::too_many_arguments)]
fn one_case_ls(
    out: &mut Out, id: u64, rng: &mut Sm64, x: &[Vec<f64>], fam: &str, km: KM, sparse: Option<(usize, usize)>,
    hier_methods: &[usize], max_crit: usize, exhaustive: bool, layout: usize, rhs_layout: usize, scale_k: i32,
) {
    let n = x.len();
    let d = x[0].len();
    let xa = laid_out(x, layout);
    let (kind, nn, nnname) = match sparse {
        None => (KernelType::Dense, CommonNearestNeighbour::KdTree, "none"),
        Some((k, w)) => (KernelType::Sparse(k), NNS[w].0.clone(), NNS[w].1),
    };
    let kname = km_name(km);
    let desc = format!(
        "{{\"n\": {}, \"d\": {}, \"family\": {}, \"layout\": {}, \"rhs_layout\": {}, \"scale\": \"2^{}\", \"kernel\": {}, \"kind\": {}, \"nn\": {}, \"hier_methods\": {:?}, \"X\": {:?}}}",
        n, d, jstr(fam), jstr(LAYOUTS[layout]), jstr(LAYOUTS[rhs_layout]), scale_k, jstr(&kname),
        jstr(&match sparse { None => "dense".to_string(), Some((k, _)) => format!("sparse({})", k) }),
        jstr(nnname), hier_methods.iter().map(|m| METHODS[*m].1).collect::<Vec<_>>(), x
    );
    let mut tags: Vec<String> = vec![
        format!("kernel_{}", match km { KM::Lin => "linear", KM::Gauss(_) => "gaussian", KM::Poly(..) => "polynomial" }),
        (if sparse.is_some() { "sparse" } else { "dense" }).to_string(),
        format!("nn_{}", nnname),
        format!("family_{}", fam),
        format!("layout_{}", LAYOUTS[layout]),
        format!("rhs_layout_{}", LAYOUTS[rhs_layout]),
        scale_tag(scale_k),
    ];
    if !rows_contiguous(&xa) { tags.push("rows_noncontiguous".to_string()); }
    for m in hier_methods { tags.push(format!("linkage_{}", METHODS[*m].1)); }
    if let KM::Poly(c, dg) = km {
        let dclass = if dg == 0.0 { "zero" } else if dg == 1.0 { "one" } else if dg < 0.0 && dg.fract() != 0.0 { "negative_fraction" }
            else if dg < 0.0 { "negative_integer" } else if dg.fract() != 0.0 { "positive_fraction" } else { "integer_ge2" };
        let cclass = if c == 0.0 { "zero" } else if c < 0.0 { "negative" } else { "positive" };
        tags.push(format!("poly_degree_{}", dclass));
        tags.push(format!("poly_constant_{}", cclass));
        out.bump(&format!("poly_degree_{}_{}", dclass, if sparse.is_some() { "sparse" } else { "dense" }));
        out.bump(&format!("poly_constant_{}_{}", cclass, if sparse.is_some() { "sparse" } else { "dense" }));
    }
    let tagrefs: Vec<&str> = tags.iter().map(|s| s.as_str()).collect();
    out.bump(&format!("kernel_{}", tagrefs[0].trim_start_matches("kernel_")));
    out.bump(if sparse.is_some() { "kind_sparse" } else { "kind_dense" });
    if sparse.is_some() { out.bump(&format!("nn_{}", nnname)); }
    out.bump(&format!("family_{}", fam));
    out.bump(&format!("layout_{}_{}", LAYOUTS[layout], if sparse.is_some() { "sparse" } else { "dense" }));
    out.bump(&format!("rhs_layout_{}_{}", LAYOUTS[rhs_layout], if sparse.is_some() { "sparse" } else { "dense" }));
    out.bump(&format!("{}_{}", scale_tag(scale_k), match km { KM::Lin => "linear", KM::Gauss(_) => "gaussian", KM::Poly(..) => "polynomial" }));
    if !hier_methods.is_empty() { out.bump(&format!("hier_on_layout_{}", LAYOUTS[layout])); out.bump(&format!("hier_on_{}", scale_tag(scale_k))); }
    out.bump(&format!("n_{}", if n < 5 { "lt5" } else if n < 9 { "5to8" } else { "ge9" }));
    out.bump(&format!("d_{}", if d < 8 { "lt8" } else { "ge8" }));

    // right-hand side for the matrix product (small integers; 1..9 columns so that both sprs code paths run)
    let rc = if rng.chance(0.2) { 8 + rng.below(2) as usize } else { 1 + rng.below(3) as usize };
    let rhs: Vec<Vec<f64>> = (0..n).map(|_| (0..rc).map(|_| rng.range(-3, 3) as f64 * 0.5).collect()).collect();
    let rhsa = laid_out(&rhs, rhs_layout);

    // ---- run the implementation (panics are observations) ----
    let (xa2, rhsa2, kind2, nn2) = (xa.clone(), rhsa.clone(), kind.clone(), nn.clone());
    let built = guarded(move || {
        let k = build(&xa2, km, &kind2, &nn2);
        let v = views_of!(&k, rhsa2, n);
        // the borrowed view and its owned copy must report the same things
        let kv = k.view();
        let vv = views_of!(&kv, rhsa2, n);
        let ko = kv.to_owned();
        let vo = views_of!(&ko, rhsa2, n);
        // the other calling forms of the transformer
        let p = Kernel::<f64>::params_with_nn(nn2.clone()).kind(kind2.clone()).method(km_of(km));
        let k2: Kernel<f64> = p.transform(&xa2);
        let view = xa2.view();
        let k3: Kernel<f64> = p.transform(&view);
        let ds = DatasetBase::new(xa2.clone(), Array1::from_iter((0..n).map(|i| i * 7)));
        let k4 = p.transform(&ds);
        let t4: Vec<usize> = k4.targets.iter().cloned().collect();
        let b4 = { let r2 = rhsa2.clone(); bits_of_views(&views_of!(&k4.records, r2, n)) };
        drop(k4);
        let k5 = p.transform(ds);
        let t5: Vec<usize> = k5.targets.iter().cloned().collect();
        let rhs2 = rhsa2.clone();
        let same = |kk: &Kernel<f64>| bits_of_views(&views_of!(kk, rhs2, n));
        let b0 = bits_of_views(&v);
        let forms_ok = same(&k2) == b0 && same(&k3) == b0 && b4 == b0 && same(&k5.records) == b0
            && t4 == (0..n).map(|i| i * 7).collect::<Vec<_>>() && t5 == t4;
        // the builder through params().nn_algo(..) instead of params_with_nn(..)
        let k6: Kernel<f64> = Kernel::<f64>::params().nn_algo(nn2.clone()).method(km_of(km)).kind(kind2.clone()).transform(xa2.view());
        let forms_ok = forms_ok && same(&k6) == b0;
        // an owned copy of the view (keeps negative strides / Fortran order when the memory is contiguous) and a
        // standard-layout copy of the same logical records
        let xo = xa2.view().to_owned();
        let k7: Kernel<f64> = p.transform(&xo);
        let xstd = xa2.as_standard_layout().to_owned();
        let k8: Kernel<f64> = p.transform(&xstd);
        let forms_ok = forms_ok && same(&k7) == b0 && same(&k8) == b0;
        let views_ok = bits_of_views(&vv) == b0 && bits_of_views(&vo) == b0;
        // the kernel remembers the method it was built with
        let want = km_of(km);
        let meth_eq = |m: &KernelMethod<f64>| format!("{:?}", m) == format!("{:?}", want);
        let method_ok = meth_eq(&k.method) && meth_eq(&kv.method) && meth_eq(&ko.method) && meth_eq(&k2.method) && meth_eq(&k6.method)
            && k.is_linear() == (km == KM::Lin) && kv.is_linear() == (km == KM::Lin);
        (k, v, forms_ok, views_ok && method_ok)
    });
    let (kernel, v, forms_ok, views_ok) = match built {
        Ok(t) => t,
        Err(p) => {
            out.rust_fail(id, 8192, &tagrefs, &format!("kernel construction or a view panicked on valid input: {}", p), &desc);
            out.rust_eval(&desc, None);
            return;
        }
    };
    // ---- scale covariance (Rust side): the kernel of the records divided by 2^k with the parameter scaled back is the
    //      same matrix (Gaussian) resp. the matrix divided by 2^(2k) (linear), bit for bit, with the same sparse pattern;
    //      polynomial kernels are judged per case by the Coq oracle only (powf need not commute with the scaling bit for bit)
    if scale_k != 0 && !matches!(km, KM::Poly(..)) {
        let f = (2.0f64).powi(-scale_k);
        let xb: Vec<Vec<f64>> = x.iter().map(|r| r.iter().map(|v| v * f).collect()).collect();
        let (xba, kmb, kind3, nn3) = (arr(&xb), km_scaled(km, -scale_k), kind.clone(), nn.clone());
        let base = guarded(move || {
            let k = build(&xba, kmb, &kind3, &nn3);
            match &k.inner {
                KernelInner::Dense(m) => (rows_of(&m.view()).concat(), vec![], vec![]),
                KernelInner::Sparse(s) => (s.data().to_vec(), s.indptr().raw_storage().to_vec(), s.indices().to_vec()),
            }
        });
        let g = if km == KM::Lin { (2.0f64).powi(2 * scale_k) } else { 1.0 };
        let mine: Vec<f64> = if sparse.is_some() { v.data.clone() } else { v.dense.concat() };
        let ok = match &base {
            Ok((bd, bp, bi)) => bd.len() == mine.len() && bd.iter().zip(mine.iter()).all(|(b, m)| (b * g).to_bits() == m.to_bits())
                && (sparse.is_none() || (*bp == v.indptr && *bi == v.indices)),
            Err(_) => false,
        };
        out.bump("scale_covariance_checks");
        if !ok {
            out.rust_fail(id, 131072, &tagrefs, &format!("scale covariance: the kernel of the records scaled by 2^{} (parameter scaled accordingly) is not the unscaled kernel{} bit for bit / with the same pattern", scale_k, if km == KM::Lin { " times 2^(2k)" } else { "" }), &desc);
        }
    }
    if !views_ok {
        out.rust_fail(id, 4096, &tagrefs, "KernelView / to_owned report different size/sum/column/triangle/diagonal/dot than the owning kernel, or the kernel does not report the method it was built with", &desc);
    }
    if !forms_ok {
        out.rust_fail(id, 4096, &tagrefs, "the calling forms of KernelParams::transform (array, view, dataset, dataset view) build different kernels or lose targets", &desc);
    }

    // ---- neighbour lists as the index returns them ----
    let nbrs: Vec<Vec<usize>> = match sparse {
        None => vec![],
        Some((k, _)) => {
            // the witness lists come from the same index kind on a standard-layout copy of the same logical records (the
            // k-d tree index cannot be built on records that are not contiguous row by row)
            let xw = arr(x);
            let idx = nn.from_batch(&xw, L2Dist).expect("index");
            xw.rows().into_iter().map(|r| idx.k_nearest(r, k + 1).unwrap().into_iter().map(|(_, i)| i).collect()).collect()
        }
    };
    if let Some((k, _)) = sparse {
        // input class: is the answer to "k+1 nearest" ambiguous for some record (distance tie at the cut), and does
        // the index drop the record itself from its own answer (more than k+1 copies of it)?
        let sq = |a: &Vec<f64>, b: &Vec<f64>| a.iter().zip(b.iter()).fold(0.0f64, |s, (x, y)| s + (x - y) * (x - y));
        let mut tie = false;
        let mut self_dropped = false;
        for i in 0..n {
            let mut ds: Vec<f64> = (0..n).map(|j| sq(&x[i], &x[j])).collect();
            ds.sort_by(|a, b| a.partial_cmp(b).unwrap_or(std::cmp::Ordering::Equal));
            if k + 1 < n && ds[k] == ds[k + 1] { tie = true; }
            if !nbrs[i].contains(&i) { self_dropped = true; }
        }
        if tie { out.bump(&format!("knn_tie_at_cut_{}", nnname)); }
        if self_dropped { out.bump(&format!("knn_self_not_in_answer_{}", nnname)); }
        if tie {
            // do the three indices answer differently on this input?
            let xstd = arr(x);
            let lists: Vec<Vec<Vec<usize>>> = NNS.iter().map(|(a, _)| {
                let idx = a.from_batch(&xstd, L2Dist).expect("index");
                xstd.rows().into_iter().map(|r| { let mut l: Vec<usize> = idx.k_nearest(r, k + 1).unwrap().into_iter().map(|(_, i)| i).collect(); l.sort(); l }).collect()
            }).collect();
            if lists[0] != lists[1] || lists[0] != lists[2] { out.bump("knn_indices_answer_differently"); }
        }
    }

    // ---- transcendental tables ----
    let rowsa: Vec<Array1<f64>> = x.iter().map(|r| Array1::from(r.clone())).collect();
    let mut tr: Vec<(f64, f64)> = Vec::new();
    for a in &rowsa { for b in &rowsa { if let Some(p) = tr_pair(km, a, b) { tr.push(p); } } }
    let tr = dedup_pairs(tr);

    // ---- hierarchical clustering on this kernel ----
    let dist = to_distance(&v.upper);
    let mut lnt: Vec<(f64, f64)> = v.upper.iter().filter(|x| **x > 1e-6).map(|x| (*x, x.ln())).collect();
    lnt.push((1e-6, (1e-6f64).ln()));
    let lnt = dedup_pairs(lnt);
    let mut hcases: Vec<HCase> = Vec::new();
    let mut kernel = Some(kernel);
    for &mid in hier_methods {
        let m = METHODS[mid].0;
        let mut dd = dist.clone();
        if std::env::var("C06_TRACE").is_ok() { eprintln!("case {} linkage {} on {:?} ({})", id, METHODS[mid].1, dist, desc); }
        let nonfinite = dist.iter().any(|x| !x.is_finite());
        let stepsr = if nonfinite {
            // an infinite similarity gives a -inf dissimilarity; the recurrences of kodama then produce NaN and the call may
            // panic or never return: observe it under a watchdog (the clustering itself would behave the same)
            out.bump("nonfinite_dissimilarity_linkages");
            let mut nf_tags: Vec<&str> = tagrefs.clone();
            nf_tags.push("nonfinite_dissimilarity");
            if WATCHDOG_TIMEOUTS.load(std::sync::atomic::Ordering::SeqCst) >= 2 && (mid == 5 || mid == 6) {
                out.bump("nonfinite_dissimilarity_not_run");
                continue;
            }
            let (tx, rx) = std::sync::mpsc::channel();
            let (tx2, rx2) = std::sync::mpsc::channel();
            let kc = kernel.as_ref().unwrap().clone();
            std::thread::spawn(move || {
                // the clustering of linfa-hierarchical itself first ...
                let r1 = guarded(move || {
                    let hc = HierarchicalCluster::<f64>::default().with_method(m).num_clusters(1);
                    let r1: Result<DatasetBase<Kernel<f64>, Vec<usize>>, _> = hc.transform(kc);
                    let _ = r1.map_err(|e| format!("{}", e)).unwrap();
                });
                let _ = tx.send(r1);
                // ... then the harness's own kodama call on the dissimilarities it computed with the same expressions
                let r2 = guarded(move || {
                    let den = kodama::linkage(&mut dd, n, m);
                    den.steps().iter().map(|s| (s.cluster1, s.cluster2, s.dissimilarity, s.size)).collect::<Vec<_>>()
                });
                let _ = tx2.send(r2);
            });
            let first = rx.recv_timeout(std::time::Duration::from_secs(3));
            match first {
                Ok(Ok(())) => match rx2.recv_timeout(std::time::Duration::from_secs(3)) {
                    Ok(Ok(s)) => Ok(s),
                    Ok(Err(p)) => { out.bump("harness_kodama_call_panicked_but_transform_returned"); Err(p) }
                    Err(_) => {
                        WATCHDOG_TIMEOUTS.fetch_add(1, std::sync::atomic::Ordering::SeqCst);
                        out.bump("harness_kodama_call_not_returning_but_transform_returned");
                        Err("timeout".to_string())
                    }
                },
                Ok(Err(p)) => {
                    out.rust_fail(id, 8192, &nf_tags, &format!("HierarchicalCluster::transform ({}) panics when a similarity is infinite (dissimilarity -inf, NaN in the linkage recurrence): {}", METHODS[mid].1, p), &desc);
                    Err(p)
                }
                Err(_) => {
                    WATCHDOG_TIMEOUTS.fetch_add(1, std::sync::atomic::Ordering::SeqCst);
                    out.rust_fail(id, 65536, &nf_tags, &format!("HierarchicalCluster::transform ({}) does not return (3 s watchdog) when a similarity is infinite (dissimilarity -inf, NaN in the linkage recurrence)", METHODS[mid].1), &desc);
                    Err("timeout".to_string())
                }
            }
        } else {
            guarded(move || {
                let den = kodama::linkage(&mut dd, n, m);
                den.steps().iter().map(|s| (s.cluster1, s.cluster2, s.dissimilarity, s.size)).collect::<Vec<_>>()
            })
        };
        let steps = match stepsr {
            Ok(s) => s,
            Err(_) => { out.bump("kodama_panicked_in_harness"); continue; }
        };
        // the reference ("primitive") agglomerative procedure of kodama on the same dissimilarities: the Coq model
        // prim_linkage is compared with it bit for bit; kodama::linkage (MST / NN-chain / generic algorithm) may break
        // ties differently and is judged by the Lance-Williams validity check
        let mut dd2 = dist.clone();
        let prim = guarded(move || {
            let den = kodama::primitive(&mut dd2, n, m);
            den.steps().iter().map(|s| (s.cluster1, s.cluster2, s.dissimilarity, s.size)).collect::<Vec<_>>()
        }).ok();
        match &prim {
            None => out.bump("kodama_primitive_panicked"),
            Some(p) => {
                let same = p.len() == steps.len() && p.iter().zip(steps.iter()).all(|(a, b)| a.0 == b.0 && a.1 == b.1 && a.2.to_bits() == b.2.to_bits() && a.3 == b.3);
                let same_pairs = p.len() == steps.len() && p.iter().zip(steps.iter()).all(|(a, b)| a.0 == b.0 && a.1 == b.1);
                out.bump(if same { "linkage_identical_to_primitive" } else if same_pairs { "linkage_same_merges_rounded_heights" } else { "linkage_other_tie_breaking" });
            }
        }
        // criteria: cluster counts 1..n+1, thresholds at / between / around the step heights
        let mut crits: Vec<(Option<usize>, Option<f64>)> = (1..=n + 1).map(|k| (Some(k), None)).collect();
        let mut hs: Vec<f64> = steps.iter().map(|s| s.2).collect();
        hs.sort_by(|a, b| a.partial_cmp(b).unwrap_or(std::cmp::Ordering::Equal));
        hs.dedup();
        let mut ths: Vec<f64> = Vec::new();
        for (i, h) in hs.iter().enumerate() {
            ths.push(*h);
            if i + 1 < hs.len() { ths.push((h + hs[i + 1]) / 2.0); }
            ths.push(f64::from_bits(h.to_bits().wrapping_add(1)));
        }
        if let Some(h) = hs.first() { ths.push(h / 2.0); ths.push(0.0); }
        if let Some(h) = hs.last() { ths.push(h * 2.0 + 1.0); }
        for t in ths { if t.is_finite() && t >= 0.0 && !(t == 0.0 && t.is_sign_negative()) { crits.push((None, Some(t))); } }
        if !exhaustive && crits.len() > max_crit {
            // keep the boundary criteria, sample the rest
            let mut keep: Vec<(Option<usize>, Option<f64>)> = vec![(Some(1), None), (Some(2), None), (Some(n - 1), None), (Some(n), None), (Some(n + 1), None)];
            keep.retain(|c| c.0 != Some(0));
            let mut rest: Vec<_> = crits.into_iter().filter(|c| !keep.contains(c)).collect();
            rng.shuffle(&mut rest);
            rest.truncate(max_crit.saturating_sub(keep.len()));
            keep.extend(rest);
            crits = keep;
        }
        let mut runs: Vec<HRun> = Vec::new();
        for (num, dis) in crits {
            let kk = kernel.take().unwrap();
            let kclone = kk.clone();
            let r = guarded(move || {
                let (k1, l1) = hier_labels(kk, m, num, dis);
                // determinism / calling-form oracle: a second transform (through the dataset form) gives the same labels
                let hc = HierarchicalCluster::<f64>::default().with_method(m);
                let hc = match (num, dis) { (Some(k), _) => hc.num_clusters(k), (_, Some(d)) => hc.max_distance(d), _ => hc };
                let ds = DatasetBase::new(k1, vec![0u8; 1]);
                let r2: Result<DatasetBase<Kernel<f64>, Vec<usize>>, _> = hc.transform(ds);
                let ds2 = r2.map_err(|e| format!("{}", e)).unwrap();
                let l2 = ds2.targets.clone();
                let (k3, l3) = hier_labels(ds2.records, m, num, dis);
                (k3, l1.unwrap(), l2, l3.unwrap())
            });
            let critname = match (num, dis) { (Some(k), _) => format!("num_clusters({})", k), (_, Some(d)) => format!("max_distance({:e})", d), _ => "default".into() };
            match r {
                Ok((k3, l1, l2, l3)) => {
                    kernel = Some(k3);
                    if l1 != l2 || l1 != l3 {
                        out.rust_fail(id, 4096, &tagrefs,
                            &format!("hierarchical labelling is not reproducible: {} with {} gave {:?}, then {:?}, then {:?} on the same kernel", METHODS[mid].1, critname, l1, l2, l3), &desc);
                    }
                    let cc = match (num, dis) {
                        (Some(k), _) => format!("CNum {}%nat", k),
                        (_, Some(dv)) => format!("CDist {}", sf64(dv)),
                        _ => unreachable!(),
                    };
                    runs.push(HRun { crit: cc, labels: l1 });
                    out.bump(if num.is_some() { "criterion_num_clusters" } else { "criterion_max_distance" });
                }
                Err(p) => {
                    kernel = Some(kclone);
                    out.rust_fail(id, 8192, &tagrefs, &format!("hierarchical transform panicked: {} with {}: {}", METHODS[mid].1, critname, p), &desc);
                }
            }
        }
        out.bump(&format!("linkage_{}", METHODS[mid].1));
        hcases.push(HCase { mid, dist: dist.clone(), steps, prim, runs });
    }

    // ---- positive-semidefiniteness certificate hint (dense Gaussian kernels) ----
    let chol: Vec<Vec<f64>> = match (km, sparse) {
        (KM::Gauss(e), None) if e > 0.0 && v.dense.iter().all(|r| r.iter().all(|x| x.is_finite())) => { out.bump("psd_certificates"); cholesky_hint(&v.dense) }
        _ => vec![],
    };

    // ---- the Coq case ----
    let hc_coq = clist(&hcases, |h| {
        format!(
            "{{| h_method := {}%N; h_dist := {}; h_steps := {}; h_prim := {}; h_runs := {} |}}",
            h.mid,
            cvec64(&h.dist),
            clist(&h.steps, |s| format!("mkstep {}%nat {}%nat {} {}%nat", s.0, s.1, sf64(s.2), s.3)),
            match &h.prim { None => "None".to_string(), Some(p) => format!("(Some {})", clist(p, |s| format!("mkstep {}%nat {}%nat {} {}%nat", s.0, s.1, sf64(s.2), s.3))) },
            clist(&h.runs, |r| format!("({}, {})", r.crit, cvecn(&r.labels)))
        )
    });
    let sp = match sparse {
        None => "None".to_string(),
        Some((k, _)) => format!("(Some ({}%N, {}))", k, clist(&nbrs, |r| cvecn(r))),
    };
    let coq = format!(
        "{{| c_id := {}%N; c_X := {}; c_method := {}; c_tr := {}; c_sparse := {}; c_dense := {}; c_indptr := {}; c_indices := {}; c_data := {}; \
         c_size := {}; c_sum := {}; c_cols := {}; c_upper := {}; c_diag := {}; c_rhs := {}; c_dot := {}; c_lnt := {}; c_chol := {}; c_h := {} |}}",
        id, cmat64(x), km_coq(km), pairs_coq(&tr), sp, cmat64(&v.dense), cvecn(&v.indptr), cvecn(&v.indices), cvec64(&v.data),
        cn(v.size as u64), cvec64(&v.sum), cmat64(&v.cols), cvec64(&v.upper), cvec64(&v.diag), cmat64(&rhs), cmat64(&v.dot),
        pairs_coq(&lnt), cmat64(&chol), hc_coq
    );
    // non-trivial: at least 3 points, at least 2 distinct ones
    let distinct = { let mut w: Vec<Vec<u64>> = x.iter().map(|r| r.iter().map(|f| f.to_bits()).collect()).collect(); w.sort(); w.dedup(); w.len() };
    let salt = fnv(format!("{}|{:?}|{:?}", kname, sparse, hier_methods).as_bytes());
    let key = if n >= 3 && distinct >= 2 { Some(fnv_f64s(&x.concat(), salt)) } else { None };
    // input class of finding F-C06-1: a dissimilarity handed to the linkage is not finite (some similarity is infinite)
    let mut final_tags: Vec<&str> = tagrefs.clone();
    if !hier_methods.is_empty() && dist.iter().any(|x| !x.is_finite()) { final_tags.push("nonfinite_dissimilarity"); }
    out.case(id, &coq, &final_tags, &desc, key);
}

/// malformed stream: the documented panics / guard errors
fn malformed(out: &mut Out, id: &mut u64) {
    let x = arr(&[vec![0.0, 0.0], vec![1.0, 0.5], vec![2.0, 2.0], vec![3.5, 1.0]]);
    for (k, w) in [(0usize, 0usize), (4, 1), (5, 2), (0, 2), (4, 0)] {
        let desc = format!("{{\"malformed\": \"sparse kernel with k = {} on 4 points ({})\"}}", k, NNS[w].1);
        let xx = x.clone();
        let r = guarded(move || build(&xx, KM::Lin, &KernelType::Sparse(k), &NNS[w].0));
        if r.is_ok() {
            out.rust_fail(*id, 16384, &["malformed"], "a sparse kernel with a neighbour count outside 0 < k < n was built instead of panicking as documented", &desc);
        }
        out.bump("malformed_neighbour_count");
        out.rust_eval(&desc, None);
        *id += 1;
    }
    for (num, dis) in [(Some(0usize), None), (None, Some(-1.0f64)), (None, Some(f64::NAN)), (None, Some(f64::INFINITY))] {
        let desc = format!("{{\"malformed\": \"criterion {:?} {:?}\"}}", num, dis);
        let k = build(&x, KM::Gauss(1.0), &KernelType::Dense, &NNS[0].0);
        let hc = HierarchicalCluster::<f64>::default();
        let hc = match (num, dis) { (Some(k), _) => hc.num_clusters(k), (_, Some(d)) => hc.max_distance(d), _ => hc };
        let r: Result<DatasetBase<Kernel<f64>, Vec<usize>>, _> = hc.transform(k);
        if r.is_ok() {
            out.rust_fail(*id, 16384, &["malformed"], "an invalid stopping criterion was accepted", &desc);
        }
        out.bump("malformed_criterion");
        out.rust_eval(&desc, None);
        *id += 1;
    }
}

fn pick_km(rng: &mut Sm64) -> KM {
    match rng.below(7) {
        0 | 1 => KM::Lin,
        2 | 3 | 4 => KM::Gauss(*rng.pick(&[0.5, 1.0, 2.0, 5.0, 10.0, 0.1, 0.3, 100.0, 3.7])),
        _ => KM::Poly(*rng.pick(&[0.0, 1.0, 0.5, -1.0, 2.0, -0.5]), *rng.pick(&[1.0, 2.0, 3.0, 2.0, 0.0, 0.5, 2.5, -1.0, -0.5, 1.5])),
    }
}

fn main() {
    let args = parse_args();
    let mut rng = Sm64::new(args.seed);
    let thorough = args.tier == "thorough";
    let mut out = Out::new(&args.out, args.shards, "C06.Corr", "case", args.only);
    let mut id: u64 = 0;

    // (a) exhaustive small: every 1-D point set over {0,1,2,3} with 2..4 points (5 in the thorough tier),
    //     every neighbour count, every index, linear kernel; single + complete linkage on the dense kernel, all criteria
    let maxn = if thorough { 5 } else { 4 };
    for n in 2..=maxn {
        // coordinates {0,1,2} for the largest size (all tie patterns of the distances 0, 1, 2), {0,1,2,3} below it
        let base: u64 = if n == maxn { 3 } else { 4 };
        let total = base.pow(n as u32);
        for code in 0..total {
            let x: Vec<Vec<f64>> = (0..n).map(|i| vec![((code / base.pow(i as u32)) % base) as f64]).collect();
            let mut r = rng.fork();
            one_case(&mut out, id, &mut r, &x, "exhaustive1d", KM::Gauss(2.0), None, &[0, 1], 1000, true);
            id += 1;
            for k in 1..n {
                for w in 0..3 {
                    one_case(&mut out, id, &mut r, &x, "exhaustive1d", KM::Lin, Some((k, w)), &[], 0, true);
                    id += 1;
                }
            }
        }
    }

    // (b) structured random
    let ndatasets = if thorough { 400 } else { 72 };
    let maxn = if thorough { 18 } else { 13 };
    let fams = ["lattice", "dyadic", "doubles", "line", "duplicates", "outlier"];
    for _ in 0..ndatasets {
        let mut r = rng.fork();
        let fam = r.below(6);
        let n = 2 + r.below(maxn as u64 - 1) as usize;
        let d = if r.chance(0.15) { 8 + r.below(3) as usize } else { 1 + r.below(4) as usize };
        let x = gen_data(&mut r, n, d, fam);
        for _ in 0..2 {
            let km = pick_km(&mut r);
            // dense kernel with two or three linkage methods
            let mut ms: Vec<usize> = (0..7).collect();
            r.shuffle(&mut ms);
            ms.truncate(if thorough { 4 } else { 2 });
            ms.sort();
            one_case(&mut out, id, &mut r, &x, fams[fam as usize], km, None, &ms, if thorough { 40 } else { 14 }, false);
            id += 1;
            if n >= 2 {
                // sparse kernels: the same k through all three indices (their patterns must all be admissible), plus a random other k
                let k = 1 + r.below(n as u64 - 1) as usize;
                for w in 0..3 {
                    let hm: Vec<usize> = if w == 0 { vec![*r.pick(&[0usize, 1, 2, 3, 4, 5, 6])] } else { vec![] };
                    one_case(&mut out, id, &mut r, &x, fams[fam as usize], km, Some((k, w)), &hm, 8, false);
                    id += 1;
                }
                let k2 = *r.pick(&[1usize, n - 1]);
                let w = r.below(3) as usize;
                one_case(&mut out, id, &mut r, &x, fams[fam as usize], km, Some((k2, w)), &[], 0, false);
                id += 1;
            }
        }
    }

    // (c) polynomial grid: every degree class (negative, fractional, 0, 1, integer) x every constant class (0, negative,
    //     positive) on data whose inner products are negative, zero and positive; dense and sparse (rotating index),
    //     all views in every case
    let degrees = [-1.0, -0.5, 0.0, 0.5, 1.0, 1.5, 2.0, 2.5, 3.0, -2.0];
    let consts = [0.0, -1.0, 1.0, 0.5, -0.25];
    let npoly = if thorough { 8 } else { 2 };
    for t in 0..npoly {
        let mut r = rng.fork();
        let n = 3 + r.below(4) as usize;
        let d = 1 + r.below(3) as usize;
        // half-integer lattice around the origin (inner products of both signs and zero, duplicates possible)
        let x: Vec<Vec<f64>> = (0..n).map(|i| (0..d).map(|_| if t == 0 && i == 0 { 0.0 } else { r.range(-4, 4) as f64 * 0.5 }).collect()).collect();
        let mut w = t;
        for &dg in &degrees {
            for &c in &consts {
                let km = KM::Poly(c, dg);
                let hm: Vec<usize> = if r.chance(0.25) { vec![*r.pick(&[0usize, 1, 2, 3, 4])] } else { vec![] };
                one_case(&mut out, id, &mut r, &x, "polygrid", km, None, &hm, 8, false);
                id += 1;
                let k = 1 + r.below(n as u64 - 1) as usize;
                one_case(&mut out, id, &mut r, &x, "polygrid", km, Some((k, w % 3)), &[], 0, false);
                id += 1;
                w += 1;
            }
        }
    }

    // (d) malformed
    malformed(&mut out, &mut id);

    out.finish("exhaustive: all 1-D point sets over {0,1,2,3} with 2..3 points and over {0,1,2} with 4 points (thorough: {0,1,2,3} up to 4 points, {0,1,2} with 5) x all neighbour counts x 3 indices; random: 6 data families (integer lattice, dyadic blobs, arbitrary doubles, equally spaced line, few distinct points, groups with an outlier) x kernel method (linear / Gaussian / polynomial) x dense or sparse(k, index) x linkage methods x all cluster counts 1..n+1 and thresholds at/next to/between/beyond the dendrogram heights; polynomial grid: degrees {-2,-1,-0.5,0,0.5,1,1.5,2,2.5,3} x constants {0,-1,1,0.5,-0.25} on half-integer lattices, dense and sparse, all views; every case presents its records and the dot right-hand side in one of 8 memory layouts (standard, Fortran, reversed rows / columns / both, strided rows / columns, Fortran with reversed rows) and scales the records by one of 2^-40, 2^-20, 1, 2^20, 2^40 with Gaussian eps / polynomial constant scaled by the square (rotation by a hash of the case id); every dendrogram of kodama::linkage is checked against the Lance-Williams recurrence and the model's own agglomeration against kodama::primitive; a case is non-trivial when it has >= 3 points of which >= 2 distinct; distinct = distinct (data, kernel, kind, linkage) hashes");
}
